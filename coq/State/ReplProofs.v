(* C40 -- the link between the generated REPL code and the abstract machine (by computation, on
   tables), and regression sessions run on the generated code. *)
From HyV Require Import State.Repl State.ReplAbstract State.ReplSweep.

(* every tabulated single input from every tabulated start state, and every session of at most three
   inputs over the alphabet: the generated code and [step] / [run_abstract] agree on the returned
   value, last_value, the print flag, *1 *2 *3 and *e *)
Lemma generated_code_implements_step_on_tables : sweep_single = true /\ sweep_sessions 3 = true.
Proof. split; vm_compute; reflexivity. Qed.

(* the session that used to repeat a result (hy before 7e4d2e4): inputs `1` then `(/ 1 0)`.
   On the generated code: *1 = 1, *2 = *3 = None, *e = the ZeroDivisionError. *)
Definition regression_session : list input := [IValue (VInt 1); IRunError (VExc "ZeroDivisionError" 0) false].
Definition regression_run : Prop :=
  match run_session regression_session (fun _ => None) with
  | Some (h, _) =>
      match observe h with
      | Some o => r_1 o = VInt 1 /\ r_2 o = VNone /\ r_3 o = VNone /\ r_e o = Some (VExc "ZeroDivisionError" 0)
      | None => False
      end
  | None => False
  end.
Lemma regression_on_generated_code : regression_run.
Proof. vm_compute. repeat split. Qed.

(* a longer one: values, a lexer error, a None, a compile-time error shown as traceback, an incomplete line *)
Definition regression_session2 : list input :=
  [IValue (VInt 1); ICompileError (VExc "LexException" 1); IValue (VInt 2); IValue VNone; IIncomplete;
   IRunError (VExc "NameError" 2) true; ICompileError (VExc "HyMacroExpansionError" 3); IValue (VInt 3)].
Definition regression_run2 : Prop :=
  match run_session regression_session2 (fun _ => None) with
  | Some (h, _) =>
      match observe h with
      | Some o => r_1 o = VInt 3 /\ r_2 o = VNone /\ r_3 o = VInt 2 /\ r_e o = Some (VExc "HyMacroExpansionError" 3)
      | None => False
      end
  | None => False
  end.
Lemma regression2_on_generated_code : regression_run2.
Proof. vm_compute. repeat split. Qed.

(* a history that meets the hypotheses of the no-repeat theorem although half of its inputs fail *)
Definition mixed_history : list input :=
  [IValue (VInt 1); IRunError (VExc "ZeroDivisionError" 0) false; IIncomplete; IValue (VInt 2);
   ICompileError (VExc "LexException" 1); IValue (VInt 3); IRunError (VExc "NameError" 2) true; IValue (VInt 4)].
Definition mixed_history_meets : Prop :=
  NoDup (results mixed_history) /\ ~ In VNone (results mixed_history) /\
  slots_are (run_abstract (fun _ => None) mixed_history initial) [VInt 4; VInt 3; VInt 2; VInt 1].
Example mixed_history_ok : mixed_history_meets.
Proof.
  split; [|split].
  - vm_compute. repeat constructor; cbn; intuition discriminate.
  - vm_compute. intuition discriminate.
  - vm_compute. repeat split.
Qed.
