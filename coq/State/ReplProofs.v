(* C40 -- sessions: the generated code, input after input, implements [run_abstract]; regression
   sessions run on the generated code. *)
From HyV Require Import State.Repl State.ReplAbstract State.ReplLift State.ReplSweep.

Lemma observe_mkheap lv pf gv a b c e info rest h0 :
  observe (mkheap lv pf gv a b c e info rest h0) = Some (rs lv pf a b c e).
Proof. reflexivity. Qed.

Lemma rs_eta r : rs (r_last r) (r_print r) (r_1 r) (r_2 r) (r_3 r) (r_e r) = r.
Proof. destruct r; reflexivity. Qed.

(* Any session, of any length, on any REPL state, with any values, output script and sane class
   matcher: the generated code never leaves the fragment or runs out of fuel, and the REPL part of
   the heap afterwards is exactly what the abstract machine computes (everything else -- other
   variables, other heap objects -- is untouched). *)
Theorem session_implements_machine m out (S : sane m) inputs :
  forall lv pf gv a b c e info rest h0 log,
  exists gv' info' log',
    let r' := run_abstract m out inputs (rs lv pf a b c e) in
    run_inputs m out inputs (mkheap lv pf gv a b c e info rest h0, log) =
    Some (mkheap (r_last r') (r_print r') gv' (r_1 r') (r_2 r') (r_3 r') (r_e r') info' rest h0, log').
Proof.
  induction inputs as [|inp r IH]; intros lv pf gv a b c e info rest h0 log.
  - exists gv, info, log. reflexivity.
  - destruct (generated_code_implements_step m out inp S lv pf gv a b c e info rest h0 log) as (gv1 & info1 & log1 & E).
    cbv zeta in E. cbn [run_inputs run_abstract]. rewrite E.
    set (r1 := fst (step m out inp (rs lv pf a b c e))) in *.
    destruct (IH (r_last r1) (r_print r1) gv1 (r_1 r1) (r_2 r1) (r_3 r1) (r_e r1) info1 rest h0 log1) as (gv2 & info2 & log2 & E2).
    cbv zeta in E2. rewrite rs_eta in E2.
    exists gv2, info2, log2.
    destruct (snd (step m out inp (rs lv pf a b c e))); exact E2.
Qed.

(* for a new REPL and the generated class table *)
Corollary session_observed out inputs :
  exists h log, run_session inputs out = Some (h, log) /\ observe h = Some (run_abstract table out inputs initial).
Proof.
  destruct (session_implements_machine table out table_sane inputs VNone true false VNone VNone VNone VNone VNone [] [] [])
    as (gv' & info' & log' & E).
  cbv zeta in E. eexists _, _. split; [exact E|]. rewrite observe_mkheap, rs_eta. reflexivity.
Qed.

(* the finite cross-check by plain computation (all pairs of 84 letters after a two-input prefix) *)
Lemma cross_check : sweep_pairs = true.
Proof. vm_compute. reflexivity. Qed.

(* the session that used to repeat a result (hy before 7e4d2e4): inputs `1` then `(/ 1 0)`.
   On the generated code: *1 = 1, *2 = *3 = None, *e = the ZeroDivisionError. *)
Definition regression_session : list input := [IValue (VInt 1); IRunError (VExc "ZeroDivisionError" 0) false].
Definition regression_run : Prop :=
  match run_session regression_session (fun _ => None) with
  | Some (h, _) =>
      match observe h with
      | Some o => r_1 o = VInt 1 /\ r_2 o = VNone /\ r_3 o = VNone /\ r_e o = VExc "ZeroDivisionError" 0
      | None => False
      end
  | None => False
  end.
Lemma regression_on_generated_code : regression_run.
Proof. vm_compute. repeat split. Qed.

(* a longer one: values, a lexer error, a None, a compile-time error shown as traceback, an incomplete line *)
Definition regression_session2 : list input :=
  [IValue (VInt 1); ICompileError (VExc "LexException" 1); IValue (VInt 2); IValue VNone; IIncomplete;
   IRunError (VExc "NameError" 2) true; ICompileError (VExc "HyMacroExpansionError" 3); IValue (VInt 3)].
Definition regression_run2 : Prop :=
  match run_session regression_session2 (fun _ => None) with
  | Some (h, _) =>
      match observe h with
      | Some o => r_1 o = VInt 3 /\ r_2 o = VNone /\ r_3 o = VInt 2 /\ r_e o = VExc "HyMacroExpansionError" 3
      | None => False
      end
  | None => False
  end.
Lemma regression2_on_generated_code : regression_run2.
Proof. vm_compute. repeat split. Qed.

(* a history that meets the hypotheses of the no-repeat theorem although half of its inputs fail *)
Definition mixed_history : list input :=
  [IValue (VInt 1); IRunError (VExc "ZeroDivisionError" 0) false; IIncomplete; IValue (VInt 2);
   ICompileError (VExc "LexException" 1); IValue (VInt 3); IRunError (VExc "NameError" 2) true; IValue (VInt 4)].
Definition mixed_history_meets : Prop :=
  NoDup (results mixed_history) /\ ~ In VNone (results mixed_history) /\
  slots_are (run_abstract table (fun _ => None) mixed_history initial) [VInt 4; VInt 3; VInt 2; VInt 1].
Example mixed_history_ok : mixed_history_meets.
Proof.
  split; [|split].
  - vm_compute. repeat constructor; cbn; intuition discriminate.
  - vm_compute. intuition discriminate.
  - vm_compute. repeat split.
Qed.
