(* C40 -- the link between the generated REPL code and the abstract machine (by computation, on
   tables), and the refutation witness run on the generated code. *)
From HyV Require Import State.Repl State.ReplAbstract State.ReplSweep.

(* every tabulated single input from every tabulated start state, and every session of at most three
   inputs over the alphabet: the generated code and [step] / [run_abstract] agree on the returned
   value, last_value, the print flag, *1 *2 *3 and *e *)
Lemma generated_code_implements_step_on_tables : sweep_single = true /\ sweep_sessions 3 = true.
Proof. split; vm_compute; reflexivity. Qed.

(* the full statement about the history variables, on the abstract machine *)
Definition no_repeat_full : Prop :=
  forall out inputs, NoDup (results inputs) -> ~ In VNone (results inputs) ->
  no_repeat (run_abstract out inputs initial).

(* inputs `1` then `(/ 1 0)`: after the failed input *1 and *2 both hold the result of the first *)
Definition witness : list input := [IValue (VInt 1); IRunError (VExc "ZeroDivisionError" 0) false].

(* the generated code, run on the witness: *1 = *2 = 1 and *e is the ZeroDivisionError *)
Definition witness_run : Prop :=
  match run_session witness (fun _ => None) with
  | Some (h, _) =>
      match observe h with
      | Some o => r_1 o = VInt 1 /\ r_2 o = VInt 1 /\ r_e o = Some (VExc "ZeroDivisionError" 0)
      | None => False
      end
  | None => False
  end.
Lemma witness_on_generated_code : witness_run.
Proof. vm_compute. repeat split. Qed.

Lemma no_repeat_refuted : ~ no_repeat_full.
Proof.
  intros H.
  specialize (H (fun _ => None) witness).
  assert (ND : NoDup (results witness)) by (vm_compute; constructor; [intros []|constructor]).
  assert (NN : ~ In VNone (results witness)) by (vm_compute; intros [E|[]]; discriminate E).
  specialize (H ND NN). vm_compute in H.
  destruct H as [[E|[E _]] _]; [discriminate E | apply E; reflexivity].
Qed.

(* a history that meets the hypotheses of the positive theorems and exercises the shifting *)
Definition good_history : list input :=
  [IValue (VInt 1); IIncomplete; IValue (VInt 2); IValue VNone; IValue (VInt 3); IIncomplete; IValue (VInt 4)].
Definition good_history_meets : Prop :=
  forallb unfailing good_history = true /\
  slots_are (run_abstract (fun _ => None) good_history initial) [VInt 4; VInt 3; VNone; VInt 2; VInt 1].
Example good_history_ok : good_history_meets.
Proof. split; [reflexivity|]. vm_compute. repeat split. Qed.
