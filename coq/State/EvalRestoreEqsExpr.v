(* Unfolding equations of the expression-level interpreter functions, produced mechanically from the
   text of EvalRestoreSem.v (props/state_common.py: gen_eqs); each is proved by computation.  Used by the
   parametricity proof (EvalRestoreParam.v). *)
From HyV Require Export State.EvalRestoreSem.

Section Eqs.
Variables (P : prog) (Orc : oracle) (A : Type) (timeout : A) (stuck : string -> A).
Variable blk : env -> list stmt -> st -> (env -> st -> A) -> (val -> env -> st -> A) -> (val -> env -> st -> A) -> A.
Notation eval_ := (eval P Orc A timeout stuck blk).
Notation evals_ := (evals P Orc A timeout stuck blk).
Notation evalkw_ := (evalkw P Orc A timeout stuck blk).
Notation ocall_ := (ocall P Orc A timeout stuck blk).
Notation run_beh_ := (run_beh P Orc A timeout stuck blk).
Notation call_value_ := (call_value P Orc A timeout stuck blk).
Notation call_method_ := (call_method P Orc A timeout stuck blk).
Notation call_fun_ := (call_fun P Orc A timeout stuck blk).
Notation assign_ := (assign P Orc A timeout stuck blk).
Notation assigns_ := (assigns P Orc A timeout stuck blk).
Notation truthy_k_ := (truthy_k A stuck).
Notation nth_k_ := (nth_k A stuck).
Notation subscript_k_ := (subscript_k A stuck).
Notation contains_k_ := (contains_k A stuck).
Notation builtin_method_k_ := (builtin_method_k A stuck).
Notation glob_get_ := (glob_get P).

Lemma eval_eq f (en : env) (e : expr) (s : st) (k : val -> st -> A) (kx : val -> st -> A) :
  eval_ (S f) en e s k kx =
    match e with
    | EName x => match aget x en with
                 | Some v => k v s
                 | None => kx (exn "UnboundLocalError") s
                 end
    | EGlob x => k (glob_get_ (fst s) x) s
    | EConst c => k (const_val c) s
    | ETuple es => evals_ f en es s (fun vs s1 => k (VTup vs) s1) kx
    | EAttr e1 a =>
        eval_ f en e1 s (fun v s1 =>
          match v with
          | VRef i =>
              match hget (fst s1) i with
              | Some (OInst _ attrs) => match aget a attrs with Some x => k x s1 | None => kx (exn "AttributeError") s1 end
              | Some OOpaque => ocall_ f "getattr" [v; VStr a] [] s1 k kx
              | Some _ => stuck "attribute of a non-instance"
              | None => stuck "dangling reference"
              end
          | VGlobal g => k (VGlobal (g ++ "." ++ a)) s1
          | VNone => kx (exn "AttributeError") s1
          | _ => stuck "attribute of an opaque value"
          end) kx
    | ESub e1 e2 =>
        eval_ f en e1 s (fun v s1 =>
          eval_ f en e2 s1 (fun vk s2 =>
            subscript_k_ (fst s2) v vk (fun x => k x s2) (fun x => kx x s2)) kx) kx
    | ECmp op a b =>
        eval_ f en a s (fun va s1 =>
          eval_ f en b s1 (fun vb s2 =>
            match op with
            | OpIs => match val_is va vb with Some r => k (VBool r) s2 | None => stuck "is on values without identity" end
            | OpIsNot => match val_is va vb with Some r => k (VBool (negb r)) s2 | None => stuck "is on values without identity" end
            | OpIn => contains_k_ (fst s2) va vb (fun r => k (VBool r) s2) (fun x => kx x s2)
            | OpNotIn => contains_k_ (fst s2) va vb (fun r => k (VBool (negb r)) s2) (fun x => kx x s2)
            | OpEq => match va, vb with
                      | VRef _, _ | _, VRef _ => stuck "== on heap objects"
                      | _, _ => k (VBool (val_eqb va vb)) s2
                      end
            | OpNotEq => match va, vb with
                         | VRef _, _ | _, VRef _ => stuck "!= on heap objects"
                         | _, _ => k (VBool (negb (val_eqb va vb))) s2
                         end
            end) kx) kx
    | EAnd a b =>
        eval_ f en a s (fun va s1 =>
          truthy_k_ (fst s1) va (fun t => if t then eval_ f en b s1 k kx else k va s1)) kx
    | EOr a b =>
        eval_ f en a s (fun va s1 =>
          truthy_k_ (fst s1) va (fun t => if t then k va s1 else eval_ f en b s1 k kx)) kx
    | ENot a =>
        eval_ f en a s (fun va s1 => truthy_k_ (fst s1) va (fun t => k (VBool (negb t)) s1)) kx
    | EIf c a b =>
        eval_ f en c s (fun vc s1 =>
          truthy_k_ (fst s1) vc (fun t => if t then eval_ f en a s1 k kx else eval_ f en b s1 k kx)) kx
    | EAdd a b =>
        eval_ f en a s (fun va s1 =>
          eval_ f en b s1 (fun vb s2 =>
            match va, vb with
            | VStr x, VStr y => k (VStr (x ++ y)) s2
            | VStr _, (VNone | VBool _ | VInt _ | VTup _) => kx (exn "TypeError") s2
            | _, _ => stuck "+ on non-strings"
            end) kx) kx
    | ECall fn args kw =>
        match fn with
        | EAttr recv m =>
            eval_ f en recv s (fun vr s1 =>
              evals_ f en args s1 (fun vargs s2 =>
                evalkw_ f en kw s2 (fun vkw s3 =>
                  call_method_ f (aget "__exc__" en) vr m vargs vkw s3 k kx) kx) kx) kx
        | _ =>
            eval_ f en fn s (fun vf s1 =>
              evals_ f en args s1 (fun vargs s2 =>
                evalkw_ f en kw s2 (fun vkw s3 =>
                  call_value_ f (aget "__exc__" en) vf vargs vkw s3 k kx) kx) kx) kx
        end
    | ESuper =>
        match aget "self" en, aget "__class__" en with
        | Some vself, Some (VStr c) => k (VSuper vself c) s
        | _, _ => stuck "super() outside a method"
        end
    | EOpaque src =>
        if String.eqb src "sys.exc_info()" then
          k (match aget "__exc__" en with
             | Some x => VTup [VGlobal "type(exc)"; x; VGlobal "exc.__traceback__"]
             | None => VTup [VNone; VNone; VNone]
             end) s
        else ocall_ f src [] [] s k kx
    end.
Proof. reflexivity. Qed.

Lemma evals_eq f (en : env) (es : list expr) (s : st) (k : list val -> st -> A) (kx : val -> st -> A) :
  evals_ (S f) en es s k kx =
    match es with
    | [] => k [] s
    | e :: r => eval_ f en e s (fun v s1 => evals_ f en r s1 (fun vs s2 => k (v :: vs) s2) kx) kx
    end.
Proof. reflexivity. Qed.

Lemma evalkw_eq f (en : env) (kw : list (string * expr)) (s : st) (k : list (string * val) -> st -> A) (kx : val -> st -> A) :
  evalkw_ (S f) en kw s k kx =
    match kw with
    | [] => k [] s
    | (x, e) :: r => eval_ f en e s (fun v s1 => evalkw_ f en r s1 (fun vs s2 => k ((x, v) :: vs) s2) kx) kx
    end.
Proof. reflexivity. Qed.

Lemma ocall_eq f (g : string) (args : list val) (kw : list (string * val)) (s : st) (k : val -> st -> A) (kx : val -> st -> A) :
  ocall_ (S f) g args kw s k kx = run_beh_ f (Orc (log_len (snd s)) g args kw (fst s)) ((g, args, kw) :: snd s) k kx.
Proof. reflexivity. Qed.

Lemma run_beh_eq f (b : beh) (n : list event) (k : val -> st -> A) (kx : val -> st -> A) :
  run_beh_ (S f) b n k kx =
    match b with
    | BDone h (ORet v) => k v (h, n)
    | BDone h (ORaise x) => kx x (h, n)
    | BCall h g args kw kb =>
        match lookup_fun P g with
        | Some fd =>
            call_fun_ f None g fd args kw (h, n)
              (fun v s1 => run_beh_ f (kb (fst s1) (ORet v)) (snd s1) k kx)
              (fun x s1 => run_beh_ f (kb (fst s1) (ORaise x)) (snd s1) k kx)
        | None => stuck "callback into an unknown function"
        end
    end.
Proof. reflexivity. Qed.

Lemma call_value_eq f (cur : option val) (vf : val) (args : list val) (kw : list (string * val)) (s : st) (k : val -> st -> A) (kx : val -> st -> A) :
  call_value_ (S f) cur vf args kw s k kx =
    match vf with
    | VGlobal g =>
        match lookup_fun P g with
        | Some fd => call_fun_ f cur g fd args kw s k kx
        | None => ocall_ f g args kw s k kx
        end
    | VRef i =>
        match hget (fst s) i with
        | Some (OInst c _) =>
            match find_method P (mro_of P c) "__call__" with
            | Some (c', fd) => call_fun_ f cur (c' ++ ".__call__") fd (vf :: args) kw s k kx
            | None => ocall_ f (c ++ ".__call__") (vf :: args) kw s k kx
            end
        | Some OOpaque => ocall_ f "<object>.__call__" (vf :: args) kw s k kx
        | Some _ => kx (exn "TypeError") s
        | None => stuck "dangling reference"
        end
    | VNone | VBool _ | VStr _ | VInt _ | VTup _ => kx (exn "TypeError") s
    | _ => stuck "call of an unsupported value"
    end.
Proof. reflexivity. Qed.

Lemma call_method_eq f (cur : option val) (vr : val) (m : string) (args : list val) (kw : list (string * val)) (s : st) (k : val -> st -> A) (kx : val -> st -> A) :
  call_method_ (S f) cur vr m args kw s k kx =
    match vr with
    | VRef i =>
        match hget (fst s) i with
        | Some (OInst c attrs) =>
            match aget m attrs with
            | Some vf => call_value_ f cur vf args kw s k kx
            | None =>
                match find_method P (mro_of P c) m with
                | Some (c', fd) => call_fun_ f cur (c' ++ "." ++ m) fd (vr :: args) kw s k kx
                | None => ocall_ f (c ++ "." ++ m) (vr :: args) kw s k kx
                end
            end
        | Some OOpaque => ocall_ f ("<object>." ++ m) (vr :: args) kw s k kx
        | Some o => match kw with
                    | [] => builtin_method_k_ (fst s) i o m args (fun v h' => k v (h', snd s)) (fun x => kx x s)
                    | _ => stuck "keyword arguments to a built-in method"
                    end
        | None => stuck "dangling reference"
        end
    | VSuper vself c =>
        match vself with
        | VRef i =>
            match hget (fst s) i with
            | Some (OInst c0 _) =>
                match find_method P (drop_until c (mro_of P c0)) m with
                | Some (c', fd) => call_fun_ f cur (c' ++ "." ++ m) fd (vself :: args) kw s k kx
                | None => ocall_ f ("super." ++ m) (vself :: args) kw s k kx
                end
            | _ => stuck "super() of a non-instance"
            end
        | _ => stuck "super() of a non-instance"
        end
    | VGlobal g => call_value_ f cur (VGlobal (g ++ "." ++ m)) args kw s k kx
    | VNone => kx (exn "AttributeError") s
    | _ => stuck "method call on an unsupported value"
    end.
Proof. reflexivity. Qed.

Lemma call_fun_eq f (cur : option val) (name : string) (fd : fundef) (args : list val) (kw : list (string * val)) (s : st) (k : val -> st -> A) (kx : val -> st -> A) :
  call_fun_ (S f) cur name fd args kw s k kx =
    match bind_params fd args kw with
    | None => kx (exn "TypeError") s
    | Some en0 =>
        let en1 := match before_dot name with
                   | Some c => ("__class__", VStr c) :: en0
                   | None => en0
                   end in
        (* the exception being handled is dynamic: a callee sees its caller's *)
        let en2 := match cur with
                   | Some x => ("__exc__", x) :: en1
                   | None => en1
                   end in
        blk en2 (fbody fd) s
          (fun _ s1 => k VNone s1) (fun v _ s1 => k v s1) (fun x _ s1 => kx x s1)
    end.
Proof. reflexivity. Qed.

Lemma assign_eq f (en : env) (t : target) (v : val) (s : st) (kn : env -> st -> A) (kx : val -> env -> st -> A) :
  assign_ (S f) en t v s kn kx =
    match t with
    | TName x => kn (aset x v en) s
    | TGlob x =>
        match hget (fst s) module_dict with
        | Some (ODict kvs) => kn en (hset (fst s) module_dict (ODict (dset (VStr x) v kvs)), snd s)
        | _ => stuck "no module dictionary"
        end
    | TSub e e2 =>
        eval_ f en e s (fun vo s1 =>
          eval_ f en e2 s1 (fun vk s2 =>
            match vo with
            | VRef i =>
                match hget (fst s2) i with
                | Some (ODict kvs) => kn en (hset (fst s2) i (ODict (dset vk v kvs)), snd s2)
                | Some _ => stuck "item assignment to a non-dict"
                | None => stuck "dangling reference"
                end
            | VNone | VBool _ | VInt _ | VStr _ | VTup _ => kx (exn "TypeError") en s2
            | _ => stuck "item assignment to an opaque value"
            end) (fun x s2 => kx x en s2)) (fun x s1 => kx x en s1)
    | TAttr e a =>
        eval_ f en e s (fun vo s1 =>
          match vo with
          | VRef i =>
              match hget (fst s1) i with
              | Some (OInst c attrs) => kn en (hset (fst s1) i (OInst c (aset a v attrs)), snd s1)
              | Some _ => stuck "attribute assignment to a non-instance"
              | None => stuck "dangling reference"
              end
          | VGlobal _ => ocall_ f "setattr" [vo; VStr a; v] [] s1 (fun _ s2 => kn en s2) (fun x s2 => kx x en s2)
          | _ => stuck "attribute assignment to a non-reference"
          end) (fun x s1 => kx x en s1)
    | TTuple ts =>
        match iter_items (fst s) v with
        | Some vs =>
            if Nat.eqb (List.length vs) (List.length ts) then assigns_ f en ts vs s kn kx
            else kx (exn "ValueError") en s
        | None => match v with
                  | VNone | VBool _ | VInt _ => kx (exn "TypeError") en s
                  | _ => stuck "unpacking an opaque value"
                  end
        end
    end.
Proof. reflexivity. Qed.

Lemma assigns_eq f (en : env) (ts : list target) (vs : list val) (s : st) (kn : env -> st -> A) (kx : val -> env -> st -> A) :
  assigns_ (S f) en ts vs s kn kx =
    match ts, vs with
    | t :: ts', v :: vs' => assign_ f en t v s (fun en1 s1 => assigns_ f en1 ts' vs' s1 kn kx) kx
    | _, _ => kn en s
    end.
Proof. reflexivity. Qed.

End Eqs.
