(* C40 -- one input: the generated REPL.runsource (with the generated runcode, showsyntaxerror,
   showtraceback, _error_wrap, set_last_exc and the interpreter's own
   InteractiveInterpreter.runsource inlined by the semantics) implements the abstract [step],
   for every heap, every log, all values of last_value / *1 / *2 / *3 / other variables, every
   result value and every exception object; the opaque parts follow the session script. *)
From HyV Require Import State.ReplTactics.
Local Opaque interp.

Definition holds (Q : eres -> Prop) (r : eres) : Prop := Q r.

Definition rs (lv : val) (pf : bool) (a b c : val) (rest : list (val * val)) : rstate :=
  {| r_last := lv; r_print := pf; r_1 := a; r_2 := b; r_3 := c; r_e := dget ke rest |}.

Definition heap_is (h : heap) (r : rstate) : Prop :=
  exists rest, repl_heap h (r_last r) (r_print r) (r_1 r) (r_2 r) (r_3 r) rest /\ dget ke rest = r_e r.

Definition refine_post (rr : rstate * option bool) (res : eres) : Prop :=
  match res with
  | EOk v (h', _) => (exists b, snd rr = Some b /\ v = VBool b) /\ heap_is h' (fst rr)
  | EExc _ (h', _) => snd rr = None /\ heap_is h' (fst rr)
  | _ => False
  end.

Ltac start :=
  unfold run_input, call_method, repl_fuel.

Ltac leaf40 :=
  cbv beta iota delta [holds step rs shift exc_class is_syntax_family is_macro_or_require is_language_error
                       is_system_exit is_exception];
  repeat match goal with
         | H : ?t = _ |- context [?t] => rewrite H
         end;
  cbv beta iota delta [negb refine_post fst snd heap_is repl_heap r_last r_print r_1 r_2 r_3 r_e];
  split;
  [ first [ eexists; split; reflexivity | reflexivity ]
  | eexists; split;
    [ split; cbv beta iota delta [hget self_id loc_id N.eqb Pos.eqb repl_obj repl_locals k1 k2 k3];
      first [ reflexivity | eassumption ]
    | cbv beta iota delta [ke kinfo]; rewrite ?dget_dset_same_str; try reflexivity; try eassumption ] ].

Lemma step_incomplete inputs out i h log lv pf a b c rest :
  nth_input inputs i = Some IIncomplete -> repl_heap h lv pf a b c rest ->
  holds (refine_post (step out IIncomplete (rs lv pf a b c rest))) (run_input inputs out i (h, log)).
Proof.
  intros Hn [Hs Hl]. start. rx_go.
  all: leaf40.
Qed.

