(* C40 -- one input that evaluates to a value. *)
From HyV Require Import State.ReplTactics State.ReplStep.
Local Opaque interp.

Lemma step_value inputs out i h log lv pf a b c rest v :
  nth_input inputs i = Some (IValue v) -> repl_heap h lv pf a b c rest ->
  holds (refine_post (step out (IValue v) (rs lv pf a b c rest))) (run_input inputs out i (h, log)).
Proof.
  intros Hn [Hs Hl]. start.
  rx_go.
  all: leaf40.
Qed.

