(* C40 -- facts about the abstract REPL machine [step] / [run_abstract] of Repl.v, for all
   histories, all values, all output scripts and all class matchers.  (That the generated code
   implements [step] is ReplLift.v.) *)
From HyV Require Import State.Repl.

Section Abstract.
Variable m : val -> list string -> bool.
Notation step := (step m).
Notation run_abstract := (run_abstract m).

Ltac step_cases out inp :=
  destruct inp as [|v|x|x f]; cbn [Repl.step];
  [ | destruct (is_none v); [|destruct (out v) as [y|]; [destruct (is_exception m y)|]]
    | destruct (is_syntax_family m x); [|destruct (is_macro_or_require m x); [|destruct (is_language_error m x)]]
    | destruct (is_system_exit m x); [|destruct (is_exception m x)] ].

(* ---- "asks for more input exactly while the accumulated text is incomplete" *)
Lemma more_iff_incomplete out inp r : snd (step out inp r) = inl true <-> inp = IIncomplete.
Proof. step_cases out inp; cbn; split; try reflexivity; discriminate. Qed.

Lemma incomplete_changes_nothing out r : fst (step out IIncomplete r) = r.
Proof. reflexivity. Qed.

(* ---- only an input that was evaluated to a value touches *1 *2 *3: it shifts its value in *)
Definition evaluated (inp : input) : option val :=
  match inp with IValue v => Some v | _ => None end.

Lemma step_slots out inp r :
  let r' := fst (step out inp r) in
  match evaluated inp with
  | Some w => r_1 r' = w /\ r_2 r' = r_1 r /\ r_3 r' = r_2 r
  | None => r_1 r' = r_1 r /\ r_2 r' = r_2 r /\ r_3 r' = r_3 r
  end.
Proof. step_cases out inp; cbn; repeat split. Qed.

(* a failed or incomplete input leaves *1 *2 *3 exactly as they were *)
Theorem failed_input_leaves_slots out inp r :
  evaluated inp = None ->
  let r' := fst (step out inp r) in r_1 r' = r_1 r /\ r_2 r' = r_2 r /\ r_3 r' = r_3 r.
Proof. intros E. pose proof (step_slots out inp r) as S. rewrite E in S. exact S. Qed.

(* results of the evaluated inputs, latest first *)
Fixpoint results_acc (inputs : list input) (acc : list val) : list val :=
  match inputs with
  | [] => acc
  | IValue v :: r => results_acc r (v :: acc)
  | _ :: r => results_acc r acc
  end.
Definition results (inputs : list input) : list val := results_acc inputs [].

Definition slots_are (r : rstate) (l : list val) : Prop :=
  r_1 r = nth 0 l VNone /\ r_2 r = nth 1 l VNone /\ r_3 r = nth 2 l VNone.

Lemma run_slots out inputs : forall r acc,
  slots_are r acc -> slots_are (run_abstract out inputs r) (results_acc inputs acc).
Proof.
  induction inputs as [|inp rest IH]; intros r acc HS; [exact HS|].
  cbn [Repl.run_abstract].
  pose proof (step_slots out inp r) as S. cbv zeta in S.
  destruct inp as [|v|x|x f]; cbn [results_acc evaluated] in *; apply IH.
  - destruct S as (A & B & C). destruct HS as (P & Q & R). unfold slots_are. rewrite A, B, C. repeat split; assumption.
  - destruct S as (A & B & C). destruct HS as (P & Q & _). unfold slots_are. cbn [nth].
    rewrite A, B, C, P, Q. repeat split; try reflexivity; destruct acc as [|? [|? ?]]; reflexivity.
  - destruct S as (A & B & C). destruct HS as (P & Q & R). unfold slots_are. rewrite A, B, C. repeat split; assumption.
  - destruct S as (A & B & C). destruct HS as (P & Q & R). unfold slots_are. rewrite A, B, C. repeat split; assumption.
Qed.

(* After ANY history -- values, None, incomplete lines, compile errors, run-time errors, failing
   output functions, in any order and number -- *1 *2 *3 are the results of the latest three inputs
   that were evaluated to a value. *)
Theorem history_vars out inputs :
  slots_are (run_abstract out inputs initial) (results inputs).
Proof. apply run_slots. repeat split. Qed.

(* ---- *e is the latest uncaught exception that was shown *)
Definition failure_of (out : out_script) (inp : input) : option val :=
  match inp with
  | IIncomplete => None
  | IValue v => if is_none v then None
                else match out v with Some y => if is_exception m y then Some y else None | None => None end
  | ICompileError x =>
      if is_syntax_family m x || is_macro_or_require m x || is_language_error m x then Some x else None
  | IRunError x _ => if is_system_exit m x then None else if is_exception m x then Some x else None
  end.

Lemma step_e out inp r :
  r_e (fst (step out inp r)) = match failure_of out inp with Some x => x | None => r_e r end.
Proof. unfold failure_of. step_cases out inp; reflexivity. Qed.

Fixpoint latest_failure (out : out_script) (inputs : list input) (acc : val) : val :=
  match inputs with
  | [] => acc
  | inp :: rest => latest_failure out rest (match failure_of out inp with Some x => x | None => acc end)
  end.

Theorem star_e_is_latest_failure out inputs : forall r,
  r_e (run_abstract out inputs r) = latest_failure out inputs (r_e r).
Proof.
  induction inputs as [|inp rest IH]; intros r; [reflexivity|].
  cbn [Repl.run_abstract latest_failure]. rewrite IH, step_e. reflexivity.
Qed.

(* ---- "a failed input never makes two of them repeat one input's result" *)
Definition no_repeat (r : rstate) : Prop :=
  (r_1 r = VNone \/ (r_1 r <> r_2 r /\ r_1 r <> r_3 r)) /\ (r_2 r = VNone \/ r_2 r <> r_3 r).

Lemma nth_NoDup_neq (l : list val) i j :
  NoDup l -> (i < List.length l)%nat -> (j < List.length l)%nat -> i <> j -> nth i l VNone <> nth j l VNone.
Proof.
  intros ND Hi Hj Hne E. apply Hne. eapply NoDup_nth; eauto.
Qed.

(* With pairwise different results (every evaluated input produced a different object, none of them
   None), no result ever occupies two of *1 *2 *3 -- whatever failed, incomplete or None-printing
   inputs are interleaved. *)
Theorem no_repeat_any_history out inputs :
  NoDup (results inputs) -> ~ In VNone (results inputs) ->
  no_repeat (run_abstract out inputs initial).
Proof.
  intros ND NN.
  destruct (history_vars out inputs) as (A & B & C).
  unfold no_repeat. rewrite A, B, C.
  set (l := results inputs) in *.
  assert (X : forall i j, (i < j)%nat -> nth i l VNone = VNone \/ nth i l VNone <> nth j l VNone).
  { intros i j Hij.
    destruct (Nat.lt_ge_cases i (List.length l)) as [Hi|Hi].
    - destruct (Nat.lt_ge_cases j (List.length l)) as [Hj|Hj].
      + right. apply nth_NoDup_neq; try assumption. intros E; subst; exact (Nat.lt_irrefl _ Hij).
      + right. rewrite (nth_overflow l VNone Hj). intros E. apply NN. rewrite <- E. apply nth_In. exact Hi.
    - left. apply nth_overflow. exact Hi. }
  split.
  - destruct (X 0%nat 1%nat ltac:(auto)) as [E|E1]; [left; exact E|].
    destruct (X 0%nat 2%nat ltac:(auto)) as [E|E2]; [left; exact E|]. right. split; assumption.
  - destruct (X 1%nat 2%nat ltac:(auto)) as [E|E]; [left|right]; exact E.
Qed.

End Abstract.
