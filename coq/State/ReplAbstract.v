(* C40 -- facts about the abstract REPL machine [step] / [run_abstract] of Repl.v, for all
   histories, all values, all output scripts.  (That the generated code implements [step] is
   ReplStep*.v / ReplProofs.v.) *)
From HyV Require Import State.Repl.

(* ---- "asks for more input exactly while the accumulated text is incomplete" *)
Lemma more_iff_incomplete out inp r : snd (step out inp r) = Some true <-> inp = IIncomplete.
Proof.
  destruct inp as [|v|x|x f]; cbn [step].
  - split; reflexivity.
  - destruct (is_none v); [cbn; split; discriminate|].
    destruct (out v) as [y|]; [destruct (is_exception y)|]; cbn; split; discriminate.
  - destruct (is_syntax_family x); [cbn; split; discriminate|].
    destruct (is_macro_or_require x); [cbn; split; discriminate|].
    destruct (is_language_error x); cbn; split; discriminate.
  - destruct (is_system_exit x); [cbn; split; discriminate|].
    destruct (is_exception x); cbn; split; discriminate.
Qed.

Lemma incomplete_changes_nothing out r : fst (step out IIncomplete r) = r.
Proof. reflexivity. Qed.

(* ---- what an input shifts into *1 (None: this input does not shift) *)
Definition shifted (inp : input) (r : rstate) : option val :=
  match inp with
  | IIncomplete => None
  | IValue v => Some v
  | ICompileError x => if is_syntax_family x then Some (r_last r) else None
  | IRunError x _ => if is_system_exit x then None else if is_exception x then Some (r_last r) else None
  end.

Lemma step_slots out inp r :
  let r' := fst (step out inp r) in
  match shifted inp r with
  | Some w => r_1 r' = w /\ r_2 r' = r_1 r /\ r_3 r' = r_2 r
  | None => r_1 r' = r_1 r /\ r_2 r' = r_2 r /\ r_3 r' = r_3 r
  end.
Proof.
  destruct inp as [|v|x|x f]; cbn [step shifted].
  - repeat split.
  - destruct (is_none v); [cbn; repeat split|].
    destruct (out v) as [y|]; [destruct (is_exception y)|]; cbn; repeat split.
  - destruct (is_syntax_family x); [cbn; repeat split|].
    destruct (is_macro_or_require x); [cbn; repeat split|].
    destruct (is_language_error x); cbn; repeat split.
  - destruct (is_system_exit x); [cbn; repeat split|].
    destruct (is_exception x); cbn; repeat split.
Qed.

Lemma step_last out inp r :
  r_last (fst (step out inp r)) = match inp with IValue v => v | _ => r_last r end.
Proof.
  destruct inp as [|v|x|x f]; cbn [step].
  - reflexivity.
  - destruct (is_none v); [reflexivity|].
    destruct (out v) as [y|]; [destruct (is_exception y)|]; reflexivity.
  - destruct (is_syntax_family x); [reflexivity|].
    destruct (is_macro_or_require x); [reflexivity|].
    destruct (is_language_error x); reflexivity.
  - destruct (is_system_exit x); [reflexivity|].
    destruct (is_exception x); reflexivity.
Qed.

(* ---- histories without failed inputs: *1 *2 *3 are the latest three results *)
Definition unfailing (inp : input) : bool :=
  match inp with IIncomplete | IValue _ => true | _ => false end.

(* results of the inputs, latest first *)
Fixpoint results_acc (inputs : list input) (acc : list val) : list val :=
  match inputs with
  | [] => acc
  | IValue v :: r => results_acc r (v :: acc)
  | _ :: r => results_acc r acc
  end.
Definition results (inputs : list input) : list val := results_acc inputs [].

Definition slots_are (r : rstate) (l : list val) : Prop :=
  r_1 r = nth 0 l VNone /\ r_2 r = nth 1 l VNone /\ r_3 r = nth 2 l VNone.

Lemma run_unfailing out inputs : forall r acc,
  forallb unfailing inputs = true -> slots_are r acc ->
  slots_are (run_abstract out inputs r) (results_acc inputs acc).
Proof.
  induction inputs as [|inp rest IH]; intros r acc HF HS; [exact HS|].
  cbn [forallb] in HF. apply andb_true_iff in HF. destruct HF as [H1 H2].
  cbn [run_abstract].
  destruct inp as [|v|x|x f]; try discriminate; cbn [results_acc].
  - apply IH; assumption.
  - apply IH; [assumption|].
    pose proof (step_slots out (IValue v) r) as S. cbn [shifted] in S. destruct S as (A & B & C).
    destruct HS as (P & Q & _). unfold slots_are. cbn [nth]. rewrite A, B, C, P, Q.
    repeat split; try reflexivity; destruct acc as [|? [|? ?]]; reflexivity.
Qed.

Theorem history_vars_without_failures out inputs :
  forallb unfailing inputs = true ->
  slots_are (run_abstract out inputs initial) (results inputs).
Proof.
  intros H. apply run_unfailing; [exact H|]. repeat split.
Qed.

(* ---- the exact behaviour on ANY history: the slots hold the latest three SHIFTED values, and a
   failed input that is shown as a syntax or run-time error shifts the previous last_value again *)
Fixpoint shift_log (out : out_script) (inputs : list input) (r : rstate) (acc : list val) : list val :=
  match inputs with
  | [] => acc
  | inp :: rest =>
      shift_log out rest (fst (step out inp r))
        (match shifted inp r with Some w => w :: acc | None => acc end)
  end.

Lemma run_slots out inputs : forall r acc,
  slots_are r acc -> slots_are (run_abstract out inputs r) (shift_log out inputs r acc).
Proof.
  induction inputs as [|inp rest IH]; intros r acc HS; [exact HS|].
  cbn [run_abstract shift_log]. apply IH.
  pose proof (step_slots out inp r) as S. cbv zeta in S.
  destruct (shifted inp r) as [w|].
  - destruct S as (A & B & C). destruct HS as (P & Q & _). unfold slots_are. cbn [nth].
    rewrite A, B, C, P, Q. repeat split; try reflexivity; destruct acc as [|? [|? ?]]; reflexivity.
  - destruct S as (A & B & C). destruct HS as (P & Q & R). unfold slots_are. rewrite A, B, C. repeat split; assumption.
Qed.

Theorem history_vars_actual out inputs :
  slots_are (run_abstract out inputs initial) (shift_log out inputs initial []).
Proof. apply run_slots. repeat split. Qed.

(* ---- *e is the latest uncaught exception that was shown *)
Definition failure_of (out : out_script) (inp : input) : option val :=
  match inp with
  | IIncomplete => None
  | IValue v => if is_none v then None
                else match out v with Some y => if is_exception y then Some y else None | None => None end
  | ICompileError x =>
      if is_syntax_family x || is_macro_or_require x || is_language_error x then Some x else None
  | IRunError x _ => if is_system_exit x then None else if is_exception x then Some x else None
  end.

Lemma step_e out inp r :
  r_e (fst (step out inp r)) = match failure_of out inp with Some x => Some x | None => r_e r end.
Proof.
  destruct inp as [|v|x|x f]; cbn [step failure_of].
  - reflexivity.
  - destruct (is_none v); [reflexivity|].
    destruct (out v) as [y|]; [destruct (is_exception y)|]; reflexivity.
  - destruct (is_syntax_family x); [reflexivity|].
    destruct (is_macro_or_require x); [reflexivity|].
    destruct (is_language_error x); reflexivity.
  - destruct (is_system_exit x); [reflexivity|].
    destruct (is_exception x); reflexivity.
Qed.

Fixpoint latest_failure (out : out_script) (inputs : list input) (acc : option val) : option val :=
  match inputs with
  | [] => acc
  | inp :: rest => latest_failure out rest (match failure_of out inp with Some x => Some x | None => acc end)
  end.

Theorem star_e_is_latest_failure out inputs : forall r,
  r_e (run_abstract out inputs r) = latest_failure out inputs (r_e r).
Proof.
  induction inputs as [|inp rest IH]; intros r; [reflexivity|].
  cbn [run_abstract latest_failure]. rewrite IH, step_e. reflexivity.
Qed.

(* ---- "a failed input never makes two of them repeat one input's result" *)
Definition no_repeat (r : rstate) : Prop :=
  (r_1 r = VNone \/ (r_1 r <> r_2 r /\ r_1 r <> r_3 r)) /\ (r_2 r = VNone \/ r_2 r <> r_3 r).

(* with pairwise different results, and no failed input, no result is repeated *)
Lemma nth_NoDup_neq (l : list val) i j :
  NoDup l -> (i < List.length l)%nat -> (j < List.length l)%nat -> i <> j -> nth i l VNone <> nth j l VNone.
Proof.
  intros ND Hi Hj Hne E. apply Hne. eapply NoDup_nth; eauto.
Qed.

Theorem no_repeat_without_failures out inputs :
  forallb unfailing inputs = true -> NoDup (results inputs) -> ~ In VNone (results inputs) ->
  no_repeat (run_abstract out inputs initial).
Proof.
  intros HF ND NN.
  destruct (history_vars_without_failures out inputs HF) as (A & B & C).
  unfold no_repeat. rewrite A, B, C.
  set (l := results inputs) in *.
  assert (X : forall i j, (i < j)%nat -> nth i l VNone = VNone \/ nth i l VNone <> nth j l VNone).
  { intros i j Hij.
    destruct (Nat.lt_ge_cases i (List.length l)) as [Hi|Hi].
    - destruct (Nat.lt_ge_cases j (List.length l)) as [Hj|Hj].
      + right. apply nth_NoDup_neq; try assumption. intros E; subst; exact (Nat.lt_irrefl _ Hij).
      + right. rewrite (nth_overflow l VNone Hj). intros E. apply NN. rewrite <- E. apply nth_In. exact Hi.
    - left. apply nth_overflow. exact Hi. }
  split.
  - destruct (X 0%nat 1%nat ltac:(auto)) as [E|E1]; [left; exact E|].
    destruct (X 0%nat 2%nat ltac:(auto)) as [E|E2]; [left; exact E|]. right. split; assumption.
  - destruct (X 1%nat 2%nat ltac:(auto)) as [E|E]; [left|right]; exact E.
Qed.
