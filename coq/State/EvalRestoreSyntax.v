(* Deep embedding of the small Python fragment in which the state-restoring
   functions of hy are written (hy_eval_user, REPL.runsource/runcode,
   recwrap/_dict_wrapper, and -- through its own reader -- hy-repr).
   The terms themselves are GENERATED from /repo by translator/state_*.py into
   coq/Gen/State*.v; nothing in this file mentions a particular function. *)
From Coq Require Export List String ZArith NArith Bool.
Export ListNotations.
Open Scope string_scope.

Inductive const := CNone | CTrue | CFalse | CStr (s : string) | CInt (z : Z).

Inductive cmpop := OpIs | OpIsNot | OpIn | OpNotIn | OpEq | OpNotEq.

Inductive expr :=
| EName (x : string)                       (* a local variable or parameter *)
| EGlob (x : string)                       (* a module-level name: variable, function, class, imported module *)
| EConst (c : const)
| ETuple (es : list expr)
| EAttr (e : expr) (a : string)
| ESub (e k : expr)
| ECmp (op : cmpop) (a b : expr)
| EAnd (a b : expr)
| EOr (a b : expr)
| ENot (a : expr)
| EIf (c a b : expr)                       (* a if c else b *)
| EAdd (a b : expr)                        (* a + b, on strings only *)
| ECall (f : expr) (args : list expr) (kw : list (string * expr))
| ESuper                                   (* super() inside a method *)
| EOpaque (src : string).                  (* an access chain rooted at an imported module, kept as source text *)

Inductive target :=
| TName (x : string)
| TGlob (x : string)                       (* a name declared global in the function *)
| TSub (e k : expr)
| TAttr (e : expr) (a : string)
| TTuple (ts : list target).

Inductive stmt :=
| SAssign (t : target) (e : expr)
| SExpr (e : expr)
| SIf (c : expr) (a b : list stmt)
| STry (body : list stmt) (handlers : list (list string * option string * list stmt)) (fin : list stmt)
| SFor (t : target) (e : expr) (body : list stmt)
| SReturn (e : option expr)
| SRaise (e : option expr)
| SGlobal (xs : list string)
| SPass.

(* a function: parameters with optional (constant) defaults, whether it has *args/**kwargs
   parameters that its body never mentions (surplus arguments are accepted and dropped), and a body *)
Record fundef := { fparams : list (string * option const); fextra : bool; fbody : list stmt }.
