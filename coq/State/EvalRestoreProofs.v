(* C39 -- theorems about the generated body of hy_eval_user (all oracles, all heaps,
   all argument values, all call sequences), assembled from the case files. *)
From HyV Require Import State.EvalRestoreTactics State.EvalRestoreParam State.EvalRestoreCaseG State.EvalRestoreCaseL
  State.EvalRestoreCaseGL State.EvalRestoreCaseNone State.EvalRestoreCaseNoneM.

(* the generated parameter list: one required parameter, every other one defaults to None,
   so "not given" and "given as None" are the same call *)
Lemma defaults_are_none m :
  bind_params hy_eval_user_def [m] [] = Some (user_kw m VNone VNone VNone VNone).
Proof. reflexivity. Qed.

Lemma positional_is_keyword m vg vl vm vmac :
  bind_params hy_eval_user_def [m; vg; vl; vm; vmac] [] =
  bind_params hy_eval_user_def [] (user_kw m vg vl vm vmac).
Proof. reflexivity. Qed.

Definition given (v : val) : Prop := v <> VNone.

(* the postcondition-as-continuation run implies the property of the result-returning run *)
Lemma user_sound O m vg vl vm vmac s (Q : eres -> Prop) :
  wp_user O user_fuel m vg vl vm vmac s Q -> Q (call_user (nr O) user_fuel m vg vl vm vmac s).
Proof. apply wp_call_fun_sound. Qed.

(* One call.  For every non-reentrant oracle within the frame condition, every heap, every log,
   every value of model / module / macros, and globals / locals each absent or any dictionary of
   the heap: the call ends (no timeout, nothing outside the fragment); its result is hy_eval's result
   or the exception of the callee that raised; evaluation took place in the given namespaces; and if
   a dictionary was given, EVERY dictionary of the heap has the hy entry it had before. *)
Theorem hy_eval_user_call O (F : frame_ok O) m vg vl vm vmac h log :
  ns_arg h vg -> ns_arg h vl ->
  let r := call_user (nr O) user_fuel m vg vl vm vmac (h, log) in
  post_value O m vg vl vmac r /\ (given vg \/ given vl -> post_restore h r).
Proof.
  intros [->|(g & kg & -> & Hg)] [->|(l & kl & -> & Hl)] r; subst r.
  - split; [| intros [G|G]; exfalso; apply G; reflexivity].
    apply user_sound.
    destruct vm; try (apply case_none_module; [exact F | reflexivity]).
    apply case_none_nomodule; exact F.
  - destruct (user_sound _ _ _ _ _ _ _ _ (case_locals_only O F l kl m vm vmac h log Hl)) as [A B].
    split; [exact A | intros _; exact B].
  - destruct (user_sound _ _ _ _ _ _ _ _ (case_globals_only O F g kg m vm vmac h log Hg)) as [A B].
    split; [exact A | intros _; exact B].
  - destruct (user_sound _ _ _ _ _ _ _ _ (case_both O F g l kg kl m vm vmac h log Hg Hl)) as [A B].
    split; [exact A | intros _; exact B].
Qed.

Corollary hy_binding_restored_call O (F : frame_ok O) m vg vl vm vmac h log :
  ns_arg h vg -> ns_arg h vl -> given vg \/ given vl ->
  post_restore h (call_user (nr O) user_fuel m vg vl vm vmac (h, log)).
Proof. intros A B C. exact (proj2 (hy_eval_user_call O F m vg vl vm vmac h log A B) C). Qed.

(* ---- sequences of calls, each with its own arguments *)
Record ucall := { u_model : val; u_globals : val; u_locals : val; u_module : val; u_macros : val }.
Fixpoint run_calls (Orc : oracle) (cs : list ucall) (s : st) : option st :=
  match cs with
  | [] => Some s
  | c :: r =>
      match call_user Orc user_fuel (u_model c) (u_globals c) (u_locals c) (u_module c) (u_macros c) s with
      | EOk _ s1 | EExc _ s1 => run_calls Orc r s1
      | _ => None
      end
  end.

Lemma hy_preserved_refl h : hy_preserved h h.
Proof. intros d kvs H. unfold hy_entry. rewrite H. reflexivity. Qed.

Lemma hy_preserved_dict h h' d kvs :
  hy_preserved h h' -> hget h d = Some (ODict kvs) ->
  exists kvs', hget h' d = Some (ODict kvs') /\ dget hy kvs' = dget hy kvs.
Proof.
  intros P H. specialize (P d kvs H). unfold hy_entry in P.
  destruct (hget h' d) as [[k| | | |]|]; try discriminate.
  exists k. split; [reflexivity | congruence].
Qed.

Lemma hy_preserved_trans h1 h2 h3 : hy_preserved h1 h2 -> hy_preserved h2 h3 -> hy_preserved h1 h3.
Proof.
  intros A B d kvs H.
  destruct (hy_preserved_dict _ _ _ _ A H) as (k2 & H2 & E2).
  rewrite (B d k2 H2). congruence.
Qed.

Lemma ns_arg_preserved h h' v : hy_preserved h h' -> ns_arg h v -> ns_arg h' v.
Proof.
  intros P [->|(d & kvs & -> & H)]; [left; reflexivity|].
  destruct (hy_preserved_dict _ _ _ _ P H) as (k & Hk & _).
  right. exists d, k. split; [reflexivity | exact Hk].
Qed.

Definition call_ok (h : heap) (c : ucall) : Prop :=
  ns_arg h (u_globals c) /\ ns_arg h (u_locals c) /\ (given (u_globals c) \/ given (u_locals c)).

(* Any number of calls, with any mix of arguments (each call may use other dictionaries of the
   initial heap, a prior hy or none, succeed or raise at any point): the run never times out or
   leaves the fragment, and afterwards every dictionary has the hy entry it had before the first call. *)
Theorem hy_binding_restored_seq O (F : frame_ok O) cs : forall h log,
  Forall (call_ok h) cs ->
  exists h' log', run_calls (nr O) cs (h, log) = Some (h', log') /\ hy_preserved h h'.
Proof.
  induction cs as [|c cs IH]; intros h log HF.
  - exists h, log. split; [reflexivity | apply hy_preserved_refl].
  - inversion HF as [|c' cs' (A & B & C) HF']; subst.
    pose proof (hy_binding_restored_call O F (u_model c) (u_globals c) (u_locals c) (u_module c) (u_macros c)
                  h log A B C) as R.
    cbn [run_calls].
    destruct (call_user (nr O) user_fuel (u_model c) (u_globals c) (u_locals c) (u_module c) (u_macros c) (h, log))
      as [v [h1 log1]|x [h1 log1]| |]; cbn in R; try contradiction.
    + assert (HF1 : Forall (call_ok h1) cs).
      { eapply Forall_impl; [|exact HF']. intros c0 (A0 & B0 & C0).
        repeat split; try assumption; eapply ns_arg_preserved; eassumption. }
      destruct (IH h1 log1 HF1) as (h' & log' & E & P). exists h', log'. split; [exact E|].
      eapply hy_preserved_trans; eassumption.
    + assert (HF1 : Forall (call_ok h1) cs).
      { eapply Forall_impl; [|exact HF']. intros c0 (A0 & B0 & C0).
        repeat split; try assumption; eapply ns_arg_preserved; eassumption. }
      destruct (IH h1 log1 HF1) as (h' & log' & E & P). exists h', log'. split; [exact E|].
      eapply hy_preserved_trans; eassumption.
Qed.

(* ---- the hypotheses are met by a callee that really does what evaluation does:
   it binds hy in the dictionary it gets as locals, adds another key, and returns or raises
   depending on the call number. *)
Definition demo_oracle : pure_oracle := fun n g args kw h =>
  if String.eqb g "hy_eval" then
    match aget "locals" kw with
    | Some (VRef l) =>
        match hget h l with
        | Some (ODict kvs) =>
            (hset h l (ODict (dset (VStr "x") (VInt 1) (dset hy (VRef 1000) kvs))),
             if Nat.even n then ORet (VInt 42) else ORaise (VExc "ZeroDivisionError" 7))
        | _ => (h, ORet VNone)
        end
    | _ => (h, ORet VNone)
    end
  else (h, ORet (VRef 2000)).

Lemma demo_frame_ok : frame_ok demo_oracle.
Proof.
  intros n g args kw h d kvs H. unfold demo_oracle.
  destruct (String.eqb g "hy_eval") eqn:Eg.
  - apply String.eqb_eq in Eg. subst g.
    destruct (aget "locals" kw) as [[| | | | |l| | |]|] eqn:Ekw;
      try (exists kvs; split; [exact H | right; reflexivity]).
    destruct (hget h l) as [[kl| | | |]|] eqn:El;
      try (exists kvs; split; [exact H | right; reflexivity]).
    cbn [fst]. rewrite hget_hset.
    destruct (N.eqb_spec d l) as [->|Hne].
    + eexists. split; [reflexivity|]. left. split; reflexivity.
    + exists kvs. split; [exact H | right; reflexivity].
  - exists kvs. split; [exact H | right; reflexivity].
Qed.

(* a concrete run: the caller's hy (object 7) survives a callee that rebinds it, on success and on failure *)
Definition demo_heap : heap := [(5%N, ODict [(VStr "a", VInt 0); (hy, VRef 7)]); (6%N, ODict [])].
Definition demo_calls : list ucall :=
  [ {| u_model := VStr "m1"; u_globals := VRef 5; u_locals := VNone; u_module := VNone; u_macros := VNone |};
    {| u_model := VStr "m2"; u_globals := VRef 5; u_locals := VRef 6; u_module := VNone; u_macros := VNone |};
    {| u_model := VStr "m3"; u_globals := VNone; u_locals := VRef 6; u_module := VGlobal "mod"; u_macros := VNone |} ].
Definition demo_run : Prop :=
  match run_calls (nr demo_oracle) demo_calls (demo_heap, []) with
  | Some (h', log') => hy_entry h' 5 = Some (Some (VRef 7)) /\ hy_entry h' 6 = Some None /\ List.length log' = 6
  | None => False
  end.
Example demo_restores : demo_run.
Proof. vm_compute. repeat split. Qed.
