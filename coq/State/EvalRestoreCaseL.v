(* C39, case: locals given, globals not. *)
From HyV Require Import State.EvalRestoreTactics.

Lemma case_locals_only O (F : frame_ok O) l kvs m vm vmac h log :
  hget h l = Some (ODict kvs) ->
  wp_user O user_fuel m VNone (VRef l) vm vmac (h, log) (post_both O m VNone (VRef l) vmac h).
Proof.
  intros Hl. unfold wp_user, user_fuel, user_kw.
  sx_go F.
  all: leaf.
Qed.
