(* C39, case: locals given, globals not. *)
From HyV Require Import State.EvalRestoreTactics.
Local Opaque interp.

Lemma case_locals_only Orc (F : frame_ok Orc) l kvs m vm vmac h log :
  hget h l = Some (ODict kvs) ->
  post_both Orc m VNone (VRef l) vmac h (call_user Orc user_fuel m VNone (VRef l) vm vmac (h, log)).
Proof.
  intros Hl. unfold call_user, call_fun, user_fuel, user_kw, user_prog, hy_eval_user_def.
  sx_go F.
  all: leaf.
Qed.
