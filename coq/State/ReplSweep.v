(* C40 -- printable traces of sessions run on the generated code (for the correspondence with the
   real REPL), and a finite cross-check of the generated code against the abstract machine by plain
   computation (the theorem for all values is ReplLift.v; this table is what names a failing
   configuration when that proof breaks). *)
From HyV Require Import State.Repl.

Definition vcode (v : val) : Z :=
  match v with
  | VNone => 0%Z
  | VRef n => (1000 + Z.of_N n)%Z
  | VInt z => (2000 + z)%Z
  | VBool true => 3%Z | VBool false => 4%Z
  | _ => (-1)%Z
  end.
Definition xcode (v : val) : string * Z :=
  match v with
  | VExc c n => (c, Z.of_N n)
  | VNone => ("", 0%Z)
  | _ => ("?", 0%Z)
  end.
Definition obs_code (h : heap) :=
  match observe h with
  | Some o => (vcode (r_last o), r_print o, vcode (r_1 o), vcode (r_2 o), vcode (r_3 o), xcode (r_e o))
  | None => ((-9)%Z, false, 0%Z, 0%Z, 0%Z, ("unobservable", 0%Z))
  end.
(* per input: ("ok", returned value) or ("exc", class), and the observable state afterwards *)
Fixpoint session_trace (out : out_script) (inputs : list input) (s : st) :=
  match inputs with
  | [] => []
  | inp :: r =>
      match run1 table inp out s with
      | EOk v s1 => ("ok", vcode v, "", obs_code (fst s1)) :: session_trace out r s1
      | EExc x s1 => ("exc", 0%Z, fst (xcode x), obs_code (fst s1)) :: session_trace out r s1
      | ETimeout => [("timeout", 0%Z, "", obs_code [])]
      | EStuck m => [("stuck", 0%Z, m, obs_code [])]
      end
  end.
Definition trace_of (inputs : list input) (out : out_script) := session_trace out inputs (initial_heap, []).

(* ---- the finite cross-check *)
Definition rstate_eqb (x y : rstate) : bool :=
  val_eqb (r_last x) (r_last y) && Bool.eqb (r_print x) (r_print y)
  && val_eqb (r_1 x) (r_1 y) && val_eqb (r_2 x) (r_2 y) && val_eqb (r_3 x) (r_3 y) && val_eqb (r_e x) (r_e y).

Definition tv : val := VRef 20.
Definition exc_classes : list string :=
  ["LexException"; "PrematureEndOfInput"; "HySyntaxError"; "HyMacroExpansionError"; "HyRequireError";
   "HyTypeError"; "HyEvalError"; "HyCompileError"; "HyLanguageError"; "ValueError"; "OverflowError";
   "SyntaxError"; "ZeroDivisionError"; "NameError"; "TypeError"; "RecursionError";
   "SystemExit"; "KeyboardInterrupt"; "GeneratorExit"; "UserDefinedError"].
Definition out_none : out_script := fun _ => None.
Definition out_fail (y : val) : out_script := fun v => if val_eqb v tv then Some y else None.

Definition alphabet : list (input * out_script) :=
  ([(IIncomplete, out_none); (IValue VNone, out_none); (IValue tv, out_none); (IValue (VRef 21), out_none)]
  ++ map (fun c => (IValue tv, out_fail (VExc c 5))) exc_classes
  ++ map (fun c => (ICompileError (VExc c 6), out_none)) exc_classes
  ++ flat_map (fun c => [(IRunError (VExc c 7) true, out_none); (IRunError (VExc c 7) false, out_none)]) exc_classes)%list.

Definition check_session (out : out_script) (inputs : list input) : bool :=
  match run_inputs table out inputs (initial_heap, []) with
  | Some (h, _) => match observe h with
                   | Some o => rstate_eqb o (run_abstract table out inputs initial)
                   | None => false
                   end
  | None => false
  end.

(* every pair of letters, after a fixed two-input prefix that fills the slots *)
Definition sweep_pairs : bool :=
  forallb (fun p => forallb (fun q =>
    check_session (fun v => match snd p v with Some y => Some y | None => snd q v end)
                  [IValue (VRef 11); IValue (VRef 12); fst p; fst q]) alphabet) alphabet.
