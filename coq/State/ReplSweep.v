(* C40 -- the generated REPL code against the abstract machine, by computation:
   (1) every single input from a table of value shapes / exception classes, from every abstract
       start state of a table, (2) every session of up to three inputs over a small alphabet.
   The run is [run_input] on the generated code (Gen/StateReplTerm.v); the reference is [step]. *)
From HyV Require Import State.Repl.

Definition t1 : val := VRef 11.
Definition t2 : val := VRef 12.
Definition t3 : val := VRef 13.
Definition tv : val := VRef 20.
Definition old_e : val := VExc "NameError" 9.

Definition rstate_eqb (x y : rstate) : bool :=
  val_eqb (r_last x) (r_last y) && Bool.eqb (r_print x) (r_print y)
  && val_eqb (r_1 x) (r_1 y) && val_eqb (r_2 x) (r_2 y) && val_eqb (r_3 x) (r_3 y)
  && match r_e x, r_e y with
     | Some p, Some q => val_eqb p q
     | None, None => true
     | _, _ => false
     end.

(* start states: last_value None / a value, print flag, an earlier *e or none, a stale _hy_exc_info or none *)
Definition start_heaps : list (heap * rstate) :=
  flat_map (fun lv => flat_map (fun pf => flat_map (fun e => map (fun info =>
    let rest := ((match e with Some x => [(ke, x)] | None => [] end)
                ++ (if info : bool then [(kinfo, VTup [VGlobal "type(exc)"; old_e; VGlobal "tb"])] else [])
                ++ [(VStr "user_var", VInt 7)])%list in
    ([(self_id, repl_obj lv pf); (loc_id, repl_locals t1 t2 t3 rest); (50%N, OOpaque)],
     {| r_last := lv; r_print := pf; r_1 := t1; r_2 := t2; r_3 := t3; r_e := e |}))
    [false; true]) [None; Some old_e]) [true; false]) [VNone; VRef 10].

Definition exc_classes : list string :=
  ["LexException"; "PrematureEndOfInput"; "HySyntaxError"; "HyMacroExpansionError"; "HyRequireError";
   "HyTypeError"; "HyEvalError"; "HyCompileError"; "HyLanguageError"; "ValueError"; "OverflowError";
   "SyntaxError"; "ZeroDivisionError"; "NameError"; "TypeError"; "RecursionError";
   "SystemExit"; "KeyboardInterrupt"; "GeneratorExit"; "UserDefinedError"].

Definition out_none : out_script := fun _ => None.
Definition out_fail (y : val) : out_script := fun v => if val_eqb v tv then Some y else None.

Definition single_inputs : list (input * out_script) :=
  ([(IIncomplete, out_none); (IValue VNone, out_none); (IValue tv, out_none)]
  ++ map (fun c => (IValue tv, out_fail (VExc c 5))) exc_classes
  ++ map (fun c => (ICompileError (VExc c 6), out_none)) exc_classes
  ++ flat_map (fun c => [(IRunError (VExc c 7) true, out_none); (IRunError (VExc c 7) false, out_none)]) exc_classes)%list.

Definition check_one (hr : heap * rstate) (io : input * out_script) : bool :=
  let '(h, r) := hr in
  let '(inp, out) := io in
  let '(r', ret) := step out inp r in
  match run_input [inp] out 0 (h, []) with
  | EOk v (h', _) =>
      match ret, observe h' with
      | Some b, Some o => val_eqb v (VBool b) && rstate_eqb o r'
      | _, _ => false
      end
  | EExc _ (h', _) =>
      match ret, observe h' with
      | None, Some o => rstate_eqb o r'
      | _, _ => false
      end
  | _ => false
  end.

Definition sweep_single : bool := forallb (fun hr => forallb (check_one hr) single_inputs) start_heaps.

(* sessions: the generated code, input after input on its own resulting heap, against run_abstract *)
Definition alphabet : list input :=
  [IIncomplete; IValue VNone; IValue tv; IValue (VRef 21);
   ICompileError (VExc "LexException" 6); ICompileError (VExc "HyMacroExpansionError" 6);
   IRunError (VExc "ZeroDivisionError" 7) false; IRunError (VExc "NameError" 8) true;
   IRunError (VExc "SystemExit" 7) false].

Fixpoint sessions (n : nat) : list (list input) :=
  match n with
  | O => [[]]
  | S k => [] :: flat_map (fun i => map (cons i) (sessions k)) alphabet
  end.

Definition check_session (inputs : list input) : bool :=
  match run_session inputs out_none with
  | Some (h, _) => match observe h with
                   | Some o => rstate_eqb o (run_abstract out_none inputs initial)
                   | None => false
                   end
  | None => false
  end.

Definition sweep_sessions (n : nat) : bool := forallb check_session (sessions n).

(* ---- printable traces, for the correspondence with the real REPL *)
Definition vcode (v : val) : Z :=
  match v with
  | VNone => 0%Z
  | VRef n => (1000 + Z.of_N n)%Z
  | VInt z => (2000 + z)%Z
  | VBool true => 3%Z | VBool false => 4%Z
  | _ => (-1)%Z
  end.
Definition xcode (v : option val) : string * Z :=
  match v with
  | Some (VExc c n) => (c, Z.of_N n)
  | Some _ => ("?", 0%Z)
  | None => ("", 0%Z)
  end.
Definition obs_code (h : heap) :=
  match observe h with
  | Some o => (vcode (r_last o), r_print o, vcode (r_1 o), vcode (r_2 o), vcode (r_3 o), xcode (r_e o))
  | None => ((-9)%Z, false, 0%Z, 0%Z, 0%Z, ("unobservable", 0%Z))
  end.
(* per input: ("ok", returned value) or ("exc", class), and the observable state afterwards *)
Fixpoint session_trace (inputs : list input) (out : out_script) (j : nat) (k : nat) (s : st) :=
  match k with
  | O => []
  | S k' =>
      match run_input inputs out (Z.of_nat j) s with
      | EOk v s1 => ("ok", vcode v, "", obs_code (fst s1)) :: session_trace inputs out (S j) k' s1
      | EExc x s1 => ("exc", 0%Z, fst (xcode (Some x)), obs_code (fst s1)) :: session_trace inputs out (S j) k' s1
      | ETimeout => [("timeout", 0%Z, "", obs_code [])]
      | EStuck m => [("stuck", 0%Z, m, obs_code [])]
      end
  end.
Definition trace_of (inputs : list input) (out : out_script) :=
  session_trace inputs out 0 (List.length inputs) (initial_heap, []).
