(* C39, case: globals and locals both given (the same dictionary or two different ones). *)
From HyV Require Import State.EvalRestoreTactics.

Lemma case_both O (F : frame_ok O) g l kg kl m vm vmac h log :
  hget h g = Some (ODict kg) -> hget h l = Some (ODict kl) ->
  wp_user O user_fuel m (VRef g) (VRef l) vm vmac (h, log) (post_both O m (VRef g) (VRef l) vmac h).
Proof.
  intros Hg Hl. unfold wp_user, user_fuel, user_kw.
  sx_go F.
  all: leaf.
Qed.
