(* C39, case: globals and locals both given (the same dictionary or two different ones). *)
From HyV Require Import State.EvalRestoreTactics.
Local Opaque interp.

Lemma case_both Orc (F : frame_ok Orc) g l kg kl m vm vmac h log :
  hget h g = Some (ODict kg) -> hget h l = Some (ODict kl) ->
  post_both Orc m (VRef g) (VRef l) vmac h (call_user Orc user_fuel m (VRef g) (VRef l) vm vmac (h, log)).
Proof.
  intros Hg Hl. unfold call_user, call_fun, user_fuel, user_kw, user_prog, hy_eval_user_def.
  sx_go F.
  all: leaf.
Qed.
