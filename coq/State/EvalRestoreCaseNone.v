(* C39, case: neither globals nor locals given and no module either (evaluation happens in the
   caller's frame; no dictionary was handed over, so only the value part is claimed). *)
From HyV Require Import State.EvalRestoreTactics.

Lemma case_none_nomodule O (F : frame_ok O) m vmac h log :
  wp_user O user_fuel m VNone VNone VNone vmac (h, log) (post_value O m VNone VNone vmac).
Proof.
  unfold wp_user, user_fuel, user_kw.
  sx_go F.
  all: first [ exfalso; cbn [dget] in *; congruence | leaf_value ].
Qed.
