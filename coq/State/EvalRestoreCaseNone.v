(* C39, case: neither globals nor locals given (evaluation happens in the caller's frame or the
   module's namespace; no dictionary was handed over, so only the value part is claimed). *)
From HyV Require Import State.EvalRestoreTactics.

Lemma case_none O (F : frame_ok O) m vm vmac h log :
  wp_user O user_fuel m VNone VNone vm vmac (h, log) (post_value O m VNone VNone vmac).
Proof.
  unfold wp_user, user_fuel, user_kw.
  sx_go F.
  all: first [ exfalso; cbn [dget] in *; congruence | leaf_value ].
Qed.
