(* C39, case: neither globals nor locals given (evaluation happens in the caller's frame or the
   module's namespace; no dictionary was handed over, so only the value part is claimed). *)
From HyV Require Import State.EvalRestoreTactics.
Local Opaque interp.

Lemma case_none Orc (F : frame_ok Orc) m vm vmac h log :
  post_value Orc m VNone VNone vmac (call_user Orc user_fuel m VNone VNone vm vmac (h, log)).
Proof.
  unfold call_user, call_fun, user_fuel, user_kw, user_prog, hy_eval_user_def.
  sx_go F.
  all: first [ exfalso; cbn [dget] in *; congruence | leaf_value ].
Qed.
