(* Unfolding equations of the statement-level interpreter functions, produced mechanically from the text of
   EvalRestoreSem.v (props/state_common.py: gen_eqs); each is proved by computation, so it cannot drift from
   the definition. *)
From HyV Require Export State.EvalRestoreSem.

Section Eqs.
Variables (P : prog) (Orc : oracle) (A : Type) (timeout : A) (stuck : string -> A).
Notation eval_ := (eval P Orc A timeout stuck).
Notation evals_ := (evals P Orc A timeout stuck).
Notation evalkw_ := (evalkw P Orc A timeout stuck).
Notation ocall_ := (ocall P Orc A timeout stuck).
Notation run_beh_ := (run_beh P Orc A timeout stuck).
Notation call_value_ := (call_value P Orc A timeout stuck).
Notation call_method_ := (call_method P Orc A timeout stuck).
Notation call_fun_ := (call_fun P Orc A timeout stuck).
Notation assign_ := (assign P Orc A timeout stuck).
Notation assigns_ := (assigns P Orc A timeout stuck).
Notation exec_ := (exec P Orc A timeout stuck).
Notation handle_ := (handle P Orc A timeout stuck).
Notation exec_for_ := (exec_for P Orc A timeout stuck).
Notation exec_block_ := (exec_block P Orc A timeout stuck).
Notation truthy_k_ := (truthy_k A stuck).
Notation dispatch_ := (dispatch A).

Lemma exec_eq f (en : env) (c : stmt) (s : st) (kn : env -> st -> A) (kr : val -> env -> st -> A) (kx : val -> env -> st -> A) :
  exec_ (S f) en c s kn kr kx =
    match c with
    | SAssign t e => eval_ (exec_block_ f) f en e s (fun v s1 => assign_ (exec_block_ f) f en t v s1 kn kx) (fun x s1 => kx x en s1)
    | SExpr e => eval_ (exec_block_ f) f en e s (fun _ s1 => kn en s1) (fun x s1 => kx x en s1)
    | SIf c a b =>
        eval_ (exec_block_ f) f en c s (fun vc s1 =>
          truthy_k_ (fst s1) vc (fun t => if t then exec_block_ f en a s1 kn kr kx else exec_block_ f en b s1 kn kr kx))
          (fun x s1 => kx x en s1)
    | STry body handlers fin =>
        (* whatever way control leaves the body or a handler, the finally block runs first;
           if it completes normally the original way out is resumed, otherwise its own way out wins *)
        let after (c2 : ctl) (en2 : env) (s2 : st) : A :=
          match fin with
          | [] => dispatch_ c2 en2 s2 kn kr kx
          | _ => exec_block_ f en2 fin s2 (fun en3 s3 => dispatch_ c2 en3 s3 kn kr kx) kr kx
          end in
        exec_block_ f en body s
          (fun en1 s1 => after CNorm en1 s1)
          (fun v en1 s1 => after (CRet v) en1 s1)
          (fun x en1 s1 =>
             handle_ f en1 x handlers s1
               (fun en2 s2 => after CNorm en2 s2)
               (fun v en2 s2 => after (CRet v) en2 s2)
               (fun x2 en2 s2 => after (CExc x2) en2 s2))
    | SFor t e body =>
        eval_ (exec_block_ f) f en e s (fun v s1 =>
          match iter_items (fst s1) v with
          | Some vs => exec_for_ f en t vs body s1 kn kr kx
          | None => stuck "iteration over an opaque value"
          end) (fun x s1 => kx x en s1)
    | SReturn None => kr VNone en s
    | SReturn (Some e) => eval_ (exec_block_ f) f en e s (fun v s1 => kr v en s1) (fun x s1 => kx x en s1)
    | SRaise None =>
        match aget "__exc__" en with
        | Some x => kx x en s
        | None => kx (exn "RuntimeError") en s
        end
    | SRaise (Some e) =>
        eval_ (exec_block_ f) f en e s (fun v s1 =>
          match v with
          | VExc c i => kx (VExc c i) en s1
          | _ => stuck "raise of a non-exception value"
          end) (fun x s1 => kx x en s1)
    | SGlobal _ => kn en s
    | SPass => kn en s
    end.
Proof. reflexivity. Qed.

Lemma handle_eq f (en : env) (x : val) (hs : list (list string * option string * list stmt)) (s : st) (kn : env -> st -> A) (kr : val -> env -> st -> A) (kx : val -> env -> st -> A) :
  handle_ (S f) en x hs s kn kr kx =
    match hs with
    | [] => kx x en s
    | (classes, nm, body) :: r =>
        if exc_matches P x classes then
          let en1 := ("__exc__", x) :: match nm with Some n => aset n x en | None => en end in
          exec_block_ f en1 body s
            (fun en2 s2 => kn (strip_exc en2) s2)
            (fun v en2 s2 => kr v (strip_exc en2) s2)
            (fun x2 en2 s2 => kx x2 (strip_exc en2) s2)
        else handle_ f en x r s kn kr kx
    end.
Proof. reflexivity. Qed.

Lemma exec_for_eq f (en : env) (t : target) (vs : list val) (body : list stmt) (s : st) (kn : env -> st -> A) (kr : val -> env -> st -> A) (kx : val -> env -> st -> A) :
  exec_for_ (S f) en t vs body s kn kr kx =
    match vs with
    | [] => kn en s
    | v :: r =>
        assign_ (exec_block_ f) f en t v s
          (fun en1 s1 => exec_block_ f en1 body s1 (fun en2 s2 => exec_for_ f en2 t r body s2 kn kr kx) kr kx)
          kx
    end.
Proof. reflexivity. Qed.

Lemma exec_block_eq f (en : env) (cs : list stmt) (s : st) (kn : env -> st -> A) (kr : val -> env -> st -> A) (kx : val -> env -> st -> A) :
  exec_block_ (S f) en cs s kn kr kx =
    match cs with
    | [] => kn en s
    | c :: r => exec_ f en c s (fun en1 s1 => exec_block_ f en1 r s1 kn kr kx) kr kx
    end.
Proof. reflexivity. Qed.

End Eqs.
