(* C39 -- lemmas, postconditions and tactics shared by the case files EvalRestoreCase*.v.
   Nothing here depends on the shape of the generated body. *)
From HyV Require Export State.EvalRestore.

Lemma dget_dset_hy v kvs : dget (VStr "hy") (dset (VStr "hy") v kvs) = Some v.
Proof.
  induction kvs as [|[k w] r IH]; cbn [dset dget].
  - reflexivity.
  - destruct (val_eqb (VStr "hy") k) eqn:E; cbn [dget]; rewrite E; [reflexivity | exact IH].
Qed.
Lemma dget_ddel_hy kvs : dget (VStr "hy") (ddel (VStr "hy") kvs) = None.
Proof.
  induction kvs as [|[k w] r IH]; cbn [ddel dget]; [reflexivity|].
  destruct (val_eqb (VStr "hy") k) eqn:E; [exact IH | cbn [dget]; rewrite E; exact IH].
Qed.

(* the event logged for the call of hy_eval *)
Definition eval_event (m vg vL vmod vmac : val) : event :=
  ("hy_eval", [], [("hytree", m); ("globals", vg); ("locals", vL); ("module", vmod); ("extra_macros", vmac)]).

(* the oracle's answer to the logged call ev, made when rest had been logged *)
Definition answered (O : pure_oracle) (ev : event) (rest : list event) (r : ores) : Prop :=
  exists hh, snd (O (log_len rest) (fst (fst ev)) (snd (fst ev)) (snd ev) hh) = r.

(* the namespace in which evaluation must happen, when one is given *)
Definition eval_locals (vg vl vL : val) : Prop :=
  match vl, vg with
  | VNone, VNone => True
  | VNone, _ => vL = vg
  | _, _ => vL = vl
  end.

(* Value part: a normal result is exactly what hy_eval answered, hy_eval having been called last,
   with the given globals and with locals = the given locals, else the given globals; an exception
   is exactly the one the most recent opaque callee raised (none is invented or swallowed). *)
Definition post_value (O : pure_oracle) (m vg vl vmac : val) (r : eres) : Prop :=
  match r with
  | EOk v (_, ev :: rest) =>
      (exists vL vmod, ev = eval_event m vg vL vmod vmac /\ eval_locals vg vl vL) /\ answered O ev rest (ORet v)
  | EExc x (_, ev :: rest) =>
      answered O ev rest (ORaise x) /\
      (fst (fst ev) = "hy_eval" -> exists vL vmod, ev = eval_event m vg vL vmod vmac /\ eval_locals vg vl vL)
  | _ => False
  end.

Definition post_restore (h : heap) (r : eres) : Prop :=
  match r with
  | EOk _ (h', _) | EExc _ (h', _) => hy_preserved h h'
  | _ => False
  end.

Definition post_both (O : pure_oracle) (m vg vl vmac : val) (h : heap) (r : eres) : Prop :=
  post_value O m vg vl vmac r /\ post_restore h r.

(* ---- symbolic execution under frame_ok *)

(* after an opaque call h -> h' with frame fact Fr, carry every known dictionary fact over to h' *)
Ltac sx_carry Fr h h' :=
  repeat match goal with
  | H : hget h ?g = Some (ODict ?k) |- _ =>
      lazymatch goal with
      | _ : hget h' g = _ |- _ => fail
      | _ => let kvs' := fresh "kvs'" in let Hg' := fresh "Hg'" in let Hhy := fresh "Hhy" in
             destruct (Fr g k H) as (kvs' & Hg' & Hhy)
      end
  end.

Ltac sx_oracle F := fun O n g a kw h =>
  let Fr := fresh "Fr" in let p := fresh "p" in let E := fresh "E" in let h' := fresh "h'" in let r := fresh "r" in
  pose proof (F n g a kw h) as Fr;
  remember (O n g a kw h) as p eqn:E in *;
  destruct p as [h' r]; cbn [fst snd] in *;
  sx_carry Fr h h'.

Ltac sx_eval := px_cbv tt; cbv delta [hy_eval_user_def hy_eval_def]; px_cbv tt.
Ltac sx_go F := repeat px_step sx_eval ltac:(sx_oracle F) ltac:(fun hd => fail).

(* ---- leaf goals *)

Ltac frame_chain d :=
  repeat match goal with
  | Fr : (forall d' kvs, hget ?h d' = Some (ODict kvs) -> _), H : hget ?h d = Some (ODict ?k) |- _ =>
      let kk := fresh "kk" in let Hk := fresh "Hk" in let Hs := fresh "Hs" in let Ha := fresh "Ha" in let Hh := fresh "Hh" in
      specialize (Fr d k H); destruct Fr as (kk & Hk & [[Hs Ha]|Hh]);
      [ exfalso; first [ discriminate Hs | cbn in Ha; congruence ] | ]
  end.

(* hy_preserved h H' where H' is a callee's heap with at most one dictionary written on top *)
Ltac leaf_restore :=
  let d := fresh "d" in let k0 := fresh "k0" in let Hd := fresh "Hd" in
  cbv beta iota delta [post_restore]; intros d k0 Hd; unfold hy_entry; rewrite ?hget_hset;
  match goal with
  | Hg : hget ?h ?g = Some (ODict _) |- _ =>
    lazymatch type of Hd with
    | hget h d = _ =>
      destruct (N.eqb_spec d g) as [->|Hne];
      [ rewrite ?N.eqb_refl; rewrite Hg in Hd; injection Hd as <-; clear Hg;
        repeat match goal with H : hget _ g = _ |- _ => rewrite H end;
        unfold hy in *;
        repeat first [ rewrite dget_dset_hy | rewrite dget_ddel_hy | rewrite dget_nil ];
        congruence
      | try (assert (Hf : N.eqb d g = false) by (apply N.eqb_neq; exact Hne); rewrite ?Hf);
        frame_chain d;
        repeat match goal with H : hget _ d = _ |- _ => rewrite H end;
        congruence ]
    end
  end.

Ltac leaf_value :=
  cbv beta iota delta [post_value answered eval_event eval_locals fst snd];
  repeat match goal with
  | E : (_, ?r) = ?O ?n ?g ?a ?kw ?h |- exists hh, (let (_, y) := ?O ?n ?g ?a ?kw hh in y) = ?r =>
      exists h; rewrite <- E; reflexivity
  | |- _ /\ _ => split
  | |- exists _, _ => eexists
  | |- _ -> _ => let H := fresh "H" in intro H; try discriminate H
  end;
  first [ reflexivity | exact I ].

Ltac leaf :=
  first [ exfalso; cbn [dget] in *; congruence
        | unfold post_both; split; [ leaf_value | leaf_restore ] ].
