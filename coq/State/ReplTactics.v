(* C40 -- symbolic execution set-up for the generated REPL methods under the session oracle. *)
From HyV Require Export State.Repl State.EvalRestoreSymex.

(* ---- lookups in the generated program, by computation *)
Lemma glob_get_repl h x : glob_get repl_prog h x = VGlobal x.
Proof. reflexivity. Qed.

Lemma m_runsource : find_method repl_prog (mro_of repl_prog "REPL") "runsource" = Some ("REPL", repl_runsource_def).
Proof. reflexivity. Qed.
Lemma m_super_runsource :
  find_method repl_prog (drop_until "REPL" (mro_of repl_prog "REPL")) "runsource"
  = Some ("InteractiveInterpreter", stdlib_runsource_def).
Proof. reflexivity. Qed.
Lemma m_runcode : find_method repl_prog (mro_of repl_prog "REPL") "runcode" = Some ("REPL", repl_runcode_def).
Proof. reflexivity. Qed.
Lemma m_showsyntaxerror :
  find_method repl_prog (mro_of repl_prog "REPL") "showsyntaxerror" = Some ("REPL", repl_showsyntaxerror_def).
Proof. reflexivity. Qed.
Lemma m_showtraceback :
  find_method repl_prog (mro_of repl_prog "REPL") "showtraceback" = Some ("REPL", repl_showtraceback_def).
Proof. reflexivity. Qed.
Lemma m_error_wrap : find_method repl_prog (mro_of repl_prog "REPL") "_error_wrap" = Some ("REPL", repl_error_wrap_def).
Proof. reflexivity. Qed.
Lemma f_set_last_exc : lookup_fun repl_prog "set_last_exc" = Some set_last_exc_def.
Proof. reflexivity. Qed.
Lemma f_opaque g :
  strmem g ["HyCommandCompiler()"; "eval"; "output_fn"; "print"; "mangle"; "sys.excepthook"; "setattr"] = true ->
  lookup_fun repl_prog g = None.
Proof.
  cbn [strmem existsb]. intros H.
  repeat (apply orb_true_iff in H; destruct H as [H|H]; [apply String.eqb_eq in H; subst; reflexivity|]).
  discriminate.
Qed.

(* ---- heap and dictionary equations *)
Lemma hget_self_self o h : hget ((self_id, o) :: h) self_id = Some o. Proof. reflexivity. Qed.
Lemma hget_self_loc o h : hget ((self_id, o) :: h) loc_id = hget h loc_id. Proof. reflexivity. Qed.
Lemma hget_loc_loc o h : hget ((loc_id, o) :: h) loc_id = Some o. Proof. reflexivity. Qed.
Lemma hget_loc_self o h : hget ((loc_id, o) :: h) self_id = hget h self_id. Proof. reflexivity. Qed.
Lemma dget_cons k k' v r : dget k ((k', v) :: r) = if val_eqb k k' then Some v else dget k r.
Proof. reflexivity. Qed.
Lemma dset_cons k v k' v' r :
  dset k v ((k', v') :: r) = if val_eqb k k' then (k', v) :: r else (k', v') :: dset k v r.
Proof. reflexivity. Qed.
Lemma val_is_none_r v : val_is v VNone = Some (is_none v).
Proof. destruct v; reflexivity. Qed.
Lemma val_eqb_refl_str s : val_eqb (VStr s) (VStr s) = true.
Proof. cbn. apply String.eqb_refl. Qed.
Lemma dget_dset_same_str s v kvs : dget (VStr s) (dset (VStr s) v kvs) = Some v.
Proof.
  induction kvs as [|[k w] r IH]; cbn [dset dget].
  - rewrite val_eqb_refl_str. reflexivity.
  - destruct (val_eqb (VStr s) k) eqn:E; cbn [dget]; rewrite E; [reflexivity | exact IH].
Qed.

(* one layer of evaluation; like sx_red but program lookups, class tests, `is None` on unknown
   values and dictionary access stay folded (they are resolved by the rules below) *)
Ltac rx_red :=
  cbv beta iota zeta delta
    [eval_step evals_step evalkw_step ocall_step run_beh_step call_value_step call_method_step call_fun_step
     assign_step assigns_step exec_step handle_step exec_for_step exec_block_step
     aget aset const_val bind_params bind_params_aux fextra forallb option_map String.eqb Ascii.eqb Bool.eqb
     existsb before_dot append fst snd List.length Nat.eqb fparams fbody
     truthy val_eqb get_attr subscript contains builtin_method iter_items exn
     negb andb orb hset nth_error Z.to_nat Z.ltb Z.eqb Z.compare Pos.compare Pos.compare_cont Pos.to_nat Pos.iter_op Nat.add
     repl_runsource_def repl_runcode_def repl_showsyntaxerror_def repl_showtraceback_def repl_error_wrap_def
     set_last_exc_def stdlib_runsource_def
     code_of repl_obj repl_locals k1 k2 k3 ke kinfo].

Ltac rx_dict := repeat first [ rewrite dset_cons | rewrite dget_cons ].

Ltac rx_other hd :=
  lazymatch hd with
  | find_method repl_prog (mro_of repl_prog "REPL") "runsource" => rewrite m_runsource
  | find_method repl_prog (drop_until "REPL" (mro_of repl_prog "REPL")) "runsource" => rewrite m_super_runsource
  | find_method repl_prog (mro_of repl_prog "REPL") "runcode" => rewrite m_runcode
  | find_method repl_prog (mro_of repl_prog "REPL") "showsyntaxerror" => rewrite m_showsyntaxerror
  | find_method repl_prog (mro_of repl_prog "REPL") "showtraceback" => rewrite m_showtraceback
  | find_method repl_prog (mro_of repl_prog "REPL") "_error_wrap" => rewrite m_error_wrap
  | lookup_fun repl_prog "set_last_exc" => rewrite f_set_last_exc
  | lookup_fun repl_prog ?g => rewrite (f_opaque g eq_refl)
  | glob_get repl_prog ?h ?x => rewrite (glob_get_repl h x)
  | hget ((self_id, ?o) :: ?h) self_id => rewrite (hget_self_self o h)
  | hget ((self_id, ?o) :: ?h) loc_id => rewrite (hget_self_loc o h)
  | hget ((loc_id, ?o) :: ?h) loc_id => rewrite (hget_loc_loc o h)
  | hget ((loc_id, ?o) :: ?h) self_id => rewrite (hget_loc_self o h)
  | val_is ?v VNone => rewrite (val_is_none_r v)
  | val_is _ _ => cbv delta [val_is]
  | exc_matches repl_prog ?x ?cls =>
      lazymatch goal with
      | H : exc_matches repl_prog x cls = _ |- _ => rewrite H
      | _ => destruct (exc_matches repl_prog x cls) eqn:?
      end
  | nth_input ?l ?i =>
      lazymatch goal with
      | H : nth_input l i = _ |- _ => rewrite H
      end
  | is_none ?v => first [ is_var v; destruct (is_none v) eqn:? | cbv delta [is_none] ]
  | ?f ?v =>
      lazymatch type of f with
      | out_script => destruct (f v) eqn:?
      end
  end.

Lemma session_oracle_unfold inputs out n g args kw h :
  session_oracle inputs out n g args kw h =
  ltac:(let t := eval cbv beta delta [session_oracle] in (session_oracle inputs out n g args kw h) in exact t).
Proof. reflexivity. Qed.
Ltac rx_oracle := fun O n g a kw h =>
  lazymatch O with
  | session_oracle ?inputs ?out => rewrite (session_oracle_unfold inputs out n g a kw h)
  end.

Ltac rx_go := repeat (sx_step rx_oracle rx_other; rx_red; rx_dict; rx_red).
