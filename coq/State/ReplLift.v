(* C40 -- the generated REPL code implements the abstract machine [step]: for EVERY value of
   last_value / *1 / *2 / *3 / *e / _hy_exc_info, every other variable of the namespace, every other
   heap object, every log, every result value and exception object, every output script, and every
   class hierarchy in which SystemExit and the non-Exception BaseExceptions are not Hy language errors.
   Method: the heap's REPL part is a concrete prefix, the oracle of one input is a function of that
   input, so the whole run is one computation whose only undetermined tests are the ones [step]
   itself makes; the decision tree is walked and each leaf closed by reflexivity. *)
From HyV Require Import State.Repl.

Definition rs (lv : val) (pf : bool) (a b c e : val) : rstate :=
  {| r_last := lv; r_print := pf; r_1 := a; r_2 := b; r_3 := c; r_e := e |}.

Definition refines (m : val -> list string -> bool) (out : out_script) (inp : input) : Prop :=
  forall lv pf gv a b c e info rest h0 log,
  exists gv' info' log',
    let rr := step m out inp (rs lv pf a b c e) in
    let r' := fst rr in
    run1 m inp out (mkheap lv pf gv a b c e info rest h0, log) =
    (match snd rr with inl b => EOk (VBool b) | inr x => EExc x end)
      (mkheap (r_last r') (r_print r') gv' (r_1 r') (r_2 r') (r_3 r') (r_e r') info' rest h0, log').

(* what the class hierarchy guarantees: SystemExit and the non-Exception BaseExceptions are not Hy
   language errors (every HyLanguageError is an Exception and not a SystemExit) *)
Definition sane (m : val -> list string -> bool) : Prop :=
  forall x, m x ["SystemExit"] = true \/ m x ["Exception"] = false ->
    m x ["HyMacroExpansionError"; "HyRequireError"] = false /\ m x ["HyLanguageError"] = false.

Ltac walk :=
  repeat match goal with
  | |- context [match ?x with _ => _ end] =>
      first [ is_var x; destruct x
            | match x with
              | ?m ?v ?l => match type of m with (val -> list string -> bool) => destruct (m v l) eqn:? end
              | ?f ?v => match type of f with out_script => destruct (f v) eqn:? end
              end ];
      cbv beta iota
  end.
Ltac leaf := eexists; eexists; eexists; reflexivity.
Ltac insane S :=
  exfalso;
  match goal with
  | H : ?m ?x ["SystemExit"] = true |- _ => destruct (S x (or_introl H)) as [A B]; congruence
  | H : ?m ?x ["Exception"] = false |- _ => destruct (S x (or_intror H)) as [A B]; congruence
  end.

Lemma refines_incomplete m out : refines m out IIncomplete.
Proof.
  intros lv pf gv a b c e info rest h0 log. unfold run1, mkheap, rs. vm_compute. leaf.
Qed.

Lemma refines_value m out v : refines m out (IValue v).
Proof.
  intros lv pf gv a b c e info rest h0 log. unfold run1, mkheap, rs.
  destruct v; vm_compute; walk.
  all: leaf.
Qed.

Lemma refines_compile_error m out x : refines m out (ICompileError x).
Proof.
  intros lv pf gv a b c e info rest h0 log. unfold run1, mkheap, rs.
  vm_compute; walk.
  all: leaf.
Qed.

Lemma refines_run_error m out x first : sane m -> refines m out (IRunError x first).
Proof.
  intros S lv pf gv a b c e info rest h0 log. unfold run1, mkheap, rs.
  destruct first; vm_compute; walk.
  all: first [ leaf | insane S ].
Qed.

Theorem generated_code_implements_step m out inp : sane m -> refines m out inp.
Proof.
  intros S. destruct inp.
  - apply refines_incomplete.
  - apply refines_value.
  - apply refines_compile_error.
  - apply refines_run_error; exact S.
Qed.

(* the generated class table is sane *)
Definition sane_list (l : list string) : bool :=
  implb (strmem "SystemExit" l || negb (strmem "Exception" l))
        (negb (strmem "HyMacroExpansionError" l || strmem "HyRequireError" l) && negb (strmem "HyLanguageError" l)).
Lemma table_rows_sane : forallb (fun p => sane_list (snd p)) repl_mro = true.
Proof. vm_compute. reflexivity. Qed.

Lemma aget_In {A} x (l : list (string * A)) v : aget x l = Some v -> In (x, v) l.
Proof.
  induction l as [|[y w] r IH]; cbn [aget]; [discriminate|].
  destruct (String.eqb_spec x y) as [->|_]; [intros [= ->]; left; reflexivity | intros H; right; exact (IH H)].
Qed.

Lemma table_sane : sane table.
Proof.
  intros x H. unfold table, table_match in *.
  destruct x; try (split; reflexivity).
  set (l := match aget cls repl_mro with Some l => l | None => [cls; "Exception"; "BaseException"] end) in *.
  assert (SL : sane_list l = true).
  { subst l. destruct (aget cls repl_mro) as [l0|] eqn:E.
    - apply aget_In in E. pose proof table_rows_sane as T. rewrite forallb_forall in T. exact (T _ E).
    - destruct (String.eqb_spec "SystemExit" cls) as [<-|N]; [vm_compute; reflexivity|].
      apply String.eqb_neq in N. unfold sane_list, strmem. cbn [existsb]. rewrite N.
      destruct (String.eqb "Exception" cls); reflexivity. }
  unfold sane_list in SL. cbn [existsb] in H |- *. rewrite !orb_false_r in H |- *.
  assert (P : strmem "SystemExit" l || negb (strmem "Exception" l) = true).
  { destruct H as [H|H]; rewrite H; [reflexivity | apply orb_true_r]. }
  rewrite P in SL. cbn [implb] in SL. apply andb_true_iff in SL. destruct SL as [S1 S2].
  apply negb_true_iff in S1. apply negb_true_iff in S2. split; assumption.
Qed.
