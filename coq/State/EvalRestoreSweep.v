(* C39 -- scripted callees and a printable summary, used (1) by the harness to run the generated
   body on the same configurations as the real hy_eval_user (correspondence) and (2) as the finite
   sweep that names a failing configuration when a proof over the generated body breaks.
   Depends only on the semantics and the generated term, not on any proof. *)
From HyV Require Import State.EvalRestore.

(* what the scripted hy_eval does to the dictionary it receives as locals *)
Inductive act := ANone | ASet | ADel | ASetOther | ASetDel.

Record script := {
  s_chain_raises : bool;    (* the inspect... chain raises *)
  s_gcm_raises : bool;      (* get_compiler_module raises TypeError *)
  s_act : act;
  s_eval_raises : bool      (* hy_eval raises ZeroDivisionError after acting *)
}.

Definition new_hy : val := VRef 300.
Definition caller_locals : N := 200.

Definition apply_act (a : act) (kvs : list (val * val)) : list (val * val) :=
  match a with
  | ANone => kvs
  | ASet => dset hy new_hy kvs
  | ADel => ddel hy kvs
  | ASetOther => dset (VStr "y") (VInt 1) kvs
  | ASetDel => ddel hy (dset hy new_hy kvs)
  end.

Definition script_oracle (sc : script) : oracle := fun n g args kw h =>
  if String.eqb g "hy_eval" then
    let h' := match aget "locals" kw with
              | Some (VRef l) => match hget h l with
                                 | Some (ODict kvs) => hset h l (ODict (apply_act (s_act sc) kvs))
                                 | _ => h
                                 end
              | _ => h
              end in
    BDone h' (if s_eval_raises sc then ORaise (VExc "ZeroDivisionError" 1) else ORet (VInt 42))
  else if String.eqb g "get_compiler_module" then
    BDone h (if s_gcm_raises sc then ORaise (VExc "TypeError" 2) else ORet (VRef 400))
  else
    BDone h (if s_chain_raises sc then ORaise (VExc "RuntimeError" 3) else ORet (VRef caller_locals)).

(* printable codes *)
Definition vcode (v : val) : Z :=
  match v with
  | VNone => 0%Z
  | VRef n => (1000 + Z.of_N n)%Z
  | VInt z => (2000 + z)%Z
  | VBool true => 3%Z | VBool false => 4%Z
  | _ => (-1)%Z
  end.
Definition ecode (h : heap) (d : N) : Z :=
  match hy_entry h d with
  | None => (-2)%Z
  | Some None => (-3)%Z
  | Some (Some v) => vcode v
  end.
Definition keys_of (h : heap) (d : N) : list val :=
  match hget h d with Some (ODict kvs) => map fst kvs | _ => [] end.
Definition ev_code (ev : event) : string * list Z * list (string * Z) :=
  (fst (fst ev), map vcode (snd (fst ev)), map (fun p => (fst p, vcode (snd p))) (snd ev)).

(* (outcome, value or exception class, hy entry of dict 5, of dict 6, keys of 5, keys of 6, log oldest first) *)
Definition summary (r : eres) :=
  match r with
  | EOk v (h, log) => ("ok", vcode v, "", ecode h 5, ecode h 6, keys_of h 5, keys_of h 6, map ev_code (rev log))
  | EExc (VExc c _) (h, log) => ("exc", 0%Z, c, ecode h 5, ecode h 6, keys_of h 5, keys_of h 6, map ev_code (rev log))
  | EExc _ (h, log) => ("exc", 0%Z, "?", ecode h 5, ecode h 6, keys_of h 5, keys_of h 6, map ev_code (rev log))
  | ETimeout => ("timeout", 0%Z, "", 0%Z, 0%Z, [], [], [])
  | EStuck m => ("stuck", 0%Z, m, 0%Z, 0%Z, [], [], [])
  end.

(* the finite sweep: dictionaries 5 (globals) and 6 (locals), each empty / with another key / with hy *)
Definition dict_variants (old : N) : list (list (val * val)) :=
  [ []; [(VStr "x", VInt 0)]; [(hy, VRef old)]; [(VStr "x", VInt 0); (hy, VRef old)] ].
Definition all_scripts : list script :=
  flat_map (fun c => flat_map (fun g => flat_map (fun a => map (fun e =>
     {| s_chain_raises := c; s_gcm_raises := g; s_act := a; s_eval_raises := e |}) [false; true])
     [ANone; ASet; ADel; ASetOther; ASetDel]) [false; true]) [false; true].

Definition restored_ok (h0 : heap) (r : eres) : bool :=
  match r with
  | EOk _ (h, _) | EExc _ (h, _) => Z.eqb (ecode h 5) (ecode h0 5) && Z.eqb (ecode h 6) (ecode h0 6)
  | _ => false
  end.

Definition sweep_case (sc : script) (dg dl : list (val * val)) (vg vl vm : val) : bool :=
  let h0 := [(5%N, ODict dg); (6%N, ODict dl); (caller_locals, ODict [])] in
  match vg, vl with
  | VNone, VNone => true
  | _, _ => restored_ok h0 (call_user (script_oracle sc) user_fuel (VStr "model") vg vl vm VNone (h0, []))
  end.

Definition sweep_all : bool :=
  forallb (fun sc => forallb (fun dg => forallb (fun dl => forallb (fun vg => forallb (fun vl => forallb (fun vm =>
    sweep_case sc dg dl vg vl vm) [VNone; VRef 400]) [VNone; VRef 5; VRef 6]) [VNone; VRef 5])
    (dict_variants 8)) (dict_variants 7)) all_scripts.
