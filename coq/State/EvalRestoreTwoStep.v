(* C39 -- hy_eval's two-step exec / eval, on the generated body of hy_eval
   (Gen/StateEvalTerm.v: hy_eval_def), with get_compiler_module, getattr,
   hy_compile, compile and eval opaque. *)
From HyV Require Import State.EvalRestore State.EvalRestoreSymex.
Local Opaque interp.

Definition eval2_prog : prog := {| pfuns := [("hy_eval", hy_eval_def)]; pmro := []; pvars := [] |}.

(* the body splits into a prefix (module / filename / source / hy_compile / globals defaulting)
   and its last two statements *)
Definition hy_eval_prefix : list stmt := firstn (List.length (fbody hy_eval_def) - 2) (fbody hy_eval_def).
Definition hy_eval_suffix : list stmt := skipn (List.length (fbody hy_eval_def) - 2) (fbody hy_eval_def).
Lemma hy_eval_body_splits : fbody hy_eval_def = (hy_eval_prefix ++ hy_eval_suffix)%list.
Proof. symmetry. apply firstn_skipn. Qed.

(* the prefix is straight-line code (no return, so the suffix is reached whenever the prefix completes)
   that binds _ast and expr, in this order, from ONE call of hy_compile made with get_expr=True *)
Definition simple_stmt (c : stmt) : bool :=
  match c with
  | SAssign _ _ | SExpr _ | SGlobal _ | SPass => true
  | _ => false
  end.
Fixpoint no_return (cs : list stmt) : bool :=
  match cs with
  | [] => true
  | SIf _ a b :: r => forallb simple_stmt a && forallb simple_stmt b && no_return r
  | c :: r => simple_stmt c && no_return r
  end.
Definition binds_ast_expr (c : stmt) : bool :=
  match c with
  | SAssign (TTuple [TName "_ast"; TName "expr"]) (ECall (EGlob "hy_compile") _ kw) =>
      match aget "get_expr" kw with Some (EConst CTrue) => true | _ => false end
  | _ => false
  end.
Example prefix_shape : no_return hy_eval_prefix = true /\ existsb binds_ast_expr hy_eval_prefix = true.
Proof. vm_compute. split; reflexivity. Qed.

Definition nonreentrant (Orc : oracle) : Prop :=
  forall n g args kw h, exists h' r, Orc n g args kw h = BDone h' r.

Definition answered (Orc : oracle) (ev : event) (rest : list event) (r : ores) : Prop :=
  exists hh h2, Orc (log_len rest) (fst (fst ev)) (snd (fst ev)) (snd ev) hh = BDone h2 r.

(* the environment after the prefix: the parameters, then _ast and expr *)
Definition env_after (hytree vL module compiler fn source istd vG xm a e : val) : env :=
  [("hytree", hytree); ("locals", vL); ("module", module); ("compiler", compiler); ("filename", fn);
   ("source", source); ("import_stdlib", istd); ("globals", vG); ("extra_macros", xm); ("_ast", a); ("expr", e)].

Definition ev_compile (x fn : val) (mode : string) : event := ("compile", [x; fn; VStr mode], []).
Definition ev_eval (code vG vL : val) : event := ("eval", [code; vG; vL], []).

(* What the last two statements do, whatever the callees answer:
   compile(_ast, filename, "exec"); eval(that, globals, locals);
   compile(expr, filename, "eval"); eval(that, THE SAME globals, THE SAME locals) -- in this order --
   and the function returns exactly the second eval's answer.  An exception is the one raised by the
   most recent of these four calls, and nothing after it ran. *)
Definition post_two_step (Orc : oracle) (a e fn vG vL : val) (log : list event) (r : sres) : Prop :=
  match r with
  | SR (CRet v) _ (_, log') =>
      exists c1 c2, log' = ev_eval c2 vG vL :: ev_compile e fn "eval" :: ev_eval c1 vG vL :: ev_compile a fn "exec" :: log
        /\ answered Orc (ev_compile a fn "exec") log (ORet c1)
        /\ answered Orc (ev_compile e fn "eval") (ev_eval c1 vG vL :: ev_compile a fn "exec" :: log) (ORet c2)
        /\ answered Orc (ev_eval c2 vG vL) (ev_compile e fn "eval" :: ev_eval c1 vG vL :: ev_compile a fn "exec" :: log) (ORet v)
  | SR (CExc x) _ (_, ev :: rest) =>
      answered Orc ev rest (ORaise x) /\
      (rest = log /\ ev = ev_compile a fn "exec"
       \/ (exists c1, rest = ev_compile a fn "exec" :: log /\ ev = ev_eval c1 vG vL)
       \/ (exists c1, rest = ev_eval c1 vG vL :: ev_compile a fn "exec" :: log /\ ev = ev_compile e fn "eval")
       \/ (exists c1 c2, rest = ev_compile e fn "eval" :: ev_eval c1 vG vL :: ev_compile a fn "exec" :: log
                         /\ ev = ev_eval c2 vG vL))
  | _ => False
  end.

Ltac sx_oracle_nr F :=
  fun O n g a kw h =>
    let h' := fresh "h'" in let r := fresh "r" in let E := fresh "E" in
    destruct (F n g a kw h) as (h' & r & E); rewrite E; destruct r.

Ltac leaf2 :=
  cbv beta iota delta [post_two_step answered ev_compile ev_eval fst snd];
  repeat match goal with
  | |- _ /\ _ => split
  | |- exists _, _ => eexists
  end;
  first [ eassumption | reflexivity
        | left; split; reflexivity
        | right; left; eexists; split; reflexivity
        | right; right; left; eexists; split; reflexivity
        | right; right; right; eexists; eexists; split; reflexivity ].

Theorem hy_eval_last_two_steps Orc (F : nonreentrant Orc) hytree vL module compiler fn source istd vG xm a e h log :
  post_two_step Orc a e fn vG vL log
    (exec_block eval2_prog Orc 30 (env_after hytree vL module compiler fn source istd vG xm a e)
       hy_eval_suffix (h, log)).
Proof.
  unfold exec_block, eval2_prog, env_after.
  let t := eval vm_compute in hy_eval_suffix in change hy_eval_suffix with t.
  repeat (sx_step ltac:(sx_oracle_nr F) ltac:(fun hd => fail); sx_red).
  all: leaf2.
Qed.
