(* C39 -- hy_eval's two-step exec / eval, on the generated body of hy_eval
   (Gen/StateEvalTerm.v: hy_eval_def), with get_compiler_module, getattr,
   hy_compile, compile and eval opaque. *)
From HyV Require Import State.EvalRestore State.EvalRestoreParam.

Definition eval2_prog : prog := {| pfuns := [("hy_eval", hy_eval_def)]; pmro := []; pvars := []; pmatch := table_match [] |}.

(* the body splits into a prefix (module / filename / source / hy_compile / globals defaulting)
   and its last two statements *)
Definition hy_eval_prefix : list stmt := firstn (List.length (fbody hy_eval_def) - 2) (fbody hy_eval_def).
Definition hy_eval_suffix : list stmt := skipn (List.length (fbody hy_eval_def) - 2) (fbody hy_eval_def).
Lemma hy_eval_body_splits : fbody hy_eval_def = (hy_eval_prefix ++ hy_eval_suffix)%list.
Proof. symmetry. apply firstn_skipn. Qed.

(* the prefix is straight-line code (no return, so the suffix is reached whenever the prefix completes)
   that binds _ast and expr, in this order, from ONE call of hy_compile made with get_expr=True *)
Definition simple_stmt (c : stmt) : bool :=
  match c with
  | SAssign _ _ | SExpr _ | SGlobal _ | SPass => true
  | _ => false
  end.
Fixpoint no_return (cs : list stmt) : bool :=
  match cs with
  | [] => true
  | SIf _ a b :: r => forallb simple_stmt a && forallb simple_stmt b && no_return r
  | c :: r => simple_stmt c && no_return r
  end.
Definition binds_ast_expr (c : stmt) : bool :=
  match c with
  | SAssign (TTuple [TName "_ast"; TName "expr"]) (ECall (EGlob "hy_compile") _ kw) =>
      match aget "get_expr" kw with Some (EConst CTrue) => true | _ => false end
  | _ => false
  end.
Example prefix_shape : no_return hy_eval_prefix = true /\ existsb binds_ast_expr hy_eval_prefix = true.
Proof. vm_compute. split; reflexivity. Qed.

Definition answered2 (O : pure_oracle) (ev : event) (rest : list event) (r : ores) : Prop :=
  exists hh, snd (O (log_len rest) (fst (fst ev)) (snd (fst ev)) (snd ev) hh) = r.

(* the environment after the prefix: the parameters, then _ast and expr *)
Definition env_after (hytree vL module compiler fn source istd vG xm a e : val) : env :=
  [("hytree", hytree); ("locals", vL); ("module", module); ("compiler", compiler); ("filename", fn);
   ("source", source); ("import_stdlib", istd); ("globals", vG); ("extra_macros", xm); ("_ast", a); ("expr", e)].

Definition ev_compile (x fn : val) (mode : string) : event := ("compile", [x; fn; VStr mode], []).
Definition ev_eval (code vG vL : val) : event := ("eval", [code; vG; vL], []).

(* What the last two statements do, whatever the callees answer:
   compile(_ast, filename, "exec"); eval(that, globals, locals);
   compile(expr, filename, "eval"); eval(that, THE SAME globals, THE SAME locals) -- in this order --
   and the function returns exactly the second eval's answer.  An exception is the one raised by the
   most recent of these four calls, and nothing after it ran. *)
Definition post_two_step (O : pure_oracle) (a e fn vG vL : val) (log : list event) (r : sres) : Prop :=
  match r with
  | SR (CRet v) _ (_, log') =>
      exists c1 c2, log' = ev_eval c2 vG vL :: ev_compile e fn "eval" :: ev_eval c1 vG vL :: ev_compile a fn "exec" :: log
        /\ answered2 O (ev_compile a fn "exec") log (ORet c1)
        /\ answered2 O (ev_compile e fn "eval") (ev_eval c1 vG vL :: ev_compile a fn "exec" :: log) (ORet c2)
        /\ answered2 O (ev_eval c2 vG vL) (ev_compile e fn "eval" :: ev_eval c1 vG vL :: ev_compile a fn "exec" :: log) (ORet v)
  | SR (CExc x) _ (_, ev :: rest) =>
      answered2 O ev rest (ORaise x) /\
      (rest = log /\ ev = ev_compile a fn "exec"
       \/ (exists c1, rest = ev_compile a fn "exec" :: log /\ ev = ev_eval c1 vG vL)
       \/ (exists c1, rest = ev_eval c1 vG vL :: ev_compile a fn "exec" :: log /\ ev = ev_compile e fn "eval")
       \/ (exists c1 c2, rest = ev_compile e fn "eval" :: ev_eval c1 vG vL :: ev_compile a fn "exec" :: log
                         /\ ev = ev_eval c2 vG vL))
  | _ => False
  end.

Ltac sx_oracle_nr := fun O n g a kw h =>
  let p := fresh "p" in let E := fresh "E" in let h' := fresh "h'" in let r := fresh "r" in
  remember (O n g a kw h) as p eqn:E in *;
  destruct p as [h' r]; cbn [fst snd] in *.

Ltac answer2 :=
  match goal with
  | E : (_, _) = ?O ?n ?g ?a ?kw ?h |- _ => exists h; rewrite <- E; reflexivity
  end.
Ltac leaf2 :=
  cbv beta iota delta [post_two_step answered2 ev_compile ev_eval fst snd event] in *;
  lazymatch goal with
  | |- exists c1 c2, _ => eexists; eexists; split; [reflexivity|]; split; [answer2|]; split; answer2
  | |- _ /\ _ =>
      split;
      [ answer2
      | first [ left; split; reflexivity
              | right; left; eexists; split; reflexivity
              | right; right; left; eexists; split; reflexivity
              | right; right; right; eexists; eexists; split; reflexivity ] ]
  end.

Definition two_step_fuel : nat := 30.

Lemma last_two_steps_wp O hytree vL module compiler fn source istd vG xm a e h log :
  let Q := post_two_step O a e fn vG vL log in
  exec_block eval2_prog (nr O) Prop False (fun _ => False) two_step_fuel
    (env_after hytree vL module compiler fn source istd vG xm a e) hy_eval_suffix (h, log)
    (fun en' s' => Q (SR CNorm en' s')) (fun v en' s' => Q (SR (CRet v) en' s')) (fun x en' s' => Q (SR (CExc x) en' s')).
Proof.
  cbv zeta. unfold env_after, two_step_fuel.
  let t := eval vm_compute in hy_eval_suffix in change hy_eval_suffix with t.
  repeat px_step ltac:(px_cbv tt) sx_oracle_nr ltac:(fun hd => fail).
  all: leaf2.
Qed.

Theorem hy_eval_last_two_steps O hytree vL module compiler fn source istd vG xm a e h log :
  post_two_step O a e fn vG vL log
    (run_block eval2_prog (nr O) two_step_fuel
       (env_after hytree vL module compiler fn source istd vG xm a e) hy_eval_suffix (h, log)).
Proof. apply wp_block_sound. apply last_two_steps_wp. Qed.
