(* C39, case: globals given, locals not. *)
From HyV Require Import State.EvalRestoreTactics.

Lemma case_globals_only O (F : frame_ok O) g kvs m vm vmac h log :
  hget h g = Some (ODict kvs) ->
  wp_user O user_fuel m (VRef g) VNone vm vmac (h, log) (post_both O m (VRef g) VNone vmac h).
Proof.
  intros Hg. unfold wp_user, user_fuel, user_kw.
  sx_go F.
  all: leaf.
Qed.
