(* C39, case: globals given, locals not. *)
From HyV Require Import State.EvalRestoreTactics.
Local Opaque interp.

Lemma case_globals_only Orc (F : frame_ok Orc) g kvs m vm vmac h log :
  hget h g = Some (ODict kvs) ->
  post_both Orc m (VRef g) VNone vmac h (call_user Orc user_fuel m (VRef g) VNone vm vmac (h, log)).
Proof.
  intros Hg. unfold call_user, call_fun, user_fuel, user_kw, user_prog, hy_eval_user_def.
  sx_go F.
  all: leaf.
Qed.
