(* C40 -- one input on which the compiler raises. *)
From HyV Require Import State.ReplTactics State.ReplStep.
Local Opaque interp.

Lemma step_compile_error inputs out i h log lv pf a b c rest x :
  nth_input inputs i = Some (ICompileError x) -> repl_heap h lv pf a b c rest ->
  holds (refine_post (step out (ICompileError x) (rs lv pf a b c rest))) (run_input inputs out i (h, log)).
Proof.
  intros Hn [Hs Hl]. start.
  rx_go.
  all: leaf40.
Qed.

