(* C39, case: neither globals nor locals given, but a module (evaluation happens in the module's
   namespace; only the value part is claimed). *)
From HyV Require Import State.EvalRestoreTactics.

Ltac sx_eval_nois := px_cbv_nois tt; cbv delta [hy_eval_user_def]; px_cbv_nois tt.

Lemma case_none_module O (F : frame_ok O) m vm vmac h log :
  val_is vm VNone = Some false ->
  wp_user O user_fuel m VNone VNone vm vmac (h, log) (post_value O m VNone VNone vmac).
Proof.
  intros Hvm. unfold wp_user, user_fuel, user_kw.
  repeat px_step sx_eval_nois ltac:(sx_oracle F) px_is.
  all: first [ exfalso; cbn [dget] in *; congruence | leaf_value ].
Qed.
