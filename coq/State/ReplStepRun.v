(* C40 -- one input whose execution raises. *)
From HyV Require Import State.ReplTactics State.ReplStep.
Local Opaque interp.

Lemma step_run_error inputs out i h log lv pf a b c rest x first :
  nth_input inputs i = Some (IRunError x first) -> repl_heap h lv pf a b c rest ->
  holds (refine_post (step out (IRunError x first) (rs lv pf a b c rest))) (run_input inputs out i (h, log)).
Proof.
  intros Hn [Hs Hl]. start.
  rx_go.
  all: leaf40.
Qed.
