(* The interpreter is parametric in its answer type: runs at two answer types with related
   final continuations give related answers.  Instances: monotonicity of the
   postcondition-as-continuation reading (A = B = Prop, R = implication) and its soundness with
   respect to the result-returning run (A = Prop, B = eres, R p r = p -> Q r). *)
From HyV Require Import State.EvalRestoreSem State.EvalRestoreEqsExpr State.EvalRestoreEqs.

Section Param.
Variables (P : prog) (Orc : oracle).
Variables (A B : Type) (tA : A) (sA : string -> A) (tB : B) (sB : string -> B).
Variable R : A -> B -> Prop.
Hypothesis Rt : R tA tB.
Hypothesis Rs : forall m, R (sA m) (sB m).

Notation K1 X := (fun (k : X -> A) (k' : X -> B) => forall x, R (k x) (k' x)).
Definition r1 {X} (k : X -> A) (k' : X -> B) := forall x, R (k x) (k' x).
Definition r2 {X Y} (k : X -> Y -> A) (k' : X -> Y -> B) := forall x y, R (k x y) (k' x y).
Definition r3 {X Y Z} (k : X -> Y -> Z -> A) (k' : X -> Y -> Z -> B) := forall x y z, R (k x y z) (k' x y z).

Lemma truthy_param h v k k' : r1 k k' -> R (truthy_k A sA h v k) (truthy_k B sB h v k').
Proof. intros H. unfold truthy_k. destruct (truthy h v); [apply H | apply Rs]. Qed.

Lemma nth_param vs z k k' kx kx' : r1 k k' -> r1 kx kx' -> R (nth_k A sA vs z k kx) (nth_k B sB vs z k' kx').
Proof.
  intros H Hx. unfold nth_k. destruct (z <? 0)%Z; [apply Rs|]. destruct (nth_error vs (Z.to_nat z)); [apply H | apply Hx].
Qed.

Lemma subscript_param h v key k k' kx kx' :
  r1 k k' -> r1 kx kx' -> R (subscript_k A sA h v key k kx) (subscript_k B sB h v key k' kx').
Proof.
  intros H Hx. unfold subscript_k.
  destruct v; try apply Hx; try apply Rs.
  - destruct key; try apply Hx. apply nth_param; assumption.
  - destruct (hget h id) as [[kvs|vs|vs|c a|]|]; try apply Hx; try apply Rs.
    + destruct (dget key kvs); [apply H | apply Hx].
    + destruct key; try apply Hx. apply nth_param; assumption.
Qed.

Lemma contains_param h key c k k' kx kx' :
  r1 k k' -> r1 kx kx' -> R (contains_k A sA h key c k kx) (contains_k B sB h key c k' kx').
Proof.
  intros H Hx. unfold contains_k.
  destruct c; try apply Hx; try apply Rs; try apply H.
  destruct (hget h id) as [[kvs|vs|vs|c a|]|]; try apply H; try apply Rs.
Qed.

Lemma builtin_param h i o m args k k' kx kx' :
  r2 k k' -> r1 kx kx' -> R (builtin_method_k A sA h i o m args k kx) (builtin_method_k B sB h i o m args k' kx').
Proof.
  intros H Hx. unfold builtin_method_k.
  repeat match goal with
  | |- R (match ?x with _ => _ end) (match ?x with _ => _ end) => destruct x
  | |- R (if ?x then _ else _) (if ?x then _ else _) => destruct x
  end; try apply H; try apply Hx; try apply Rs.
Qed.

Lemma dispatch_param c en s kn kn' kr kr' kx kx' :
  r2 kn kn' -> r3 kr kr' -> r3 kx kx' -> R (dispatch A c en s kn kr kx) (dispatch B c en s kn' kr' kx').
Proof. intros H1 H2 H3. destruct c; cbn; [apply H1 | apply H2 | apply H3]. Qed.


(* ---- expressions *)
Section Expr.
Variables (blkA : env -> list stmt -> st -> (env -> st -> A) -> (val -> env -> st -> A) -> (val -> env -> st -> A) -> A)
          (blkB : env -> list stmt -> st -> (env -> st -> B) -> (val -> env -> st -> B) -> (val -> env -> st -> B) -> B).
Hypothesis Rblk : forall en cs s kn kn' kr kr' kx kx',
  r2 kn kn' -> r3 kr kr' -> r3 kx kx' -> R (blkA en cs s kn kr kx) (blkB en cs s kn' kr' kx').

Notation evalA := (eval P Orc A tA sA blkA).       Notation evalB := (eval P Orc B tB sB blkB).
Notation evalsA := (evals P Orc A tA sA blkA).     Notation evalsB := (evals P Orc B tB sB blkB).
Notation evalkwA := (evalkw P Orc A tA sA blkA).   Notation evalkwB := (evalkw P Orc B tB sB blkB).
Notation ocallA := (ocall P Orc A tA sA blkA).     Notation ocallB := (ocall P Orc B tB sB blkB).
Notation run_behA := (run_beh P Orc A tA sA blkA). Notation run_behB := (run_beh P Orc B tB sB blkB).
Notation call_valueA := (call_value P Orc A tA sA blkA).   Notation call_valueB := (call_value P Orc B tB sB blkB).
Notation call_methodA := (call_method P Orc A tA sA blkA). Notation call_methodB := (call_method P Orc B tB sB blkB).
Notation call_funA := (call_fun P Orc A tA sA blkA).       Notation call_funB := (call_fun P Orc B tB sB blkB).
Notation assignA := (assign P Orc A tA sA blkA).   Notation assignB := (assign P Orc B tB sB blkB).
Notation assignsA := (assigns P Orc A tA sA blkA). Notation assignsB := (assigns P Orc B tB sB blkB).

Record expr_ok (f : nat) : Prop := {
  ok_eval : forall en e s k k' kx kx', r2 k k' -> r2 kx kx' -> R (evalA f en e s k kx) (evalB f en e s k' kx');
  ok_evals : forall en es s k k' kx kx', r2 k k' -> r2 kx kx' -> R (evalsA f en es s k kx) (evalsB f en es s k' kx');
  ok_evalkw : forall en kw s k k' kx kx', r2 k k' -> r2 kx kx' -> R (evalkwA f en kw s k kx) (evalkwB f en kw s k' kx');
  ok_ocall : forall g a kw s k k' kx kx', r2 k k' -> r2 kx kx' -> R (ocallA f g a kw s k kx) (ocallB f g a kw s k' kx');
  ok_run_beh : forall b n k k' kx kx', r2 k k' -> r2 kx kx' -> R (run_behA f b n k kx) (run_behB f b n k' kx');
  ok_call_value : forall c v a kw s k k' kx kx', r2 k k' -> r2 kx kx' ->
    R (call_valueA f c v a kw s k kx) (call_valueB f c v a kw s k' kx');
  ok_call_method : forall c v m a kw s k k' kx kx', r2 k k' -> r2 kx kx' ->
    R (call_methodA f c v m a kw s k kx) (call_methodB f c v m a kw s k' kx');
  ok_call_fun : forall c n fd a kw s k k' kx kx', r2 k k' -> r2 kx kx' ->
    R (call_funA f c n fd a kw s k kx) (call_funB f c n fd a kw s k' kx');
  ok_assign : forall en t v s kn kn' kx kx', r2 kn kn' -> r3 kx kx' ->
    R (assignA f en t v s kn kx) (assignB f en t v s kn' kx');
  ok_assigns : forall en ts vs s kn kn' kx kx', r2 kn kn' -> r3 kx kx' ->
    R (assignsA f en ts vs s kn kx) (assignsB f en ts vs s kn' kx')
}.

(* generic step: peel identical case analyses, use relatedness of continuations and the induction hypothesis *)
Ltac par IH :=
  repeat first
  [ apply Rt | apply Rs | progress cbv zeta
  | match goal with
    | |- r1 _ _ => let x := fresh in intro x
    | |- r2 _ _ => let x := fresh in let y := fresh in intros x y
    | |- r3 _ _ => let x := fresh in let y := fresh in let z := fresh in intros x y z
    | H : r2 ?k ?k' |- R (?k _ _) (?k' _ _) => apply H
    | H : r3 ?k ?k' |- R (?k _ _ _) (?k' _ _ _) => apply H
    | H : r1 ?k ?k' |- R (?k _) (?k' _) => apply H
    | |- R (truthy_k _ _ _ _ _) (truthy_k _ _ _ _ _) => apply truthy_param
    | |- R (subscript_k _ _ _ _ _ _ _) (subscript_k _ _ _ _ _ _ _) => apply subscript_param
    | |- R (contains_k _ _ _ _ _ _ _) (contains_k _ _ _ _ _ _ _) => apply contains_param
    | |- R (builtin_method_k _ _ _ _ _ _ _ _ _) (builtin_method_k _ _ _ _ _ _ _ _ _) => apply builtin_param
    | |- R (eval _ _ _ _ _ _ ?f _ _ _ _ _) (eval _ _ _ _ _ _ ?f _ _ _ _ _) => apply (ok_eval f IH)
    | |- R (evals _ _ _ _ _ _ ?f _ _ _ _ _) (evals _ _ _ _ _ _ ?f _ _ _ _ _) => apply (ok_evals f IH)
    | |- R (evalkw _ _ _ _ _ _ ?f _ _ _ _ _) (evalkw _ _ _ _ _ _ ?f _ _ _ _ _) => apply (ok_evalkw f IH)
    | |- R (ocall _ _ _ _ _ _ ?f _ _ _ _ _ _) (ocall _ _ _ _ _ _ ?f _ _ _ _ _ _) => apply (ok_ocall f IH)
    | |- R (run_beh _ _ _ _ _ _ ?f _ _ _ _) (run_beh _ _ _ _ _ _ ?f _ _ _ _) => apply (ok_run_beh f IH)
    | |- R (call_value _ _ _ _ _ _ ?f _ _ _ _ _ _ _) (call_value _ _ _ _ _ _ ?f _ _ _ _ _ _ _) => apply (ok_call_value f IH)
    | |- R (call_method _ _ _ _ _ _ ?f _ _ _ _ _ _ _ _) (call_method _ _ _ _ _ _ ?f _ _ _ _ _ _ _ _) => apply (ok_call_method f IH)
    | |- R (call_fun _ _ _ _ _ _ ?f _ _ _ _ _ _ _ _) (call_fun _ _ _ _ _ _ ?f _ _ _ _ _ _ _ _) => apply (ok_call_fun f IH)
    | |- R (assign _ _ _ _ _ _ ?f _ _ _ _ _ _) (assign _ _ _ _ _ _ ?f _ _ _ _ _ _) => apply (ok_assign f IH)
    | |- R (assigns _ _ _ _ _ _ ?f _ _ _ _ _ _) (assigns _ _ _ _ _ _ ?f _ _ _ _ _ _) => apply (ok_assigns f IH)
    | |- R (blkA _ _ _ _ _ _) (blkB _ _ _ _ _ _) => apply Rblk
    | |- R (match ?x with _ => _ end) (match ?x with _ => _ end) => destruct x
    | |- R (if ?x then _ else _) (if ?x then _ else _) => destruct x
    | |- R (let (_, _) := ?x in _) (let (_, _) := ?x in _) => destruct x
    end ].

Lemma expr_param : forall f, expr_ok f.
Proof.
  induction f as [|f IH].
  - constructor; intros; cbn; apply Rt.
  - constructor; intros.
    + rewrite (eval_eq P Orc A tA sA blkA), (eval_eq P Orc B tB sB blkB). par IH.
    + rewrite (evals_eq P Orc A tA sA blkA), (evals_eq P Orc B tB sB blkB). par IH.
    + rewrite (evalkw_eq P Orc A tA sA blkA), (evalkw_eq P Orc B tB sB blkB). par IH.
    + rewrite (ocall_eq P Orc A tA sA blkA), (ocall_eq P Orc B tB sB blkB). par IH.
    + rewrite (run_beh_eq P Orc A tA sA blkA), (run_beh_eq P Orc B tB sB blkB). par IH.
    + rewrite (call_value_eq P Orc A tA sA blkA), (call_value_eq P Orc B tB sB blkB). par IH.
    + rewrite (call_method_eq P Orc A tA sA blkA), (call_method_eq P Orc B tB sB blkB). par IH.
    + rewrite (call_fun_eq P Orc A tA sA blkA), (call_fun_eq P Orc B tB sB blkB). par IH.
    + rewrite (assign_eq P Orc A tA sA blkA), (assign_eq P Orc B tB sB blkB). par IH.
    + rewrite (assigns_eq P Orc A tA sA blkA), (assigns_eq P Orc B tB sB blkB). par IH.
Qed.
End Expr.

(* ---- statements *)
Notation execA := (exec P Orc A tA sA).             Notation execB := (exec P Orc B tB sB).
Notation handleA := (handle P Orc A tA sA).         Notation handleB := (handle P Orc B tB sB).
Notation exec_forA := (exec_for P Orc A tA sA).     Notation exec_forB := (exec_for P Orc B tB sB).
Notation exec_blockA := (exec_block P Orc A tA sA). Notation exec_blockB := (exec_block P Orc B tB sB).

Record stmt_ok (f : nat) : Prop := {
  ok_exec : forall en c s kn kn' kr kr' kx kx', r2 kn kn' -> r3 kr kr' -> r3 kx kx' ->
    R (execA f en c s kn kr kx) (execB f en c s kn' kr' kx');
  ok_handle : forall en x hs s kn kn' kr kr' kx kx', r2 kn kn' -> r3 kr kr' -> r3 kx kx' ->
    R (handleA f en x hs s kn kr kx) (handleB f en x hs s kn' kr' kx');
  ok_exec_for : forall en t vs b s kn kn' kr kr' kx kx', r2 kn kn' -> r3 kr kr' -> r3 kx kx' ->
    R (exec_forA f en t vs b s kn kr kx) (exec_forB f en t vs b s kn' kr' kx');
  ok_exec_block : forall en cs s kn kn' kr kr' kx kx', r2 kn kn' -> r3 kr kr' -> r3 kx kx' ->
    R (exec_blockA f en cs s kn kr kx) (exec_blockB f en cs s kn' kr' kx')
}.

Ltac parS IH :=
  repeat first
  [ apply Rt | apply Rs | progress cbv zeta
  | match goal with
    | |- r1 _ _ => let x := fresh in intro x
    | |- r2 _ _ => let x := fresh in let y := fresh in intros x y
    | |- r3 _ _ => let x := fresh in let y := fresh in let z := fresh in intros x y z
    | H : r2 ?k ?k' |- R (?k _ _) (?k' _ _) => apply H
    | H : r3 ?k ?k' |- R (?k _ _ _) (?k' _ _ _) => apply H
    | |- R (truthy_k _ _ _ _ _) (truthy_k _ _ _ _ _) => apply truthy_param
    | |- R (dispatch _ _ _ _ _ _ _) (dispatch _ _ _ _ _ _ _) => apply dispatch_param
    | |- R (eval _ _ _ _ _ (exec_block _ _ _ _ _ ?f) ?f' _ _ _ _ _) _ =>
        apply (ok_eval _ _ f' (expr_param (exec_blockA f) (exec_blockB f) (ok_exec_block f IH) f'))
    | |- R (assign _ _ _ _ _ (exec_block _ _ _ _ _ ?f) ?f' _ _ _ _ _ _) _ =>
        apply (ok_assign _ _ f' (expr_param (exec_blockA f) (exec_blockB f) (ok_exec_block f IH) f'))
    | |- R (exec _ _ _ _ _ ?f _ _ _ _ _ _) (exec _ _ _ _ _ ?f _ _ _ _ _ _) => apply (ok_exec f IH)
    | |- R (handle _ _ _ _ _ ?f _ _ _ _ _ _ _) (handle _ _ _ _ _ ?f _ _ _ _ _ _ _) => apply (ok_handle f IH)
    | |- R (exec_for _ _ _ _ _ ?f _ _ _ _ _ _ _ _) (exec_for _ _ _ _ _ ?f _ _ _ _ _ _ _ _) => apply (ok_exec_for f IH)
    | |- R (exec_block _ _ _ _ _ ?f _ _ _ _ _ _) (exec_block _ _ _ _ _ ?f _ _ _ _ _ _) => apply (ok_exec_block f IH)
    | |- R (match ?x with _ => _ end) (match ?x with _ => _ end) => destruct x
    | |- R (if ?x then _ else _) (if ?x then _ else _) => destruct x
    end ].

Lemma stmt_param : forall f, stmt_ok f.
Proof.
  induction f as [|f IH].
  - constructor; intros; cbn; apply Rt.
  - constructor; intros.
    + rewrite (exec_eq P Orc A tA sA), (exec_eq P Orc B tB sB). parS IH.
    + rewrite (handle_eq P Orc A tA sA), (handle_eq P Orc B tB sB). parS IH.
    + rewrite (exec_for_eq P Orc A tA sA), (exec_for_eq P Orc B tB sB). parS IH.
    + rewrite (exec_block_eq P Orc A tA sA), (exec_block_eq P Orc B tB sB). parS IH.
Qed.

(* the entry points *)
Theorem call_fun_param f c n fd a kw s k k' kx kx' :
  r2 k k' -> r2 kx kx' ->
  R (call_fun P Orc A tA sA (exec_blockA f) f c n fd a kw s k kx)
    (call_fun P Orc B tB sB (exec_blockB f) f c n fd a kw s k' kx').
Proof.
  intros H1 H2.
  apply (ok_call_fun _ _ f (expr_param (exec_blockA f) (exec_blockB f) (ok_exec_block f (stmt_param f)) f)); assumption.
Qed.
Theorem call_method_param f c v m a kw s k k' kx kx' :
  r2 k k' -> r2 kx kx' ->
  R (call_method P Orc A tA sA (exec_blockA f) f c v m a kw s k kx)
    (call_method P Orc B tB sB (exec_blockB f) f c v m a kw s k' kx').
Proof.
  intros H1 H2.
  apply (ok_call_method _ _ f (expr_param (exec_blockA f) (exec_blockB f) (ok_exec_block f (stmt_param f)) f)); assumption.
Qed.
Theorem exec_block_param f en cs s kn kn' kr kr' kx kx' :
  r2 kn kn' -> r3 kr kr' -> r3 kx kx' ->
  R (exec_blockA f en cs s kn kr kx) (exec_blockB f en cs s kn' kr' kx').
Proof. apply (ok_exec_block f (stmt_param f)). Qed.

End Param.

(* ---- instances *)

(* postcondition reading: a stronger postcondition can be replaced by a weaker one *)
Theorem wp_call_fun_mono P Orc f c n fd a kw s (Q Q' : eres -> Prop) :
  (forall r, Q r -> Q' r) ->
  call_fun P Orc Prop False (fun _ => False) (exec_block P Orc Prop False (fun _ => False) f) f c n fd a kw s
    (fun v s' => Q (EOk v s')) (fun x s' => Q (EExc x s')) ->
  call_fun P Orc Prop False (fun _ => False) (exec_block P Orc Prop False (fun _ => False) f) f c n fd a kw s
    (fun v s' => Q' (EOk v s')) (fun x s' => Q' (EExc x s')).
Proof.
  intros HQ.
  apply (call_fun_param P Orc Prop Prop False (fun _ => False) False (fun _ => False) (fun p q : Prop => p -> q)).
  - exact (fun x => x).
  - intros _ x; exact x.
  - intros v s'. apply HQ.
  - intros x s'. apply HQ.
Qed.

(* and it is sound for the run that returns a result *)
Theorem wp_call_fun_sound P Orc f c n fd a kw s (Q : eres -> Prop) :
  call_fun P Orc Prop False (fun _ => False) (exec_block P Orc Prop False (fun _ => False) f) f c n fd a kw s
    (fun v s' => Q (EOk v s')) (fun x s' => Q (EExc x s')) ->
  Q (run_fun P Orc f c n fd a kw s).
Proof.
  unfold run_fun.
  apply (call_fun_param P Orc Prop eres False (fun _ => False) ETimeout EStuck (fun (p : Prop) (r : eres) => p -> Q r)).
  - intros [].
  - intros _ [].
  - intros v s' H; exact H.
  - intros x s' H; exact H.
Qed.

(* blocks: the result-returning run of a block *)
Definition run_block (P : prog) (Orc : oracle) (f : nat) (en : env) (cs : list stmt) (s : st) : sres :=
  exec_block P Orc sres STimeout SStuck f en cs s
    (fun en' s' => SR CNorm en' s') (fun v en' s' => SR (CRet v) en' s') (fun x en' s' => SR (CExc x) en' s').

Theorem wp_block_sound P Orc f en cs s (Q : sres -> Prop) :
  exec_block P Orc Prop False (fun _ => False) f en cs s
    (fun en' s' => Q (SR CNorm en' s')) (fun v en' s' => Q (SR (CRet v) en' s')) (fun x en' s' => Q (SR (CExc x) en' s')) ->
  Q (run_block P Orc f en cs s).
Proof.
  unfold run_block.
  apply (exec_block_param P Orc Prop sres False (fun _ => False) STimeout SStuck (fun (p : Prop) (r : sres) => p -> Q r)).
  - intros [].
  - intros _ [].
  - intros en' s' H; exact H.
  - intros v en' s' H; exact H.
  - intros x en' s' H; exact H.
Qed.

Theorem wp_call_method_sound P Orc f v m a kw s (Q : eres -> Prop) :
  call_method P Orc Prop False (fun _ => False) (exec_block P Orc Prop False (fun _ => False) f) f None v m a kw s
    (fun v s' => Q (EOk v s')) (fun x s' => Q (EExc x s')) ->
  Q (run_method P Orc f v m a kw s).
Proof.
  unfold run_method.
  apply (call_method_param P Orc Prop eres False (fun _ => False) ETimeout EStuck (fun (p : Prop) (r : eres) => p -> Q r)).
  - intros [].
  - intros _ [].
  - intros v0 s' H; exact H.
  - intros x s' H; exact H.
Qed.
