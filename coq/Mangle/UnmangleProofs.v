(* C33: unmangle inverts mangle up to mangling, over the model, for every
   Unicode oracle satisfying [unicode_facts]. *)
From HyV Require Import Base.Text Gen.MangleTables Mangle.Model Mangle.Facts Mangle.MangleProofs.

(* ---- facts about the regenerated constants ---- *)
Lemma delim_is_X : mangle_delim = ch_X.
Proof. reflexivity. Qed.
Lemma hyx_is : hyx_prefix = [104; 121; 120; 95].
Proof. reflexivity. Qed.

(* ---- finite sweeps over ASCII, lifted ---- *)
Definition range128 : list N := map N.of_nat (seq 0 128).
Lemma in_range128 c : c < 128 -> In c range128.
Proof.
  intros H. unfold range128. apply in_map_iff. exists (N.to_nat c). split; [apply N2Nat.id|].
  apply in_seq. lia.
Qed.
Lemma sweep128 (P : N -> bool) : forallb P range128 = true -> forall c, c < 128 -> P c = true.
Proof. intros H c Hc. rewrite forallb_forall in H. apply H, in_range128, Hc. Qed.

Lemma name_char_lt c : name_char c = true -> c < 128.
Proof.
  unfold name_char. intros H.
  repeat (apply orb_true_iff in H; destruct H as [H|H]);
    try (apply andb_true_iff in H; destruct H as [_ H]; apply N.leb_le in H; lia);
    apply N.eqb_eq in H; subst; reflexivity.
Qed.

Definition enc_ch (c : N) : N :=
  (fun c => if N.eqb c ch_space then ch_us else c) ((fun c => if N.eqb c ch_hyphen then ch_H else c) (lower_ch c)).
Definition dec_ch (d : N) : N :=
  upper_ch ((fun c => if N.eqb c ch_H then ch_hyphen else c) ((fun c => if N.eqb c ch_us then ch_space else c) d)).

Lemma enc_dec_sweep : forallb (fun c => implb (name_char c)
   (N.eqb (dec_ch (enc_ch c)) c && esc_class (enc_ch c) && negb (N.eqb (enc_ch c) mangle_delim) && negb (N.eqb (enc_ch c) ch_U))) range128 = true.
Proof. vm_compute. reflexivity. Qed.

Lemma enc_dec c : name_char c = true ->
  dec_ch (enc_ch c) = c /\ esc_class (enc_ch c) = true /\ N.eqb (enc_ch c) mangle_delim = false /\ N.eqb (enc_ch c) ch_U = false.
Proof.
  intros H. pose proof (sweep128 _ enc_dec_sweep c (name_char_lt c H)) as S. cbv beta in S. rewrite H in S.
  cbn [implb] in S. apply andb_true_iff in S. destruct S as [S S4]. apply andb_true_iff in S. destruct S as [S S3].
  apply andb_true_iff in S. destruct S as [S1 S2]. apply N.eqb_eq in S1. apply negb_true_iff in S3, S4. auto.
Qed.

Lemma esc_name_enc (U : uni) c d nm : uname U c = d :: nm -> esc_name U c = map enc_ch (d :: nm).
Proof.
  intros E. unfold esc_name. rewrite E. unfold replace_ch. rewrite !map_map. reflexivity.
Qed.

Lemma dec_map nm : forallb name_char nm = true ->
  map upper_ch (replace_ch ch_H ch_hyphen (replace_ch ch_us ch_space (map enc_ch nm))) = nm.
Proof.
  intros H. unfold replace_ch. rewrite !map_map. rewrite <- (map_id nm) at 2. apply map_ext_in.
  intros c Hc. rewrite forallb_forall in H. apply (enc_dec c (H c Hc)).
Qed.

(* ---- hexadecimal ---- *)
Definition hv (c : N) : N := match hexval c with Some d => d | None => 0 end.
Definition val_of (l : text) (a : N) : N := fold_left (fun x c => x * 16 + hv c) l a.
Definition is_hex (c : N) : bool := match hexval c with Some _ => true | None => false end.

Lemma hex_digit_sweep : forallb (fun d => implb (d <? 16)
   (N.eqb (hv (hex_digit d)) d && is_hex (hex_digit d) && esc_class (hex_digit d) && negb (N.eqb (hex_digit d) mangle_delim)
    && negb (N.eqb (hex_digit d) ch_us))) range128 = true.
Proof. vm_compute. reflexivity. Qed.

Lemma hex_digit_facts d : d < 16 ->
  hv (hex_digit d) = d /\ is_hex (hex_digit d) = true /\ esc_class (hex_digit d) = true
  /\ N.eqb (hex_digit d) mangle_delim = false /\ N.eqb (hex_digit d) ch_us = false.
Proof.
  intros H. assert (H128 : d < 128) by lia. pose proof (sweep128 _ hex_digit_sweep d H128) as S. cbv beta in S.
  apply N.ltb_lt in H. rewrite H in S. cbn [implb] in S.
  repeat (apply andb_true_iff in S; destruct S as [S ?]). apply N.eqb_eq in S.
  repeat match goal with X : negb _ = true |- _ => apply negb_true_iff in X end. auto.
Qed.

Lemma val_of_hex_pos fuel : forall n acc, n < 16 ^ (N.of_nat fuel) -> val_of (hex_pos fuel n acc) 0 = val_of acc n.
Proof.
  induction fuel as [|f IH]; intros n acc Hn.
  - cbn [hex_pos]. simpl in Hn. assert (n = 0) by lia. subst. reflexivity.
  - cbn [hex_pos]. destruct (n <? 16) eqn:E.
    + apply N.ltb_lt in E. unfold val_of. cbn [fold_left]. destruct (hex_digit_facts n E) as [Hv _]. rewrite Hv. reflexivity.
    + apply N.ltb_ge in E. rewrite IH.
      * unfold val_of. cbn [fold_left]. assert (Hm : n mod 16 < 16) by (apply N.mod_lt; discriminate).
        destruct (hex_digit_facts _ Hm) as [Hv _]. rewrite Hv. f_equal.
        rewrite N.mul_comm. symmetry. apply N.div_mod. discriminate.
      * rewrite Nat2N.inj_succ, N.pow_succ_r' in Hn. apply N.div_lt_upper_bound; [discriminate | exact Hn].
Qed.

Lemma hex_pos_all fuel (P : N -> bool) : (forall d, d < 16 -> P (hex_digit d) = true) ->
  forall n acc, forallb P acc = true -> forallb P (hex_pos fuel n acc) = true.
Proof.
  intros HP. induction fuel as [|f IH]; intros n acc Hacc; cbn [hex_pos]; [exact Hacc|].
  destruct (n <? 16) eqn:E.
  - cbn [forallb]. rewrite Hacc, HP; [reflexivity | apply N.ltb_lt; exact E].
  - apply IH. cbn [forallb]. rewrite Hacc, HP; [reflexivity | apply N.mod_lt; discriminate].
Qed.

Lemma hex_of_value n : val_of (hex_of n) 0 = n.
Proof.
  unfold hex_of. rewrite val_of_hex_pos; [reflexivity|].
  destruct n as [|p]; [reflexivity|].
  pose proof (N.log2_spec (N.pos p) eq_refl) as [_ Hlt].
  eapply N.lt_le_trans; [exact Hlt|]. rewrite Nat2N.inj_succ, N2Nat.id.
  rewrite <- N.add_1_r. transitivity (2 ^ (N.log2 (N.pos p) + 1) * 1); [lia|].
  replace 16 with (2 ^ 4) by reflexivity. rewrite <- N.pow_mul_r. rewrite N.mul_1_r.
  apply N.pow_le_mono_r; lia.
Qed.

Lemma hex_pos_nonempty f : forall m acc, acc <> [] -> hex_pos f m acc <> [].
Proof.
  induction f as [|f IH]; intros m acc Ha; cbn [hex_pos]; [exact Ha|].
  destruct (m <? 16); [discriminate | apply IH; discriminate].
Qed.

Lemma hex_of_nonempty n : hex_of n <> [].
Proof.
  unfold hex_of. cbn [hex_pos]. destruct (n <? 16); [discriminate | apply hex_pos_nonempty; discriminate].
Qed.

Lemma parse_hex_aux_digits l : forall a, forallb is_hex l = true -> forallb (fun c => negb (N.eqb c ch_us)) l = true ->
  parse_hex_aux l a false = Some (val_of l a).
Proof.
  induction l as [|c r IH]; intros a Hh Hu; [reflexivity|]. cbn [parse_hex_aux forallb] in *.
  apply andb_true_iff in Hh. destruct Hh as [Hc Hr]. apply andb_true_iff in Hu. destruct Hu as [Hcu Hru].
  apply negb_true_iff in Hcu. rewrite Hcu. unfold is_hex in Hc. unfold val_of. cbn [fold_left]. unfold hv.
  destruct (hexval c) as [d|]; [|discriminate]. apply IH; assumption.
Qed.

Lemma strip_0x_hex s : forallb is_hex s = true -> strip_0x s = s.
Proof.
  destruct s as [|c1 [|c2 r]]; try reflexivity. intros H. unfold strip_0x.
  destruct (N.eqb c1 48 && N.eqb c2 120) eqn:E; [|reflexivity]. apply andb_true_iff in E. destruct E as [_ E].
  apply N.eqb_eq in E. subst c2. cbn [forallb] in H. apply andb_true_iff in H. destruct H as [_ H].
  apply andb_true_iff in H. destruct H as [H _]. discriminate.
Qed.

Lemma parse_hex_of n : parse_hex (hex_of n) = Some n.
Proof.
  assert (Hh : forallb is_hex (hex_of n) = true).
  { apply hex_pos_all; [|reflexivity]. intros d Hd. apply (hex_digit_facts d Hd). }
  assert (Hu : forallb (fun c => negb (N.eqb c ch_us)) (hex_of n) = true).
  { apply hex_pos_all; [|reflexivity]. intros d Hd. apply negb_true_iff. apply (hex_digit_facts d Hd). }
  unfold parse_hex. rewrite (strip_0x_hex _ Hh). destruct (hex_of n) as [|c r] eqn:E; [exfalso; exact (hex_of_nonempty n E)|].
  cbn [forallb] in Hu. apply andb_true_iff in Hu. destruct Hu as [Hcu Hru]. apply negb_true_iff in Hcu. rewrite Hcu.
  rewrite parse_hex_aux_digits; [|exact Hh | cbn [forallb]; rewrite Hcu; exact Hru].
  rewrite <- E. rewrite hex_of_value. reflexivity.
Qed.

(* ---- lists: trailing-underscore split ---- *)
Lemma split_trailing_us suf : forallb is_us suf = true -> split_trailing suf = ([], suf).
Proof.
  induction suf as [|c r IH]; [reflexivity|]. cbn [forallb split_trailing]. intros H. apply andb_true_iff in H.
  destruct H as [H1 H2]. rewrite (IH H2), H1. reflexivity.
Qed.

Lemma split_trailing_spec s : forall m suf, split_trailing s = (m, suf) -> s = m ++ suf /\ forallb is_us suf = true.
Proof.
  induction s as [|c r IH]; intros m suf H; cbn [split_trailing] in H.
  - inversion H. split; reflexivity.
  - destruct (split_trailing r) as [m' suf'] eqn:E. destruct (IH _ _ eq_refl) as [Hr Hs].
    destruct m' as [|d m''].
    + cbn [app] in Hr. destruct (is_us c) eqn:Ec; inversion H; subst m suf; cbn [app forallb]; rewrite Hr.
      * split; [reflexivity | rewrite Ec, Hs; reflexivity].
      * split; [reflexivity | exact Hs].
    + inversion H; subst m suf. rewrite Hr. split; [reflexivity | exact Hs].
Qed.

Lemma split_trailing_cons c t : is_us c = false ->
  exists m', fst (split_trailing (c :: t)) = c :: m' /\ t = m' ++ snd (split_trailing (c :: t)).
Proof.
  intros Hc. cbn [split_trailing]. destruct (split_trailing t) as [m' suf'] eqn:E.
  destruct (split_trailing_spec t _ _ E) as [Ht _]. destruct m' as [|d m''].
  - rewrite Hc. exists []. split; [reflexivity | exact Ht].
  - exists (d :: m''). split; [reflexivity | exact Ht].
Qed.

Definition clean (a : text) : Prop := a <> [] /\ split_trailing a = (a, []).

Lemma clean_app_us a suf : clean a -> forallb is_us suf = true -> split_trailing (a ++ suf) = (a, suf).
Proof.
  intros [Hne Hc] Hs. induction a as [|c a IH]; [congruence|]. cbn [app split_trailing].
  destruct a as [|d a'].
  - cbn [app]. rewrite (split_trailing_us _ Hs). cbn [split_trailing] in Hc. destruct (is_us c); [discriminate | reflexivity].
  - assert (Hc' : split_trailing (d :: a') = (d :: a', [])).
    { cbn [split_trailing] in Hc. cbn [split_trailing]. destruct (split_trailing a') as [m s'] eqn:E.
      destruct m as [|e m'].
      - destruct (is_us d); [destruct (is_us c); discriminate | inversion Hc; reflexivity].
      - inversion Hc; subst. reflexivity. }
    rewrite IH; [reflexivity | discriminate | exact Hc'].
Qed.

Lemma clean_app x y : clean y -> clean (x ++ y).
Proof.
  intros [Hne Hc]. split; [destruct x; [exact Hne | discriminate]|].
  induction x as [|c x IH]; [exact Hc|]. cbn [app split_trailing]. rewrite IH.
  destruct (x ++ y) eqn:E; [destruct x; [cbn [app] in E; congruence | discriminate] | reflexivity].
Qed.

Lemma clean_single c : is_us c = false -> clean [c].
Proof. intros H. split; [discriminate|]. cbn [split_trailing]. rewrite H. reflexivity. Qed.

Lemma clean_tail c a : a <> [] -> clean (c :: a) -> clean a.
Proof.
  intros Hne [_ Hc]. split; [exact Hne|]. cbn [split_trailing] in Hc. destruct (split_trailing a) as [m s'] eqn:E.
  destruct m as [|e m'].
  - destruct (is_us c); inversion Hc; subst; congruence.
  - inversion Hc; subst. reflexivity.
Qed.

Lemma clean_head_single c : clean [c] -> is_us c = false.
Proof. intros [_ H]. cbn [split_trailing] in H. destruct (is_us c); [discriminate | reflexivity]. Qed.

(* ---- replacing characters ---- *)
Lemma replace_app a b x y : replace_ch a b (x ++ y) = replace_ch a b x ++ replace_ch a b y.
Proof. apply map_app. Qed.

Lemma replace_back t : forallb (fun c => negb (N.eqb c ch_hyphen)) t = true ->
  replace_ch ch_hyphen ch_us (replace_ch ch_us ch_hyphen t) = t.
Proof.
  induction t as [|c r IH]; [reflexivity|]. cbn [forallb]. intros H. apply andb_true_iff in H. destruct H as [H1 H2].
  unfold replace_ch in *. cbn [map]. rewrite IH by exact H2. f_equal. apply negb_true_iff in H1.
  destruct (N.eqb c ch_us) eqn:E.
  - apply N.eqb_eq in E. subst. reflexivity.
  - rewrite H1. reflexivity.
Qed.

Lemma replace_hy_us_no_hyphen t : forallb (fun c => negb (N.eqb c ch_hyphen)) (replace_ch ch_hyphen ch_us t) = true.
Proof.
  induction t as [|c r IH]; [reflexivity|]. unfold replace_ch in *. cbn [map forallb]. rewrite IH, andb_true_r.
  destruct (N.eqb c ch_hyphen) eqn:E; [reflexivity | rewrite E; reflexivity].
Qed.

Lemma replace_us_id suf : forallb is_us suf = true -> replace_ch ch_hyphen ch_us suf = suf.
Proof.
  induction suf as [|c r IH]; [reflexivity|]. cbn [forallb]. intros H. apply andb_true_iff in H. destruct H as [H1 H2].
  unfold replace_ch in *. cbn [map]. rewrite IH by exact H2. unfold is_us in H1. apply N.eqb_eq in H1. subst. reflexivity.
Qed.

Lemma forallb_app_l {A} (p : A -> bool) x y : forallb p (x ++ y) = true -> forallb p x = true.
Proof. rewrite forallb_app. intros H. apply andb_true_iff in H. apply H. Qed.
Lemma forallb_app_r {A} (p : A -> bool) x y : forallb p (x ++ y) = true -> forallb p y = true.
Proof. rewrite forallb_app. intros H. apply andb_true_iff in H. apply H. Qed.

Section Unmangle.
Variable U : uni.
Hypothesis F : unicode_facts U.

Definition valid_cp (c : N) : bool := c <? 1114112.

(* ---- the escape scanner ---- *)
Lemma scan_body_ok b : forall rest acc,
  forallb esc_class b = true -> forallb (fun c => negb (N.eqb c mangle_delim)) b = true -> rev acc ++ b <> [] ->
  scan_body (b ++ mangle_delim :: rest) acc = Some (rev acc ++ b, rest).
Proof.
  induction b as [|c b IH]; intros rest acc Hc Hd Hne.
  - cbn [app scan_body]. rewrite N.eqb_refl. rewrite app_nil_r in *. destruct acc; [exfalso; apply Hne; reflexivity | reflexivity].
  - cbn [forallb] in Hc, Hd. apply andb_true_iff in Hc. destruct Hc as [Hc1 Hc2].
    apply andb_true_iff in Hd. destruct Hd as [Hd1 Hd2]. apply negb_true_iff in Hd1.
    cbn [app scan_body]. rewrite Hd1, Hc1. rewrite IH; [|exact Hc2 | exact Hd2 | cbn [rev]; destruct (rev acc); discriminate].
    cbn [rev]. rewrite <- app_assoc. reflexivity.
Qed.

Lemma decode_hex c : valid_cp c = true -> decode_escape U true (hex_of c) = Ok c.
Proof. intros H. unfold decode_escape. rewrite parse_hex_of. unfold valid_cp in H. rewrite H. reflexivity. Qed.

Lemma decode_name c d nm : uname U c = d :: nm -> decode_escape U false (map enc_ch (d :: nm)) = Ok c.
Proof.
  intros E. unfold decode_escape. rewrite dec_map.
  - rewrite <- E. rewrite (name_lookup_inverse U F c); [reflexivity | rewrite E; discriminate].
  - rewrite <- E. apply (names_alphabet U F).
Qed.

Lemma match_escape_esc c rest : valid_cp c = true ->
  exists is_u body, match_escape (esc_name U c ++ mangle_delim :: rest) = Some (is_u, body, rest)
                    /\ decode_escape U is_u body = Ok c.
Proof.
  intros Hv. destruct (uname U c) as [|d nm] eqn:E.
  - exists true, (hex_of c). split; [|apply decode_hex; exact Hv].
    unfold esc_name. rewrite E. cbn [app match_escape]. rewrite N.eqb_refl.
    rewrite scan_body_ok; [reflexivity | | | apply hex_of_nonempty].
    + apply hex_pos_all; [|reflexivity]. intros x Hx. apply (hex_digit_facts x Hx).
    + apply hex_pos_all; [|reflexivity]. intros x Hx. apply negb_true_iff. apply (hex_digit_facts x Hx).
  - exists false, (map enc_ch (d :: nm)). split; [|apply (decode_name c d nm E)].
    rewrite (esc_name_enc U c d nm E).
    pose proof (names_alphabet U F c) as Hn. rewrite E in Hn.
    assert (Hall : forall x, In x (d :: nm) -> name_char x = true) by (rewrite forallb_forall in Hn; exact Hn).
    destruct (enc_dec d (Hall d (or_introl eq_refl))) as [_ [_ [_ HU]]].
    cbn [map app match_escape]. rewrite HU.
    change (enc_ch d :: map enc_ch nm ++ mangle_delim :: rest) with (map enc_ch (d :: nm) ++ mangle_delim :: rest).
    rewrite scan_body_ok; [reflexivity | | | discriminate].
    + rewrite forallb_forall. intros y Hy. apply in_map_iff in Hy. destruct Hy as [x [Hx Hin]]. subst y. apply (enc_dec x (Hall x Hin)).
    + rewrite forallb_forall. intros y Hy. apply in_map_iff in Hy. destruct Hy as [x [Hx Hin]]. subst y. apply negb_true_iff. apply (enc_dec x (Hall x Hin)).
Qed.

Lemma unescape_flat s3 : forall fuel, (length s3 <= fuel)%nat -> forallb valid_cp s3 = true ->
  unescape U fuel (flat_map (esc_char U) s3) = Ok s3.
Proof.
  induction s3 as [|c r IH]; intros fuel Hf Hv.
  - destruct fuel; reflexivity.
  - destruct fuel as [|f]; [simpl in Hf; lia|]. cbn [forallb] in Hv. apply andb_true_iff in Hv. destruct Hv as [Hv1 Hv2].
    assert (Hr : unescape U f (flat_map (esc_char U) r) = Ok r) by (apply IH; [simpl in Hf; lia | exact Hv2]).
    cbn [flat_map]. unfold esc_char at 1.
    destruct (negb (N.eqb c mangle_delim) && isid U [83; c]) eqn:E.
    + apply andb_true_iff in E. destruct E as [E _]. apply negb_true_iff in E.
      cbn [app unescape]. rewrite E, Hr. reflexivity.
    + destruct (match_escape_esc c (flat_map (esc_char U) r) Hv1) as [is_u [body [Hm Hd]]].
      cbn [app unescape]. rewrite N.eqb_refl. rewrite <- app_assoc. cbn [app]. rewrite Hm, Hd, Hr. reflexivity.
Qed.

Lemma esc_char_nonempty c : esc_char U c <> [].
Proof. unfold esc_char. destruct (negb (N.eqb c mangle_delim) && isid U [83; c]); discriminate. Qed.

Lemma length_flat_esc s3 : (length s3 <= length (flat_map (esc_char U) s3))%nat.
Proof.
  induction s3 as [|c r IH]; [reflexivity|]. cbn [flat_map length]. rewrite app_length.
  pose proof (esc_char_nonempty c) as H. destruct (esc_char U c); [congruence | simpl; lia].
Qed.

(* escapes of strings without trailing underscores have no trailing underscores *)
Lemma esc_us : esc_char U ch_us = [ch_us].
Proof.
  unfold esc_char. replace (N.eqb ch_us mangle_delim) with false by reflexivity. cbn [negb andb].
  unfold isid. rewrite (xs_letter U F 83) by reflexivity. cbn [orb andb forallb].
  rewrite (xc_word U F ch_us) by reflexivity. reflexivity.
Qed.

Lemma flat_esc_us suf : forallb is_us suf = true -> flat_map (esc_char U) suf = suf.
Proof.
  induction suf as [|c r IH]; [reflexivity|]. cbn [forallb]. intros H. apply andb_true_iff in H. destruct H as [H1 H2].
  unfold is_us in H1. apply N.eqb_eq in H1. subst c. cbn [flat_map]. rewrite esc_us, IH by exact H2. reflexivity.
Qed.

Lemma clean_esc_char c : is_us c = false -> clean (esc_char U c).
Proof.
  intros Hc. unfold esc_char. destruct (negb (N.eqb c mangle_delim) && isid U [83; c]).
  - apply clean_single. exact Hc.
  - change (mangle_delim :: esc_name U c ++ [mangle_delim]) with ((mangle_delim :: esc_name U c) ++ [mangle_delim]).
    apply clean_app. apply clean_single. reflexivity.
Qed.

Lemma clean_flat_esc m : clean m -> clean (flat_map (esc_char U) m).
Proof.
  induction m as [|c m IH]; intros Hc; [destruct Hc; congruence|]. cbn [flat_map].
  destruct m as [|d m'].
  - cbn [flat_map]. rewrite app_nil_r. apply clean_esc_char. apply clean_head_single. exact Hc.
  - apply clean_app. apply IH. apply (clean_tail c); [discriminate | exact Hc].
Qed.

End Unmangle.

Lemma split_trailing_clean s : forall m suf, split_trailing s = (m, suf) -> m <> [] -> clean m.
Proof.
  induction s as [|c r IH]; intros m suf H Hne; cbn [split_trailing] in H.
  - inversion H; subst. congruence.
  - destruct (split_trailing r) as [m' suf'] eqn:E. destruct m' as [|d m''].
    + destruct (is_us c) eqn:Ec; inversion H; subst; [congruence | apply clean_single; exact Ec].
    + inversion H; subst. change (c :: d :: m'') with ([c] ++ d :: m''). apply clean_app.
      apply (IH _ _ eq_refl). discriminate.
Qed.

Lemma mem_replace d a b w : N.eqb a d = false -> N.eqb b d = false -> mem d (replace_ch a b w) = mem d w.
Proof.
  intros Ha Hb. unfold mem, replace_ch. induction w as [|c r IH]; [reflexivity|]. cbn [map existsb]. rewrite IH. f_equal.
  destruct (N.eqb c a) eqn:E.
  - apply N.eqb_eq in E. subst c. rewrite N.eqb_sym, Hb, N.eqb_sym, Ha. reflexivity.
  - reflexivity.
Qed.

Lemma mem_app d x y : mem d (x ++ y) = mem d x || mem d y.
Proof. unfold mem. apply existsb_app. Qed.

Lemma mem_repeat_us d n : N.eqb ch_us d = false -> mem d (repeat ch_us n) = false.
Proof. intros H. unfold mem. induction n; [reflexivity|]. cbn [repeat existsb]. rewrite N.eqb_sym, H, IHn. reflexivity. Qed.

Lemma mem_dropwhile d p s : mem d s = false -> mem d (dropwhile p s) = false.
Proof.
  unfold mem. induction s as [|c r IH]; [reflexivity|]. cbn [existsb dropwhile]. intros H. apply orb_false_iff in H. destruct H as [H1 H2].
  destruct (p c); [apply IH; exact H2 | cbn [existsb]; rewrite H1, H2; reflexivity].
Qed.

Lemma skipn_app_exact {A} (x y : list A) : skipn (length x) (x ++ y) = y.
Proof. induction x; [reflexivity | exact IHx]. Qed.

Lemma dropwhile_repeat_us n c w : is_us_class c = false -> dropwhile is_us_class (repeat ch_us n ++ c :: w) = c :: w.
Proof. intros H. induction n; cbn [repeat app dropwhile]; [rewrite H; reflexivity | rewrite us_in_class; exact IHn]. Qed.

Lemma dropwhile_repeat_nil n : dropwhile is_us_class (repeat ch_us n) = [].
Proof. induction n; cbn [repeat dropwhile]; [reflexivity | rewrite us_in_class; exact IHn]. Qed.

Lemma takewhile_repeat_is_us n w : match w with [] => True | c :: _ => is_us c = false end ->
  takewhile is_us (repeat ch_us n ++ w) = repeat ch_us n /\ dropwhile is_us (repeat ch_us n ++ w) = w.
Proof.
  intros H. induction n; cbn [repeat app takewhile dropwhile].
  - destruct w as [|c r]; [split; reflexivity|]. cbn [takewhile dropwhile]. rewrite H. split; reflexivity.
  - unfold is_us at 1 3. rewrite N.eqb_refl. destruct IHn as [A B]. rewrite A, B. split; reflexivity.
Qed.

Lemma class_false_not_us c : is_us_class c = false -> is_us c = false.
Proof. intros H. unfold is_us. destruct (N.eqb c ch_us) eqn:E; [|reflexivity]. apply N.eqb_eq in E. subst. rewrite us_in_class in H. discriminate. Qed.

Section Main.
Variable U : uni.
Hypothesis F : unicode_facts U.

Definition pre_of (n : nat) (s3 : text) : text :=
  repeat ch_us n ++ (if isid U (repeat ch_us n ++ s3) then s3 else hyx_prefix ++ flat_map (esc_char U) s3).

Lemma mangle_pre_is s : mangle_pre U s = pre_of (length s - length (dropwhile is_us_class s)) (hyphens (dropwhile is_us_class s)).
Proof. reflexivity. Qed.

Lemma remangle n c0 w : is_us_class c0 = false ->
  mangle_pre U (repeat ch_us n ++ c0 :: w) = pre_of n (c0 :: replace_ch ch_hyphen ch_us w).
Proof.
  intros H. rewrite mangle_pre_is. rewrite (dropwhile_repeat_us n c0 w H). cbn [hyphens].
  rewrite app_length, repeat_length. replace (n + length (c0 :: w) - length (c0 :: w))%nat with n by lia. reflexivity.
Qed.

Lemma remangle_nil n : mangle_pre U (repeat ch_us n) = pre_of n [].
Proof.
  rewrite mangle_pre_is. rewrite dropwhile_repeat_nil. cbn [hyphens length]. rewrite repeat_length, Nat.sub_0_r. reflexivity.
Qed.

Lemma split_affixes_plain w : match w with [] => True | c :: _ => is_us c = false end -> split_affixes w = ([], w, []).
Proof. destruct w as [|c r]; [reflexivity|]. intros H. cbn [split_affixes]. rewrite H. reflexivity. Qed.

Lemma split_affixes_lead n w : n <> O -> match w with [] => True | c :: _ => is_us c = false end ->
  split_affixes (repeat ch_us n ++ w) = (repeat ch_us n, fst (split_trailing w), snd (split_trailing w)).
Proof.
  intros Hn Hw. destruct (takewhile_repeat_is_us n w Hw) as [A B].
  destruct n as [|n']; [congruence|]. unfold split_affixes.
  change (repeat ch_us (S n') ++ w) with (ch_us :: (repeat ch_us n' ++ w)) at 1.
  cbv iota beta. replace (is_us ch_us) with true by reflexivity. cbv iota.
  rewrite A, B. destruct (split_trailing w); reflexivity.
Qed.

Lemma hyx_head_not_us : match hyx_prefix with [] => True | c :: _ => is_us c = false end.
Proof. reflexivity. Qed.

Definition back_ok (s3 w' : text) : Prop :=
  match s3, w' with
  | [], [] => True
  | c0 :: t, c1 :: w => c1 = c0 /\ replace_ch ch_hyphen ch_us w = t
  | _, _ => False
  end.

Definition no_hy (t : text) : bool := forallb (fun c => negb (N.eqb c ch_hyphen)) t.

Lemma back_replace c0 t : is_us c0 = false -> no_hy t = true -> back_ok (c0 :: t) (replace_ch ch_us ch_hyphen (c0 :: t)).
Proof.
  intros Hc Ht. unfold replace_ch at 1. cbn [map]. unfold is_us in Hc. rewrite Hc. split; [reflexivity|].
  apply replace_back. exact Ht.
Qed.

Lemma back_split c0 m' suf : is_us c0 = false -> no_hy (m' ++ suf) = true -> forallb is_us suf = true ->
  exists w', replace_ch ch_us ch_hyphen (c0 :: m') ++ suf = w' /\ back_ok (c0 :: m' ++ suf) w'.
Proof.
  intros Hc Hn Hs. eexists. split; [reflexivity|]. unfold replace_ch at 1. cbn [map app]. unfold is_us in Hc. rewrite Hc.
  split; [reflexivity|]. fold (replace_ch ch_us ch_hyphen m'). rewrite replace_app. rewrite replace_back by (apply (forallb_app_l _ _ _ Hn)).
  rewrite replace_us_id by exact Hs. reflexivity.
Qed.

(* unmangle on what mangle produced before normalisation *)
Lemma unmangle_pre n s3 :
  (s3 = [] -> n <> O) ->
  match s3 with [] => True | c :: t => is_us_class c = false /\ no_hy t = true end ->
  forallb valid_cp s3 = true -> starts_with hyx_prefix s3 = false ->
  exists w', unmangle U (pre_of n s3) = Ok (repeat ch_us n ++ w') /\ back_ok s3 w'.
Proof.
  intros Hn Hs3 Hv Hh. destruct s3 as [|c0 t].
  - (* only underscores *)
    exists []. split; [|exact I]. unfold pre_of.
    rewrite (isid_lead U F n []); [|reflexivity | left; apply Hn; reflexivity].
    unfold unmangle.
    rewrite (split_affixes_lead n [] (Hn eq_refl) I). cbn [split_trailing fst snd].
    replace (starts_with hyx_prefix []) with false by reflexivity. reflexivity.
  - destruct Hs3 as [Hc0 Ht]. pose proof (class_false_not_us c0 Hc0) as Hus.
    unfold pre_of. destruct (isid U (repeat ch_us n ++ c0 :: t)) eqn:Eid.
    + (* the name was an identifier: no escapes *)
      destruct n as [|n'].
      * exists (replace_ch ch_us ch_hyphen (c0 :: t)). split; [|apply back_replace; assumption].
        cbn [repeat app]. unfold unmangle. rewrite (split_affixes_plain (c0 :: t) Hus). rewrite Hh. rewrite app_nil_r. reflexivity.
      * destruct (split_trailing_cons c0 t Hus) as [m' [Hm Ht']].
        destruct (split_trailing (c0 :: t)) as [m suf] eqn:Est. cbn [fst snd] in Hm, Ht'. subst m.
        destruct (split_trailing_spec _ _ _ Est) as [Hsplit Hsuf].
        assert (Hhm : starts_with hyx_prefix (c0 :: m') = false).
        { destruct (starts_with hyx_prefix (c0 :: m')) eqn:E; [|reflexivity].
          apply starts_with_spec in E. destruct E as [r Hr]. rewrite Hsplit, Hr, <- app_assoc in Hh.
          rewrite starts_with_app in Hh. discriminate. }
        rewrite Ht' in Ht. destruct (back_split c0 m' suf Hus Ht Hsuf) as [w' [Hw Hb]].
        exists w'. split; [|rewrite Ht'; exact Hb].
        unfold unmangle. rewrite (split_affixes_lead (S n') (c0 :: t) (Nat.neq_succ_0 n') Hus). rewrite Est. cbn [fst snd].
        rewrite Hhm. rewrite <- Hw. reflexivity.
    + (* escaped *)
      set (E := flat_map (esc_char U) (c0 :: t)).
      assert (Hskip : skipn (length hyx_prefix) (hyx_prefix ++ E) = E) by apply skipn_app_exact.
      destruct n as [|n'].
      * exists (replace_ch ch_us ch_hyphen (c0 :: t)). split; [|apply back_replace; assumption].
        cbn [repeat app]. unfold unmangle. rewrite (split_affixes_plain (hyx_prefix ++ E)) by reflexivity.
        rewrite starts_with_app. rewrite Hskip. unfold E. rewrite unescape_flat; [rewrite app_nil_r; reflexivity | exact F | | exact Hv].
        rewrite app_length. pose proof (length_flat_esc U (c0 :: t)). lia.
      * destruct (split_trailing_cons c0 t Hus) as [m' [Hm Ht']].
        destruct (split_trailing (c0 :: t)) as [m suf] eqn:Est. cbn [fst snd] in Hm, Ht'. subst m.
        destruct (split_trailing_spec _ _ _ Est) as [Hsplit Hsuf].
        pose proof (split_trailing_clean _ _ _ Est) as Hclean. specialize (Hclean ltac:(discriminate)).
        assert (HE : hyx_prefix ++ E = (hyx_prefix ++ flat_map (esc_char U) (c0 :: m')) ++ suf).
        { unfold E. rewrite Hsplit, flat_map_app, (flat_esc_us U F suf Hsuf), app_assoc. reflexivity. }
        assert (Hst : split_trailing (hyx_prefix ++ E) = (hyx_prefix ++ flat_map (esc_char U) (c0 :: m'), suf)).
        { rewrite HE. apply clean_app_us; [|exact Hsuf]. apply clean_app. apply clean_flat_esc. exact Hclean. }
        rewrite Ht' in Ht. destruct (back_split c0 m' suf Hus Ht Hsuf) as [w' [Hw Hb]].
        exists w'. split; [|rewrite Ht'; exact Hb].
        unfold unmangle. rewrite (split_affixes_lead (S n') (hyx_prefix ++ E) (Nat.neq_succ_0 n')) by reflexivity.
        rewrite Hst. cbn [fst snd]. rewrite starts_with_app, skipn_app_exact.
        rewrite unescape_flat; [rewrite <- Hw; reflexivity | exact F | |].
        -- rewrite app_length. pose proof (length_flat_esc U (c0 :: m')). lia.
        -- rewrite Hsplit in Hv. apply (forallb_app_l _ _ _ Hv).
Qed.

Lemma pre_of_back n s3 w' : back_ok s3 w' ->
  match s3 with [] => True | c :: _ => is_us_class c = false end ->
  mangle_pre U (repeat ch_us n ++ w') = pre_of n s3.
Proof.
  intros Hb Hc. destruct s3 as [|c0 t]; destruct w' as [|c1 w]; try contradiction.
  - rewrite app_nil_r. apply remangle_nil.
  - destruct Hb as [-> Hw]. rewrite remangle by exact Hc. rewrite Hw. reflexivity.
Qed.

Lemma back_no_dot s3 w' : back_ok s3 w' -> mem ch_dot s3 = false -> mem ch_dot w' = false.
Proof.
  intros Hb Hd. destruct s3 as [|c0 t]; destruct w' as [|c1 w]; try contradiction; [reflexivity|].
  destruct Hb as [-> Hw]. unfold mem in *. cbn [existsb] in *. apply orb_false_iff in Hd. destruct Hd as [H1 H2].
  rewrite H1. cbn [orb]. rewrite <- Hw in H2. fold (mem ch_dot (replace_ch ch_hyphen ch_us w)) in H2.
  rewrite mem_replace in H2 by reflexivity. exact H2.
Qed.

Theorem unmangle_inverts_mangle s :
  s <> [] -> mem ch_dot s = false -> forallb valid_cp s = true ->
  starts_with hyx_prefix (hyphens (dropwhile is_us_class s)) = false ->
  nfkc U (mangle_pre U s) = mangle_pre U s ->
  exists u, unmangle U (mangle U s) = Ok u /\ mangle U u = mangle U s.
Proof.
  intros Hne Hdot Hv Hh Hinert.
  set (s2 := dropwhile is_us_class s). set (n := (length s - length s2)%nat). set (s3 := hyphens s2).
  assert (Hm : mangle U s = pre_of n s3).
  { unfold mangle. rewrite (dotted_false_of_no_dot _ Hdot). unfold mangle1. rewrite Hinert. reflexivity. }
  assert (Hs2dot : mem ch_dot s2 = false) by (apply mem_dropwhile; exact Hdot).
  assert (Hs3dot : mem ch_dot s3 = false).
  { unfold s3. destruct s2 as [|c r]; [reflexivity|]. cbn [hyphens]. unfold mem in *. cbn [existsb] in *.
    apply orb_false_iff in Hs2dot. destruct Hs2dot as [A B]. rewrite A. cbn [orb].
    fold (mem ch_dot (replace_ch ch_hyphen ch_us r)). rewrite mem_replace by reflexivity. exact B. }
  assert (Hhead : match s3 with [] => True | c :: t => is_us_class c = false /\ no_hy t = true end).
  { unfold s3. pose proof (dropwhile_head is_us_class s) as Hd. fold s2 in Hd. destruct s2 as [|c r]; [exact I|].
    cbn [hyphens]. split; [exact Hd | apply replace_hy_us_no_hyphen]. }
  assert (Hv3 : forallb valid_cp s3 = true).
  { unfold s3. assert (Hv2 : forallb valid_cp s2 = true) by (apply forallb_dropwhile; exact Hv).
    destruct s2 as [|c r]; [reflexivity|]. cbn [hyphens forallb] in *. apply andb_true_iff in Hv2. destruct Hv2 as [A B].
    rewrite A. cbn [andb]. unfold replace_ch. rewrite forallb_forall. intros x Hx. apply in_map_iff in Hx.
    destruct Hx as [y [Hy Hin]]. subst x. destruct (N.eqb y ch_hyphen); [reflexivity|]. rewrite forallb_forall in B. apply B. exact Hin. }
  assert (Hn0 : s3 = [] -> n <> O).
  { intros E. unfold s3 in E. assert (s2 = []) by (destruct s2; [reflexivity | discriminate]).
    unfold n. rewrite H. cbn [length]. destruct s; [congruence | cbn [length]; lia]. }
  destruct (unmangle_pre n s3 Hn0 Hhead Hv3 Hh) as [w' [Hu Hb]].
  exists (repeat ch_us n ++ w'). rewrite Hm. split; [exact Hu|].
  assert (Hudot : mem ch_dot (repeat ch_us n ++ w') = false).
  { rewrite mem_app, mem_repeat_us by reflexivity. cbn [orb]. apply (back_no_dot s3); assumption. }
  unfold mangle. rewrite (dotted_false_of_no_dot _ Hudot). unfold mangle1.
  rewrite (pre_of_back n s3 w' Hb); [|destruct s3; [exact I | apply Hhead]].
  rewrite <- Hm. unfold mangle. rewrite (dotted_false_of_no_dot _ Hdot). unfold mangle1. rewrite Hinert. exact Hinert.
Qed.

End Main.
