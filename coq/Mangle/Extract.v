(* Extraction of the mangle model for the correspondence harness.
   ExtrOcamlBasic only (bool, option, unit, list, prod, sumbool, sumor);
   numbers stay the extracted positive/N. *)
From HyV Require Import Base.Text Gen.MangleTables Mangle.Model.
Require Extraction.
Require Import ExtrOcamlBasic.
Extraction "../extract/mangle_model.ml" mangle mangle_pre unmangle.
