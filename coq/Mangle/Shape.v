(* Per-run obligation: the string literals of mangle() and unmangle() in the
   current source are the ones the hand-written model was written against
   (separators, replacement pairs, the "S" probe, format strings, the two
   regular expressions, the normalisation form). *)
From HyV Require Import Base.Text Gen.MangleTables.
From Coq Require Import String Ascii.

Definition lit (s : string) : list N := map (fun a => N.of_nat (nat_of_ascii a)) (list_ascii_of_string s).

Example mangle_literals_as_modelled : mangle_literals = map lit
  ["."; "."; "."; ""; "."; "_"; "-"; "_"; "hyx_"; ""; "{0}{1}{0}"; " "; "_"; "S"; "U{:x}"; "-"; "H"; ""; "NFKC"]%string.
Proof. vm_compute. reflexivity. Qed.

Example unmangle_literals_as_modelled : unmangle_literals = map lit
  [""; ""; "(_+)(.*?)(_*)"; "hyx_"; "{0}(U)?([_a-z0-9H]+?){0}"; "hyx_"; "H"; "-"; "_"; " "; "_"; "-"]%string.
Proof. vm_compute. reflexivity. Qed.
