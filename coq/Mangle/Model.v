(* Model of hy/reader/mangling.py: mangle and unmangle, following the code
   line by line.  Everything that depends on the Unicode database is an
   oracle argument (record [uni]); the constants come from Gen/MangleTables.v,
   regenerated from the source on every run. *)
From HyV Require Import Base.Text Gen.MangleTables.

Record uni := {
  xid_start : N -> bool;        (* _PyUnicode_IsXidStart *)
  xid_continue : N -> bool;     (* _PyUnicode_IsXidContinue *)
  uname : N -> text;            (* unicodedata.name(c, "") *)
  ulookup : text -> option N;   (* unicodedata.lookup, None = KeyError *)
  nfkc : text -> text           (* unicodedata.normalize("NFKC", _) *)
}.

Section Model.
Variable U : uni.

(* str.isidentifier *)
Definition isid (s : text) : bool :=
  match s with
  | [] => false
  | c :: r => (xid_start U c || N.eqb c ch_us) && forallb (xid_continue U) r
  end.

Definition is_us_class (c : N) : bool := mem c normalizes_to_underscore.

(* "{:x}".format *)
Definition hex_digit (d : N) : N := if d <? 10 then 48 + d else 87 + d.
Fixpoint hex_pos (fuel : nat) (n : N) (acc : text) : text :=
  match fuel with
  | O => acc
  | S f => if n <? 16 then hex_digit n :: acc
           else hex_pos f (n / 16) (hex_digit (n mod 16) :: acc)
  end.
Definition hex_of (n : N) : text := hex_pos (S (N.to_nat (N.log2 n))) n [].

(* unicodedata.name(c, "").lower().replace("-", "H").replace(" ", "_") or "U{:x}".format(ord(c)) *)
Definition esc_name (c : N) : text :=
  match uname U c with
  | [] => ch_U :: hex_of c
  | nm => replace_ch ch_space ch_us (replace_ch ch_hyphen ch_H (map lower_ch nm))
  end.

Definition esc_char (c : N) : text :=
  if negb (N.eqb c mangle_delim) && isid (83 :: c :: nil)   (* ("S" + c).isidentifier() *)
  then [c]
  else mangle_delim :: esc_name c ++ [mangle_delim].

Definition hyphens (s : text) : text :=
  match s with
  | [] => []
  | c :: r => c :: replace_ch ch_hyphen ch_us r
  end.

(* the string handed to NFKC normalisation, for a name that does not take the dotted branch *)
Definition mangle_pre (s : text) : text :=
  let s2 := dropwhile is_us_class s in
  let lead := repeat ch_us (length s - length s2) in
  let s3 := hyphens s2 in
  let s4 := if isid (lead ++ s3) then s3 else hyx_prefix ++ flat_map esc_char s3 in
  lead ++ s4.

Definition mangle1 (s : text) : text := nfkc U (mangle_pre s).

(* s.split(".") *)
Fixpoint split_dots_aux (s cur : text) : list text :=
  match s with
  | [] => [rev cur]
  | c :: r => if N.eqb c ch_dot then rev cur :: split_dots_aux r [] else split_dots_aux r (c :: cur)
  end.
Definition split_dots (s : text) : list text := split_dots_aux s [].

Fixpoint join_dots (l : list text) : text :=
  match l with
  | [] => []
  | [x] => x
  | x :: r => x ++ ch_dot :: join_dots r
  end.

(* "." in s and s.strip(".") *)
Definition dotted (s : text) : bool := mem ch_dot s && negb (forallb (N.eqb ch_dot) s).

Definition mangle_part (x : text) : text := match x with [] => [] | _ => mangle1 x end.

Definition mangle (s : text) : text :=
  if dotted s then join_dots (map mangle_part (split_dots s)) else mangle1 s.

(* ------------------------------------------------------------ unmangle *)

Inductive res (A : Type) := Ok (a : A) | PyErr (cls : nat).
Arguments Ok {A} _. Arguments PyErr {A} _.
Definition KeyError := 1%nat. Definition ValueError := 2%nat.

Definition esc_class (c : N) : bool :=   (* [_a-z0-9H] *)
  N.eqb c ch_us || ((97 <=? c) && (c <=? 122)) || ((48 <=? c) && (c <=? 57)) || N.eqb c ch_H.

(* int(text, 16) for text over [_a-z0-9H]: digits 0-9a-f with single interior underscores *)
Definition hexval (c : N) : option N :=
  if (48 <=? c) && (c <=? 57) then Some (c - 48)
  else if (97 <=? c) && (c <=? 102) then Some (c - 87) else None.
Fixpoint parse_hex_aux (s : text) (acc : N) (prev_us : bool) : option N :=
  match s with
  | [] => if prev_us then None else Some acc
  | c :: r => if N.eqb c ch_us then (if prev_us then None else parse_hex_aux r acc true)
              else match hexval c with
                   | Some d => parse_hex_aux r (acc * 16 + d) false
                   | None => None
                   end
  end.
(* int() accepts an "0x" base prefix, optionally followed by one underscore *)
Definition strip_0x (s : text) : text :=
  match s with
  | c1 :: c2 :: r =>
      if N.eqb c1 48 && N.eqb c2 120
      then match r with u :: r' => if N.eqb u ch_us then r' else r | [] => r end
      else s
  | _ => s
  end.
Definition parse_hex (s : text) : option N :=
  let body := strip_0x s in
  match body with
  | [] => None
  | c :: _ => if N.eqb c ch_us then None else parse_hex_aux body 0 false
  end.

Definition decode_escape (is_u : bool) (body : text) : res N :=
  if is_u then
    match parse_hex body with
    | Some n => if n <? 1114112 then Ok n else PyErr ValueError
    | None => PyErr ValueError
    end
  else
    match ulookup U (map upper_ch (replace_ch ch_H ch_hyphen (replace_ch ch_us ch_space body))) with
    | Some c => Ok c
    | None => PyErr KeyError
    end.

(* the span [_a-z0-9H]+? followed by the delimiter: returns (body, rest after the delimiter) *)
Fixpoint scan_body (s acc : text) : option (text * text) :=
  match s with
  | [] => None
  | c :: r => if N.eqb c mangle_delim then (match acc with [] => None | _ => Some (rev acc, r) end)
              else if esc_class c then scan_body r (c :: acc) else None
  end.

(* one attempt of the regex  X(U)?([_a-z0-9H]+?)X  at a position that holds X *)
Definition match_escape (after_x : text) : option (bool * text * text) :=
  match after_x with
  | c :: r =>
      if N.eqb c ch_U then
        match scan_body r [] with Some (b, rest) => Some (true, b, rest) | None => None end
      else
        match scan_body after_x [] with Some (b, rest) => Some (false, b, rest) | None => None end
  | [] => None
  end.

(* re.sub over the text, left to right; fuel = length of the text *)
Fixpoint unescape (fuel : nat) (s : text) : res text :=
  match fuel with
  | O => Ok []
  | S f =>
    match s with
    | [] => Ok []
    | c :: r =>
        if N.eqb c mangle_delim then
          match match_escape r with
          | Some (is_u, body, rest) =>
              match decode_escape is_u body with
              | Ok d => match unescape f rest with Ok t => Ok (d :: t) | PyErr e => PyErr e end
              | PyErr e => PyErr e
              end
          | None => match unescape f r with Ok t => Ok (c :: t) | PyErr e => PyErr e end
          end
        else match unescape f r with Ok t => Ok (c :: t) | PyErr e => PyErr e end
    end
  end.

Definition is_us (c : N) : bool := N.eqb c ch_us.

(* split off the maximal run of trailing underscores *)
Fixpoint split_trailing (s : text) : text * text :=
  match s with
  | [] => ([], [])
  | c :: r =>
      let '(m, suf) := split_trailing r in
      match m with
      | [] => if is_us c then ([], c :: suf) else ([c], suf)
      | _ => (c :: m, suf)
      end
  end.

(* re.fullmatch of: one or more underscores, lazy anything, trailing underscores (DOTALL) *)
Definition split_affixes (s : text) : text * text * text :=
  match s with
  | c :: _ =>
      if is_us c then
        let pre := takewhile is_us s in
        let '(mid, suf) := split_trailing (dropwhile is_us s) in
        (pre, mid, suf)
      else ([], s, [])
  | [] => ([], s, [])
  end.

Definition unmangle (s : text) : res text :=
  let '(pre, mid, suf) := split_affixes s in
  let body :=
    if starts_with hyx_prefix mid
    then unescape (length mid) (skipn (length hyx_prefix) mid)
    else Ok mid in
  match body with
  | Ok b => Ok (pre ++ replace_ch ch_us ch_hyphen b ++ suf)
  | PyErr e => PyErr e
  end.

End Model.
Arguments Ok {A} _. Arguments PyErr {A} _.
