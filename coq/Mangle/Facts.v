(* The Unicode facts the mangle theorems rest on.  They are hypotheses about
   the interpreter's Unicode database (oracle [uni]), not about hy; the
   harness validates each one against the running interpreter (per code point
   exhaustively, string-level ones on generated strings). *)
From HyV Require Import Base.Text Gen.MangleTables Mangle.Model.

Definition is_word_ascii (c : N) : bool :=
  ((97 <=? c) && (c <=? 122)) || ((65 <=? c) && (c <=? 90)) || ((48 <=? c) && (c <=? 57)) || N.eqb c ch_us.
Definition is_letter_ascii (c : N) : bool :=
  ((97 <=? c) && (c <=? 122)) || ((65 <=? c) && (c <=? 90)).
Definition name_char (c : N) : bool :=   (* alphabet of Unicode character names *)
  ((65 <=? c) && (c <=? 90)) || ((48 <=? c) && (c <=? 57)) || N.eqb c ch_space || N.eqb c ch_hyphen.

Record unicode_facts (U : uni) : Prop := {
  xs_xc : forall c, xid_start U c = true -> xid_continue U c = true;
  xc_word : forall c, is_word_ascii c = true -> xid_continue U c = true;
  xs_letter : forall c, is_letter_ascii c = true -> xid_start U c = true;
  xc_ascii_only_word : forall c, c < 128 -> xid_continue U c = true -> is_word_ascii c = true;
  names_alphabet : forall c, forallb name_char (uname U c) = true;
  nfkc_nil : nfkc U [] = [];
  nfkc_id_closed : forall t, isid U t = true -> isid U (nfkc U t) = true;
  nfkc_idem : forall t, nfkc U (nfkc U t) = nfkc U t;
  nfkc_us_prefix : forall u t, forallb is_us_class u = true ->
      nfkc U (u ++ t) = repeat ch_us (length u) ++ nfkc U t;
  nfkc_head : forall c t, is_us_class c = false ->
      match nfkc U (c :: t) with d :: _ => N.eqb d ch_us = false | [] => True end;
  (* used by unmangle only *)
  name_lookup_inverse : forall c, uname U c <> [] -> ulookup U (uname U c) = Some c;
  nfkc_ascii_id : forall t, forallb is_ascii t = true -> nfkc U t = t
}.
