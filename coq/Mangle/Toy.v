(* Non-vacuity: a small Unicode oracle (ASCII identifiers, no character names,
   a normaliser that folds the underscore class) satisfies [unicode_facts], so
   the C32/C33 theorems are not statements about an empty class of oracles. *)
From HyV Require Import Base.Text Gen.MangleTables Mangle.Model Mangle.Facts Mangle.MangleProofs.

Definition fold_us (c : N) : N := if is_us_class c then ch_us else c.

Definition U_toy : uni := {|
  xid_start := fun c => is_letter_ascii c;
  xid_continue := fun c => is_word_ascii c;
  uname := fun _ => [];
  ulookup := fun _ => None;
  nfkc := fun t => map fold_us t |}.

Lemma word_lt_128 c : is_word_ascii c = true -> c < 128.
Proof.
  unfold is_word_ascii. intros H.
  repeat (apply orb_true_iff in H; destruct H as [H|H]);
    try (apply andb_true_iff in H; destruct H as [_ H]; apply N.leb_le in H; lia).
  apply N.eqb_eq in H. subst. reflexivity.
Qed.

Lemma fold_us_ascii c : c < 128 -> fold_us c = c.
Proof.
  intros H. unfold fold_us. destruct (is_us_class c) eqn:E; [|reflexivity].
  destruct (class_not_ascii_but_us c E) as [E'|E']; [subst; reflexivity | lia].
Qed.

Lemma fold_us_idem c : fold_us (fold_us c) = fold_us c.
Proof. unfold fold_us. destruct (is_us_class c) eqn:E; [rewrite us_in_class; reflexivity | rewrite E; reflexivity]. Qed.

Lemma map_fold_word t : forallb is_word_ascii t = true -> map fold_us t = t.
Proof.
  induction t as [|c r IH]; [reflexivity|]. simpl. intros H. apply andb_true_iff in H. destruct H as [H1 H2].
  rewrite IH by exact H2. rewrite fold_us_ascii by (apply word_lt_128; exact H1). reflexivity.
Qed.

Lemma letter_word c : is_letter_ascii c = true -> is_word_ascii c = true.
Proof.
  unfold is_letter_ascii, is_word_ascii. intros H. apply orb_true_iff in H.
  destruct H as [H|H]; rewrite H; rewrite ?orb_true_r; reflexivity.
Qed.

Lemma U_toy_facts : unicode_facts U_toy.
Proof.
  constructor; cbn [xid_start xid_continue uname ulookup nfkc U_toy].
  - apply letter_word.
  - auto.
  - auto.
  - auto.
  - reflexivity.
  - reflexivity.
  - intros t H. assert (Hw : forallb is_word_ascii t = true).
    { destruct t as [|c r]; [discriminate|]. unfold isid in H. cbn [xid_start xid_continue U_toy] in H.
      apply andb_true_iff in H. destruct H as [H1 H2]. cbn [forallb]. apply andb_true_iff. split; [|exact H2].
      apply orb_true_iff in H1. destruct H1 as [H1|H1]; [apply letter_word; exact H1|].
      apply N.eqb_eq in H1. subst. reflexivity. }
    rewrite (map_fold_word _ Hw). exact H.
  - intros t. rewrite map_map. apply map_ext. apply fold_us_idem.
  - intros u t Hu. rewrite map_app. f_equal. induction u as [|c u IH]; [reflexivity|].
    cbn [forallb] in Hu. apply andb_true_iff in Hu. destruct Hu as [H1 H2].
    cbn [map length repeat]. rewrite IH by exact H2. unfold fold_us at 1. rewrite H1. reflexivity.
  - intros c t Hc. cbn [map]. unfold fold_us at 1. rewrite Hc.
    destruct (N.eqb c ch_us) eqn:E; [|reflexivity]. apply N.eqb_eq in E. subst. rewrite us_in_class in Hc. discriminate.
  - intros c H. congruence.
  - intros t H. induction t as [|c r IH]; [reflexivity|]. cbn [forallb] in H. apply andb_true_iff in H.
    destruct H as [H1 H2]. cbn [map]. rewrite IH by exact H2. rewrite fold_us_ascii; [reflexivity|].
    unfold is_ascii in H1. apply N.ltb_lt in H1. exact H1.
Qed.

(* "a-b!" mangles to hyx_a_bXU21X under the toy oracle; "__x-y" keeps two underscores *)
Example toy_mangle_1 : mangle U_toy [97; 45; 98; 33] = [104; 121; 120; 95; 97; 95; 98; 88; 85; 50; 49; 88].
Proof. vm_compute. reflexivity. Qed.
Example toy_mangle_2 : mangle U_toy [95; 65343; 120; 45; 121] = [95; 95; 120; 95; 121].
Proof. vm_compute. reflexivity. Qed.
Example toy_premises : [97; 45; 98; 33] <> [] /\ dotted [97; 45; 98; 33] = false.
Proof. split; [discriminate | reflexivity]. Qed.
