(* C32: theorems about the mangle model, for every name and every Unicode
   oracle satisfying [unicode_facts]. *)
From HyV Require Import Base.Text Gen.MangleTables Mangle.Model Mangle.Facts.

(* obligations about the regenerated constants (finite computations) *)
Lemma us_in_class : is_us_class ch_us = true.
Proof. vm_compute. reflexivity. Qed.
Lemma h_not_in_class : is_us_class 104 = false.
Proof. vm_compute. reflexivity. Qed.
Lemma hyx_prefix_shape : exists r, hyx_prefix = 104 :: r /\ forallb is_word_ascii r = true.
Proof. eexists. split; [vm_compute; reflexivity | vm_compute; reflexivity]. Qed.
Lemma delim_word : is_word_ascii mangle_delim = true.
Proof. vm_compute. reflexivity. Qed.
Lemma class_not_ascii_but_us : forall c, is_us_class c = true -> c = ch_us \/ 128 <= c.
Proof.
  intros c H. unfold is_us_class in H. apply mem_In in H.
  vm_compute in H. repeat (destruct H as [H|H]; [subst; first [left; reflexivity | right; vm_compute; discriminate]|]).
  contradiction.
Qed.

Section Proofs.
Variable U : uni.
Hypothesis F : unicode_facts U.

Lemma word_xc c : is_word_ascii c = true -> xid_continue U c = true.
Proof. apply (xc_word U F). Qed.

Lemma isid_cons c r : isid U (c :: r) = (xid_start U c || N.eqb c ch_us) && forallb (xid_continue U) r.
Proof. reflexivity. Qed.

Lemma isid_all_xc s : isid U s = true -> forallb (xid_continue U) s = true.
Proof.
  destruct s as [|c r]; [discriminate|]. rewrite isid_cons. intros H.
  apply andb_true_iff in H. destruct H as [H1 H2]. simpl. rewrite H2, andb_true_r.
  apply orb_true_iff in H1. destruct H1 as [H1|H1].
  - apply (xs_xc U F). exact H1.
  - apply N.eqb_eq in H1. subst. apply word_xc. reflexivity.
Qed.

Lemma repeat_us_xc n : forallb (xid_continue U) (repeat ch_us n) = true.
Proof. induction n; simpl; [reflexivity|]. rewrite IHn, word_xc; reflexivity. Qed.

Lemma isid_lead n t : forallb (xid_continue U) t = true ->
  (n <> O \/ isid U t = true) -> isid U (repeat ch_us n ++ t) = true.
Proof.
  intros Ht H. destruct n as [|n].
  - simpl. destruct H as [H|H]; [congruence | exact H].
  - simpl repeat. rewrite <- app_comm_cons, isid_cons. rewrite N.eqb_refl, orb_true_r. simpl.
    rewrite forallb_app, repeat_us_xc, Ht. reflexivity.
Qed.

(* --- escapes are made of identifier characters --- *)
Lemma hex_digit_word d : d < 16 -> is_word_ascii (hex_digit d) = true.
Proof.
  intros H. unfold hex_digit. destruct (d <? 10) eqn:E.
  - apply N.ltb_lt in E. unfold is_word_ascii.
    replace ((48 <=? 48 + d) && (48 + d <=? 57)) with true; [rewrite !orb_true_r; reflexivity|].
    symmetry. apply andb_true_iff. split; apply N.leb_le; lia.
  - apply N.ltb_ge in E. unfold is_word_ascii.
    replace ((97 <=? 87 + d) && (87 + d <=? 122)) with true; [reflexivity|].
    symmetry. apply andb_true_iff. split; apply N.leb_le; lia.
Qed.

Lemma hex_pos_word fuel n acc : forallb is_word_ascii acc = true -> forallb is_word_ascii (hex_pos fuel n acc) = true.
Proof.
  revert n acc. induction fuel as [|f IH]; intros n acc Hacc; simpl; [exact Hacc|].
  destruct (n <? 16) eqn:E.
  - simpl. rewrite Hacc, hex_digit_word; [reflexivity | apply N.ltb_lt; exact E].
  - apply IH. simpl. rewrite Hacc, hex_digit_word; [reflexivity|]. apply N.mod_lt. discriminate.
Qed.

Lemma name_char_escaped c : name_char c = true ->
  is_word_ascii ((fun c => if N.eqb c ch_space then ch_us else c) ((fun c => if N.eqb c ch_hyphen then ch_H else c) (lower_ch c))) = true.
Proof.
  unfold name_char, lower_ch. intros H.
  destruct ((65 <=? c) && (c <=? 90)) eqn:E1.
  - apply andb_true_iff in E1. destruct E1 as [A B]. apply N.leb_le in A. apply N.leb_le in B.
    assert (Hn1 : N.eqb (c + 32) ch_hyphen = false) by (apply N.eqb_neq; unfold ch_hyphen; lia).
    assert (Hn2 : N.eqb (c + 32) ch_space = false) by (apply N.eqb_neq; unfold ch_space; lia).
    rewrite Hn1, Hn2. unfold is_word_ascii.
    replace ((97 <=? c + 32) && (c + 32 <=? 122)) with true; [reflexivity|].
    symmetry. apply andb_true_iff. split; apply N.leb_le; lia.
  - simpl in H. destruct (N.eqb c ch_hyphen) eqn:E2; [vm_compute; reflexivity|].
    destruct (N.eqb c ch_space) eqn:E3; [vm_compute; reflexivity|].
    rewrite orb_false_r in H. rewrite orb_false_r in H.
    unfold is_word_ascii. rewrite H. rewrite !orb_true_r. reflexivity.
Qed.

Lemma esc_name_word c : forallb is_word_ascii (esc_name U c) = true.
Proof.
  unfold esc_name. pose proof (names_alphabet U F c) as Hn.
  destruct (uname U c) as [|d nm] eqn:E.
  - simpl. apply hex_pos_word. reflexivity.
  - unfold replace_ch. rewrite !map_map. rewrite forallb_forall. intros x Hx.
    apply in_map_iff in Hx. destruct Hx as [y [Hy Hin]]. subst x.
    rewrite forallb_forall in Hn. apply name_char_escaped. apply Hn. exact Hin.
Qed.

Lemma forallb_impl {A} (p q : A -> bool) l : (forall x, p x = true -> q x = true) -> forallb p l = true -> forallb q l = true.
Proof. intros H. induction l as [|x l IH]; simpl; [reflexivity|]. intros H1. apply andb_true_iff in H1. destruct H1. rewrite H, IH; auto. Qed.

Lemma esc_char_xc c : forallb (xid_continue U) (esc_char U c) = true.
Proof.
  unfold esc_char. destruct (negb (N.eqb c mangle_delim) && isid U [83; c]) eqn:E.
  - apply andb_true_iff in E. destruct E as [_ E]. apply isid_all_xc in E. simpl in E. simpl.
    apply andb_true_iff in E. destruct E as [_ E]. exact E.
  - simpl. rewrite (word_xc _ delim_word). simpl. rewrite forallb_app. simpl.
    rewrite (word_xc _ delim_word), andb_true_r.
    apply (forallb_impl is_word_ascii); [apply word_xc | apply esc_name_word].
Qed.

Lemma flat_esc_xc s : forallb (xid_continue U) (flat_map (esc_char U) s) = true.
Proof. induction s as [|c r IH]; simpl; [reflexivity|]. rewrite forallb_app, esc_char_xc, IH. reflexivity. Qed.

Lemma hyx_isid t : forallb (xid_continue U) t = true -> isid U (hyx_prefix ++ t) = true.
Proof.
  intros Ht. destruct hyx_prefix_shape as [r [Hr Hw]]. rewrite Hr. rewrite <- app_comm_cons, isid_cons.
  rewrite (xs_letter U F 104) by reflexivity. simpl. rewrite forallb_app, Ht, andb_true_r.
  apply (forallb_impl is_word_ascii); [apply word_xc | exact Hw].
Qed.

(* --- the string before normalisation is an identifier --- *)
Lemma length_dropwhile p (s : text) : (length (dropwhile p s) <= length s)%nat.
Proof. induction s as [|c r IH]; simpl; [lia|]. destruct (p c); simpl; lia. Qed.

Lemma pre_isid s : s <> [] -> isid U (mangle_pre U s) = true.
Proof.
  intros Hs. unfold mangle_pre.
  set (s2 := dropwhile is_us_class s). set (n := (length s - length s2)%nat). set (s3 := hyphens s2).
  destruct (isid U (repeat ch_us n ++ s3)) eqn:E; [exact E|].
  apply isid_lead.
  - pose proof (isid_all_xc _ (hyx_isid _ (flat_esc_xc s3))) as H. exact H.
  - right. apply hyx_isid, flat_esc_xc.
Qed.

Theorem mangle1_is_identifier s : s <> [] -> isid U (mangle1 U s) = true.
Proof. intros Hs. unfold mangle1. apply (nfkc_id_closed U F). apply pre_isid. exact Hs. Qed.

Theorem mangle1_nfkc_normal s : nfkc U (mangle1 U s) = mangle1 U s.
Proof. unfold mangle1. apply (nfkc_idem U F). Qed.

(* --- leading underscores --- *)
Definition leading (p : N -> bool) (s : text) : nat := length (takewhile p s).

Lemma leading_repeat_app n t : (match t with d :: _ => N.eqb d ch_us = false | [] => True end) ->
  leading is_us (repeat ch_us n ++ t) = n.
Proof.
  intros Ht. unfold leading. induction n as [|n IH]; simpl.
  - destruct t as [|d t']; [reflexivity|]. simpl. unfold is_us. rewrite Ht. reflexivity.
  - rewrite IH. reflexivity.
Qed.

Lemma length_take_drop p (s : text) : (length s - length (dropwhile p s))%nat = length (takewhile p s).
Proof. rewrite <- (take_drop_while p s) at 1. rewrite app_length. lia. Qed.

Lemma repeat_us_class n : forallb is_us_class (repeat ch_us n) = true.
Proof. induction n; cbn [repeat forallb]; [reflexivity|]. rewrite us_in_class, IHn. reflexivity. Qed.

Lemma hyphens_head s : match hyphens s, s with c :: _, d :: _ => c = d | [], [] => True | _, _ => False end.
Proof. destruct s; simpl; auto. Qed.

Theorem mangle1_leading_underscores s :
  leading is_us (mangle1 U s) = leading is_us_class s.
Proof.
  unfold mangle1, mangle_pre.
  set (s2 := dropwhile is_us_class s). set (n := (length s - length s2)%nat). set (s3 := hyphens s2).
  assert (Hn : n = leading is_us_class s) by (unfold n, s2, leading; apply length_take_drop).
  rewrite (nfkc_us_prefix U F) by apply repeat_us_class. rewrite repeat_length.
  rewrite <- Hn. apply leading_repeat_app.
  pose proof (dropwhile_head is_us_class s) as Hd. fold s2 in Hd.
  destruct (isid U (repeat ch_us n ++ s3)).
  - unfold s3. destruct s2 as [|c r]; simpl.
    + rewrite (nfkc_nil U F). exact I.
    + apply (nfkc_head U F). exact Hd.
  - destruct hyx_prefix_shape as [r [Hr _]]. rewrite Hr. rewrite <- app_comm_cons.
    apply (nfkc_head U F). apply h_not_in_class.
Qed.

(* --- identifiers already in normal form are unchanged --- *)
Lemma xc_not_hyphen c : xid_continue U c = true -> N.eqb c ch_hyphen = false.
Proof.
  intros H. destruct (N.eqb c ch_hyphen) eqn:E; [|reflexivity]. apply N.eqb_eq in E. subst.
  apply (xc_ascii_only_word U F) in H; [discriminate | reflexivity].
Qed.
Lemma xc_not_dot c : xid_continue U c = true -> N.eqb c ch_dot = false.
Proof.
  intros H. destruct (N.eqb c ch_dot) eqn:E; [|reflexivity]. apply N.eqb_eq in E. subst.
  apply (xc_ascii_only_word U F) in H; [discriminate | reflexivity].
Qed.

Lemma replace_none a b s : forallb (fun c => negb (N.eqb c a)) s = true -> replace_ch a b s = s.
Proof.
  induction s as [|c r IH]; simpl; [reflexivity|]. intros H. apply andb_true_iff in H. destruct H as [H1 H2].
  apply negb_true_iff in H1. rewrite H1, IH; auto.
Qed.

Lemma hyphens_id s : forallb (xid_continue U) s = true -> hyphens s = s.
Proof.
  destruct s as [|c r]; [reflexivity|]. simpl. intros H. apply andb_true_iff in H. destruct H as [_ H].
  f_equal. apply replace_none. apply (forallb_impl (xid_continue U)); [|exact H].
  intros x Hx. rewrite xc_not_hyphen; auto.
Qed.

Lemma forallb_dropwhile {p} q (s : text) : forallb q s = true -> forallb q (dropwhile p s) = true.
Proof. induction s as [|c r IH]; simpl; [reflexivity|]. intros H. apply andb_true_iff in H. destruct H. destruct (p c); simpl; [auto | rewrite H, H0; reflexivity]. Qed.

Lemma isid_no_dot s : isid U s = true -> mem ch_dot s = false.
Proof.
  intros H. apply isid_all_xc in H. unfold mem. induction s as [|c r IH]; cbn [existsb]; [reflexivity|].
  cbn [forallb] in H. apply andb_true_iff in H. destruct H as [H1 H2]. rewrite IH by exact H2.
  rewrite N.eqb_sym, (xc_not_dot _ H1). reflexivity.
Qed.

Theorem mangle1_fixes_normal_identifiers s : isid U s = true -> nfkc U s = s -> mangle1 U s = s.
Proof.
  intros Hid Hn. unfold mangle1, mangle_pre.
  set (s2 := dropwhile is_us_class s). set (n := (length s - length s2)%nat).
  assert (Hn' : n = length (takewhile is_us_class s)) by (apply length_take_drop).
  pose proof (isid_all_xc _ Hid) as Hxc.
  assert (Hxc2 : forallb (xid_continue U) s2 = true) by (apply forallb_dropwhile; exact Hxc).
  rewrite (hyphens_id _ Hxc2).
  assert (Hid' : isid U (repeat ch_us n ++ s2) = true).
  { apply isid_lead; [exact Hxc2|]. destruct n as [|n']; [right | left; discriminate].
    assert (Ht : takewhile is_us_class s = []) by (destruct (takewhile is_us_class s); [reflexivity | discriminate]).
    pose proof (take_drop_while is_us_class s) as Htd. rewrite Ht in Htd. simpl in Htd. fold s2 in Htd. rewrite Htd. exact Hid. }
  rewrite Hid'.
  rewrite (nfkc_us_prefix U F) by apply repeat_us_class. rewrite repeat_length, Hn'.
  rewrite <- (nfkc_us_prefix U F) by apply takewhile_all.
  unfold s2. rewrite take_drop_while. exact Hn.
Qed.

(* --- the dotted branch --- *)
Lemma split_aux_no_dot s cur : forallb (fun c => negb (N.eqb c ch_dot)) cur = true ->
  Forall (fun x => mem ch_dot x = false) (split_dots_aux s cur).
Proof.
  revert cur. induction s as [|c r IH]; intros cur Hc; simpl.
  - constructor; [|constructor]. unfold mem. rewrite <- (rev_involutive cur) in Hc.
    induction (rev cur) as [|x l IHl]; [reflexivity|]. simpl in Hc. rewrite forallb_app in Hc. apply andb_true_iff in Hc.
    destruct Hc as [Hc1 Hc2]. simpl in Hc2. rewrite andb_true_r in Hc2. apply negb_true_iff in Hc2.
    cbn [existsb]. rewrite N.eqb_sym, Hc2. cbn [orb]. apply IHl. exact Hc1.
  - destruct (N.eqb c ch_dot) eqn:E.
    + constructor; [|apply IH; reflexivity]. unfold mem. rewrite <- (rev_involutive cur) in Hc.
      clear IH. induction (rev cur) as [|x l IHl]; [reflexivity|]. simpl in Hc. rewrite forallb_app in Hc. apply andb_true_iff in Hc.
      destruct Hc as [Hc1 Hc2]. simpl in Hc2. rewrite andb_true_r in Hc2. apply negb_true_iff in Hc2.
      cbn [existsb]. rewrite N.eqb_sym, Hc2. cbn [orb]. apply IHl. exact Hc1.
    + apply IH. simpl. rewrite E. simpl. exact Hc.
Qed.

Lemma dotted_false_of_no_dot x : mem ch_dot x = false -> dotted x = false.
Proof. intros H. unfold dotted. rewrite H. reflexivity. Qed.

Theorem mangle_dotted_by_parts s : dotted s = true ->
  mangle U s = join_dots (map (fun x => match x with [] => [] | _ => mangle U x end) (split_dots s))
  /\ Forall (fun x => mem ch_dot x = false) (split_dots s).
Proof.
  intros Hd. pose proof (split_aux_no_dot s [] eq_refl) as Hnd. fold (split_dots s) in Hnd.
  split; [|exact Hnd]. unfold mangle at 1. rewrite Hd. f_equal.
  apply map_ext_in. intros x Hx. rewrite Forall_forall in Hnd. specialize (Hnd x Hx).
  destruct x as [|c r]; [reflexivity|]. unfold mangle_part, mangle. rewrite (dotted_false_of_no_dot _ Hnd). reflexivity.
Qed.

(* --- the property, for names that do not take the dotted branch --- *)
Theorem mangle_canonical s : s <> [] -> dotted s = false ->
  isid U (mangle U s) = true
  /\ nfkc U (mangle U s) = mangle U s
  /\ leading is_us (mangle U s) = leading is_us_class s
  /\ mangle U (mangle U s) = mangle U s.
Proof.
  intros Hs Hd. assert (E : mangle U s = mangle1 U s) by (unfold mangle; rewrite Hd; reflexivity).
  rewrite !E.
  pose proof (mangle1_is_identifier s Hs) as H1. pose proof (mangle1_nfkc_normal s) as H2.
  repeat split; [exact H1 | exact H2 | apply mangle1_leading_underscores |].
  unfold mangle. rewrite (dotted_false_of_no_dot _ (isid_no_dot _ H1)).
  apply mangle1_fixes_normal_identifiers; assumption.
Qed.

Theorem mangle_fixes_normal_identifiers s : isid U s = true -> nfkc U s = s -> mangle U s = s.
Proof.
  intros Hid Hn. unfold mangle. rewrite (dotted_false_of_no_dot _ (isid_no_dot _ Hid)).
  apply mangle1_fixes_normal_identifiers; assumption.
Qed.

End Proofs.
