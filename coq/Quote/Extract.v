(* Extraction of the quote / quasiquote model for the correspondence harness.
   ExtrOcamlBasic only; numbers stay the extracted positive / N / Z. *)
From HyV Require Import Base.Text Quote.Model Quote.AsModel.
Require Extraction.
Require Import ExtrOcamlBasic.
Extraction "../extract/quote_model.ml"
  render run_quote qq_ref qq_ref_p qq_valid qq_rejected is_top_splice wf wf_ctor as_model inj
  plain cnorm model_of eval as_model_h run_history.
