(* Proofs for C29 over Quote/Model.v and Quote/AsModel.v. *)
From HyV Require Import Base.Text Quote.Model Quote.Proofs Quote.AsModel.
From Coq Require Import ZArith Lia.

(* ------------------------------------------------------------------ induction on values *)
Lemma value_ind2 (P : value -> Prop) :
  (forall k items, Forall P items -> P (VSeq k items)) ->
  (forall items, Forall P items -> P (PList items)) ->
  (forall items, Forall P items -> P (PTuple items)) ->
  (forall items, Forall P items -> P (PSet items)) ->
  (forall items, Forall P items -> P (PDict items)) ->
  (forall v, match v with VSeq _ _ | PList _ | PTuple _ | PSet _ | PDict _ => False | _ => True end -> P v) ->
  forall v, P v.
Proof.
  intros H1 H2 H3 H4 H5 H6.
  fix IH 1. intros v.
  assert (L : forall items, Forall P items).
  { induction items as [|x r IHr]; constructor; [apply IH | exact IHr]. }
  destruct v; try (apply H6; exact Logic.I); [apply H1 | apply H2 | apply H3 | apply H4 | apply H5]; apply L.
Qed.

(* ------------------------------------------------------------------ unfolding as_model *)
Lemma as_model_plist l : as_model (PList l) = match as_model_list l with Err e => Err e | Ok l' => Ok (VSeq KList l') end.
Proof. reflexivity. Qed.
Lemma as_model_ptuple l : as_model (PTuple l) = match as_model_list l with Err e => Err e | Ok l' => Ok (VSeq KTuple l') end.
Proof. reflexivity. Qed.
Lemma as_model_pset l : as_model (PSet l) = match as_model_list l with Err e => Err e | Ok l' => Ok (VSeq KSet l') end.
Proof. reflexivity. Qed.
Lemma as_model_pdict l : as_model (PDict l) = match as_model_list l with Err e => Err e | Ok l' => Ok (VSeq KDict l') end.
Proof. reflexivity. Qed.

Lemma plain_all l :
  (fix all (l : list value) := match l with [] => true | x :: r => plain x && all r end) l = forallb plain l.
Proof. induction l as [|x r IH]; [reflexivity|]. cbn [forallb]. rewrite <- IH. reflexivity. Qed.

Lemma plain_plist l : plain (PList l) = forallb plain l.
Proof. cbn [plain]. apply plain_all. Qed.
Lemma plain_ptuple l : plain (PTuple l) = forallb plain l.
Proof. cbn [plain]. apply plain_all. Qed.
Lemma plain_pset l : plain (PSet l) = forallb plain l && nodupb (map cnorm l).
Proof. cbn [plain]. rewrite plain_all. reflexivity. Qed.
Lemma plain_pdict l : plain (PDict l) = forallb plain l && evenb_len l && nodupb (dict_keys (map cnorm l)).
Proof. cbn [plain]. rewrite plain_all. reflexivity. Qed.

(* ------------------------------------------------------------------ (1a) what as_model builds *)
Lemma as_model_list_plain l :
  Forall (fun v => plain v = true -> as_model v = Ok (inj (model_of v))) l -> forallb plain l = true ->
  as_model_list l = Ok (map inj (map model_of l)).
Proof.
  induction 1 as [|x r Hx _ IH]; intros Hp; [reflexivity|].
  cbn [forallb] in Hp. apply andb_true_iff in Hp. destruct Hp as [Hpx Hpr].
  cbn [as_model_list map]. rewrite (Hx Hpx), (IH Hpr). reflexivity.
Qed.

Theorem as_model_plain v : plain v = true -> as_model v = Ok (inj (model_of v)).
Proof.
  induction v as [k items IH|items IH|items IH|items IH|items IH|v Hv] using value_ind2; intros Hp.
  - discriminate Hp.
  - rewrite plain_plist in Hp. rewrite as_model_plist, (as_model_list_plain _ IH Hp). reflexivity.
  - rewrite plain_ptuple in Hp. rewrite as_model_ptuple, (as_model_list_plain _ IH Hp). reflexivity.
  - rewrite plain_pset in Hp. apply andb_true_iff in Hp. destruct Hp as [Hp _].
    rewrite as_model_pset, (as_model_list_plain _ IH Hp). reflexivity.
  - rewrite plain_pdict in Hp. apply andb_true_iff in Hp. destruct Hp as [Hp _]. apply andb_true_iff in Hp. destruct Hp as [Hp _].
    rewrite as_model_pdict, (as_model_list_plain _ IH Hp). reflexivity.
  - destruct v; try contradiction; try discriminate Hp; reflexivity.
Qed.

(* ------------------------------------------------------------------ sets and dicts of distinct members *)
Lemma filter_all_true {A} (f : A -> bool) l : forallb f l = true -> filter f l = l.
Proof.
  induction l as [|x r IH]; [reflexivity|]. cbn. intros H. apply andb_true_iff in H. destruct H as [H1 H2].
  rewrite H1, (IH H2). reflexivity.
Qed.

Lemma not_exists_forall (x : value) r : existsb (value_eqb x) r = false -> forallb (fun y => negb (value_eqb x y)) r = true.
Proof.
  induction r as [|y r IH]; [reflexivity|]. cbn. intros H. apply orb_false_iff in H. destruct H as [H1 H2].
  rewrite H1, (IH H2). reflexivity.
Qed.

Lemma dedup_nodup l : nodupb l = true -> dedup l = l.
Proof.
  induction l as [|x r IH]; [reflexivity|]. cbn [nodupb dedup]. intros H. apply andb_true_iff in H. destruct H as [H1 H2].
  rewrite (IH H2). apply negb_true_iff in H1. rewrite (filter_all_true _ _ (not_exists_forall _ _ H1)). reflexivity.
Qed.

Lemma pair_ind {A} (P : list A -> Prop) :
  P [] -> (forall x, P [x]) -> (forall k v r, P r -> P (k :: v :: r)) -> forall l, P l.
Proof.
  intros H0 H1 H2. fix IH 1. intros [|k [|v r]]; [exact H0 | apply H1 | apply H2, IH].
Qed.

Definition no_key (k : value) (d : list value) : bool := negb (existsb (fun k0 => value_eqb k0 k) (dict_keys d)).

Lemma dict_set_fresh d : forall k v, evenb_len d = true -> no_key k d = true -> dict_set d k v = d ++ [k; v].
Proof.
  induction d as [|x|k0 v0 r IH] using pair_ind; intros k v He Hn; [reflexivity | discriminate He |].
  cbn [evenb_len] in He. unfold no_key in Hn. cbn [dict_keys existsb] in Hn.
  apply negb_true_iff in Hn. apply orb_false_iff in Hn. destruct Hn as [H1 H2].
  cbn [dict_set]. rewrite H1. cbn [app]. f_equal. f_equal. apply IH; [exact He|].
  unfold no_key. rewrite H2. reflexivity.
Qed.

Lemma dict_keys_app d k v : evenb_len d = true -> dict_keys (d ++ [k; v]) = dict_keys d ++ [k].
Proof.
  induction d as [|x|k0 v0 r IH] using pair_ind; intros He; [reflexivity | discriminate He |].
  cbn [evenb_len] in He. cbn [app dict_keys]. rewrite (IH He). reflexivity.
Qed.

Lemma evenb_len_app {A} (d : list A) k v : evenb_len d = true -> evenb_len (d ++ [k; v]) = true.
Proof.
  induction d as [|x|k0 v0 r IH] using pair_ind; intros He; [reflexivity | discriminate He |].
  cbn [evenb_len] in He. cbn [app evenb_len]. exact (IH He).
Qed.

Lemma dict_of_distinct items : forall acc,
  evenb_len items = true -> evenb_len acc = true ->
  forallb (fun k => no_key k acc) (dict_keys items) = true ->
  nodupb (dict_keys items) = true ->
  dict_of items acc = Some (acc ++ items).
Proof.
  induction items as [|x|k v r IH] using pair_ind; intros acc He Ha Hf Hn.
  - cbn. rewrite app_nil_r. reflexivity.
  - discriminate He.
  - cbn [evenb_len] in He. cbn [dict_keys forallb] in Hf. apply andb_true_iff in Hf. destruct Hf as [Hk Hf].
    cbn [dict_keys nodupb] in Hn. apply andb_true_iff in Hn. destruct Hn as [Hkr Hn].
    cbn [dict_of]. rewrite (dict_set_fresh acc k v Ha Hk).
    rewrite (IH (acc ++ [k; v]) He (evenb_len_app acc k v Ha)); [rewrite <- app_assoc; reflexivity | | exact Hn].
    (* the remaining keys are fresh for acc ++ [k; v] *)
    apply negb_true_iff in Hkr.
    clear IH Hn He. induction (dict_keys r) as [|y ys IHy]; [reflexivity|].
    cbn [forallb] in Hf |- *. apply andb_true_iff in Hf. destruct Hf as [Hy Hf].
    cbn [existsb] in Hkr. apply orb_false_iff in Hkr. destruct Hkr as [Hky Hkr].
    rewrite (IHy Hf Hkr), andb_true_r.
    unfold no_key in Hy |- *. rewrite (dict_keys_app acc k v Ha), existsb_app. cbn [existsb].
    apply negb_true_iff in Hy. rewrite Hy, Hky. reflexivity.
Qed.

Lemma display_dict_distinct l : evenb_len l = true -> nodupb (dict_keys l) = true -> display KDict l = Ok (PDict l).
Proof.
  intros He Hn. unfold display. rewrite (dict_of_distinct l [] He eq_refl); [reflexivity | | exact Hn].
  clear Hn. induction (dict_keys l) as [|y ys IHy]; [reflexivity | cbn [forallb]; rewrite IHy; reflexivity].
Qed.

(* ------------------------------------------------------------------ (1b) evaluating the tree gives the value back *)
Lemma evenb_len_map {A B} (f : A -> B) l : evenb_len (map f l) = evenb_len l.
Proof. induction l as [|x|k v r IH] using pair_ind; [reflexivity | reflexivity | exact IH]. Qed.

Lemma model_of_not_unpack v : is_unpack_iterable (model_of v) = false.
Proof. destruct v; reflexivity. Qed.

Section EvalBack.
Variable St : Type.
Variable user : model -> St -> res value * St.
Notation bind := (@Model.bind St _ _).
Notation ret := (@Model.ret St _).
Notation lift := (@Model.lift St _).

Lemma eval_display_list items :
  eval St user (MSeq KList items) = bind (eval_items St user items) (fun vs => lift (display KList vs)).
Proof. reflexivity. Qed.
Lemma eval_display_tuple items :
  eval St user (MSeq KTuple items) = bind (eval_items St user items) (fun vs => lift (display KTuple vs)).
Proof. reflexivity. Qed.
Lemma eval_display_set items :
  eval St user (MSeq KSet items) = bind (eval_items St user items) (fun vs => lift (display KSet vs)).
Proof. reflexivity. Qed.
Lemma eval_display_dict items :
  eval St user (MSeq KDict items) = bind (eval_items St user items) (fun vs => lift (display KDict vs)).
Proof. reflexivity. Qed.

Lemma eval_items_model_of l :
  Forall (fun v => plain v = true -> forall st, eval St user (model_of v) st = (Ok (cnorm v), st)) l ->
  forallb plain l = true ->
  forall st, eval_items St user (map model_of l) st = (Ok (map cnorm l), st).
Proof.
  induction 1 as [|x r Hx _ IH]; intros Hp st; [reflexivity|].
  cbn [forallb] in Hp. apply andb_true_iff in Hp. destruct Hp as [Hpx Hpr].
  cbn [map Model.eval_items]. rewrite (eval_item_plain St user _ (model_of_not_unpack x)).
  unfold Model.bind, Model.ret. rewrite (Hx Hpx), (IH Hpr). reflexivity.
Qed.

Theorem eval_model_of v : plain v = true -> forall st, eval St user (model_of v) st = (Ok (cnorm v), st).
Proof.
  induction v as [k items IH|items IH|items IH|items IH|items IH|v Hv] using value_ind2; intros Hp st.
  - discriminate Hp.
  - rewrite plain_plist in Hp. cbn [model_of cnorm]. rewrite eval_display_list. unfold Model.bind, Model.lift.
    rewrite (eval_items_model_of _ IH Hp). reflexivity.
  - rewrite plain_ptuple in Hp. cbn [model_of cnorm]. rewrite eval_display_tuple. unfold Model.bind, Model.lift.
    rewrite (eval_items_model_of _ IH Hp). reflexivity.
  - rewrite plain_pset in Hp. apply andb_true_iff in Hp. destruct Hp as [Hp Hn].
    cbn [model_of cnorm]. rewrite eval_display_set. unfold Model.bind, Model.lift.
    rewrite (eval_items_model_of _ IH Hp). cbn [display]. rewrite (dedup_nodup _ Hn). reflexivity.
  - rewrite plain_pdict in Hp. apply andb_true_iff in Hp. destruct Hp as [Hp Hn]. apply andb_true_iff in Hp. destruct Hp as [Hp He].
    cbn [model_of cnorm]. rewrite eval_display_dict. unfold Model.bind, Model.lift.
    rewrite (eval_items_model_of _ IH Hp). rewrite display_dict_distinct; [reflexivity | rewrite evenb_len_map; exact He | exact Hn].
  - destruct v; try contradiction; try discriminate Hp; try reflexivity.
    destruct b; reflexivity.
Qed.

End EvalBack.

(* values in which Complex(x) changes nothing: cnorm is the identity *)
Fixpoint cpx_plain (v : value) : bool :=
  match v with
  | PCpx _ im => N.eqb (add0 im) im
  | PList l | PTuple l | PSet l | PDict l =>
      (fix all (l : list value) := match l with [] => true | x :: r => cpx_plain x && all r end) l
  | _ => true
  end.

Lemma cpx_plain_all l :
  (fix all (l : list value) := match l with [] => true | x :: r => cpx_plain x && all r end) l = forallb cpx_plain l.
Proof. induction l as [|x r IH]; [reflexivity|]. cbn [forallb]. rewrite <- IH. reflexivity. Qed.

Lemma cnorm_id_list l :
  Forall (fun v => cpx_plain v = true -> cnorm v = v) l -> forallb cpx_plain l = true -> map cnorm l = l.
Proof.
  induction 1 as [|x r Hx _ IH]; intros Hc; [reflexivity|].
  cbn [forallb] in Hc. apply andb_true_iff in Hc. destruct Hc as [H1 H2]. cbn [map]. rewrite (Hx H1), (IH H2). reflexivity.
Qed.

Lemma cnorm_id v : cpx_plain v = true -> cnorm v = v.
Proof.
  induction v as [k items IH|items IH|items IH|items IH|items IH|v Hv] using value_ind2; intros Hc.
  - reflexivity.
  - cbn [cpx_plain] in Hc. rewrite cpx_plain_all in Hc. cbn [cnorm]. rewrite (cnorm_id_list _ IH Hc). reflexivity.
  - cbn [cpx_plain] in Hc. rewrite cpx_plain_all in Hc. cbn [cnorm]. rewrite (cnorm_id_list _ IH Hc). reflexivity.
  - cbn [cpx_plain] in Hc. rewrite cpx_plain_all in Hc. cbn [cnorm]. rewrite (cnorm_id_list _ IH Hc). reflexivity.
  - cbn [cpx_plain] in Hc. rewrite cpx_plain_all in Hc. cbn [cnorm]. rewrite (cnorm_id_list _ IH Hc). reflexivity.
  - destruct v; try reflexivity; try contradiction. cbn in Hc. apply N.eqb_eq in Hc. cbn. rewrite Hc. reflexivity.
Qed.

(* ------------------------------------------------------------------ (2) idempotence *)
(* no two adjacent Strings *)
Fixpoint nadj (l : list value) : bool :=
  match l with
  | VStr _ _ :: r => match r with VStr _ _ :: _ => false | _ => nadj r end
  | _ :: r => nadj r
  | [] => true
  end.

Lemma fjoin_nadj l : nadj (fjoin l) = true.
Proof.
  induction l as [|x r IH]; [reflexivity|].
  destruct (is_vstr x) eqn:Ex.
  - destruct x; try discriminate Ex. cbn [fjoin].
    destruct (fjoin r) as [|y q] eqn:Ej; [reflexivity|].
    destruct (is_vstr y) eqn:Ey.
    + destruct y; try discriminate Ey. cbn [nadj] in IH |- *. exact IH.
    + destruct y; try discriminate Ey; cbn [nadj] in IH |- *; exact IH.
  - rewrite (fjoin_cons_other _ _ Ex). destruct x; try discriminate Ex; cbn [nadj]; exact IH.
Qed.

Lemma fjoin_id l : nadj l = true -> fjoin l = l.
Proof.
  induction l as [|x r IH]; [reflexivity|]. intros H.
  destruct (is_vstr x) eqn:Ex.
  - destruct x; try discriminate Ex. cbn [nadj] in H. cbn [fjoin].
    destruct r as [|y q]; [reflexivity|].
    destruct (is_vstr y) eqn:Ey; [destruct y; try discriminate Ey; discriminate H|].
    assert (Hr : nadj (y :: q) = true) by (destruct y; try discriminate Ey; exact H).
    rewrite (IH Hr). destruct y; try discriminate Ey; reflexivity.
  - rewrite (fjoin_cons_other _ _ Ex). f_equal. apply IH. destruct x; try discriminate Ex; exact H.
Qed.

Lemma fjoin_idem l : fjoin (fjoin l) = fjoin l.
Proof. apply fjoin_id, fjoin_nadj. Qed.

Lemma as_model_vstr s b : as_model (VStr s b) = Ok (VStr s b).
Proof. reflexivity. Qed.

(* a list of values each fixed by as_model stays fixed after joining *)
Lemma as_model_list_fjoin l : as_model_list l = Ok l -> as_model_list (fjoin l) = Ok (fjoin l).
Proof.
  induction l as [|x r IH]; [reflexivity|]. intros H.
  cbn [as_model_list] in H. destruct (as_model x) as [x'|] eqn:Ex; [|discriminate H].
  destruct (as_model_list r) as [r'|] eqn:Er; [|discriminate H]. injection H as Hx Hr. subst x' r'.
  specialize (IH eq_refl).
  destruct (is_vstr x) eqn:Evx.
  - destruct x; try discriminate Evx. cbn [fjoin].
    destruct (fjoin r) as [|y q] eqn:Ej; [reflexivity|].
    destruct (is_vstr y) eqn:Ey.
    + destruct y; try discriminate Ey. cbn [as_model_list] in IH |- *.
      rewrite as_model_vstr in IH. rewrite as_model_vstr.
      destruct (as_model_list q) as [q'|]; [|discriminate IH]. injection IH as ->. reflexivity.
    + destruct y; try discriminate Ey;
        cbn [as_model_list] in IH |- *; rewrite as_model_vstr;
        (match type of IH with context [as_model ?t] => destruct (as_model t) as [y'|]; [|discriminate IH] end);
        (destruct (as_model_list q) as [q'|]; [|discriminate IH]); injection IH as -> ->; reflexivity.
  - rewrite (fjoin_cons_other _ _ Evx). cbn [as_model_list]. rewrite Ex, IH. reflexivity.
Qed.

Lemma as_model_list_fixed l l' :
  Forall (fun v => forall w, as_model v = Ok w -> as_model w = Ok w) l ->
  as_model_list l = Ok l' -> as_model_list l' = Ok l'.
Proof.
  intros H. revert l'. induction H as [|x r Hx _ IH]; intros l' Hl.
  - injection Hl as <-. reflexivity.
  - cbn [as_model_list] in Hl. destruct (as_model x) as [x'|] eqn:Ex; [|discriminate Hl].
    destruct (as_model_list r) as [r'|] eqn:Er; [|discriminate Hl]. injection Hl as <-.
    cbn [as_model_list]. rewrite (Hx _ eq_refl), (IH _ eq_refl). reflexivity.
Qed.

Lemma mk_seq_fixed k l w : as_model_list l = Ok l -> mk_seq k l = Ok w -> as_model w = Ok w.
Proof.
  intros Hl Hm.
  destruct k as [| | | | |br ts|cv ex ts];
    try (cbn [mk_seq] in Hm; injection Hm as <-; rewrite as_model_seq, Hl; reflexivity).
  assert (Hw : w = VSeq (KFString br ts) (fjoin l)).
  { unfold mk_seq in Hm. destruct br as [b|].
    - destruct (string_in_node (close_pat b) (VSeq (KFString (Some b) ts) (fjoin l))); [discriminate Hm|].
      injection Hm as <-. reflexivity.
    - injection Hm as <-. reflexivity. }
  subst w. rewrite as_model_seq, (as_model_list_fjoin _ Hl).
  unfold mk_seq in Hm |- *. rewrite fjoin_idem. exact Hm.
Qed.

(* as_model applied to its own output returns it unchanged -- for every value, existing models included *)
Theorem as_model_idempotent v : forall w, as_model v = Ok w -> as_model w = Ok w.
Proof.
  induction v as [k items IH|items IH|items IH|items IH|items IH|v Hv] using value_ind2; intros w Hw.
  - rewrite as_model_seq in Hw. destruct (as_model_list items) as [l'|] eqn:El; [|discriminate Hw].
    exact (mk_seq_fixed k l' w (as_model_list_fixed _ _ IH El) Hw).
  - rewrite as_model_plist in Hw. destruct (as_model_list items) as [l'|] eqn:El; [|discriminate Hw].
    injection Hw as <-. rewrite as_model_seq, (as_model_list_fixed _ _ IH El). reflexivity.
  - rewrite as_model_ptuple in Hw. destruct (as_model_list items) as [l'|] eqn:El; [|discriminate Hw].
    injection Hw as <-. rewrite as_model_seq, (as_model_list_fixed _ _ IH El). reflexivity.
  - rewrite as_model_pset in Hw. destruct (as_model_list items) as [l'|] eqn:El; [|discriminate Hw].
    injection Hw as <-. rewrite as_model_seq, (as_model_list_fixed _ _ IH El). reflexivity.
  - rewrite as_model_pdict in Hw. destruct (as_model_list items) as [l'|] eqn:El; [|discriminate Hw].
    injection Hw as <-. rewrite as_model_seq, (as_model_list_fixed _ _ IH El). reflexivity.
  - destruct v; try contradiction; cbn in Hw; try discriminate Hw; injection Hw as <-; reflexivity.
Qed.

(* ------------------------------------------------------------------ the heap version: _seen is restored *)
Fixpoint map_h (f : list nat -> nat -> hres * list nat) (l : list nat) (s : list nat) : (list value + hres) * list nat :=
  match l with
  | [] => (inl [], s)
  | x :: r =>
      match f s x with
      | (HOk w, s') =>
          match map_h f r s' with
          | (inl ws, s'') => (inl (w :: ws), s'')
          | (inr e, s'') => (inr e, s'')
          end
      | (e, s') => (inr e, s')
      end
  end.

Lemma as_model_h_S f h seen a :
  as_model_h (S f) h seen a =
  if in_seen a seen then (HErr ECycle, seen)
  else match nth_error h a with
       | None => (HErr EUnmodelled, seen)
       | Some (HAtom v) => (of_res (as_model v), seen)
       | Some (HCont c items) =>
           let seen1 := if tracked c then a :: seen else seen in
           let '(r, seen2) := map_h (as_model_h f h) items seen1 in
           let seen3 := if tracked c then seen_remove a seen2 else seen2 in
           (match r with inl vs => of_res (build c vs) | inr e => e end, seen3)
       end.
Proof.
  cbn [as_model_h]. destruct (in_seen a seen); [reflexivity|].
  destruct (nth_error h a) as [[v|c items]|]; try reflexivity.
  assert (L : forall l s,
    (fix go (l : list nat) (s : list nat) : (list value + hres) * list nat :=
       match l with
       | [] => (inl [], s)
       | x :: r =>
           match as_model_h f h s x with
           | (HOk w, s') =>
               match go r s' with
               | (inl ws, s'') => (inl (w :: ws), s'')
               | (inr e, s'') => (inr e, s'')
               end
           | (e, s') => (inr e, s')
           end
       end) l s = map_h (as_model_h f h) l s).
  { induction l as [|x r IH]; intros s; [reflexivity|]. cbn [map_h].
    destruct (as_model_h f h s x) as [[w|e|] s']; try reflexivity. rewrite IH. reflexivity. }
  rewrite L. reflexivity.
Qed.

Lemma map_h_seen f l : (forall s x, snd (f s x) = s) -> forall s, snd (map_h f l s) = s.
Proof.
  intros Hf. induction l as [|x r IH]; intros s; [reflexivity|].
  cbn [map_h]. pose proof (Hf s x) as Hx. destruct (f s x) as [[w|e|] s']; cbn [snd] in Hx; subst s'; try reflexivity.
  pose proof (IH s) as Hr. destruct (map_h f r s) as [[ws|e] s'']; cbn [snd] in Hr |- *; exact Hr.
Qed.

Lemma seen_remove_fresh a seen : in_seen a seen = false -> seen_remove a seen = seen.
Proof.
  unfold in_seen, seen_remove. induction seen as [|b r IH]; [reflexivity|].
  cbn [existsb filter]. intros H. apply orb_false_iff in H. destruct H as [H1 H2].
  rewrite H1. cbn [negb]. rewrite (IH H2). reflexivity.
Qed.

Lemma seen_remove_cons a seen : in_seen a seen = false -> seen_remove a (a :: seen) = seen.
Proof.
  intros H. unfold seen_remove. cbn [filter]. rewrite Nat.eqb_refl. cbn [negb]. apply (seen_remove_fresh a seen H).
Qed.

(* (4) after ANY outcome -- a result, an error at any depth, or running out of fuel -- _seen is what it was *)
Theorem seen_restored fuel : forall h seen a, snd (as_model_h fuel h seen a) = seen.
Proof.
  induction fuel as [|f IH]; intros h seen a; [reflexivity|].
  rewrite as_model_h_S. destruct (in_seen a seen) eqn:Es; [reflexivity|].
  destruct (nth_error h a) as [[v|c items]|]; try reflexivity.
  cbv zeta.
  pose proof (map_h_seen (as_model_h f h) items (fun s x => IH h s x) (if tracked c then a :: seen else seen)) as Hm.
  destruct (map_h (as_model_h f h) items (if tracked c then a :: seen else seen)) as [r seen2].
  cbn [snd] in Hm |- *. subst seen2. destruct (tracked c); [apply seen_remove_cons; exact Es | reflexivity].
Qed.

(* hence every call of a history behaves as if it were the first one *)
Theorem history_independent fuel calls seen :
  run_history fuel calls seen = (map (fun c => fst (as_model_h fuel (fst c) seen (snd c))) calls, seen).
Proof.
  induction calls as [|[h a] r IH]; [reflexivity|].
  cbn [run_history map fst snd]. pose proof (seen_restored fuel h seen a) as Hs.
  destruct (as_model_h fuel h seen a) as [o seen']. cbn [snd fst] in Hs |- *. subst seen'.
  rewrite IH. reflexivity.
Qed.

(* ------------------------------------------------------------------ (3) self-referential structures *)
Lemma reach_trans h a b c : reach h a b -> reach h b c -> reach h a c.
Proof. induction 1 as [a|a b0 b Hc _ IH]; intros H; [exact H | exact (reach_step h a b0 c Hc (IH H))]. Qed.

Lemma map_h_ok f l s vs s' : map_h f l s = (inl vs, s') ->
  (forall s0 x, snd (f s0 x) = s0) -> forall x, In x l -> exists w, fst (f s x) = HOk w.
Proof.
  intros H Hf. revert s vs s' H. induction l as [|y r IH]; intros s vs s' H x Hx; [destruct Hx|].
  cbn [map_h] in H. pose proof (Hf s y) as Hy. destruct (f s y) as [[w|e|] s1] eqn:Ey; try discriminate H.
  cbn [snd] in Hy. subst s1.
  destruct (map_h f r s) as [[ws|e] s2] eqn:Er; [|discriminate H].
  destruct Hx as [<-|Hx]; [exists w; rewrite Ey; reflexivity | exact (IH s ws s2 Er x Hx)].
Qed.

Lemma map_h_err f l : forall s e s', map_h f l s = (inr e, s') -> forall w, e <> HOk w.
Proof.
  induction l as [|y r IH]; intros s e s' H w; [discriminate H|].
  cbn [map_h] in H. destruct (f s y) as [[w0|e0|] s1].
  - destruct (map_h f r s1) as [[ws|e1] s2] eqn:Er; [discriminate H|]. injection H as <- <-. exact (IH _ _ _ Er w).
  - injection H as <- <-. discriminate.
  - injection H as <- <-. discriminate.
Qed.

(* a successful promotion met nothing that was being wrapped: no address reachable from a is in _seen *)
Lemma ok_reach_unseen fuel : forall h seen a w, fst (as_model_h fuel h seen a) = HOk w ->
  forall b, reach h a b -> in_seen b seen = false.
Proof.
  induction fuel as [|f IH]; intros h seen a w H b Hr; [discriminate H|].
  rewrite as_model_h_S in H. destruct (in_seen a seen) eqn:Es; [discriminate H|].
  destruct (nth_error h a) as [[v|c items]|] eqn:En; [| |discriminate H].
  - destruct Hr as [a|a b0 b [c' [items' [Hn _]]] _]; [exact Es|]. rewrite En in Hn. discriminate Hn.
  - cbv zeta in H.
    destruct (map_h (as_model_h f h) items (if tracked c then a :: seen else seen)) as [[vs|e] seen2] eqn:Em.
    2:{ cbn [fst] in H. exfalso. exact (map_h_err _ _ _ _ _ Em w H). }
    destruct Hr as [a|a b0 b [c' [items' [Hn Hin]]] Hr']; [exact Es|].
    rewrite En in Hn. injection Hn as <- <-.
    destruct (map_h_ok _ _ _ _ _ Em (fun s x => seen_restored f h s x) b0 Hin) as [w0 Hw0].
    pose proof (IH h _ b0 w0 Hw0 b Hr') as Hb.
    destruct (tracked c); [|exact Hb]. unfold in_seen in Hb |- *. cbn [existsb] in Hb.
    apply orb_false_iff in Hb. exact (proj2 Hb).
Qed.

(* a structure that contains itself is never promoted: whatever the fuel, the outcome is not a model *)
Theorem cycle_never_ok fuel : forall h seen a, self_referential h a ->
  forall w, fst (as_model_h fuel h seen a) <> HOk w.
Proof.
  induction fuel as [|f IH]; intros h seen a [b [Hc Hr]] w H; [discriminate H|].
  pose proof H as H0.
  rewrite as_model_h_S in H. destruct (in_seen a seen) eqn:Es; [discriminate H|].
  destruct Hc as [c [items [En Hin]]]. rewrite En in H. cbv zeta in H.
  destruct (map_h (as_model_h f h) items (if tracked c then a :: seen else seen)) as [[vs|e] seen2] eqn:Em.
  2:{ cbn [fst] in H. exact (map_h_err _ _ _ _ _ Em w H). }
  destruct (map_h_ok _ _ _ _ _ Em (fun s x => seen_restored f h s x) b Hin) as [w0 Hw0].
  (* b is self-referential as well *)
  assert (Hb : self_referential h b).
  { inversion Hr as [|x b1 y Hc1 Hr1]; subst.
    - exists a. split; [exists c, items; split; assumption | apply reach_refl] || (exists b; split; [exists c, items; split; assumption | apply reach_refl]).
    - exists b1. split; [exact Hc1|]. apply (reach_trans h b1 a b Hr1).
      apply (reach_step h a b b); [exists c, items; split; assumption | apply reach_refl]. }
  exact (IH h _ b Hb w0 Hw0).
Qed.

(* with a tracked container the guard itself fires: an element that leads back to a is met while a is in _seen *)
Theorem guard_fires fuel h seen a c items b :
  nth_error h a = Some (HCont c items) -> tracked c = true -> In b items -> reach h b a ->
  forall w, fst (as_model_h fuel h (a :: seen) b) <> HOk w.
Proof.
  intros _ _ _ Hr w H. pose proof (ok_reach_unseen fuel h (a :: seen) b w H a Hr) as Hs.
  unfold in_seen in Hs. cbn [existsb] in Hs. rewrite Nat.eqb_refl in Hs. discriminate Hs.
Qed.

(* ------------------------------------------------------------------ fuel only matters until the outcome is defined *)
Lemma map_h_mono (f g : list nat -> nat -> hres * list nat) l :
  (forall s x o s', f s x = (o, s') -> o <> HFuel -> g s x = (o, s')) ->
  forall s r s', map_h f l s = (r, s') -> r <> inr HFuel -> map_h g l s = (r, s').
Proof.
  intros Hfg. induction l as [|y q IH]; intros s r s' H Hr; [exact H|].
  cbn [map_h] in H |- *. destruct (f s y) as [o s1] eqn:Ey.
  destruct o as [w|e|].
  - rewrite (Hfg _ _ _ _ Ey ltac:(discriminate)).
    destruct (map_h f q s1) as [[ws|e1] s2] eqn:Eq.
    + rewrite (IH _ _ _ Eq ltac:(discriminate)). exact H.
    + injection H as <- <-. rewrite (IH _ _ _ Eq Hr). reflexivity.
  - rewrite (Hfg _ _ _ _ Ey ltac:(discriminate)). exact H.
  - injection H as <- <-. contradiction Hr. reflexivity.
Qed.

Theorem fuel_mono n : forall h seen a o s, as_model_h n h seen a = (o, s) -> o <> HFuel ->
  as_model_h (S n) h seen a = (o, s).
Proof.
  induction n as [|n IH]; intros h seen a o s H Ho; [cbn in H; injection H as <- _; contradiction Ho; reflexivity|].
  rewrite as_model_h_S in H. rewrite as_model_h_S.
  destruct (in_seen a seen); [exact H|].
  destruct (nth_error h a) as [[v|c items]|]; try exact H.
  cbv zeta in H |- *.
  destruct (map_h (as_model_h n h) items (if tracked c then a :: seen else seen)) as [r seen2] eqn:Em.
  assert (Hr : r <> inr HFuel).
  { intros ->. injection H as <- _. contradiction Ho. reflexivity. }
  rewrite (map_h_mono _ (as_model_h (S n) h) items (fun s0 x o0 s0' E N => IH h s0 x o0 s0' E N) _ _ _ Em Hr). exact H.
Qed.

Corollary cycle_is_error fuel h seen a o s : self_referential h a ->
  as_model_h fuel h seen a = (o, s) -> o <> HFuel -> exists e, o = HErr e.
Proof.
  intros Hc H Ho. destruct o as [w|e|]; [|exists e; reflexivity | contradiction Ho; reflexivity].
  exfalso. apply (cycle_never_ok fuel h seen a Hc w). rewrite H. reflexivity.
Qed.

(* ------------------------------------------------------------------ examples *)
(* l = []; l.append(l) *)
Definition heap_self_list : heap := [HCont CPyList [0%nat]].
(* a = [1]; b = [a, {"k": a}]; a.append(b)  -- b at 0, a at 1 *)
Definition heap_indirect : heap :=
  [HCont CPyList [1; 2]%nat; HCont CPyList [3; 0]%nat; HCont CPyDict [4; 1]%nat; HAtom (PInt 1); HAtom (PStr [107])].
(* t = ([],); t[0].append(t) *)
Definition heap_tuple_list : heap := [HCont CPyTuple [1%nat]; HCont CPyList [0%nat]].
(* x = [1]; [x, x]: shared, not cyclic *)
Definition heap_shared : heap := [HCont CPyList [1; 1]%nat; HCont CPyList [2%nat]; HAtom (PInt 1)].
(* [1, {"k": object()}]: an unwrappable object two levels down *)
Definition heap_unwrappable : heap := [HCont CPyList [1; 2]%nat; HAtom (PInt 1); HCont CPyDict [3; 4]%nat; HAtom (PStr [107]); HAtom (POpaque 7)].

Lemma example_cycles :
  as_model_h 10 heap_self_list [] 0 = (HErr ECycle, [])
  /\ as_model_h 10 heap_indirect [] 0 = (HErr ECycle, [])
  /\ as_model_h 10 heap_tuple_list [] 0 = (HErr ECycle, [])
  /\ as_model_h 10 heap_shared [] 0 = (HOk (VSeq KList [VSeq KList [VInt 1]; VSeq KList [VInt 1]]), [])
  /\ as_model_h 10 heap_unwrappable [] 0 = (HErr EWrapper, []).
Proof. vm_compute. repeat split. Qed.

Lemma example_self_referential : self_referential heap_indirect 0.
Proof.
  exists 1%nat. split; [exists CPyList, [1; 2]%nat; split; [reflexivity | left; reflexivity]|].
  apply (reach_step _ 1 0 0)%nat; [exists CPyList, [3; 0]%nat; split; [reflexivity | right; left; reflexivity] | apply reach_refl].
Qed.

(* a plain value with every representable type *)
Definition example_plain : value :=
  PList [PInt (-7); PBool true; PBool false; PNone; PFloat f_negzero; PFloat 9221120237041090560; PCpx 0 f_negzero;
         PStr [97]; PBytes [0; 255]; VKw [107]; PTuple [PInt 1; PList []]; PSet [PInt 1; PStr [97]; PTuple []];
         PDict [PStr [107]; PList [PInt 3]; PInt 1; PDict []; PBool true; PSet []]].
Lemma example_plain_ok : plain example_plain = true.
Proof. vm_compute. reflexivity. Qed.

(* ------------------------------------------------------------------ the registry is what as_model does *)
Theorem as_model_by_table v : as_model v = as_model_via model_wrappers v.
Proof.
  destruct v as [s|s|z|f|re im|s b|b|k items|z|f|re im|s|b|b| |items|items|items|items|n]; try reflexivity.
  destruct k; reflexivity.
Qed.

Lemma tracked_bracket c : tracked c = match bracket_of c with BAddTryFinallyRemove => true | BNoGuard => false end.
Proof. destruct c as [| | | |k]; try reflexivity. destruct k; reflexivity. Qed.
