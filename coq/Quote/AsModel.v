(* C29: hy.as_model (hy/models.py: as_model, _wrappers, recwrap, _dict_wrapper)
   over tree values -- [as_model] of Quote/Model.v -- and over a heap (object
   graph) with the recursion guard _seen as explicit state.  Evaluation of
   the resulting model trees is [eval] of Quote/Model.v (the model of hy.eval
   on literal and display forms that C30/C31 use). *)
From HyV Require Import Base.Text Quote.Model.
From Coq Require Import ZArith.

(* ------------------------------------------------------------------ the registry the model was written against *)
(* what _wrappers maps a type to *)
Inductive wrapper :=
| WClass (c : cls)          (* _wrappers[T] = hy.models.<c> *)
| WRecwrap (c : cls)        (* _wrappers[T] = recwrap(hy.models.<c>) *)
| WDict                     (* _wrappers[dict] = _dict_wrapper *)
| WBool                     (* lambda x: Symbol("True") if x else Symbol("False") *)
| WNone                     (* lambda _: Symbol("None") *)
| WFString.                 (* lambda fstr: FString((as_model(x) for x in fstr), brackets=..., is_tstring=...) *)

Inductive pytype :=
| TStr | TBytes | TBool | TNoneType | TInt | TFloat | TComplex | TList | TDict | TSet | TTuple
| TModel (c : cls).

Definition model_wrappers : list (pytype * wrapper) :=
  [(TStr, WClass CStr); (TBytes, WClass CBytes); (TBool, WBool); (TNoneType, WNone); (TInt, WClass CInt);
   (TFloat, WClass CFloat); (TComplex, WClass CCpx); (TModel CFComp, WRecwrap CFComp); (TModel CFString, WFString);
   (TModel CList, WRecwrap CList); (TList, WRecwrap CList); (TModel CDict, WRecwrap CDict); (TDict, WDict);
   (TModel CExpr, WRecwrap CExpr); (TModel CSet, WRecwrap CSet); (TSet, WRecwrap CSet);
   (TModel CTuple, WRecwrap CTuple); (TTuple, WRecwrap CTuple)].

(* ------------------------------------------------------------------ plain values *)
(* Complex(x) adds 0 + x.imag: the value that comes back *)
Fixpoint cnorm (v : value) : value :=
  match v with
  | PCpx re im => PCpx re (add0 im)
  | PList l => PList (map cnorm l)
  | PTuple l => PTuple (map cnorm l)
  | PSet l => PSet (map cnorm l)
  | PDict l => PDict (map cnorm l)
  | _ => v
  end.

Fixpoint nodupb (l : list value) : bool :=
  match l with
  | [] => true
  | x :: r => negb (existsb (value_eqb x) r) && nodupb r
  end.

Fixpoint evenb_len {A} (l : list A) : bool :=
  match l with [] => true | [_] => false | _ :: _ :: r => evenb_len r end.

(* values built from str, bytes, int, float, complex, bool, None, keywords, lists, tuples, sets, dicts;
   a set has pairwise different members and a dict pairwise different keys (after cnorm) *)
Fixpoint plain (v : value) : bool :=
  match v with
  | PInt _ | PFloat _ | PCpx _ _ | PStr _ | PBytes _ | PBool _ | PNone | VKw _ => true
  | PList l | PTuple l => (fix all (l : list value) := match l with [] => true | x :: r => plain x && all r end) l
  | PSet l =>
      (fix all (l : list value) := match l with [] => true | x :: r => plain x && all r end) l
      && nodupb (map cnorm l)
  | PDict l =>
      (fix all (l : list value) := match l with [] => true | x :: r => plain x && all r end) l
      && evenb_len l && nodupb (dict_keys (map cnorm l))
  | _ => false
  end.

(* the model tree as_model builds for a plain value *)
Fixpoint model_of (v : value) : model :=
  match v with
  | PInt z => MInt z
  | PFloat f => MFloat f
  | PCpx re im => MCpx re (add0 im)
  | PStr s => MStr s None
  | PBytes b => MBytes b
  | PBool b => MSym (if b then s_True else s_False)
  | PNone => MSym s_None
  | VKw s => MKw s
  | PList l => MSeq KList (map model_of l)
  | PTuple l => MSeq KTuple (map model_of l)
  | PSet l => MSeq KSet (map model_of l)
  | PDict l => MSeq KDict (map model_of l)
  | _ => MSym []
  end.

(* ------------------------------------------------------------------ the heap version *)
Inductive ckind := CPyList | CPyTuple | CPySet | CPyDict | CModelSeq (k : seqkind).
Inductive hobj :=
| HAtom (v : value)                        (* a value with no reference into the heap *)
| HCont (c : ckind) (items : list nat).    (* a container: the addresses of its elements (dict: key, value, ...) *)
Definition heap := list hobj.

Inductive hres := HOk (v : value) | HErr (e : err) | HFuel.

(* recwrap / _dict_wrapper put id(l) into _seen; the FString wrapper does not *)
Definition tracked (c : ckind) : bool :=
  match c with CModelSeq (KFString _ _) => false | _ => true end.

Definition build (c : ckind) (vs : list value) : res value :=
  match c with
  | CPyList => Ok (VSeq KList vs)
  | CPyTuple => Ok (VSeq KTuple vs)
  | CPySet => Ok (VSeq KSet vs)
  | CPyDict => Ok (VSeq KDict vs)
  | CModelSeq k => mk_seq k vs
  end.

Definition in_seen (a : nat) (seen : list nat) : bool := existsb (Nat.eqb a) seen.
Definition seen_remove (a : nat) (seen : list nat) : list nat := filter (fun b => negb (Nat.eqb a b)) seen.
Definition of_res (r : res value) : hres := match r with Ok w => HOk w | Err e => HErr e end.

(* as_model(x) for the object at address a, with _seen = seen; returns the outcome and _seen afterwards *)
Fixpoint as_model_h (fuel : nat) (h : heap) (seen : list nat) (a : nat) : hres * list nat :=
  match fuel with
  | O => (HFuel, seen)
  | S f =>
      if in_seen a seen then (HErr ECycle, seen)
      else
        match nth_error h a with
        | None => (HErr EUnmodelled, seen)
        | Some (HAtom v) => (of_res (as_model v), seen)
        | Some (HCont c items) =>
            let seen1 := if tracked c then a :: seen else seen in              (* _seen.add(id(l)) *)
            let '(r, seen2) :=
              (fix go (l : list nat) (s : list nat) : (list value + hres) * list nat :=
                 match l with
                 | [] => (inl [], s)
                 | x :: r =>
                     match as_model_h f h s x with
                     | (HOk w, s') =>
                         match go r s' with
                         | (inl ws, s'') => (inl (w :: ws), s'')
                         | (inr e, s'') => (inr e, s'')
                         end
                     | (e, s') => (inr e, s')                                   (* the generator stops at the first error *)
                     end
                 end) items seen1 in
            let seen3 := if tracked c then seen_remove a seen2 else seen2 in    (* finally: _seen.remove(id(l)) *)
            (match r with
             | inl vs => of_res (build c vs)
             | inr e => e
             end, seen3)
        end
  end.

(* a history: calls of as_model (each on its own heap), one after the other, _seen carried along *)
Fixpoint run_history (fuel : nat) (calls : list (heap * nat)) (seen : list nat) : list hres * list nat :=
  match calls with
  | [] => ([], seen)
  | (h, a) :: r =>
      let '(o, seen') := as_model_h fuel h seen a in
      let '(os, seen'') := run_history fuel r seen' in
      (o :: os, seen'')
  end.

(* b is an element of the container at a *)
Definition child (h : heap) (a b : nat) : Prop :=
  exists c items, nth_error h a = Some (HCont c items) /\ In b items.

(* reachable in zero or more steps *)
Inductive reach (h : heap) : nat -> nat -> Prop :=
| reach_refl a : reach h a a
| reach_step a b c : child h a b -> reach h b c -> reach h a c.

(* a lies on a cycle *)
Definition self_referential (h : heap) (a : nat) : Prop := exists b, child h a b /\ reach h b a.

(* ------------------------------------------------------------------ as_model, read through the registry *)
(* type(x), for the values of the model; None = a type the registry does not know *)
Definition type_of (v : value) : option pytype :=
  match v with
  | PStr _ => Some TStr | PBytes _ => Some TBytes | PBool _ => Some TBool | PNone => Some TNoneType
  | PInt _ => Some TInt | PFloat _ => Some TFloat | PCpx _ _ => Some TComplex
  | PList _ => Some TList | PDict _ => Some TDict | PSet _ => Some TSet | PTuple _ => Some TTuple
  | VSeq k _ => Some (TModel (cls_of_kind k))
  | VSym _ => Some (TModel CSym) | VKw _ => Some (TModel CKw) | VInt _ => Some (TModel CInt)
  | VFloat _ => Some (TModel CFloat) | VCpx _ _ => Some (TModel CCpx) | VStr _ _ => Some (TModel CStr)
  | VBytes _ => Some (TModel CBytes)
  | POpaque _ => None
  end.

Definition cls_eqb (a b : cls) : bool := text_eqb (cls_name a) (cls_name b).
Definition pytype_eqb (a b : pytype) : bool :=
  match a, b with
  | TStr, TStr | TBytes, TBytes | TBool, TBool | TNoneType, TNoneType | TInt, TInt | TFloat, TFloat
  | TComplex, TComplex | TList, TList | TDict, TDict | TSet, TSet | TTuple, TTuple => true
  | TModel c, TModel d => cls_eqb c d
  | _, _ => false
  end.

Fixpoint lookup_wrapper (t : pytype) (tbl : list (pytype * wrapper)) : option wrapper :=
  match tbl with
  | [] => None
  | (k, w) :: r => if pytype_eqb k t then Some w else lookup_wrapper t r
  end.

Definition is_model_value (v : value) : bool :=
  match v with VSym _ | VKw _ | VInt _ | VFloat _ | VCpx _ _ | VStr _ _ | VBytes _ | VSeq _ _ => true | _ => false end.

Definition children (v : value) : list value :=
  match v with VSeq _ l | PList l | PTuple l | PSet l | PDict l => l | _ => [] end.

(* _wrappers[type(x)](x), followed for models by new.replace(x) (which keeps the attributes of a sequence) *)
Definition apply_wrapper (w : wrapper) (v : value) : res value :=
  match w with
  | WClass c =>
      match c, v with
      | CStr, PStr s => Ok (VStr s None)
      | CBytes, PBytes b => Ok (VBytes b)
      | CInt, PInt z => Ok (VInt z)
      | CFloat, PFloat f => Ok (VFloat f)
      | CCpx, PCpx re im => Ok (VCpx re (add0 im))
      | _, _ => Err EUnmodelled
      end
  | WBool => match v with PBool b => Ok (VSym (if b then s_True else s_False)) | _ => Err EUnmodelled end
  | WNone => Ok (VSym s_None)
  | WRecwrap _ | WDict | WFString =>
      match as_model_list (children v) with
      | Err e => Err e
      | Ok l' =>
          match v with
          | VSeq k _ => mk_seq k l'
          | PList _ => Ok (VSeq KList l')
          | PTuple _ => Ok (VSeq KTuple l')
          | PSet _ => Ok (VSeq KSet l')
          | PDict _ => Ok (VSeq KDict l')
          | _ => Err EUnmodelled
          end
      end
  end.

(* the body of as_model after the _seen test *)
Definition as_model_via (tbl : list (pytype * wrapper)) (v : value) : res value :=
  match type_of v with
  | None => Err EWrapper
  | Some t =>
      match lookup_wrapper t tbl with
      | Some w => apply_wrapper w v
      | None => if is_model_value v then Ok v else Err EWrapper      (* lambda y: y, then the isinstance test *)
      end
  end.

(* how a wrapper brackets the recursive promotion with the guard *)
Inductive bracket :=
| BAddTryFinallyRemove     (* _seen.add(id(l)); try: ... finally: _seen.remove(id(l)) *)
| BNoGuard.                (* the children are promoted without touching _seen *)

(* the checks of as_model, in order *)
Inductive as_model_step :=
| StRaiseIfSeen            (* if id(x) in _seen: raise HyWrapperError *)
| StDispatchExactType      (* new = _wrappers.get(type(x), lambda y: y)(x) *)
| StRaiseIfNotObject       (* if not isinstance(new, Object): raise HyWrapperError *)
| StReplaceIfObject        (* if isinstance(x, Object): new = new.replace(x, recursive=False) *)
| StReturn.

Definition model_as_model_steps : list as_model_step :=
  [StRaiseIfSeen; StDispatchExactType; StRaiseIfNotObject; StReplaceIfObject; StReturn].
Definition model_recwrap_bracket : bracket := BAddTryFinallyRemove.
Definition model_dict_bracket : bracket := BAddTryFinallyRemove.
Definition model_fstring_bracket : bracket := BNoGuard.

(* tracked = "the wrapper of this container brackets with the guard" *)
Definition bracket_of (c : ckind) : bracket :=
  match c with
  | CPyDict => model_dict_bracket
  | CModelSeq (KFString _ _) => model_fstring_bracket
  | _ => model_recwrap_bracket
  end.
