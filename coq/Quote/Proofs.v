(* Proofs about quote / quasiquote (C30, C31) over Quote/Model.v. *)
From HyV Require Import Base.Text Quote.Model.
From Coq Require Import ZArith.

(* ------------------------------------------------------------------ induction on model trees *)
Lemma model_ind' (P : model -> Prop) :
  (forall s, P (MSym s)) -> (forall s, P (MKw s)) -> (forall z, P (MInt z)) -> (forall f, P (MFloat f)) ->
  (forall re im, P (MCpx re im)) -> (forall s b, P (MStr s b)) -> (forall b, P (MBytes b)) ->
  (forall k items, Forall P items -> P (MSeq k items)) ->
  forall m, P m.
Proof.
  intros H1 H2 H3 H4 H5 H6 H7 H8.
  fix IH 1. intros [s|s|z|f|re im|s b|b|k items];
    [apply H1|apply H2|apply H3|apply H4|apply H5|apply H6|apply H7|].
  apply H8. induction items as [|x r IHr]; constructor; [apply IH | exact IHr].
Qed.

Lemma value_ind' (P : value -> Prop) :
  (forall k items, Forall P items -> P (VSeq k items)) ->
  (forall items, Forall P items -> P (PList items)) ->
  (forall items, Forall P items -> P (PTuple items)) ->
  (forall v, match v with VSeq _ _ | PList _ | PTuple _ => False | _ => True end -> P v) ->
  forall v, P v.
Proof.
  intros H1 H2 H3 H4.
  fix IH 1. intros v.
  assert (L : forall items, Forall P items).
  { induction items as [|x r IHr]; constructor; [apply IH | exact IHr]. }
  destruct v; try (apply H4; exact I); [apply H1 | apply H2 | apply H3]; apply L.
Qed.

(* ------------------------------------------------------------------ small facts *)
Lemma text_eqb_refl a : text_eqb a a = true.
Proof. apply text_eqb_eq. reflexivity. Qed.

Lemma class_of_name_cls c : class_of_name (cls_name c) = Some c.
Proof. destruct c; reflexivity. Qed.

Lemma head_kind_dotted c : head_kind_of (dotted_cls c) = HCtor c.
Proof. destruct c; reflexivity. Qed.

Section WithEnv.
Variable St : Type.
Variable user : model -> St -> res value * St.
Variable norm : text -> text.

Notation M := (M St).
Notation eval := (eval St user).
Notation eval_item := (eval_item St user).
Notation eval_items := (eval_items St user).
Notation eval_pos := (eval_pos St user).
Notation eval_kws := (eval_kws St user).
Notation bind := (@bind St _ _).
Notation ret := (@ret St _).
Notation lift := (@lift St _).
Notation qq_ref := (qq_ref St user norm).
Notation qq_item := (qq_item St user norm).
Notation qq_items := (qq_items St user norm).
Notation qq_ref_p := (qq_ref_p St user norm).
Notation render := (render norm).
Notation render_items := (render_items norm).
Notation classify := (classify norm).

Lemma bind_ext {A B} (m m' : M A) (f f' : A -> M B) st :
  (forall s, m s = m' s) -> (forall a s, f a s = f' a s) -> bind m f st = bind m' f' st.
Proof.
  intros Hm Hf. unfold Model.bind. rewrite Hm. destruct (m' st) as [[a|e] s]; [apply Hf | reflexivity].
Qed.

(* ------------------------------------------------------------------ unfolding lemmas for eval *)
Lemma eval_list_loop l :
  (fix go (l : list model) : M (list value) :=
     match l with
     | [] => ret []
     | x :: r =>
         bind (match x with
               | MSeq KExpr (MSym s :: rest) =>
                   if text_eqb s s_unpack_iterable then
                     match rest with
                     | [e] => bind (eval e) (fun v => lift (iterate v))
                     | _ => lift (Err ESyntax)
                     end
                   else bind (eval x) (fun v => ret [v])
               | _ => bind (eval x) (fun v => ret [v])
               end)
              (fun vs => bind (go r) (fun ws => ret (vs ++ ws)))
     end) l = eval_items l.
Proof. reflexivity. Qed.

Lemma eval_list items : eval (MSeq KList items) = bind (eval_items items) (fun vs => ret (PList vs)).
Proof. rewrite <- eval_list_loop. reflexivity. Qed.

Lemma eval_pos_loop l :
  (fix pos (l : list model) : M (list value) :=
     match l with
     | [] => ret []
     | MKw _ :: [] => lift (Err ESyntax)
     | MKw _ :: _ :: r => pos r
     | x :: r => bind (eval x) (fun v => bind (pos r) (fun vs => ret (v :: vs)))
     end) l = eval_pos l.
Proof. reflexivity. Qed.

Lemma eval_kws_loop l :
  (fix kws (l : list model) : M kwargs :=
     match l with
     | [] => ret []
     | MKw _ :: [] => lift (Err ESyntax)
     | MKw k :: v :: r => bind (eval v) (fun a => bind (kws r) (fun ks => ret ((k, a) :: ks)))
     | _ :: r => kws r
     end) l = eval_kws l.
Proof. reflexivity. Qed.

Lemma eval_ctor_call c args :
  eval (MSeq KExpr (dotted_cls c :: args)) =
  bind (eval_pos args) (fun ps => bind (eval_kws args) (fun ks => lift (ctor c ps ks))).
Proof.
  rewrite <- eval_pos_loop, <- eval_kws_loop.
  change (eval (MSeq KExpr (dotted_cls c :: args))) with
    (match head_kind_of (dotted_cls c) with
     | HCtor c0 =>
         bind ((fix pos (l : list model) : M (list value) :=
                  match l with
                  | [] => ret []
                  | MKw _ :: [] => lift (Err ESyntax)
                  | MKw _ :: _ :: r => pos r
                  | x :: r => bind (eval x) (fun v => bind (pos r) (fun vs => ret (v :: vs)))
                  end) args)
              (fun ps =>
                 bind ((fix kws (l : list model) : M kwargs :=
                          match l with
                          | [] => ret []
                          | MKw _ :: [] => lift (Err ESyntax)
                          | MKw k :: v :: r => bind (eval v) (fun a => bind (kws r) (fun ks => ret ((k, a) :: ks)))
                          | _ :: r => kws r
                          end) args)
                      (fun ks => lift (ctor c0 ps ks)))
     | HOr => match args with
              | [a; b] => bind (eval a) (fun v => if truthy v then ret v else eval b)
              | _ => user (MSeq KExpr (dotted_cls c :: args))
              end
     | HOther => user (MSeq KExpr (dotted_cls c :: args))
     end).
  rewrite head_kind_dotted. reflexivity.
Qed.

Lemma eval_or a b :
  eval (MSeq KExpr [MSym s_or; a; b]) = bind (eval a) (fun v => if truthy v then ret v else eval b).
Proof. reflexivity. Qed.

Lemma eval_pos_attrs k st : eval_pos (attr_args k) st = (Ok [], st).
Proof. destruct k as [| | | | |[b|] [|]|[c|] [e|] [|]]; reflexivity. Qed.

Lemma eval_kws_attrs k st : eval_kws (attr_args k) st = (Ok (attr_kws k), st).
Proof. destruct k as [| | | | |[b|] [|]|[c|] [e|] [|]]; reflexivity. Qed.

Lemma ctor_seq k vs : ctor (cls_of_kind k) [PList vs] (attr_kws k) = mk_seq k vs.
Proof. destruct k as [| | | | |[b|] [|]|[c|] [e|] [|]]; reflexivity. Qed.

(* the form emitted for a sequence evaluates its list display and calls the class on it *)
Lemma eval_seq_form k fs st :
  eval (MSeq KExpr (dotted_cls (cls_of_kind k) :: MSeq KList fs :: attr_args k)) st =
  bind (eval_items fs) (fun vs => lift (mk_seq k vs)) st.
Proof.
  rewrite eval_ctor_call.
  change (eval_pos (MSeq KList fs :: attr_args k)) with
    (bind (eval (MSeq KList fs)) (fun v => bind (eval_pos (attr_args k)) (fun vs => ret (v :: vs)))).
  change (eval_kws (MSeq KList fs :: attr_args k)) with (eval_kws (attr_args k)).
  rewrite eval_list.
  unfold Model.bind, Model.ret, Model.lift.
  destruct (eval_items fs st) as [[vs|e] st1]; [|reflexivity].
  rewrite eval_pos_attrs, eval_kws_attrs, ctor_seq. reflexivity.
Qed.

End WithEnv.
