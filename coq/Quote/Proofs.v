(* Proofs about quote / quasiquote (C30, C31) over Quote/Model.v. *)
From HyV Require Import Base.Text Quote.Model.
From Coq Require Import ZArith.

(* ------------------------------------------------------------------ induction on model trees *)
Lemma model_ind' (P : model -> Prop) :
  (forall s, P (MSym s)) -> (forall s, P (MKw s)) -> (forall z, P (MInt z)) -> (forall f, P (MFloat f)) ->
  (forall re im, P (MCpx re im)) -> (forall s b, P (MStr s b)) -> (forall b, P (MBytes b)) ->
  (forall k items, Forall P items -> P (MSeq k items)) ->
  forall m, P m.
Proof.
  intros H1 H2 H3 H4 H5 H6 H7 H8.
  fix IH 1. intros [s|s|z|f|re im|s b|b|k items];
    [apply H1|apply H2|apply H3|apply H4|apply H5|apply H6|apply H7|].
  apply H8. induction items as [|x r IHr]; constructor; [apply IH | exact IHr].
Qed.

Lemma value_ind' (P : value -> Prop) :
  (forall k items, Forall P items -> P (VSeq k items)) ->
  (forall items, Forall P items -> P (PList items)) ->
  (forall items, Forall P items -> P (PTuple items)) ->
  (forall v, match v with VSeq _ _ | PList _ | PTuple _ => False | _ => True end -> P v) ->
  forall v, P v.
Proof.
  intros H1 H2 H3 H4.
  fix IH 1. intros v.
  assert (L : forall items, Forall P items).
  { induction items as [|x r IHr]; constructor; [apply IH | exact IHr]. }
  destruct v; try (apply H4; exact I); [apply H1 | apply H2 | apply H3]; apply L.
Qed.

(* ------------------------------------------------------------------ small facts *)
Lemma text_eqb_refl a : text_eqb a a = true.
Proof. apply text_eqb_eq. reflexivity. Qed.

Lemma class_of_name_cls c : class_of_name (cls_name c) = Some c.
Proof. destruct c; reflexivity. Qed.

Lemma head_kind_dotted c : head_kind_of (dotted_cls c) = HCtor c.
Proof. destruct c; reflexivity. Qed.

Section WithEnv.
Variable St : Type.
Variable user : model -> St -> res value * St.
Variable norm : text -> text.

Notation M := (M St).
Notation eval := (eval St user).
Notation eval_item := (eval_item St user).
Notation eval_items := (eval_items St user).
Notation eval_pos := (eval_pos St user).
Notation eval_kws := (eval_kws St user).
Notation bind := (@bind St _ _).
Notation ret := (@ret St _).
Notation lift := (@lift St _).
Notation qq_ref := (qq_ref St user norm).
Notation qq_item := (qq_item St user norm).
Notation qq_items := (qq_items St user norm).
Notation qq_ref_p := (qq_ref_p St user norm).
Notation render := (render norm).
Notation render_items := (render_items norm).
Notation classify := (classify norm).

Lemma bind_ext {A B} (m m' : M A) (f f' : A -> M B) st :
  (forall s, m s = m' s) -> (forall a s, f a s = f' a s) -> bind m f st = bind m' f' st.
Proof.
  intros Hm Hf. unfold Model.bind. rewrite Hm. destruct (m' st) as [[a|e] s]; [apply Hf | reflexivity].
Qed.

(* ------------------------------------------------------------------ unfolding lemmas for eval *)
Lemma eval_list_loop l :
  (fix go (l : list model) : M (list value) :=
     match l with
     | [] => ret []
     | x :: r =>
         bind (match x with
               | MSeq KExpr (MSym s :: rest) =>
                   if text_eqb s s_unpack_iterable then
                     match rest with
                     | [e] => bind (eval e) (fun v => lift (iterate v))
                     | _ => lift (Err ESyntax)
                     end
                   else bind (eval x) (fun v => ret [v])
               | _ => bind (eval x) (fun v => ret [v])
               end)
              (fun vs => bind (go r) (fun ws => ret (vs ++ ws)))
     end) l = eval_items l.
Proof. reflexivity. Qed.

Lemma eval_list items : eval (MSeq KList items) = bind (eval_items items) (fun vs => ret (PList vs)).
Proof. rewrite <- eval_list_loop. reflexivity. Qed.

Lemma eval_pos_loop l :
  (fix pos (l : list model) : M (list value) :=
     match l with
     | [] => ret []
     | MKw _ :: [] => lift (Err ESyntax)
     | MKw _ :: _ :: r => pos r
     | x :: r => bind (eval x) (fun v => bind (pos r) (fun vs => ret (v :: vs)))
     end) l = eval_pos l.
Proof. reflexivity. Qed.

Lemma eval_kws_loop l :
  (fix kws (l : list model) : M kwargs :=
     match l with
     | [] => ret []
     | MKw _ :: [] => lift (Err ESyntax)
     | MKw k :: v :: r => bind (eval v) (fun a => bind (kws r) (fun ks => ret ((k, a) :: ks)))
     | _ :: r => kws r
     end) l = eval_kws l.
Proof. reflexivity. Qed.

Lemma eval_ctor_call c args :
  eval (MSeq KExpr (dotted_cls c :: args)) =
  bind (eval_pos args) (fun ps => bind (eval_kws args) (fun ks => lift (ctor c ps ks))).
Proof.
  rewrite <- eval_pos_loop, <- eval_kws_loop.
  change (eval (MSeq KExpr (dotted_cls c :: args))) with
    (match head_kind_of (dotted_cls c) with
     | HCtor c0 =>
         bind ((fix pos (l : list model) : M (list value) :=
                  match l with
                  | [] => ret []
                  | MKw _ :: [] => lift (Err ESyntax)
                  | MKw _ :: _ :: r => pos r
                  | x :: r => bind (eval x) (fun v => bind (pos r) (fun vs => ret (v :: vs)))
                  end) args)
              (fun ps =>
                 bind ((fix kws (l : list model) : M kwargs :=
                          match l with
                          | [] => ret []
                          | MKw _ :: [] => lift (Err ESyntax)
                          | MKw k :: v :: r => bind (eval v) (fun a => bind (kws r) (fun ks => ret ((k, a) :: ks)))
                          | _ :: r => kws r
                          end) args)
                      (fun ks => lift (ctor c0 ps ks)))
     | HOr => match args with
              | [a; b] => bind (eval a) (fun v => if truthy v then ret v else eval b)
              | _ => user (MSeq KExpr (dotted_cls c :: args))
              end
     | HOther => user (MSeq KExpr (dotted_cls c :: args))
     end).
  rewrite head_kind_dotted. reflexivity.
Qed.

Lemma eval_or a b :
  eval (MSeq KExpr [MSym s_or; a; b]) = bind (eval a) (fun v => if truthy v then ret v else eval b).
Proof. reflexivity. Qed.

Lemma eval_pos_attrs k st : eval_pos (attr_args k) st = (Ok [], st).
Proof. destruct k as [| | | | |[b|] [|]|[c|] [e|] [|]]; reflexivity. Qed.

Lemma eval_kws_attrs k st : eval_kws (attr_args k) st = (Ok (attr_kws k), st).
Proof. destruct k as [| | | | |[b|] [|]|[c|] [e|] [|]]; reflexivity. Qed.

Lemma ctor_seq k vs : ctor (cls_of_kind k) [PList vs] (attr_kws k) = mk_seq k vs.
Proof. destruct k as [| | | | |[b|] [|]|[c|] [e|] [|]]; reflexivity. Qed.

(* the form emitted for a sequence evaluates its list display and calls the class on it *)
Lemma eval_seq_form k fs st :
  eval (MSeq KExpr (dotted_cls (cls_of_kind k) :: MSeq KList fs :: attr_args k)) st =
  bind (eval_items fs) (fun vs => lift (mk_seq k vs)) st.
Proof.
  rewrite eval_ctor_call.
  change (eval_pos (MSeq KList fs :: attr_args k)) with
    (bind (eval (MSeq KList fs)) (fun v => bind (eval_pos (attr_args k)) (fun vs => ret (v :: vs)))).
  change (eval_kws (MSeq KList fs :: attr_args k)) with (eval_kws (attr_args k)).
  rewrite eval_list.
  unfold Model.bind, Model.ret, Model.lift.
  destruct (eval_items fs st) as [[vs|e] st1]; [|reflexivity].
  rewrite eval_pos_attrs, eval_kws_attrs, ctor_seq. reflexivity.
Qed.

(* ------------------------------------------------------------------ unfolding lemmas for render *)
Lemma render_loop l' items :
  (fix go (l : list model) : res (list model) :=
     match l with
     | [] => Ok []
     | x :: r =>
         match render l' x with
         | Err e => Err e
         | Ok (f, sp) =>
             match wrap_splice f sp with
             | Err e => Err e
             | Ok f' => match go r with Err e => Err e | Ok fs => Ok (f' :: fs) end
             end
         end
     end) items = render_items l' items.
Proof.
  induction items as [|x r IH]; [reflexivity|].
  cbn [Model.render_items]. rewrite <- IH. reflexivity.
Qed.

Lemma render_seq lvl k items :
  render lvl (MSeq k items) =
  match classify lvl k items with
  | HUnq sp arg => Ok (arg, sp)
  | HArity => Err EArity
  | HLevel l' =>
      match render_items l' items with
      | Err e => Err e
      | Ok fs => Ok (MSeq KExpr (dotted_cls (cls_of_kind k) :: MSeq KList fs :: attr_args k), false)
      end
  end.
Proof.
  cbn [Model.render]. destruct (classify lvl k items) as [sp arg| |l']; try reflexivity.
  rewrite render_loop. reflexivity.
Qed.

Lemma eval_item_ctor_form c args :
  eval_item (MSeq KExpr (dotted_cls c :: args)) =
  bind (eval (MSeq KExpr (dotted_cls c :: args))) (fun v => ret [v]).
Proof. reflexivity. Qed.

Lemma classify_inf k items : classify LInf k items = HLevel LInf.
Proof. unfold Model.classify. destruct (head_op norm k items) as [[| |]|]; reflexivity. Qed.

(* ------------------------------------------------------------------ C30: quote is the identity *)
Lemma wf_gen_seq cpx k items :
  wf_gen cpx (MSeq k items) =
  forallb (wf_gen cpx) items
  && match k with
     | KFString br _ =>
         no_adj_str items
         && match br with Some b => negb (m_string_in_node (close_pat b) (MSeq k items)) | None => true end
     | _ => true
     end.
Proof. reflexivity. Qed.

Lemma fjoin_inj items : no_adj_str items = true -> fjoin (map inj items) = map inj items.
Proof.
  induction items as [|x r IH]; [reflexivity|].
  intros H. destruct x; cbn [map inj fjoin];
    try (cbn [no_adj_str] in H; rewrite (IH H); reflexivity).
  cbn [no_adj_str] in H. destruct r as [|y r']; [reflexivity|].
  destruct y; try discriminate H; rewrite (IH H); reflexivity.
Qed.

Lemma string_in_node_inj pat m : string_in_node pat (inj m) = m_string_in_node pat m.
Proof.
  induction m as [s|s|z|f|re im|s b|b|k items IH] using model_ind'; try reflexivity.
  assert (L : (fix any (l : list value) : bool :=
                 match l with [] => false | x :: r => string_in_node pat x || any r end) (map inj items)
              = (fix any (l : list model) : bool :=
                 match l with [] => false | x :: r => m_string_in_node pat x || any r end) items).
  { induction IH as [|x r Hx _ IHr]; [reflexivity|]. cbn [map]. rewrite Hx, IHr. reflexivity. }
  destruct k; try reflexivity; cbn [inj string_in_node m_string_in_node]; exact L.
Qed.

Lemma mk_seq_inj k items :
  wf_gen false (MSeq k items) = true -> mk_seq k (map inj items) = Ok (VSeq k (map inj items)).
Proof.
  rewrite wf_gen_seq. intros H. apply andb_true_iff in H. destruct H as [_ H].
  destruct k as [| | | | |br ts|cv ex ts]; try reflexivity.
  apply andb_true_iff in H. destruct H as [Hadj Hbr].
  unfold mk_seq. rewrite (fjoin_inj _ Hadj).
  destruct br as [b|]; [|reflexivity].
  change (VSeq (KFString (Some b) ts) (map inj items)) with (inj (MSeq (KFString (Some b) ts) items)).
  rewrite string_in_node_inj. apply negb_true_iff in Hbr. rewrite Hbr. reflexivity.
Qed.

Lemma wf_gen_weaken m : wf_gen true m = true -> wf_gen false m = true.
Proof.
  induction m as [s|s|z|f|re im|s b|b|k items IH] using model_ind'; try (intros H; exact H); [reflexivity|].
  rewrite !wf_gen_seq. intros H. apply andb_true_iff in H. destruct H as [H1 H2].
  apply andb_true_iff. split; [|exact H2].
  clear H2. induction IH as [|x r Hx _ IHr]; [reflexivity|].
  cbn [forallb] in *. apply andb_true_iff in H1. destruct H1 as [Ha Hb].
  apply andb_true_iff. split; [apply Hx, Ha | apply IHr, Hb].
Qed.

Definition quote_ok (m : model) : Prop :=
  exists c args, render LInf m = Ok (MSeq KExpr (dotted_cls c :: args), false)
                 /\ forall st, eval (MSeq KExpr (dotted_cls c :: args)) st = (Ok (inj m), st).

Lemma quote_items_ok items :
  Forall (fun m => wf m = true -> quote_ok m) items -> forallb wf items = true ->
  exists fs, render_items LInf items = Ok fs /\ forall st, eval_items fs st = (Ok (map inj items), st).
Proof.
  induction 1 as [|x r Hx _ IHr]; intros Hwf.
  - exists []. split; reflexivity.
  - cbn [forallb] in Hwf. apply andb_true_iff in Hwf. destruct Hwf as [Hwx Hwr].
    destruct (Hx Hwx) as [c [args [Hr He]]]. destruct (IHr Hwr) as [fs [Hrs Hes]].
    exists (MSeq KExpr (dotted_cls c :: args) :: fs). split.
    + cbn [Model.render_items]. rewrite Hr. cbn [wrap_splice]. rewrite Hrs. reflexivity.
    + intros st. cbn [Model.eval_items]. rewrite eval_item_ctor_form.
      unfold Model.bind, Model.ret. rewrite He, Hes. reflexivity.
Qed.

Lemma quote_identity_ctor_form m : wf m = true -> quote_ok m.
Proof.
  induction m as [s|s|z|f|re im|s b|b|k items IH] using model_ind'; intros Hwf.
  - exists CSym, [MStr s None; MKw s_from_parser; MSym s_True]. split; [reflexivity|]. intros st. reflexivity.
  - exists CKw, [MStr s None; MKw s_from_parser; MSym s_True]. split; [reflexivity|]. intros st. reflexivity.
  - exists CInt, [MInt z]. split; [reflexivity|]. intros st. reflexivity.
  - exists CFloat, [MFloat f]. split; [reflexivity|]. intros st. reflexivity.
  - exists CCpx, [MCpx re im]. split; [reflexivity|]. intros st.
    unfold wf in Hwf. cbn [wf_gen] in Hwf. apply N.eqb_eq in Hwf.
    rewrite eval_ctor_call. cbn. unfold Model.bind, Model.ret, Model.lift. cbn. rewrite Hwf. reflexivity.
  - exists CStr, (MStr s b :: opt_kw s_brackets b). split; [reflexivity|]. intros st.
    destruct b as [b|]; [|reflexivity].
    unfold wf in Hwf. cbn [wf_gen] in Hwf. apply negb_true_iff in Hwf.
    rewrite eval_ctor_call. remember (close_pat b) as p eqn:Hp.
    assert (Hc : ctor CStr [PStr s] [(s_brackets, PStr b)] = if infix p s then Err EValueBrackets else Ok (VStr s (Some b))).
    { rewrite Hp. reflexivity. }
    change (bind (eval_pos (MStr s (Some b) :: opt_kw s_brackets (Some b)))
              (fun ps => bind (eval_kws (MStr s (Some b) :: opt_kw s_brackets (Some b)))
                           (fun ks => lift (ctor CStr ps ks))) st)
      with (ctor CStr [PStr s] [(s_brackets, PStr b)], st).
    rewrite Hc, Hwf. reflexivity.
  - exists CBytes, [MBytes b]. split; [reflexivity|]. intros st. reflexivity.
  - unfold wf in Hwf. pose proof (wf_gen_weaken _ Hwf) as Hw0.
    rewrite wf_gen_seq in Hwf. apply andb_true_iff in Hwf. destruct Hwf as [Hall _].
    destruct (quote_items_ok items IH Hall) as [fs [Hrs Hes]].
    exists (cls_of_kind k), (MSeq KList fs :: attr_args k). split.
    + rewrite render_seq, classify_inf, Hrs. reflexivity.
    + intros st. rewrite eval_seq_form. unfold Model.bind, Model.lift. rewrite Hes.
      rewrite (mk_seq_inj _ _ Hw0). reflexivity.
Qed.

(* quote: for every well-formed model tree, under every environment and every
   spelling normaliser, evaluating (quote m) yields exactly m and runs no user code *)
Theorem quote_identity m st : wf m = true -> run_quote St user norm true m st = (Ok (inj m), st).
Proof.
  intros Hwf. destruct (quote_identity_ctor_form m Hwf) as [c [args [Hr He]]].
  unfold run_quote, quote_form. rewrite Hr. apply He.
Qed.

(* ------------------------------------------------------------------ C31: quasiquote *)
Lemma qq_loop d' items :
  (fix go (l : list model) : M (list value) :=
     match l with
     | [] => ret []
     | x :: r =>
         bind (match active_unquote norm d' x with
               | Some (true, arg) => bind (eval arg) (fun v => lift (elems_of v))
               | _ => bind (qq_ref d' x) (fun v => ret [v])
               end)
              (fun vs => bind (go r) (fun ws => ret (vs ++ ws)))
     end) items = qq_items d' items.
Proof.
  induction items as [|x r IH]; [reflexivity|].
  cbn [Model.qq_items]. rewrite <- IH. reflexivity.
Qed.

Lemma qq_ref_eq d t :
  qq_ref d t =
  match active_unquote norm d t with
  | Some (_, arg) => eval arg
  | None =>
      match t with
      | MSeq k items => bind (qq_items (depth_in norm d k items) items) (fun vs => lift (mk_seq k vs))
      | _ => ret (inj t)
      end
  end.
Proof.
  destruct t; try reflexivity.
  cbn [Model.qq_ref]. destruct (active_unquote norm d (MSeq k items)) as [[sp arg]|]; [reflexivity|].
  rewrite qq_loop. reflexivity.
Qed.

Lemma qq_valid_seq d k items :
  qq_valid norm d (MSeq k items) =
  match head_op norm k items, d with
  | Some OpUnquote, O | Some OpSplice, O =>
      match items with [_; arg] => negb (is_unpack_form arg) | _ => false end
  | _, _ => forallb (qq_valid norm (depth_in norm d k items)) items
  end.
Proof.
  assert (L : forall d' l,
    (fix all (l : list model) : bool :=
       match l with [] => true | x :: r => qq_valid norm d' x && all r end) l
    = forallb (qq_valid norm d') l).
  { intros d' l. induction l as [|x r IH]; [reflexivity|]. cbn [forallb]. rewrite <- IH. reflexivity. }
  cbn [Model.qq_valid].
  destruct (head_op norm k items) as [[| |]|]; destruct d; try reflexivity; apply L.
Qed.

Lemma classify_active d k items :
  classify (LNat d) k items =
  match active_unquote norm d (MSeq k items) with
  | Some (sp, arg) => HUnq sp arg
  | None =>
      match head_op norm k items, d with
      | Some OpUnquote, O | Some OpSplice, O => HArity
      | _, _ => HLevel (LNat (depth_in norm d k items))
      end
  end.
Proof.
  unfold Model.classify, active_unquote, depth_in.
  destruct (head_op norm k items) as [[| |]|]; destruct d;
    destruct items as [|a [|b [|c r]]]; reflexivity.
Qed.

Lemma active_atom d t :
  match t with MSeq _ _ => False | _ => True end -> active_unquote norm d t = None.
Proof. destruct t; intros H; try contradiction; destruct d; reflexivity. Qed.

Lemma eval_item_plain x :
  is_unpack_iterable x = false -> eval_item x = bind (eval x) (fun v => ret [v]).
Proof.
  intros H. destruct x as [s|s|z|f|re im|s b|b|k items]; try reflexivity.
  destruct k; try reflexivity. destruct items as [|h r]; [reflexivity|].
  destruct h; try reflexivity. cbn [is_unpack_iterable] in H.
  unfold Model.eval_item. rewrite H. reflexivity.
Qed.

Lemma eval_item_splice arg st :
  eval_item (splice_form arg) st = bind (eval arg) (fun v => lift (elems_of v)) st.
Proof.
  change (eval_item (splice_form arg)) with
    (bind (eval (MSeq KExpr [MSym s_or; arg; MSeq KList []])) (fun v => lift (iterate v))).
  rewrite eval_or. unfold Model.bind, Model.lift, Model.ret, elems_of.
  destruct (eval arg st) as [[v|e] st1]; [|reflexivity].
  destruct (truthy v); reflexivity.
Qed.

(* what the induction carries for one template at one depth *)
Definition qq_ok (t : model) : Prop :=
  forall d, wf t = true -> qq_valid norm d t = true ->
  match active_unquote norm d t with
  | Some (sp, arg) => render (LNat d) t = Ok (arg, sp) /\ is_unpack_form arg = false
  | None => exists c args, render (LNat d) t = Ok (MSeq KExpr (dotted_cls c :: args), false)
                           /\ forall st, eval (MSeq KExpr (dotted_cls c :: args)) st = qq_ref d t st
  end.

Lemma unpack_form_iterable x : is_unpack_form x = false -> is_unpack_iterable x = false.
Proof. unfold is_unpack_form. intros H. apply orb_false_iff in H. tauto. Qed.

Lemma qq_items_ok d items :
  Forall qq_ok items -> forallb wf items = true -> forallb (qq_valid norm d) items = true ->
  exists fs, render_items (LNat d) items = Ok fs /\ forall st, eval_items fs st = qq_items d items st.
Proof.
  induction 1 as [|x r Hx _ IHr]; intros Hwf Hv.
  - exists []. split; reflexivity.
  - cbn [forallb] in Hwf, Hv. apply andb_true_iff in Hwf. apply andb_true_iff in Hv.
    destruct Hwf as [Hwx Hwr]. destruct Hv as [Hvx Hvr].
    destruct (IHr Hwr Hvr) as [fs [Hrs Hes]].
    specialize (Hx d Hwx Hvx). cbn [Model.render_items Model.qq_items]. unfold Model.qq_item.
    rewrite (qq_ref_eq d x).
    destruct (active_unquote norm d x) as [[[|] arg]|] eqn:EA.
    + (* unquote-splice *)
      destruct Hx as [Hr Hu]. rewrite Hr. unfold wrap_splice. rewrite (unpack_form_iterable _ Hu).
      rewrite Hrs. exists (splice_form arg :: fs). split; [reflexivity|]. intros st.
      cbn [Model.eval_items]. apply bind_ext; [apply eval_item_splice|].
      intros vs s. apply bind_ext; [apply Hes | reflexivity].
    + (* unquote *)
      destruct Hx as [Hr Hu]. rewrite Hr. cbn [wrap_splice]. rewrite Hrs.
      exists (arg :: fs). split; [reflexivity|]. intros st.
      cbn [Model.eval_items]. rewrite (eval_item_plain _ (unpack_form_iterable _ Hu)).
      apply bind_ext; [reflexivity|]. intros vs s. apply bind_ext; [apply Hes | reflexivity].
    + destruct Hx as [c [args [Hr He]]]. rewrite Hr. cbn [wrap_splice]. rewrite Hrs.
      exists (MSeq KExpr (dotted_cls c :: args) :: fs). split; [reflexivity|]. intros st.
      cbn [Model.eval_items]. rewrite eval_item_ctor_form.
      apply bind_ext.
      * intros s. apply bind_ext; [|reflexivity]. intros s'. rewrite He, (qq_ref_eq d x), EA. reflexivity.
      * intros vs s. apply bind_ext; [apply Hes | reflexivity].
Qed.

Lemma render_atom lvl lvl' m :
  match m with MSeq _ _ => False | _ => True end -> render lvl m = render lvl' m.
Proof. destruct m; intros H; try contradiction; reflexivity. Qed.

Lemma wf_seq_items k items : wf (MSeq k items) = true -> forallb wf items = true.
Proof. unfold wf. rewrite wf_gen_seq. intros H. apply andb_true_iff in H. tauto. Qed.

Lemma qq_ok_atom m : match m with MSeq _ _ => False | _ => True end -> qq_ok m.
Proof.
  intros Hat d Hwf _. rewrite (active_atom d m Hat).
  destruct (quote_identity_ctor_form m Hwf) as [c [args [Hr He]]].
  exists c, args. split.
  - rewrite (render_atom _ LInf m Hat). exact Hr.
  - intros st. rewrite He, qq_ref_eq, (active_atom d m Hat). destruct m; try contradiction; reflexivity.
Qed.

Lemma qq_ok_all t : qq_ok t.
Proof.
  induction t as [s|s|z|f|re im|s b|b|k items IH] using model_ind'; try (apply qq_ok_atom; exact I).
  intros d Hwf Hv. rewrite qq_valid_seq in Hv. rewrite render_seq, classify_active.
  destruct (active_unquote norm d (MSeq k items)) as [[sp arg]|] eqn:EA.
  - split; [reflexivity|].
    unfold active_unquote in EA. destruct d; [|discriminate EA].
    destruct items as [|a [|b [|c r]]]; try discriminate EA.
    revert EA Hv. destruct (head_op norm k [a; b]) as [[| |]|]; intros EA Hv; try discriminate EA;
      injection EA as _ <-; apply negb_true_iff in Hv; exact Hv.
  - assert (HL : match head_op norm k items, d with
                 | Some OpUnquote, O | Some OpSplice, O => HArity
                 | _, _ => HLevel (LNat (depth_in norm d k items))
                 end = HLevel (LNat (depth_in norm d k items))
                 /\ forallb (qq_valid norm (depth_in norm d k items)) items = true).
    { unfold active_unquote in EA.
      destruct (head_op norm k items) as [[| |]|] eqn:EH; destruct d; try (split; [reflexivity | exact Hv]);
        destruct items as [|a [|b [|c r]]]; try discriminate Hv; discriminate EA. }
    destruct HL as [HL Hv']. rewrite HL.
    destruct (qq_items_ok (depth_in norm d k items) items IH (wf_seq_items _ _ Hwf) Hv') as [fs [Hrs Hes]].
    rewrite Hrs. exists (cls_of_kind k), (MSeq KList fs :: attr_args k). split; [reflexivity|].
    intros st. rewrite eval_seq_form, qq_ref_eq, EA. apply bind_ext; [apply Hes | reflexivity].
Qed.

(* quasiquote: for every well-formed template to which the documentation gives a meaning, at every
   depth, under every environment: the rendered form evaluates to the reference substitution,
   running the same user code in the same order on the same states *)
Theorem quasiquote_correct t d : wf t = true -> qq_valid norm d t = true ->
  exists f sp, render (LNat d) t = Ok (f, sp) /\ forall st, eval f st = qq_ref d t st.
Proof.
  intros Hwf Hv. pose proof (qq_ok_all t d Hwf Hv) as H.
  destruct (active_unquote norm d t) as [[sp arg]|] eqn:EA.
  - destruct H as [Hr _]. exists arg, sp. split; [exact Hr|].
    intros st. rewrite qq_ref_eq, EA. reflexivity.
  - destruct H as [c [args [Hr He]]]. eexists _, false. split; [exact Hr | exact He].
Qed.

Corollary quasiquote_run t st : wf t = true -> qq_valid norm 0 t = true ->
  run_quote St user norm false t st = qq_ref 0 t st.
Proof.
  intros Hwf Hv. destruct (quasiquote_correct t 0 Hwf Hv) as [f [sp [Hr He]]].
  unfold run_quote, quote_form. rewrite Hr. apply He.
Qed.

(* ------------------------------------------------------------------ rejected templates *)
Lemma wrap_splice_err f sp e : wrap_splice f sp = Err e -> static_error e = true.
Proof.
  unfold wrap_splice. destruct sp; [|discriminate]. destruct (is_unpack_iterable f); [|discriminate].
  intros H. injection H as <-. reflexivity.
Qed.

Lemma render_err_static m : forall lvl e, render lvl m = Err e -> static_error e = true.
Proof.
  induction m as [s|s|z|f|re im|s b|b|k items IH] using model_ind'; intros lvl e; try discriminate.
  rewrite render_seq. destruct (classify lvl k items) as [sp arg| |l']; [discriminate| |].
  - intros H. injection H as <-. reflexivity.
  - destruct (render_items l' items) as [fs|e'] eqn:ER; [discriminate|].
    intros H. injection H as <-. clear lvl. revert e' ER.
    induction IH as [|x r Hx _ IHr]; intros e' ER; [discriminate ER|].
    cbn [Model.render_items] in ER.
    destruct (render l' x) as [[f sp]|e1] eqn:E1.
    + destruct (wrap_splice f sp) as [f'|e2] eqn:E2.
      * destruct (render_items l' r) as [fs|e3]; [discriminate ER|].
        injection ER as <-. apply IHr. reflexivity.
      * injection ER as <-. exact (wrap_splice_err _ _ _ E2).
    + injection ER as <-. exact (Hx _ _ E1).
Qed.

Lemma render_active d t sp arg :
  active_unquote norm d t = Some (sp, arg) -> render (LNat d) t = Ok (arg, sp).
Proof.
  intros H. destruct t; try (rewrite active_atom in H by exact I; discriminate H).
  rewrite render_seq, classify_active, H. reflexivity.
Qed.

Definition rejects_item (d : nat) (x : model) : bool :=
  qq_rejected norm d x
  || match active_unquote norm d x with
     | Some (true, arg) => is_unpack_iterable arg
     | _ => false
     end.

Lemma qq_rejected_seq d k items :
  qq_rejected norm d (MSeq k items) =
  match head_op norm k items, d with
  | Some OpUnquote, O | Some OpSplice, O =>
      match items with [_; _] => false | _ => true end
  | _, _ => existsb (rejects_item (depth_in norm d k items)) items
  end.
Proof.
  assert (L : forall d' l,
    (fix any (l : list model) : bool :=
       match l with
       | [] => false
       | x :: r =>
           qq_rejected norm d' x
           || match active_unquote norm d' x with
              | Some (true, arg) => is_unpack_iterable arg
              | _ => false
              end
           || any r
       end) l = existsb (rejects_item d') l).
  { intros d' l. induction l as [|x r IH]; [reflexivity|]. cbn [existsb]. rewrite <- IH. reflexivity. }
  cbn [Model.qq_rejected].
  destruct (head_op norm k items) as [[| |]|]; destruct d; try reflexivity; apply L.
Qed.

Lemma rejected_render t : forall d, qq_rejected norm d t = true -> exists e, render (LNat d) t = Err e.
Proof.
  induction t as [s|s|z|f|re im|s b|b|k items IH] using model_ind'; intros d; try discriminate.
  rewrite qq_rejected_seq, render_seq, classify_active. intros Hrej.
  assert (Hcases :
    (active_unquote norm d (MSeq k items) = None /\ match head_op norm k items, d with
     | Some OpUnquote, O | Some OpSplice, O => HArity
     | _, _ => HLevel (LNat (depth_in norm d k items))
     end = HArity)
    \/
    (active_unquote norm d (MSeq k items) = None /\ match head_op norm k items, d with
     | Some OpUnquote, O | Some OpSplice, O => HArity
     | _, _ => HLevel (LNat (depth_in norm d k items))
     end = HLevel (LNat (depth_in norm d k items)) /\ existsb (rejects_item (depth_in norm d k items)) items = true)).
  { unfold active_unquote.
    destruct (head_op norm k items) as [[| |]|] eqn:EH; destruct d;
      try (right; split; [|split; [reflexivity | exact Hrej]];
           destruct items as [|a [|b [|c r]]]; try reflexivity; rewrite EH; reflexivity);
      left; destruct items as [|a [|b [|c r]]]; try discriminate Hrej; split; reflexivity. }
  destruct Hcases as [[EA HC]|[EA [HC Hex]]]; rewrite EA, HC.
  - exists EArity. reflexivity.
  - clear HC EA Hrej. set (d' := depth_in norm d k items) in *. clearbody d'.
    assert (HE : exists e, render_items (LNat d') items = Err e).
    { induction IH as [|x r Hx _ IHr]; [discriminate Hex|].
      cbn [existsb] in Hex. cbn [Model.render_items].
      destruct (render (LNat d') x) as [[f sp]|e1] eqn:E1; [|exists e1; reflexivity].
      destruct (wrap_splice f sp) as [f'|e2] eqn:E2; [|exists e2; reflexivity].
      apply orb_true_iff in Hex. destruct Hex as [Hx'|Hr'].
      - exfalso. unfold rejects_item in Hx'. apply orb_true_iff in Hx'. destruct Hx' as [Hq|Hs].
        + destruct (Hx d' Hq) as [e He]. rewrite He in E1. discriminate E1.
        + destruct (active_unquote norm d' x) as [[[|] arg]|] eqn:EA; try discriminate Hs.
          rewrite (render_active _ _ _ _ EA) in E1. injection E1 as <- <-.
          unfold wrap_splice in E2. rewrite Hs in E2. discriminate E2.
      - destruct (IHr Hr') as [e He]. rewrite He. exists e. reflexivity. }
    destruct HE as [e He]. rewrite He. exists e. reflexivity.
Qed.

(* a rejected template is refused while it is compiled: a user-facing error, and no user code runs *)
Theorem quasiquote_rejected t d st : qq_rejected norm d t = true ->
  exists e, render (LNat d) t = Err e /\ static_error e = true
            /\ (d = O -> run_quote St user norm false t st = (Err e, st)).
Proof.
  intros H. destruct (rejected_render t d H) as [e He]. exists e.
  split; [exact He|]. split; [exact (render_err_static _ _ _ He)|].
  intros ->. unfold run_quote, quote_form. rewrite He. reflexivity.
Qed.

(* ------------------------------------------------------------------ promotion of the result *)
Lemma as_model_seq k items :
  as_model (VSeq k items) =
  match as_model_list items with Err e => Err e | Ok items' => mk_seq k items' end.
Proof. reflexivity. Qed.

Lemma as_model_inj_atom m : match m with MSeq _ _ => False | _ => True end -> as_model (inj m) = Ok (inj m).
Proof. destruct m; intros H; try contradiction; reflexivity. Qed.

Lemma as_model_list_app l1 : forall l2 l',
  as_model_list (l1 ++ l2) = Ok l' ->
  exists a b, as_model_list l1 = Ok a /\ as_model_list l2 = Ok b /\ l' = a ++ b.
Proof.
  induction l1 as [|x r IH]; intros l2 l' H.
  - exists [], l'. split; [reflexivity|]. split; [exact H | reflexivity].
  - cbn [app as_model_list] in H. cbn [as_model_list].
    destruct (as_model x) as [x'|e]; [|discriminate H].
    destruct (as_model_list (r ++ l2)) as [t|e] eqn:E; [|discriminate H].
    injection H as <-. destruct (IH _ _ E) as [a [b [Ha [Hb ->]]]].
    rewrite Ha. exists (x' :: a), b. split; [reflexivity|]. split; [exact Hb | reflexivity].
Qed.

Lemma fjoin_cons_dep x l1 l2 : fjoin l1 = fjoin l2 -> fjoin (x :: l1) = fjoin (x :: l2).
Proof. intros H. destruct x; cbn [fjoin]; rewrite H; reflexivity. Qed.

Definition is_vstr (v : value) : bool := match v with VStr _ _ => true | _ => false end.

Lemma fjoin_cons_other x r : is_vstr x = false -> fjoin (x :: r) = x :: fjoin r.
Proof. destruct x; intros H; try discriminate H; reflexivity. Qed.

(* promoting the children of a joined list and joining again = promoting the children and joining *)
Lemma fjoin_promote l : forall l' l'',
  as_model_list l = Ok l' -> as_model_list (fjoin l) = Ok l'' -> fjoin l' = fjoin l''.
Proof.
  induction l as [|x r IH]; intros l' l'' H1 H2.
  - cbn in H1, H2. injection H1 as <-. injection H2 as <-. reflexivity.
  - destruct (is_vstr x) eqn:Ex.
    + destruct x; try discriminate Ex. clear Ex.
      cbn [as_model_list] in H1. change (as_model (VStr s brackets)) with (Ok (VStr s brackets)) in H1.
      destruct (as_model_list r) as [r'|e] eqn:Er; [|discriminate H1]. injection H1 as <-.
      cbn [fjoin] in H2.
      destruct (fjoin r) as [|y q] eqn:Ej.
      * cbn [as_model_list] in H2. change (as_model (VStr s brackets)) with (Ok (VStr s brackets)) in H2.
        cbn [as_model_list] in H2. injection H2 as <-.
        apply fjoin_cons_dep. apply (IH r' []); reflexivity.
      * destruct (is_vstr y) eqn:Ey.
        -- destruct y; try discriminate Ey. clear Ey.
           cbn [as_model_list] in H2. change (as_model (VStr (s ++ s0) None)) with (Ok (VStr (s ++ s0) None)) in H2.
           destruct (as_model_list q) as [q''|e] eqn:Eq; [|discriminate H2]. injection H2 as <-.
           assert (Hr : fjoin r' = fjoin (VStr s0 brackets0 :: q'')).
           { apply IH; [reflexivity|]. cbn [as_model_list].
             change (as_model (VStr s0 brackets0)) with (Ok (VStr s0 brackets0)). rewrite Eq. reflexivity. }
           cbn [fjoin]. rewrite Hr. cbn [fjoin].
           destruct (fjoin q'') as [|z w]; [reflexivity|].
           destruct z; try reflexivity. rewrite app_assoc. reflexivity.
        -- assert (H2' : as_model_list (VStr s brackets :: y :: q) = Ok l'').
           { destruct y; try discriminate Ey; exact H2. }
           clear H2. cbn [as_model_list] in H2'.
           change (as_model (VStr s brackets)) with (Ok (VStr s brackets)) in H2'.
           destruct (as_model y) as [y'|e] eqn:Ey'; [|discriminate H2'].
           destruct (as_model_list q) as [q''|e] eqn:Eq; [|discriminate H2']. injection H2' as <-.
           apply fjoin_cons_dep. apply IH; [reflexivity|]. cbn [as_model_list]. rewrite Ey', Eq. reflexivity.
    + rewrite (fjoin_cons_other _ _ Ex) in H2. cbn [as_model_list] in H1, H2.
      destruct (as_model x) as [x'|e]; [|discriminate H1].
      destruct (as_model_list r) as [r'|e] eqn:Er; [|discriminate H1]. injection H1 as <-.
      destruct (as_model_list (fjoin r)) as [r''|e] eqn:Er'; [|discriminate H2]. injection H2 as <-.
      apply fjoin_cons_dep. apply IH; reflexivity.
Qed.

Lemma fjoin_promote_ex l : forall l'',
  as_model_list (fjoin l) = Ok l'' -> exists l', as_model_list l = Ok l'.
Proof.
  induction l as [|x r IH]; intros l'' H.
  - exists []. reflexivity.
  - destruct (is_vstr x) eqn:Ex.
    + destruct x; try discriminate Ex. clear Ex.
      cbn [as_model_list]. change (as_model (VStr s brackets)) with (Ok (VStr s brackets)).
      cbn [fjoin] in H.
      assert (Hr : exists t, as_model_list (fjoin r) = Ok t).
      { destruct (fjoin r) as [|y q]; [exists []; reflexivity|].
        destruct (is_vstr y) eqn:Ey.
        - destruct y; try discriminate Ey. cbn [as_model_list] in H.
          change (as_model (VStr (s ++ s0) None)) with (Ok (VStr (s ++ s0) None)) in H.
          destruct (as_model_list q) as [q''|e] eqn:Eq; [|discriminate H].
          exists (VStr s0 brackets0 :: q''). cbn [as_model_list].
          change (as_model (VStr s0 brackets0)) with (Ok (VStr s0 brackets0)). rewrite Eq. reflexivity.
        - assert (H' : as_model_list (VStr s brackets :: y :: q) = Ok l'').
          { destruct y; try discriminate Ey; exact H. }
          cbn [as_model_list] in H'. change (as_model (VStr s brackets)) with (Ok (VStr s brackets)) in H'.
          cbn [as_model_list].
          destruct (as_model y) as [y'|e]; [|discriminate H'].
          destruct (as_model_list q) as [q''|e]; [|discriminate H']. exists (y' :: q''). reflexivity. }
      destruct Hr as [t Ht]. destruct (IH _ Ht) as [r' Hr']. rewrite Hr'. exists (VStr s brackets :: r'). reflexivity.
    + rewrite (fjoin_cons_other _ _ Ex) in H. cbn [as_model_list] in H |- *.
      destruct (as_model x) as [x'|e]; [|discriminate H].
      destruct (as_model_list (fjoin r)) as [t|e] eqn:Et; [|discriminate H].
      destruct (IH _ eq_refl) as [r' Hr']. rewrite Hr'. exists (x' :: r'). reflexivity.
Qed.

Lemma promote_mk_seq k vs v v' :
  mk_seq k vs = Ok v -> as_model v = Ok v' ->
  exists vs', as_model_list vs = Ok vs' /\ mk_seq k vs' = Ok v'.
Proof.
  intros Hm Ha.
  assert (Hgen : forall items, v = VSeq k items ->
            exists t, as_model_list items = Ok t /\ mk_seq k t = Ok v').
  { intros items ->. rewrite as_model_seq in Ha.
    destruct (as_model_list items) as [t|e]; [|discriminate Ha]. exists t. split; [reflexivity | exact Ha]. }
  destruct k as [| | | | |br ts|cv ex ts];
    try (cbn [mk_seq] in Hm; injection Hm as <-; destruct (Hgen vs eq_refl) as [t [H1 H2]]; exists t; split; assumption).
  assert (Hv : v = VSeq (KFString br ts) (fjoin vs)).
  { unfold mk_seq in Hm. destruct br as [b|].
    - destruct (string_in_node (close_pat b) (VSeq (KFString (Some b) ts) (fjoin vs))); [discriminate Hm|].
      injection Hm as <-. reflexivity.
    - injection Hm as <-. reflexivity. }
  destruct (Hgen _ Hv) as [t [H1 H2]].
  destruct (fjoin_promote_ex _ _ H1) as [vs' Hvs']. exists vs'. split; [exact Hvs'|].
  pose proof (fjoin_promote _ _ _ Hvs' H1) as Hj.
  unfold mk_seq in H2 |- *. rewrite Hj. exact H2.
Qed.

Lemma qq_p_loop d' items :
  (fix go (l : list model) : M (list value) :=
     match l with
     | [] => ret []
     | x :: r =>
         bind (match active_unquote norm d' x with
               | Some (true, arg) =>
                   bind (eval arg) (fun v => lift (match elems_of v with
                                                   | Ok es => as_model_list es
                                                   | Err e => Err e
                                                   end))
               | _ => bind (qq_ref_p d' x) (fun v => ret [v])
               end)
              (fun vs => bind (go r) (fun ws => ret (vs ++ ws)))
     end) items = qq_items_p St user norm d' items.
Proof.
  induction items as [|x r IH]; [reflexivity|].
  cbn [Model.qq_items_p]. rewrite <- IH. reflexivity.
Qed.

Lemma qq_ref_p_eq d t :
  qq_ref_p d t =
  match active_unquote norm d t with
  | Some (_, arg) => bind (eval arg) (fun v => lift (as_model v))
  | None =>
      match t with
      | MSeq k items => bind (qq_items_p St user norm (depth_in norm d k items) items) (fun vs => lift (mk_seq k vs))
      | _ => ret (inj t)
      end
  end.
Proof.
  destruct t; try reflexivity.
  cbn [Model.qq_ref_p]. destruct (active_unquote norm d (MSeq k items)) as [[sp arg]|]; [reflexivity|].
  rewrite qq_p_loop. reflexivity.
Qed.

Lemma bind_ok {A B} (m : M A) (f : A -> M B) st b st' :
  bind m f st = (Ok b, st') -> exists a st1, m st = (Ok a, st1) /\ f a st1 = (Ok b, st').
Proof.
  unfold Model.bind. destruct (m st) as [[a|e] st1]; [|discriminate].
  intros H. exists a, st1. split; [reflexivity | exact H].
Qed.

Definition promo_ok (t : model) : Prop :=
  forall d st st' v v', qq_ref d t st = (Ok v, st') -> as_model v = Ok v' -> qq_ref_p d t st = (Ok v', st').

Lemma promo_items d items :
  Forall promo_ok items ->
  forall st st' vs vs', qq_items d items st = (Ok vs, st') -> as_model_list vs = Ok vs' ->
  qq_items_p St user norm d items st = (Ok vs', st').
Proof.
  induction 1 as [|x r Hx _ IHr]; intros st st' vs vs' Hq Ha.
  - cbn in Hq. injection Hq as <- <-. cbn in Ha. injection Ha as <-. reflexivity.
  - cbn [Model.qq_items] in Hq. apply bind_ok in Hq. destruct Hq as [es [st1 [Hi Hq]]].
    apply bind_ok in Hq. destruct Hq as [ws [st2 [Hr Hq]]].
    unfold Model.ret in Hq. injection Hq as <- <-.
    destruct (as_model_list_app _ _ _ Ha) as [es' [ws' [He [Hw ->]]]].
    cbn [Model.qq_items_p]. unfold Model.bind at 1.
    assert (Hi' : qq_item_p St user norm d x st = (Ok es', st1)).
    { unfold Model.qq_item in Hi. unfold Model.qq_item_p.
      destruct (active_unquote norm d x) as [[[|] arg]|].
      - apply bind_ok in Hi. destruct Hi as [v0 [st0 [Hev Hl]]]. unfold Model.lift in Hl.
        injection Hl as Hel <-. unfold Model.bind. rewrite Hev. unfold Model.lift. rewrite Hel, He. reflexivity.
      - apply bind_ok in Hi. destruct Hi as [v1 [st0 [Hev Hl]]]. unfold Model.ret in Hl. injection Hl as <- <-.
        cbn [as_model_list] in He. destruct (as_model v1) as [v1'|e] eqn:E1; [|discriminate He].
        injection He as <-. unfold Model.bind. rewrite (Hx _ _ _ _ _ Hev E1). reflexivity.
      - apply bind_ok in Hi. destruct Hi as [v1 [st0 [Hev Hl]]]. unfold Model.ret in Hl. injection Hl as <- <-.
        cbn [as_model_list] in He. destruct (as_model v1) as [v1'|e] eqn:E1; [|discriminate He].
        injection He as <-. unfold Model.bind. rewrite (Hx _ _ _ _ _ Hev E1). reflexivity. }
    rewrite Hi'. unfold Model.bind. rewrite (IHr _ _ _ _ Hr Hw). reflexivity.
Qed.

Lemma promo_atom m : match m with MSeq _ _ => False | _ => True end -> promo_ok m.
Proof.
  intros Hat d st st' v v' Hq Ha. rewrite qq_ref_eq in Hq. rewrite (active_atom d m Hat) in Hq.
  rewrite qq_ref_p_eq, (active_atom d m Hat).
  destruct m; try contradiction; unfold Model.ret in Hq |- *; injection Hq as <- <-;
    cbn in Ha; injection Ha as <-; reflexivity.
Qed.

Lemma promo_all t : promo_ok t.
Proof.
  induction t as [s|s|z|f|re im|s b|b|k items IH] using model_ind'; try (apply promo_atom; exact I).
  intros d st st' v v' Hq Ha. rewrite qq_ref_eq in Hq. rewrite qq_ref_p_eq.
  destruct (active_unquote norm d (MSeq k items)) as [[sp arg]|].
  - unfold Model.bind, Model.lift. rewrite Hq, Ha. reflexivity.
  - apply bind_ok in Hq. destruct Hq as [vs [st1 [Hi Hm]]]. unfold Model.lift in Hm. injection Hm as Hm <-.
    destruct (promote_mk_seq _ _ _ _ Hm Ha) as [vs' [Hvs' Hm']].
    unfold Model.bind, Model.lift. rewrite (promo_items _ _ IH _ _ _ _ Hi Hvs'), Hm'. reflexivity.
Qed.

(* the statement of C31 with promoted values: whenever the quasiquote form evaluates to v and
   hy.as_model accepts v, the promoted result is the reference in which every inserted value
   has been promoted *)
Theorem quasiquote_promoted t st st' v v' : wf t = true -> qq_valid norm 0 t = true ->
  run_quote St user norm false t st = (Ok v, st') -> as_model v = Ok v' ->
  qq_ref_p 0 t st = (Ok v', st').
Proof.
  intros Hwf Hv Hr Ha. rewrite (quasiquote_run t st Hwf Hv) in Hr. exact (promo_all t O _ _ _ _ Hr Ha).
Qed.

End WithEnv.

(* ------------------------------------------------------------------ witnesses and examples *)
From Coq Require Import String.
Definition norm_id (s : text) : text := s.
Definition no_user (m : model) (st : unit) : res value * unit := (Err EUnmodelled, st).

(* '-0j : the Complex whose imaginary part is -0.0 *)
Definition cpx_negzero : model := MCpx 0 f_negzero.

Lemma quote_complex_negzero :
  wf_ctor cpx_negzero = true /\
  forall St user norm st,
    run_quote St user norm true cpx_negzero st = (Ok (VCpx 0 0), st) /\ VCpx 0 0 <> inj cpx_negzero.
Proof.
  split; [reflexivity|]. intros St user norm st. split; [reflexivity | discriminate].
Qed.

Lemma quasiquote_complex_negzero :
  wf_ctor cpx_negzero = true /\ qq_valid norm_id 0 cpx_negzero = true /\
  forall St user norm st,
    run_quote St user norm false cpx_negzero st = (Ok (VCpx 0 0), st) /\ VCpx 0 0 <> inj cpx_negzero.
Proof.
  split; [reflexivity|]. split; [reflexivity|]. intros St user norm st. split; [reflexivity | discriminate].
Qed.

Definition sy (s : String.string) : model := MSym (t_of s).
Arguments sy _%string_scope.
Arguments t_of _%string_scope.
Definition ex (l : list model) : model := MSeq KExpr l.

(* a model with every class and attribute, symbols that look special, empty sequences *)
Definition example_model : model :=
  ex [sy "unquote"; sy "None"; MKw (t_of "k"); MKw []; MInt (-7); MFloat 9221120237041090560; MFloat f_negzero;
      MCpx f_negzero 4611686018427387904; MStr (t_of "a]b") (Some (t_of "x")); MStr [] (Some []); MBytes [0; 255];
      ex []; MSeq KList []; MSeq KTuple [sy "t"]; MSeq KSet [MInt 1; MInt 1]; MSeq KDict [MInt 1];
      ex [sy "unquote-splice"; sy "x"]; ex [sy "quasiquote"; ex [sy "unquote"; sy "y"]];
      MSeq (KFString (Some (t_of "zz")) true)
        [MStr (t_of "a") None;
         MSeq (KFComp (Some (t_of "r")) (Some (t_of "x ")) true) [sy "x"; MStr (t_of ">{w}") None];
         MStr (t_of "b") (Some (t_of "q"))];
      MSeq (KFString None false) []; MSeq (KFComp None None false) []].

Lemma example_model_wf : wf example_model = true.
Proof. vm_compute. reflexivity. Qed.

(* user code for the examples: x = 2, X = [1, 2, 3], n = None; everything else raises *)
Definition ex_user (m : model) (st : list model) : res value * list model :=
  (if text_eqb (match m with MSym s => s | _ => [] end) (t_of "x") then Ok (PInt 2)
   else if text_eqb (match m with MSym s => s | _ => [] end) (t_of "X") then Ok (PList [PInt 1; PInt 2; PInt 3])
   else if text_eqb (match m with MSym s => s | _ => [] end) (t_of "n") then Ok PNone
   else Err (EUser 0), st ++ [m]).

(* docs/api.rst: (quasiquote (+ 1 (unquote x))) => '(+ 1 2) *)
Definition doc_template1 : model := ex [sy "+"; MInt 1; ex [sy "unquote"; sy "x"]].
Lemma doc_example1 :
  qq_ref_p _ ex_user norm_id 0 doc_template1 [] = (Ok (inj (ex [sy "+"; MInt 1; MInt 2])), [sy "x"]).
Proof. vm_compute. reflexivity. Qed.

(* docs/api.rst: `[a b ~X c d ~@X e f] => '[a b [1 2 3] c d 1 2 3 e f] ; ~@ of None splices nothing *)
Definition doc_template2 : model :=
  MSeq KList [sy "a"; sy "b"; ex [sy "unquote"; sy "X"]; sy "c"; sy "d"; ex [sy "unquote-splice"; sy "X"];
              ex [sy "unquote-splice"; sy "n"]; sy "e"; sy "f"].
Lemma doc_example2 :
  qq_ref_p _ ex_user norm_id 0 doc_template2 [] =
  (Ok (inj (MSeq KList [sy "a"; sy "b"; MSeq KList [MInt 1; MInt 2; MInt 3]; sy "c"; sy "d";
                        MInt 1; MInt 2; MInt 3; sy "e"; sy "f"])),
   [sy "X"; sy "X"; sy "n"]).
Proof. vm_compute. reflexivity. Qed.

(* nesting: inside a nested quasiquote an unquote stays literal, a doubly unquoted form is evaluated *)
Definition nested_template : model :=
  ex [sy "a"; ex [sy "unquote"; sy "x"];
      ex [sy "quasiquote"; ex [sy "b"; ex [sy "unquote"; sy "x"]; ex [sy "unquote"; ex [sy "unquote"; sy "x"]];
                               MSeq KSet [ex [sy "unquote-splice"; ex [sy "unquote-splice"; sy "X"]]]]]].
Lemma nested_template_ok : wf nested_template = true /\ qq_valid norm_id 0 nested_template = true.
Proof. split; vm_compute; reflexivity. Qed.
Lemma nested_example :
  qq_ref _ ex_user norm_id 0 nested_template [] =
  (Ok (VSeq KExpr [VSym (t_of "a"); PInt 2;
         VSeq KExpr [VSym (t_of "quasiquote");
           VSeq KExpr [VSym (t_of "b"); VSeq KExpr [VSym (t_of "unquote"); VSym (t_of "x")];
                       VSeq KExpr [VSym (t_of "unquote"); PInt 2];
                       VSeq KSet [VSeq KExpr [VSym (t_of "unquote-splice"); PInt 1; PInt 2; PInt 3]]]]]),
   [sy "x"; sy "x"; sy "X"]).
Proof. vm_compute. reflexivity. Qed.

Definition bad_arity_template : model := ex [sy "a"; ex [sy "unquote"]].
Lemma bad_arity_rejected : qq_rejected norm_id 0 bad_arity_template = true.
Proof. vm_compute. reflexivity. Qed.
