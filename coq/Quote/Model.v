(* Model of quote / quasiquote: hy/core/result_macros.py (compile_quote,
   render_quoted_form) and the hy.models constructors that the rendered forms
   call (hy/models.py).

   [model]  : the syntax trees of hy.models (what the reader produces, what
              render_quoted_form takes and what it emits);
   [value]  : run-time values: models whose children may be arbitrary Python
              values (an unquoted value is inserted as it is), plus the Python
              values the rendered code handles;
   [render] : render_quoted_form, line by line, producing real model trees
              (constructor-call forms), with the level argument;
   [eval]   : the meaning of the Hy fragment those forms are written in
              (calls of hy.models.X with positional and keyword arguments,
              list displays with unpack-iterable, binary `or`, literals);
              every other form is user code, whose meaning is the stateful
              environment [user];
   [ctor]   : the meaning of the constructor calls (FString joining adjacent
              strings, the bracket-string checks, Complex adding imaginary
              parts);
   [as_model] : the promotion hy.as_model. *)
From HyV Require Import Base.Text.
From Coq Require Import ZArith String Ascii.

(* ------------------------------------------------------------------ text constants *)
Definition t_of (s : string) : text := List.map (fun a => N.of_nat (nat_of_ascii a)) (list_ascii_of_string s).

Definition s_dot : text := Eval vm_compute in t_of ".".
Definition s_hy : text := Eval vm_compute in t_of "hy".
Definition s_models : text := Eval vm_compute in t_of "models".
Definition s_True : text := Eval vm_compute in t_of "True".
Definition s_False : text := Eval vm_compute in t_of "False".
Definition s_None : text := Eval vm_compute in t_of "None".
Definition s_or : text := Eval vm_compute in t_of "or".
Definition s_unpack_iterable : text := Eval vm_compute in t_of "unpack-iterable".
Definition s_unpack_mapping : text := Eval vm_compute in t_of "unpack-mapping".
Definition s_unquote : text := Eval vm_compute in t_of "unquote".
Definition s_unquote_splice : text := Eval vm_compute in t_of "unquote-splice".
Definition s_quasiquote : text := Eval vm_compute in t_of "quasiquote".
Definition s_from_parser : text := Eval vm_compute in t_of "from_parser".
Definition s_brackets : text := Eval vm_compute in t_of "brackets".
Definition s_is_tstring : text := Eval vm_compute in t_of "is_tstring".
Definition s_conversion : text := Eval vm_compute in t_of "conversion".
Definition s_expression : text := Eval vm_compute in t_of "expression".

(* ------------------------------------------------------------------ models *)
(* The sequence classes, with the extra attributes of FString / FComponent. *)
Inductive seqkind :=
| KExpr | KList | KTuple | KSet | KDict
| KFString (brackets : option text) (is_tstring : bool)
| KFComp (conversion expression : option text) (is_tstring : bool).

(* Float payloads are the 64 IEEE bits, so equality is bit equality. *)
Inductive model :=
| MSym (s : text)
| MKw (s : text)
| MInt (z : Z)
| MFloat (f : N)
| MCpx (re im : N)
| MStr (s : text) (brackets : option text)
| MBytes (b : list N)
| MSeq (k : seqkind) (items : list model).

Inductive value :=
(* instances of the model classes; children of a sequence may be any value *)
| VSym (s : text)
| VKw (s : text)
| VInt (z : Z)
| VFloat (f : N)
| VCpx (re im : N)
| VStr (s : text) (brackets : option text)
| VBytes (b : list N)
| VSeq (k : seqkind) (items : list value)
(* plain Python values *)
| PInt (z : Z)
| PFloat (f : N)
| PCpx (re im : N)
| PStr (s : text)
| PBytes (b : list N)
| PBool (b : bool)
| PNone
| PList (items : list value)
| PTuple (items : list value)
| PSet (items : list value)       (* a set: its members in iteration order *)
| PDict (items : list value)      (* a dict: key, value, key, value ... in insertion order *)
| POpaque (n : N).    (* any other object: truthy, not iterable, not representable as a model *)

Fixpoint inj (m : model) : value :=
  match m with
  | MSym s => VSym s
  | MKw s => VKw s
  | MInt z => VInt z
  | MFloat f => VFloat f
  | MCpx re im => VCpx re im
  | MStr s b => VStr s b
  | MBytes b => VBytes b
  | MSeq k items => VSeq k (map inj items)
  end.

(* ------------------------------------------------------------------ outcomes *)
Inductive err :=
| EUser (n : N)        (* an exception raised by user code *)
| EArity               (* render_quoted_form: unquote / unquote-splice without exactly one argument *)
| ESyntaxUnpack        (* "`unpack-iterable` is not allowed here" *)
| ESyntax              (* other compile-time syntax errors of the fragment *)
| ENotIterable         (* TypeError: object is not iterable *)
| EValueBrackets       (* ValueError: Syntactically illegal bracket string *)
| EWrapper             (* HyWrapperError: don't know how to wrap *)
| ECycle               (* HyWrapperError: self-referential structure detected *)
| EUnmodelled.         (* a call the model does not cover (never produced by render) *)

Inductive res (A : Type) := Ok (a : A) | Err (e : err).
Arguments Ok {A} _. Arguments Err {A} _.

(* errors reported while the quasiquote form is compiled, before anything is evaluated *)
Definition static_error (e : err) : bool :=
  match e with EArity | ESyntaxUnpack => true | _ => false end.

(* ------------------------------------------------------------------ classes *)
Inductive cls := CSym | CKw | CInt | CFloat | CCpx | CStr | CBytes
               | CExpr | CList | CTuple | CSet | CDict | CFString | CFComp.

Definition n_Symbol : text := Eval vm_compute in t_of "Symbol".
Definition n_Keyword : text := Eval vm_compute in t_of "Keyword".
Definition n_Integer : text := Eval vm_compute in t_of "Integer".
Definition n_Float : text := Eval vm_compute in t_of "Float".
Definition n_Complex : text := Eval vm_compute in t_of "Complex".
Definition n_String : text := Eval vm_compute in t_of "String".
Definition n_Bytes : text := Eval vm_compute in t_of "Bytes".
Definition n_Expression : text := Eval vm_compute in t_of "Expression".
Definition n_List : text := Eval vm_compute in t_of "List".
Definition n_Tuple : text := Eval vm_compute in t_of "Tuple".
Definition n_Set : text := Eval vm_compute in t_of "Set".
Definition n_Dict : text := Eval vm_compute in t_of "Dict".
Definition n_FString : text := Eval vm_compute in t_of "FString".
Definition n_FComponent : text := Eval vm_compute in t_of "FComponent".

Definition cls_name (c : cls) : text :=
  match c with
  | CSym => n_Symbol
  | CKw => n_Keyword
  | CInt => n_Integer
  | CFloat => n_Float
  | CCpx => n_Complex
  | CStr => n_String
  | CBytes => n_Bytes
  | CExpr => n_Expression
  | CList => n_List
  | CTuple => n_Tuple
  | CSet => n_Set
  | CDict => n_Dict
  | CFString => n_FString
  | CFComp => n_FComponent
  end.

Definition all_cls : list cls :=
  [CSym; CKw; CInt; CFloat; CCpx; CStr; CBytes; CExpr; CList; CTuple; CSet; CDict; CFString; CFComp].

Definition class_of_name (s : text) : option cls :=
  find (fun c => text_eqb (cls_name c) s) all_cls.

Definition cls_of_kind (k : seqkind) : cls :=
  match k with
  | KExpr => CExpr | KList => CList | KTuple => CTuple | KSet => CSet | KDict => CDict
  | KFString _ _ => CFString | KFComp _ _ _ => CFComp
  end.

(* dotted("hy.models." + name) *)
Definition dotted_cls (c : cls) : model :=
  MSeq KExpr [MSym s_dot; MSym s_hy; MSym s_models; MSym (cls_name c)].

(* ------------------------------------------------------------------ float facts *)
Definition two51 : N := 2251799813685248.
Definition two52 : N := 4503599627370496.
Definition two63 : N := 9223372036854775808.
Definition f_negzero : N := two63.
Definition f_is_zero (f : N) : bool := N.eqb (f mod two63) 0.
Definition f_is_snan (f : N) : bool :=
  let e := (f / two52) mod 2048 in
  let mant := f mod two52 in
  N.eqb e 2047 && negb (N.eqb mant 0) && (mant <? two51).
(* the float addition 0 + x of Complex.__new__ (imag + real.imag with imag = 0), on bit patterns:
   -0.0 becomes +0.0, a signalling NaN is quieted, everything else is unchanged *)
Definition add0 (f : N) : N :=
  if N.eqb f f_negzero then 0
  else if f_is_snan f then N.lor f two51
  else f.

(* ------------------------------------------------------------------ Python facts used *)
Definition is_nil {A} (l : list A) : bool := match l with [] => true | _ => false end.

(* bool(v) *)
Definition truthy (v : value) : bool :=
  match v with
  | VSym s | VStr s _ | PStr s => negb (is_nil s)
  | VKw s => negb (is_nil s)
  | VInt z | PInt z => negb (Z.eqb z 0)
  | VFloat f | PFloat f => negb (f_is_zero f)
  | VCpx re im | PCpx re im => negb (f_is_zero re && f_is_zero im)
  | VBytes b | PBytes b => negb (is_nil b)
  | VSeq _ items | PList items | PTuple items | PSet items | PDict items => negb (is_nil items)
  | PBool b => b
  | PNone => false
  | POpaque _ => true
  end.

Fixpoint dict_keys (d : list value) : list value :=
  match d with k :: _ :: r => k :: dict_keys r | _ => [] end.

(* iter(v), completely consumed *)
Definition iterate (v : value) : res (list value) :=
  match v with
  | VSeq _ items | PList items | PTuple items | PSet items => Ok items
  | PDict items => Ok (dict_keys items)
  | VSym s | VStr s _ | PStr s => Ok (map (fun c => PStr [c]) s)
  | VBytes b | PBytes b => Ok (map (fun c => PInt (Z.of_N c)) b)
  | _ => Err ENotIterable
  end.

(* `needle in hay` for strings *)
Fixpoint infix (needle hay : text) : bool :=
  starts_with needle hay || match hay with [] => false | _ :: r => infix needle r end.

Definition close_pat (b : text) : text := 93 :: b ++ [93].     (* f"]{brackets}]" *)

(* _string_in_node *)
Fixpoint string_in_node (pat : text) (v : value) : bool :=
  match v with
  | VStr s _ => infix pat s
  | VSeq (KFString _ _) items | VSeq (KFComp _ _ _) items =>
      (fix any (l : list value) : bool :=
         match l with [] => false | x :: r => string_in_node pat x || any r end) items
  | _ => false
  end.

(* FString.__new__: adjacent String nodes are joined with String.__add__ (which drops brackets);
   a String with no String neighbour is kept as it is *)
Fixpoint fjoin (l : list value) : list value :=
  match l with
  | [] => []
  | VStr s b :: r =>
      match fjoin r with
      | VStr s' _ :: r' => VStr (s ++ s') None :: r'
      | r' => VStr s b :: r'
      end
  | x :: r => x :: fjoin r
  end.

Definition mk_string (s : text) (br : option text) : res value :=
  match br with
  | Some b => if infix (close_pat b) s then Err EValueBrackets else Ok (VStr s br)
  | None => Ok (VStr s None)
  end.

(* calling a sequence class on items and its extra attributes *)
Definition mk_seq (k : seqkind) (items : list value) : res value :=
  match k with
  | KFString br ts =>
      let j := fjoin items in
      match br with
      | Some b => if string_in_node (close_pat b) (VSeq k j) then Err EValueBrackets else Ok (VSeq k j)
      | None => Ok (VSeq k j)
      end
  | _ => Ok (VSeq k items)
  end.

(* ------------------------------------------------------------------ collection displays *)
Definition opt_text_eqb (a b : option text) : bool :=
  match a, b with None, None => true | Some x, Some y => text_eqb x y | _, _ => false end.

Definition kind_eqb (a b : seqkind) : bool :=
  match a, b with
  | KExpr, KExpr | KList, KList | KTuple, KTuple | KSet, KSet | KDict, KDict => true
  | KFString b1 t1, KFString b2 t2 => opt_text_eqb b1 b2 && Bool.eqb t1 t2
  | KFComp c1 e1 t1, KFComp c2 e2 t2 => opt_text_eqb c1 c2 && opt_text_eqb e1 e2 && Bool.eqb t1 t2
  | _, _ => false
  end.

(* Python's == on the values used as set members / dict keys, read structurally (same class, same
   payload); the generators only repeat identical members, so no cross-class equality is needed *)
Fixpoint value_eqb (a b : value) : bool :=
  match a, b with
  | VSym x, VSym y | VKw x, VKw y | PStr x, PStr y => text_eqb x y
  | VInt x, VInt y | PInt x, PInt y => Z.eqb x y
  | VFloat x, VFloat y | PFloat x, PFloat y | POpaque x, POpaque y => N.eqb x y
  | VCpx x1 x2, VCpx y1 y2 | PCpx x1 x2, PCpx y1 y2 => N.eqb x1 y1 && N.eqb x2 y2
  | VStr x _, VStr y _ => text_eqb x y
  | VBytes x, VBytes y | PBytes x, PBytes y => text_eqb x y
  | PBool x, PBool y => Bool.eqb x y
  | PNone, PNone => true
  | VSeq k1 l1, VSeq k2 l2 =>
      kind_eqb k1 k2
      && (fix go (l1 l2 : list value) : bool :=
            match l1, l2 with
            | [], [] => true
            | x :: r, y :: s => value_eqb x y && go r s
            | _, _ => false
            end) l1 l2
  | PTuple l1, PTuple l2 =>
      (fix go (l1 l2 : list value) : bool :=
         match l1, l2 with
         | [], [] => true
         | x :: r, y :: s => value_eqb x y && go r s
         | _, _ => false
         end) l1 l2
  | _, _ => false
  end.

(* set(items): the first occurrence of every member *)
Fixpoint dedup (l : list value) : list value :=
  match l with
  | [] => []
  | x :: r => x :: filter (fun y => negb (value_eqb x y)) (dedup r)
  end.

(* d[k] = v on the flattened representation *)
Fixpoint dict_set (d : list value) (k v : value) : list value :=
  match d with
  | k0 :: v0 :: r => if value_eqb k0 k then k0 :: v :: r else k0 :: v0 :: dict_set r k v
  | _ => [k; v]
  end.

Fixpoint dict_of (items acc : list value) : option (list value) :=
  match items with
  | [] => Some acc
  | k :: v :: r => dict_of r (dict_set acc k v)
  | [_] => None
  end.

(* the value of a list / tuple / set / dict display whose element values are vs *)
Definition display (k : seqkind) (vs : list value) : res value :=
  match k with
  | KList => Ok (PList vs)
  | KTuple => Ok (PTuple vs)
  | KSet => Ok (PSet (dedup vs))
  | KDict => match dict_of vs [] with Some d => Ok (PDict d) | None => Err EUnmodelled end
  | _ => Err EUnmodelled
  end.

(* ------------------------------------------------------------------ constructor calls *)
Definition kwargs := list (text * value).

Fixpoint kw_get (name : text) (kw : kwargs) : option value :=
  match kw with
  | [] => None
  | (k, v) :: r => if text_eqb k name then Some v else kw_get name r
  end.

(* every keyword is one of the allowed names, none is repeated *)
Fixpoint kw_ok (allowed : list text) (kw : kwargs) : bool :=
  match kw with
  | [] => true
  | (k, _) :: r => existsb (text_eqb k) allowed && negb (existsb (fun p => text_eqb (fst p) k) r) && kw_ok allowed r
  end.

(* an optional string attribute: absent -> the default None *)
Definition opt_text_arg (o : option value) : option (option text) :=
  match o with
  | None => Some None
  | Some PNone => Some None
  | Some (PStr s) => Some (Some s)
  | Some (VStr s _) => Some (Some s)
  | _ => None
  end.

Definition flag_arg (o : option value) : option bool :=
  match o with
  | None => Some false
  | Some (PBool b) => Some b
  | _ => None
  end.

Definition str_arg (v : value) : option text :=
  match v with PStr s | VStr s _ | VSym s => Some s | _ => None end.

Definition seq_items (pos : list value) : res (list value) :=
  match pos with
  | [] => Ok []
  | [v] => iterate v
  | _ => Err EUnmodelled
  end.

Definition plain_kind (c : cls) : option seqkind :=
  match c with
  | CExpr => Some KExpr | CList => Some KList | CTuple => Some KTuple | CSet => Some KSet | CDict => Some KDict
  | _ => None
  end.

(* the call hy.models.<c> with positional arguments pos and keyword arguments kw *)
Definition ctor (c : cls) (pos : list value) (kw : kwargs) : res value :=
  match c with
  | CExpr | CList | CTuple | CSet | CDict =>
      match plain_kind c, kw with
      | Some k, [] => match seq_items pos with Ok items => Ok (VSeq k items) | Err e => Err e end
      | _, _ => Err EUnmodelled
      end
  | CFString =>
      if kw_ok [s_brackets; s_is_tstring] kw then
        match pos, opt_text_arg (kw_get s_brackets kw), flag_arg (kw_get s_is_tstring kw) with
        | [v], Some br, Some ts =>
            match iterate v with Ok items => mk_seq (KFString br ts) items | Err e => Err e end
        | _, _, _ => Err EUnmodelled
        end
      else Err EUnmodelled
  | CFComp =>
      if kw_ok [s_conversion; s_expression; s_is_tstring] kw then
        match pos, opt_text_arg (kw_get s_conversion kw), opt_text_arg (kw_get s_expression kw),
              flag_arg (kw_get s_is_tstring kw) with
        | [v], Some cv, Some ex, Some ts =>
            match iterate v with Ok items => Ok (VSeq (KFComp cv ex ts) items) | Err e => Err e end
        | _, _, _, _ => Err EUnmodelled
        end
      else Err EUnmodelled
  | CSym =>
      (* only from_parser=True is modelled: the other branch calls the reader *)
      match pos, kw with
      | [v], [(k, PBool true)] =>
          if text_eqb k s_from_parser then
            match str_arg v with Some s => Ok (VSym s) | None => Err EUnmodelled end
          else Err EUnmodelled
      | _, _ => Err EUnmodelled
      end
  | CKw =>
      match pos, kw with
      | [v], [(k, PBool true)] =>
          if text_eqb k s_from_parser then
            match str_arg v with Some s => Ok (VKw s) | None => Err EUnmodelled end
          else Err EUnmodelled
      | _, _ => Err EUnmodelled
      end
  | CStr =>
      if kw_ok [s_brackets] kw then
        match pos, opt_text_arg (kw_get s_brackets kw) with
        | [PStr s], Some br => mk_string s br
        | _, _ => Err EUnmodelled
        end
      else Err EUnmodelled
  | CInt => match pos, kw with [PInt z], [] => Ok (VInt z) | _, _ => Err EUnmodelled end
  | CFloat => match pos, kw with [PFloat f], [] => Ok (VFloat f) | _, _ => Err EUnmodelled end
  | CCpx => match pos, kw with [PCpx re im], [] => Ok (VCpx re (add0 im)) | _, _ => Err EUnmodelled end
  | CBytes => match pos, kw with [PBytes b], [] => Ok (VBytes b) | _, _ => Err EUnmodelled end
  end.

(* ------------------------------------------------------------------ hy.as_model *)
Fixpoint as_model (v : value) : res value :=
  match v with
  | VSeq k items =>
      match (fix go (l : list value) : res (list value) :=
               match l with
               | [] => Ok []
               | x :: r => match as_model x with
                           | Err e => Err e
                           | Ok x' => match go r with Err e => Err e | Ok r' => Ok (x' :: r') end
                           end
               end) items with
      | Err e => Err e
      | Ok items' => mk_seq k items'
      end
  | PList items | PTuple items | PSet items | PDict items =>
      match (fix go (l : list value) : res (list value) :=
               match l with
               | [] => Ok []
               | x :: r => match as_model x with
                           | Err e => Err e
                           | Ok x' => match go r with Err e => Err e | Ok r' => Ok (x' :: r') end
                           end
               end) items with
      | Err e => Err e
      | Ok items' => Ok (VSeq (match v with PTuple _ => KTuple | PSet _ => KSet | PDict _ => KDict | _ => KList end) items')
      end
  | PInt z => Ok (VInt z)
  | PFloat f => Ok (VFloat f)
  | PCpx re im => Ok (VCpx re (add0 im))
  | PStr s => Ok (VStr s None)
  | PBytes b => Ok (VBytes b)
  | PBool b => Ok (VSym (if b then s_True else s_False))
  | PNone => Ok (VSym s_None)
  | POpaque _ => Err EWrapper
  | _ => Ok v
  end.

Fixpoint as_model_list (l : list value) : res (list value) :=
  match l with
  | [] => Ok []
  | x :: r => match as_model x with
              | Err e => Err e
              | Ok x' => match as_model_list r with Err e => Err e | Ok r' => Ok (x' :: r') end
              end
  end.

(* ------------------------------------------------------------------ render_quoted_form *)
Inductive level := LInf | LNat (n : nat).
Inductive qop := OpUnquote | OpSplice | OpQuasi.

Definition opt_kw (name : text) (o : option text) : list model :=
  match o with Some b => [MKw name; MStr b None] | None => [] end.
Definition flag_kw (name : text) (b : bool) : list model :=
  if b then [MKw name; MSym s_True] else [].

Definition attr_args (k : seqkind) : list model :=
  match k with
  | KFString br ts => opt_kw s_brackets br ++ flag_kw s_is_tstring ts
  | KFComp cv ex ts => opt_kw s_conversion cv ++ opt_kw s_expression ex ++ flag_kw s_is_tstring ts
  | _ => []
  end.

(* is_unpack("iterable", x) *)
Definition is_unpack_iterable (m : model) : bool :=
  match m with
  | MSeq KExpr (MSym s :: _) => text_eqb s s_unpack_iterable
  | _ => false
  end.
Definition is_unpack_mapping (m : model) : bool :=
  match m with
  | MSeq KExpr (MSym s :: _) => text_eqb s s_unpack_mapping
  | _ => false
  end.

Definition splice_form (f : model) : model :=
  MSeq KExpr [MSym s_unpack_iterable; MSeq KExpr [MSym s_or; f; MSeq KList []]].

Definition wrap_splice (f : model) (sp : bool) : res model :=
  if sp then (if is_unpack_iterable f then Err ESyntaxUnpack else Ok (splice_form f)) else Ok f.

Section Render.
(* mangle(sym).replace("_", "-"): the spelling under which the head symbol is compared *)
Variable norm : text -> text.

Definition op_of (s : text) : option qop :=
  let n := norm s in
  if text_eqb n s_unquote then Some OpUnquote
  else if text_eqb n s_unquote_splice then Some OpSplice
  else if text_eqb n s_quasiquote then Some OpQuasi
  else None.

Definition head_op (k : seqkind) (items : list model) : option qop :=
  match k, items with
  | KExpr, MSym s :: _ => op_of s
  | _, _ => None
  end.

Definition level_is0 (l : level) : bool := match l with LNat O => true | _ => false end.
Definition level_up (l : level) : level := match l with LInf => LInf | LNat n => LNat (S n) end.
Definition level_down (l : level) : level := match l with LInf => LInf | LNat n => LNat (pred n) end.

Inductive head_class :=
| HUnq (splice : bool) (arg : model)   (* return form[1], op == "unquote-splice" *)
| HArity                               (* raise HyTypeError *)
| HLevel (l : level).                  (* go on with this level *)

Definition classify (lvl : level) (k : seqkind) (items : list model) : head_class :=
  match head_op k items with
  | Some OpQuasi => HLevel (level_up lvl)
  | Some op =>
      if level_is0 lvl then
        match items with
        | [_; arg] => HUnq (match op with OpSplice => true | _ => false end) arg
        | _ => HArity
        end
      else HLevel (level_down lvl)
  | None => HLevel lvl
  end.

Fixpoint render (lvl : level) (m : model) : res (model * bool) :=
  match m with
  | MSeq k items =>
      match classify lvl k items with
      | HUnq sp arg => Ok (arg, sp)
      | HArity => Err EArity
      | HLevel l' =>
          match (fix go (l : list model) : res (list model) :=
                   match l with
                   | [] => Ok []
                   | x :: r =>
                       match render l' x with
                       | Err e => Err e
                       | Ok (f, sp) =>
                           match wrap_splice f sp with
                           | Err e => Err e
                           | Ok f' => match go r with Err e => Err e | Ok fs => Ok (f' :: fs) end
                           end
                       end
                   end) items with
          | Err e => Err e
          | Ok fs => Ok (MSeq KExpr (dotted_cls (cls_of_kind k) :: MSeq KList fs :: attr_args k), false)
          end
      end
  | MSym s => Ok (MSeq KExpr [dotted_cls CSym; MStr s None; MKw s_from_parser; MSym s_True], false)
  | MKw s => Ok (MSeq KExpr [dotted_cls CKw; MStr s None; MKw s_from_parser; MSym s_True], false)
  | MStr s br => Ok (MSeq KExpr (dotted_cls CStr :: MStr s br :: opt_kw s_brackets br), false)
  | MInt _ => Ok (MSeq KExpr [dotted_cls CInt; m], false)
  | MFloat _ => Ok (MSeq KExpr [dotted_cls CFloat; m], false)
  | MCpx _ _ => Ok (MSeq KExpr [dotted_cls CCpx; m], false)
  | MBytes _ => Ok (MSeq KExpr [dotted_cls CBytes; m], false)
  end.

(* the loop over the children, as a named function *)
Fixpoint render_items (lvl : level) (l : list model) : res (list model) :=
  match l with
  | [] => Ok []
  | x :: r =>
      match render lvl x with
      | Err e => Err e
      | Ok (f, sp) =>
          match wrap_splice f sp with
          | Err e => Err e
          | Ok f' => match render_items lvl r with Err e => Err e | Ok fs => Ok (f' :: fs) end
          end
      end
  end.

(* compile_quote: the form that gets compiled *)
Definition quote_form (root_is_quote : bool) (arg : model) : res model :=
  match render (if root_is_quote then LInf else LNat 0) arg with
  | Ok (f, _) => Ok f
  | Err e => Err e
  end.

End Render.

(* ------------------------------------------------------------------ evaluation of the fragment *)
Inductive head_kind := HCtor (c : cls) | HOr | HOther.

Definition head_kind_of (h : model) : head_kind :=
  match h with
  | MSeq KExpr [MSym a; MSym b; MSym c; MSym x] =>
      if text_eqb a s_dot && text_eqb b s_hy && text_eqb c s_models then
        match class_of_name x with Some c => HCtor c | None => HOther end
      else HOther
  | MSym s => if text_eqb s s_or then HOr else HOther
  | _ => HOther
  end.

Definition py_const (s : text) : option value :=
  if text_eqb s s_True then Some (PBool true)
  else if text_eqb s s_False then Some (PBool false)
  else if text_eqb s s_None then Some PNone
  else None.

Section Eval.
Variable St : Type.
(* the meaning of user code: any function of the form and the state *)
Variable user : model -> St -> res value * St.

Definition M (A : Type) := St -> res A * St.
Definition ret {A} (a : A) : M A := fun st => (Ok a, st).
Definition lift {A} (r : res A) : M A := fun st => (r, st).
Definition bind {A B} (m : M A) (f : A -> M B) : M B :=
  fun st => match m st with
            | (Ok a, st') => f a st'
            | (Err e, st') => (Err e, st')
            end.

Fixpoint eval (m : model) : M value :=
  match m with
  | MInt z => ret (PInt z)
  | MFloat f => ret (PFloat f)
  | MCpx re im => ret (PCpx re im)
  | MStr s _ => ret (PStr s)
  | MBytes b => ret (PBytes b)
  | MKw s => ret (VKw s)
  | MSym s => match py_const s with Some v => ret v | None => user m end
  | MSeq k items =>
      match k with
      | KList | KTuple | KSet | KDict =>
      (* a collection display; (unpack-iterable e) elements are starred *)
      bind ((fix go (l : list model) : M (list value) :=
               match l with
               | [] => ret []
               | x :: r =>
                   bind (match x with
                         | MSeq KExpr (MSym s :: rest) =>
                             if text_eqb s s_unpack_iterable then
                               match rest with
                               | [e] => bind (eval e) (fun v => lift (iterate v))
                               | _ => lift (Err ESyntax)
                               end
                             else bind (eval x) (fun v => ret [v])
                         | _ => bind (eval x) (fun v => ret [v])
                         end)
                        (fun vs => bind (go r) (fun ws => ret (vs ++ ws)))
               end) items)
           (fun vs => lift (display k vs))
      | KExpr =>
      match items with
      | [] => user m
      | head :: args =>
      match head_kind_of head with
      | HCtor c =>
          (* Python evaluates the positional arguments, then the keyword values *)
          bind ((fix pos (l : list model) : M (list value) :=
                   match l with
                   | [] => ret []
                   | MKw _ :: [] => lift (Err ESyntax)
                   | MKw _ :: _ :: r => pos r
                   | x :: r => bind (eval x) (fun v => bind (pos r) (fun vs => ret (v :: vs)))
                   end) args)
               (fun ps =>
                  bind ((fix kws (l : list model) : M kwargs :=
                           match l with
                           | [] => ret []
                           | MKw _ :: [] => lift (Err ESyntax)
                           | MKw k :: v :: r => bind (eval v) (fun a => bind (kws r) (fun ks => ret ((k, a) :: ks)))
                           | _ :: r => kws r
                           end) args)
                       (fun ks => lift (ctor c ps ks)))
      | HOr =>
          match args with
          | [a; b] => bind (eval a) (fun v => if truthy v then ret v else eval b)
          | _ => user m
          end
      | HOther => user m
      end
      end
      | _ => user m
      end
  end.

(* named versions of the local loops *)
Definition eval_item (x : model) : M (list value) :=
  match x with
  | MSeq KExpr (MSym s :: rest) =>
      if text_eqb s s_unpack_iterable then
        match rest with
        | [e] => bind (eval e) (fun v => lift (iterate v))
        | _ => lift (Err ESyntax)
        end
      else bind (eval x) (fun v => ret [v])
  | _ => bind (eval x) (fun v => ret [v])
  end.

Fixpoint eval_items (l : list model) : M (list value) :=
  match l with
  | [] => ret []
  | x :: r => bind (eval_item x) (fun vs => bind (eval_items r) (fun ws => ret (vs ++ ws)))
  end.

Fixpoint eval_pos (l : list model) : M (list value) :=
  match l with
  | [] => ret []
  | MKw _ :: [] => lift (Err ESyntax)
  | MKw _ :: _ :: r => eval_pos r
  | x :: r => bind (eval x) (fun v => bind (eval_pos r) (fun vs => ret (v :: vs)))
  end.

Fixpoint eval_kws (l : list model) : M kwargs :=
  match l with
  | [] => ret []
  | MKw _ :: [] => lift (Err ESyntax)
  | MKw k :: v :: r => bind (eval v) (fun a => bind (eval_kws r) (fun ks => ret ((k, a) :: ks)))
  | _ :: r => eval_kws r
  end.

(* ---------------------------------------------------------------- the reference for quasiquote *)
(* Written from docs/api.rst (quasiquote, unquote, unquote-splice): a template
   is copied; an unquote form that is not inside a deeper quasiquote is replaced
   by the value of its argument; an unquote-splice form there is replaced by
   the elements of (or value []) in the parent sequence; a nested quasiquote
   raises the depth for its whole form, an unquote or unquote-splice inside it lowers it again,
   and forms at depth > 0 stay literal. *)
Variable norm : text -> text.

Definition elems_of (v : value) : res (list value) :=
  if truthy v then iterate v else Ok [].

Definition depth_in (d : nat) (k : seqkind) (items : list model) : nat :=
  match head_op norm k items with
  | Some OpQuasi => S d
  | Some _ => pred d
  | None => d
  end.

(* Some (is_splice, arg): m is an unquote / unquote-splice form with one argument, active at depth d *)
Definition active_unquote (d : nat) (m : model) : option (bool * model) :=
  match d, m with
  | O, MSeq k ([_; arg] as items) =>
      match head_op norm k items with
      | Some OpUnquote => Some (false, arg)
      | Some OpSplice => Some (true, arg)
      | _ => None
      end
  | _, _ => None
  end.

Fixpoint qq_ref (d : nat) (t : model) : M value :=
  match active_unquote d t with
  | Some (_, arg) => eval arg
  | None =>
      match t with
      | MSeq k items =>
          let d' := depth_in d k items in
          bind ((fix go (l : list model) : M (list value) :=
                   match l with
                   | [] => ret []
                   | x :: r =>
                       bind (match active_unquote d' x with
                             | Some (true, arg) => bind (eval arg) (fun v => lift (elems_of v))
                             | _ => bind (qq_ref d' x) (fun v => ret [v])
                             end)
                            (fun vs => bind (go r) (fun ws => ret (vs ++ ws)))
                   end) items)
               (fun vs => lift (mk_seq k vs))
      | _ => ret (inj t)
      end
  end.

Definition qq_item (d : nat) (x : model) : M (list value) :=
  match active_unquote d x with
  | Some (true, arg) => bind (eval arg) (fun v => lift (elems_of v))
  | _ => bind (qq_ref d x) (fun v => ret [v])
  end.

Fixpoint qq_items (d : nat) (l : list model) : M (list value) :=
  match l with
  | [] => ret []
  | x :: r => bind (qq_item d x) (fun vs => bind (qq_items d r) (fun ws => ret (vs ++ ws)))
  end.

(* Templates the documentation gives a meaning to: every unquote / unquote-splice
   form active at its depth has exactly one argument, and that argument is an
   expression (not an unpack-iterable / unpack-mapping form, which has no value of its own). *)
Definition is_unpack_form (m : model) : bool := is_unpack_iterable m || is_unpack_mapping m.

Fixpoint qq_valid (d : nat) (t : model) : bool :=
  match t with
  | MSeq k items =>
      match head_op norm k items, d with
      | Some OpUnquote, O | Some OpSplice, O =>
          match items with [_; arg] => negb (is_unpack_form arg) | _ => false end
      | _, _ =>
          (fix all (l : list model) : bool :=
             match l with [] => true | x :: r => qq_valid (depth_in d k items) x && all r end) items
      end
  | _ => true
  end.

(* Templates rejected while the form is compiled: somewhere an active unquote has the wrong
   number of arguments or an active unquote-splice is applied to an unpack-iterable form. *)
Fixpoint qq_rejected (d : nat) (t : model) : bool :=
  match t with
  | MSeq k items =>
      match head_op norm k items, d with
      | Some OpUnquote, O | Some OpSplice, O =>
          match items with [_; _] => false | _ => true end
      | _, _ =>
          (fix any (l : list model) : bool :=
             match l with
             | [] => false
             | x :: r =>
                 qq_rejected (depth_in d k items) x
                 || match active_unquote (depth_in d k items) x with
                    | Some (true, arg) => is_unpack_iterable arg
                    | _ => false
                    end
                 || any r
             end) items
      end
  | _ => false
  end.

Definition is_top_splice (d : nat) (t : model) : bool :=
  match active_unquote d t with Some (true, _) => true | _ => false end.

(* the promoted reference: as qq_ref, with every inserted value promoted by as_model *)
Fixpoint qq_ref_p (d : nat) (t : model) : M value :=
  match active_unquote d t with
  | Some (_, arg) => bind (eval arg) (fun v => lift (as_model v))
  | None =>
      match t with
      | MSeq k items =>
          let d' := depth_in d k items in
          bind ((fix go (l : list model) : M (list value) :=
                   match l with
                   | [] => ret []
                   | x :: r =>
                       bind (match active_unquote d' x with
                             | Some (true, arg) =>
                                 bind (eval arg) (fun v => lift (match elems_of v with
                                                                 | Ok es => as_model_list es
                                                                 | Err e => Err e
                                                                 end))
                             | _ => bind (qq_ref_p d' x) (fun v => ret [v])
                             end)
                            (fun vs => bind (go r) (fun ws => ret (vs ++ ws)))
                   end) items)
               (fun vs => lift (mk_seq k vs))
      | _ => ret (inj t)
      end
  end.

Definition qq_item_p (d : nat) (x : model) : M (list value) :=
  match active_unquote d x with
  | Some (true, arg) =>
      bind (eval arg) (fun v => lift (match elems_of v with
                                      | Ok es => as_model_list es
                                      | Err e => Err e
                                      end))
  | _ => bind (qq_ref_p d x) (fun v => ret [v])
  end.

Fixpoint qq_items_p (d : nat) (l : list model) : M (list value) :=
  match l with
  | [] => ret []
  | x :: r => bind (qq_item_p d x) (fun vs => bind (qq_items_p d r) (fun ws => ret (vs ++ ws)))
  end.

(* compile_quote + evaluation of what it compiled *)
Definition run_quote (root_is_quote : bool) (arg : model) : M value :=
  match quote_form norm root_is_quote arg with
  | Ok f => eval f
  | Err e => lift (Err e)
  end.

End Eval.

(* ------------------------------------------------------------------ models the constructors can return *)
(* A model built by the constructors of hy.models (directly or by the reader):
   no FString has two adjacent String children (the constructor joins them),
   no bracket string contains its own closing delimiter (the constructors
   raise ValueError), and the imaginary part of a Complex is a fixed point of
   0 + x (see wf_cpx below). *)
Fixpoint no_adj_str (l : list model) : bool :=
  match l with
  | [] => true
  | MStr _ _ :: r => match r with MStr _ _ :: _ => false | _ => no_adj_str r end
  | _ :: r => no_adj_str r
  end.

Fixpoint m_string_in_node (pat : text) (m : model) : bool :=
  match m with
  | MStr s _ => infix pat s
  | MSeq (KFString _ _) items | MSeq (KFComp _ _ _) items =>
      (fix any (l : list model) : bool :=
         match l with [] => false | x :: r => m_string_in_node pat x || any r end) items
  | _ => false
  end.

(* [cpx] = true: also demand that Complex imaginary parts survive 0 + x *)
Fixpoint wf_gen (cpx : bool) (m : model) : bool :=
  match m with
  | MCpx _ im => if cpx then N.eqb (add0 im) im else true
  | MStr s (Some b) => negb (infix (close_pat b) s)
  | MSeq k items =>
      (fix all (l : list model) : bool :=
         match l with [] => true | x :: r => wf_gen cpx x && all r end) items
      && match k with
         | KFString br _ =>
             no_adj_str items
             && match br with Some b => negb (m_string_in_node (close_pat b) m) | None => true end
         | _ => true
         end
  | _ => true
  end.

Definition wf_ctor (m : model) : bool := wf_gen false m.
Definition wf (m : model) : bool := wf_gen true m.

Definition opt_kwv (name : text) (o : option text) : kwargs :=
  match o with Some b => [(name, PStr b)] | None => [] end.
Definition flag_kwv (name : text) (b : bool) : kwargs :=
  if b then [(name, PBool true)] else [].
Definition attr_kws (k : seqkind) : kwargs :=
  match k with
  | KFString br ts => opt_kwv s_brackets br ++ flag_kwv s_is_tstring ts
  | KFComp cv ex ts => opt_kwv s_conversion cv ++ opt_kwv s_expression ex ++ flag_kwv s_is_tstring ts
  | _ => []
  end.
