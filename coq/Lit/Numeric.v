(* C22 / C26 -- model of the identifier cascade of hy/reader/hy_reader.py:as_identifier and of
   hy/models.py: strip_digit_separators, Integer.__new__, check_inf_nan_cap, Float.__new__,
   Complex.__new__, plus hand models of the text grammars of CPython's int(text, 0|10),
   float(text), complex(text) (PyLong_FromString, PyOS_string_to_double with
   _Py_parse_inf_or_nan, complex_from_string_inner, _Py_string_to_number_with_underscores,
   _PyUnicode_TransformDecimalAndSpaceToASCII).  Values of floats are exact decimal
   descriptions (sign, mantissa, power of ten), so no float arithmetic is modelled.
   The Unicode database enters through the oracle record [uni]; the models consult it only on
   characters >= U+007F.  Validated against the running interpreter by props/c22.py. *)
From HyV Require Import Base.Text Gen.LitTables.
From Coq Require Import ZArith.

Record uni := {
  u_isspace : N -> bool;          (* Py_UNICODE_ISSPACE *)
  u_decimal : N -> option N;      (* Py_UNICODE_TODECIMAL, None = -1 *)
  u_isdigit : N -> bool           (* Py_UNICODE_ISDIGIT (str.isdigit per character) *)
}.

Inductive fdesc :=
  | FFin (neg : bool) (mant : N) (exp10 : Z)   (* (-1)^neg * mant * 10^exp10, correctly rounded by strtod *)
  | FInf (neg : bool)
  | FNan (neg : bool).

Inductive num := NInt (z : Z) | NFloat (f : fdesc) | NComplex (re im : fdesc).

Definition ch_plus : N := 43.
Definition ch_minus : N := 45.
Definition ch_zero : N := 48.
Definition ch_j : N := 106.
Definition ch_J : N := 74.
Definition ch_e : N := 101.
Definition ch_E : N := 69.
Definition ch_lpar : N := 40.
Definition ch_rpar : N := 41.
Definition ch_qm : N := 63.

Definition is_dec (c : N) : bool := (48 <=? c) && (c <=? 57).
Definition c_isspace (c : N) : bool := ((9 <=? c) && (c <=? 13)) || (c =? 32).   (* Py_ISSPACE *)

Section Model.
Variable U : uni.

(* _PyUnicode_TransformDecimalAndSpaceToASCII: an ASCII string is returned as it is; otherwise
   characters below 127 are kept, Unicode spaces become ' ', Unicode decimal digits become
   ASCII digits, and the first other character becomes '?' and ends the string *)
Fixpoint transform (s : text) : text :=
  match s with
  | [] => []
  | c :: r =>
      if c <? 127 then c :: transform r
      else if u_isspace U c then 32 :: transform r
      else match u_decimal U c with
           | Some d => (48 + d) :: transform r
           | None => [ch_qm]
           end
  end.
Definition to_ascii (s : text) : text := if forallb is_ascii s then s else transform s.

(* str.isdigit *)
Definition isdigit_ch (c : N) : bool := if c <? 128 then is_dec c else u_isdigit U c.
Definition isdigit_str (s : text) : bool := match s with [] => false | _ => forallb isdigit_ch s end.

(* ------------------------------------------------------------------ int(text, base) *)

(* _PyLong_DigitValue *)
Definition digit_value (c : N) : N :=
  if is_dec c then c - 48
  else if (97 <=? c) && (c <=? 122) then c - 87
  else if (65 <=? c) && (c <=? 90) then c - 55
  else 37.

(* the digit loop of PyLong_FromString: digits below [base] with single interior underscores.
   prev_us: the previous character was an underscore.  Returns value and rest. *)
Fixpoint int_digits (base : N) (s : text) (acc : N) (ndig : nat) (prev_us : bool) : option (N * nat * text) :=
  match s with
  | [] => if prev_us then None else Some (acc, ndig, [])
  | c :: r =>
      if c =? ch_us then (if prev_us then None else int_digits base r acc ndig true)
      else if digit_value c <? base then int_digits base r (acc * base + digit_value c) (S ndig) false
      else if prev_us then None else Some (acc, ndig, s)
  end.

Definition lower_is (c x : N) : bool := (c =? x) || (c =? x - 32).   (* x a lower-case letter *)

(* the pieces of PyLong_FromString(str, &end, base) *)
Definition int_sign (s1 : text) : bool * text :=
  match s1 with
  | c :: r => if c =? ch_plus then (false, r) else if c =? ch_minus then (true, r) else (false, s1)
  | [] => (false, s1)
  end.

(* base 0: the base from the prefix; a leading 0 without a radix letter is an "old octal" literal, valid
   only if it is zero *)
Definition int_base (base0 : bool) (s2 : text) : N * bool :=
  if base0 then
    match s2 with
    | c0 :: c1 :: _ =>
        if negb (c0 =? ch_zero) then (10, false)
        else if lower_is c1 120 then (16, false)
        else if lower_is c1 111 then (8, false)
        else if lower_is c1 98 then (2, false)
        else (10, true)
    | [c0] => if c0 =? ch_zero then (10, true) else (10, false)
    | [] => (10, false)
    end
  else (10, false).

(* skip 0x / 0o / 0b matching the base, and one underscore after it *)
Definition int_skip_prefix (base : N) (s2 : text) : text :=
  match s2 with
  | c0 :: c1 :: r =>
      if (c0 =? ch_zero) && (((base =? 16) && lower_is c1 120) || ((base =? 8) && lower_is c1 111) || ((base =? 2) && lower_is c1 98))
      then match r with c2 :: r' => if c2 =? ch_us then r' else r | [] => r end
      else s2
  | _ => s2
  end.

Definition int_finish (neg : bool) (base : N) (old_octal : bool) (s3 : text) : option Z :=
  match s3 with
  | c :: _ => if c =? ch_us then None else
      match int_digits base s3 0 O false with
      | Some (v, nd, rest) =>
          if Nat.eqb nd O then None
          else if old_octal && negb (v =? 0) then None
          else match dropwhile c_isspace rest with
               | [] => Some (if neg then Z.opp (Z.of_N v) else Z.of_N v)
               | _ => None
               end
      | None => None
      end
  | [] => None
  end.

(* PyLong_FromString(str, &end, base) followed by PyLong_FromUnicodeObject's end-of-string test;
   base0 = true: base 0, false: base 10 *)
Definition py_int (base0 : bool) (s : text) : option Z :=
  let s1 := dropwhile c_isspace (to_ascii s) in
  let '(neg, s2) := int_sign s1 in
  let '(base, old_octal) := int_base base0 s2 in
  int_finish neg base old_octal (int_skip_prefix base s2).

(* ------------------------------------------------------------------ strtod *)

Fixpoint dec_run (s : text) (acc : N) (n : nat) : N * nat * text :=
  match s with
  | c :: r => if is_dec c then dec_run r (acc * 10 + (c - 48)) (S n) else (acc, n, s)
  | [] => (acc, n, [])
  end.

Definition take_sign (s : text) : bool * text :=
  match s with
  | c :: r => if c =? ch_minus then (true, r) else if c =? ch_plus then (false, r) else (false, s)
  | [] => (false, s)
  end.

Fixpoint match_ci (pat s : text) : option text :=   (* pat lower-case; case-insensitive prefix match *)
  match pat with
  | [] => Some s
  | p :: pr => match s with
               | c :: r => if lower_is c p then match_ci pr r else None
               | [] => None
               end
  end.

(* _Py_parse_inf_or_nan *)
Definition parse_inf_nan (s : text) : option (fdesc * text) :=
  let '(neg, s1) := take_sign s in
  match match_ci [105; 110; 102] s1 with
  | Some r => match match_ci [105; 110; 105; 116; 121] r with
              | Some r' => Some (FInf neg, r')
              | None => Some (FInf neg, r)
              end
  | None => match match_ci [110; 97; 110] s1 with
            | Some r => Some (FNan neg, r)
            | None => None
            end
  end.

(* digits [. digits]: value of all the digits, how many there are, how many follow the point, rest *)
Definition mantissa (s1 : text) : N * nat * nat * text :=
  let '(ip, nip, s2) := dec_run s1 0 O in
  match s2 with
  | c :: r =>
      if c =? ch_dot then let '(m, nfr, s3) := dec_run r ip O in (m, (nip + nfr)%nat, nfr, s3)
      else (ip, nip, O, s2)
  | [] => (ip, nip, O, s2)
  end.

(* [e|E [sign] digits]; an exponent marker without digits is not consumed *)
Definition exponent (s3 : text) : Z * text :=
  match s3 with
  | c :: r =>
      if lower_is c ch_e then
        let '(eneg, r1) := take_sign r in
        let '(ev, nev, r2) := dec_run r1 0 O in
        if Nat.eqb nev O then (0%Z, s3) else ((if eneg then Z.opp (Z.of_N ev) else Z.of_N ev), r2)
      else (0%Z, s3)
  | [] => (0%Z, s3)
  end.

(* PyOS_string_to_double(s, &end): the longest prefix that is a decimal floating-point text or
   inf / infinity / nan; None when there is no such prefix (end == s) *)
Definition strtod (s : text) : option (fdesc * text) :=
  let '(neg, s1) := take_sign s in
  let '(m, nd, nfr, s3) := mantissa s1 in
  if Nat.eqb nd O then parse_inf_nan s
  else let '(ex, s4) := exponent s3 in Some (FFin neg m (ex - Z.of_nat nfr), s4).

(* _Py_string_to_number_with_underscores: an underscore must stand between two digits; they are removed *)
Fixpoint us_check (s : text) (prev_dec : bool) : bool :=
  match s with
  | [] => true
  | c :: r =>
      if c =? ch_us then
        prev_dec && match r with d :: _ => is_dec d | [] => false end && us_check r false
      else us_check r (is_dec c)
  end.
Definition strip_us (s : text) : option text :=
  if mem ch_us s then (if us_check s false then Some (filter (fun c => negb (c =? ch_us)) s) else None)
  else Some s.

Definition rstrip_space (s : text) : text := rev (dropwhile c_isspace (rev s)).

(* float(text) *)
Definition py_float (s : text) : option fdesc :=
  let t := rstrip_space (dropwhile c_isspace (to_ascii s)) in
  match strip_us t with
  | Some t' => match strtod t' with
               | Some (f, []) => Some f
               | _ => None
               end
  | None => None
  end.

Definition one (neg : bool) : fdesc := FFin neg 1 0.
Definition fzero : fdesc := FFin false 0 0.
Definition is_j (c : N) : bool := (c =? ch_j) || (c =? ch_J).

(* complex_from_string_inner, in three steps: leading blanks and an opening parenthesis ... *)
Definition cx_open (s0 : text) : bool * text :=
  let s := dropwhile c_isspace s0 in
  match s with
  | c :: r => if c =? ch_lpar then (true, dropwhile c_isspace r) else (false, s)
  | [] => (false, s)
  end.

(* ... <float> | <float>j | <float><signed-float>j | <float><sign>j | [<sign>]j ... *)
Definition cx_body (s : text) : option (fdesc * fdesc * text) :=
  match strtod s with
  | Some (z, s1) =>
      match s1 with
      | c :: r =>
          if (c =? ch_plus) || (c =? ch_minus) then
            let '(y, s2) := match strtod s1 with
                            | Some (y, s2) => (y, s2)
                            | None => (one (c =? ch_minus), r)
                            end in
            match s2 with
            | d :: r2 => if is_j d then Some (z, y, r2) else None
            | [] => None
            end
          else if is_j c then Some (fzero, z, r)
          else Some (z, fzero, s1)
      | [] => Some (z, fzero, s1)
      end
  | None =>
      let '(y, s1) := match s with
                      | c :: r => if c =? ch_plus then (one false, r) else if c =? ch_minus then (one true, r) else (one false, s)
                      | [] => (one false, s)
                      end in
      match s1 with
      | d :: r => if is_j d then Some (fzero, y, r) else None
      | [] => None
      end
  end.

(* ... trailing blanks, the closing parenthesis, end of the string *)
Definition cx_close (br : bool) (rest : text) : bool :=
  let rest := dropwhile c_isspace rest in
  if br then match rest with
             | c :: r => (c =? ch_rpar) && match dropwhile c_isspace r with [] => true | _ => false end
             | [] => false
             end
  else match rest with [] => true | _ => false end.

Definition complex_inner (s0 : text) : option (fdesc * fdesc) :=
  let '(br, s) := cx_open s0 in
  match cx_body s with
  | Some (x, y, rest) => if cx_close br rest then Some (x, y) else None
  | None => None
  end.

(* complex(text) *)
Definition py_complex (s : text) : option (fdesc * fdesc) :=
  match strip_us (to_ascii s) with
  | Some t => complex_inner t
  | None => None
  end.

(* ------------------------------------------------------------------ hy.models *)

Definition is_sep (c : N) : bool := mem c digit_separators.
Definition remove_seps (s : text) : text := filter (fun c => negb (is_sep c)) s.

(* strip_digit_separators *)
Definition strip_seps (s : text) : text :=
  match s with
  | c :: (_ :: _) as r => c :: remove_seps r
  | _ => s
  end.

(* Integer.__new__ on a str *)
Definition hy_integer (s : text) : option Z := py_int (negb (isdigit_str s)) (strip_seps s).

Fixpoint contains (pat s : text) : bool :=
  starts_with pat s || match s with [] => false | _ :: r => contains pat r end.

(* "i" in arg.lower(): the characters whose lower-casing contains i *)
Definition has_i (s : text) : bool := mem 105 s || mem 73 s || mem 304 s.
Definition has_j (s : text) : bool := mem ch_j s || mem ch_J s.

Definition cap_i : text := nth 0 cap_probes [].
Definition cap_inf : text := nth 1 cap_probes [].
Definition cap_nan : text := nth 2 cap_probes [].

(* isinf(value) for a finite decimal description: strtod rounds mant * 10^exp to infinity exactly when it
   reaches 2^1024 - 2^970 (halfway between the largest double and 2^1024; ties go to even = infinity) *)
Definition dbl_inf_threshold : Z := (2 ^ 1024 - 2 ^ 970)%Z.
Definition overflows (m : N) (e : Z) : bool :=
  if m =? 0 then false
  else if (0 <=? e)%Z then
    (if (310 <=? e)%Z then true else (dbl_inf_threshold <=? Z.of_N m * 10 ^ e)%Z)
  else
    let k := Z.opp e in
    if (Z.of_N (N.log2 m) + 1 <? k)%Z then false          (* below 1 *)
    else (dbl_inf_threshold * 10 ^ k <=? Z.of_N m)%Z.

Definition inf_ok (arg : text) : bool := negb (has_i arg && negb (contains cap_inf arg)).

(* check_inf_nan_cap(arg, value): true = no ValueError.  isinf(value) also holds for a decimal text that
   overflows (1e400); that matters when arg holds an i from elsewhere, as in " inf+1e400j" where the
   second check sees "inf+1e400j" together with the overflowed imaginary part. *)
Definition cap_ok (arg : text) (v : fdesc) : bool :=
  match v with
  | FInf _ => inf_ok arg
  | FNan _ => contains cap_nan arg
  | FFin _ m e => if overflows m e then inf_ok arg else true
  end.

(* Float.__new__ on a str *)
Definition hy_float (s : text) : option fdesc :=
  match py_float (strip_seps s) with
  | Some v => if cap_ok s v then Some v else None
  | None => None
  end.

(* real.lstrip("+-").replace("-", "+").partition("+") *)
Definition is_pm (c : N) : bool := (c =? ch_plus) || (c =? ch_minus).
Fixpoint partition_plus (s : text) : text * text :=
  match s with
  | [] => ([], [])
  | c :: r => if is_pm c then ([], r) else let '(a, b) := partition_plus r in (c :: a, b)
  end.

(* Complex.__new__ on a str *)
Definition hy_complex (s : text) : option (fdesc * fdesc) :=
  match py_complex (strip_seps s) with
  | Some (re, im) =>
      let '(p1, p2) := partition_plus (dropwhile is_pm s) in
      if cap_ok p1 (if has_j p1 then im else re)
         && match p2 with [] => true | _ => cap_ok p2 im end
      then Some (re, im) else None
  | None => None
  end.

(* ------------------------------------------------------------------ as_identifier *)

(* the try-Integer / try-Float / try-Complex cascade *)
Definition numeric (s : text) : option num :=
  match hy_integer s with
  | Some z => Some (NInt z)
  | None =>
      match hy_float s with
      | Some f => Some (NFloat f)
      | None =>
          if existsb (text_eqb s) complex_bare_excluded then None
          else match hy_complex s with
               | Some (re, im) => Some (NComplex re im)
               | None => None
               end
      end
  end.

Inductive derr := DMultiDots | DTrailingDot | DPartNotSymbol.

Inductive ident :=
  | INum (n : num)
  | ISym (t : text)
  | IDotted (head : text) (parts : list text)    (* (. a b) when head is empty, (head None a b) otherwise *)
  | IErr (e : derr)                               (* LexException from the reader, ValueError from a constructor *)
  | IIllegal.                                     (* ValueError "Syntactically illegal symbol" (reader = None only) *)

Definition is_ws (c : N) : bool := mem c ws_chars.

(* the test made only when reader is None *)
Definition illegal_symbol (s : text) : bool :=
  match s with
  | [] => true
  | c :: _ => mem c illegal_symbol_heads || existsb is_ws s || existsb (fun x => mem x non_ident) s
  end.

(* s.split(".") *)
Fixpoint split_dots_aux (s cur : text) : list text :=
  match s with
  | [] => [rev cur]
  | c :: r => if c =? ch_dot then rev cur :: split_dots_aux r [] else split_dots_aux r (c :: cur)
  end.
Definition split_dots (s : text) : list text := split_dots_aux s [].

Definition is_dot (c : N) : bool := c =? ch_dot.

(* s.find("..") > 0 for a string that does not start with a dot *)
Definition has_dotdot (s : text) : bool := contains [ch_dot; ch_dot] s.

Definition ends_with_dot (s : text) : bool := match rev s with c :: _ => is_dot c | [] => false end.

(* a dot-free part of a dotted identifier: the recursive call of as_identifier *)
Definition part (from_reader : bool) (s : text) : ident :=
  match numeric s with
  | Some n => INum n
  | None => if negb from_reader && illegal_symbol s then IIllegal else ISym s
  end.

Fixpoint parts_result (head : text) (ps : list ident) (acc : list text) (bad : bool) : ident :=
  match ps with
  | [] => if bad then IErr DPartNotSymbol else IDotted head (rev acc)
  | IIllegal :: _ => IIllegal        (* raised while the list of parts is being built *)
  | ISym t :: r => parts_result head r (t :: acc) bad
  | _ :: r => parts_result head r acc true
  end.

(* as_identifier(ident, reader): from_reader = (reader is not None) *)
Definition as_identifier (from_reader : bool) (s : text) : ident :=
  match numeric s with
  | Some n => INum n
  | None =>
      if mem ch_dot s then
        if forallb is_dot s then ISym s
        else
          let body := dropwhile is_dot s in
          if has_dotdot body then IErr DMultiDots
          else if ends_with_dot s then IErr DTrailingDot
          else
            let head := takewhile is_dot s in
            parts_result head (map (part from_reader) (split_dots body)) [] false
      else if negb from_reader && illegal_symbol s then IIllegal
      else ISym s
  end.

End Model.
