(* C23: the quoted-string theorems. *)
From HyV Require Import Base.Text Gen.LitTables Lit.Strings Lit.StringsSpec Lit.StringsProofs Lit.StringsSim.
From Coq Require Import Lia.

(* the prefixes the property speaks about: '', r, b, br, rb *)
Definition judged_prefixes : list text := [[]; [ch_r]; [ch_b]; [ch_b; ch_r]; [ch_r; ch_b]].

(* which LexException the reader raises for a body without a Python value *)
Definition err_kind (raw isb : bool) (b : text) : lexkind :=
  if negb raw && negb (rec_chk isb false b) then EEscape
  else if isb && negb (forallb is_ascii b) then EBytesAscii
  else EDecode.

Lemma nl_spec_valid : forall s b, Forall valid_cp s -> Forall valid_cp (nl_spec_aux b s).
Proof.
  induction s as [|c r IH]; intros b H; [constructor|].
  inversion H as [|? ? Hc Hr]; subst. simpl.
  destruct (b && (c =? ch_lf)); [apply IH; exact Hr|].
  constructor; [|apply IH; exact Hr].
  destruct (c =? ch_cr); [unfold valid_cp, ch_lf; lia | exact Hc].
Qed.

Lemma lookup_bad_none : lookup_bad (fun _ => None).
Proof. intros a _. reflexivity. Qed.

Section Main.
Variable U : text -> option N.
Hypothesis LB : lookup_bad U.

Lemma judged_flags p : In p judged_prefixes ->
  prefix_invalid p = false /\ mem ch_f p || mem ch_t p = false.
Proof.
  intros H. simpl in H.
  repeat (destruct H as [H|H]; [subst p; split; reflexivity|]). contradiction.
Qed.

Theorem string_matches_python : forall p body rest,
  In p judged_prefixes -> Forall valid_cp body -> closed_body false body = true ->
  let raw := mem ch_r p in
  let isb := mem ch_b p in
  prefixed_string U p (body ++ ch_dq :: rest) =
    match py_string_value U raw isb (nl_spec body) with
    | Some v => Ok (v, rest)
    | None => Lex (err_kind raw isb (nl_spec body))
    end.
Proof.
  intros p body rest Hp V C raw isb.
  destruct (judged_flags p Hp) as [P1 P2].
  unfold prefixed_string. rewrite P1, P2. fold raw. fold isb.
  rewrite (scan_closed raw isb body false rest C).
  rewrite (esc_chk_rec_chk isb body false false) by discriminate. fold (nl_spec body).
  pose proof (nl_spec_valid body false V) as V'. fold (nl_spec body) in V'.
  unfold py_string_value, err_kind.
  assert (FN : forall r i, finish U r i body =
     let res := nl_spec body in
     if i then
       if forallb is_ascii res then
         if r then Ok (VBytes res)
         else match escape_decode res with Some b => Ok (VBytes b) | None => Lex EDecode end
       else Lex EBytesAscii
     else if r then Ok (VStr res)
     else match unicode_escape_decode U (latin1_bsr res) with Some t => Ok (VStr t) | None => Lex EDecode end).
  { intros r i. unfold finish. rewrite nl_norm_spec. reflexivity. }
  set (b := nl_spec body) in *.
  destruct raw.
  - (* raw: no decoding at all *)
    cbn [orb negb andb]. cbv iota beta. rewrite FN. cbv zeta.
    destruct isb; cbn [andb]; [destruct (forallb is_ascii b)|]; reflexivity.
  - cbn [orb negb andb]. destruct (rec_chk isb false b) eqn:R.
    + cbv iota beta. rewrite FN. cbv zeta. destruct isb.
      * cbn [andb negb]. destruct (forallb is_ascii b); [|reflexivity].
        unfold escape_decode.
        rewrite (strict_eq (fun _ => None) true b SNorm false R eq_refl).
        destruct (run (fun _ => None) true true SNorm b); reflexivity.
      * cbn [andb negb]. unfold unicode_escape_decode.
        rewrite (pipeline_sim U LB b SNorm SNorm false V' (or_introl eq_refl) eq_refl R).
        destruct (run U true false SNorm b); reflexivity.
    + cbn [negb]. cbv iota.
      destruct isb.
      * rewrite (unrecognised_none (fun _ => None) lookup_bad_none true b SNorm false R eq_refl).
        destruct (forallb is_ascii b); reflexivity.
      * rewrite (unrecognised_none U LB false b SNorm false R eq_refl). reflexivity.
Qed.

(* "Escape sequences Python does not recognise are Hy syntax errors" *)
Theorem unrecognised_escape_is_lex : forall p body rest,
  In p judged_prefixes -> Forall valid_cp body -> closed_body false body = true ->
  mem ch_r p = false -> rec_chk (mem ch_b p) false (nl_spec body) = false ->
  py_string_value U false (mem ch_b p) (nl_spec body) = None /\
  prefixed_string U p (body ++ ch_dq :: rest) = Lex EEscape.
Proof.
  intros p body rest Hp V C Hr R.
  assert (PV : py_string_value U false (mem ch_b p) (nl_spec body) = None).
  { unfold py_string_value. destruct (mem ch_b p).
    - rewrite (unrecognised_none (fun _ => None) lookup_bad_none true _ SNorm false R eq_refl).
      destruct (forallb is_ascii (nl_spec body)); reflexivity.
    - rewrite (unrecognised_none U LB false _ SNorm false R eq_refl). reflexivity. }
  split; [exact PV|].
  rewrite (string_matches_python p body rest Hp V C). cbv zeta. rewrite Hr, PV.
  unfold err_kind. rewrite R. reflexivity.
Qed.

(* without a closing quote there is never a value *)
Theorem unterminated_no_value : forall p s, In p judged_prefixes ->
  (forall body rest, s <> body ++ ch_dq :: rest) ->
  prefixed_string U p s = Premature \/ prefixed_string U p s = Lex EEscape.
Proof.
  intros p s Hp H. destruct (judged_flags p Hp) as [P1 P2].
  unfold prefixed_string. rewrite P1, P2.
  destruct (scan_no_quote (mem ch_r p) (mem ch_b p) s false H) as [-> | ->]; [left | right]; reflexivity.
Qed.

(* the subtle step: Latin-1 encoding with backslashreplace followed by unicode_escape decoding is the
   identity on every backslash-free text of valid code points *)
Lemma run_plain : forall t, ~ In ch_bs t -> run U true false SNorm t = Some t.
Proof.
  induction t as [|c r IH]; intros H; [reflexivity|].
  cbn [run feed]. unfold feed_norm.
  assert (E : (c =? ch_bs) = false) by (apply N.eqb_neq; intros ->; apply H; left; reflexivity).
  rewrite E. rewrite IH by (intros X; apply H; right; exact X). reflexivity.
Qed.

Lemma rec_chk_plain isb : forall t, ~ In ch_bs t -> rec_chk isb false t = true.
Proof.
  induction t as [|c r IH]; intros H; [reflexivity|].
  cbn [rec_chk]. assert (E : (c =? ch_bs) = false) by (apply N.eqb_neq; intros ->; apply H; left; reflexivity).
  rewrite E. cbn [andb]. apply IH. intros X; apply H; right; exact X.
Qed.

Theorem latin1_pipeline_identity : forall t, Forall valid_cp t -> ~ In ch_bs t ->
  unicode_escape_decode U (latin1_bsr t) = Some t.
Proof.
  intros t V H. unfold unicode_escape_decode.
  rewrite (pipeline_sim U LB t SNorm SNorm false V (or_introl eq_refl) eq_refl (rec_chk_plain false t H)).
  apply run_plain. exact H.
Qed.

End Main.

(* CR and CRLF read as LF: the reader's two replace passes are universal-newline translation; the
   result holds no CR; a text without CR is unchanged *)
Theorem newline_normalised : forall s,
  nl_norm s = nl_spec s /\ ~ In ch_cr (nl_norm s) /\ (~ In ch_cr s -> nl_norm s = s).
Proof.
  intros s. rewrite nl_norm_spec. split; [reflexivity|]. split.
  - apply nl_spec_no_cr.
  - apply nl_spec_id.
Qed.
