(* C22 -- Python's numeric literal grammar (language reference 2.6 "Numeric literals") as a type of
   structured literals with a rendering and a value, written independently of the reader.
   Underscores are not part of this type: a literal with underscores is a separator variant
   (see [sep_ins]) of its underscore-free core, and Hy's extra separator placements are further
   separator variants of the same core. *)
From HyV Require Import Base.Text Gen.LitTables Lit.Numeric.
From Coq Require Import ZArith.

Inductive radix := RBin | ROct | RHex.
Definition radix_base (r : radix) : N := match r with RBin => 2 | ROct => 8 | RHex => 16 end.
Definition radix_letter (r : radix) (upper : bool) : N :=
  (match r with RBin => 98 | ROct => 111 | RHex => 120 end) - (if upper then 32 else 0).

(* exponent: marker e/E, optional sign (Some true = minus), digits *)
Definition expo := (bool * option bool * text)%type.

Inductive core :=
  | CDec (ds : text)                                            (* decinteger *)
  | CRadix (r : radix) (upper : bool) (ds : text)               (* bininteger | octinteger | hexinteger *)
  | CFloat (ip : text) (fp : option text) (ex : option expo)    (* pointfloat | exponentfloat *)
  | CImag (ip : text) (fp : option text) (ex : option expo) (upper : bool).   (* imagnumber *)

Definition all_dec (ds : text) : bool := forallb is_dec ds.
Definition nonempty (ds : text) : bool := match ds with [] => false | _ => true end.

Definition wf_expo (e : expo) : bool := let '(_, _, ds) := e in nonempty ds && all_dec ds.
Definition wf_opt_expo (e : option expo) : bool := match e with Some x => wf_expo x | None => true end.
Definition wf_frac (fp : option text) : bool := match fp with Some f => all_dec f | None => true end.
(* a mantissa has a digit somewhere: digitpart "." [digitpart] | "." digitpart | digitpart *)
Definition wf_mant (ip : text) (fp : option text) : bool :=
  all_dec ip && wf_frac fp && (nonempty ip || match fp with Some f => nonempty f | None => false end).

Definition wf (l : core) : bool :=
  match l with
  | CDec ds =>
      (* nonzerodigit digit* | "0"+ *)
      nonempty ds && all_dec ds &&
      (match ds with c :: _ => negb (c =? ch_zero) | [] => false end || forallb (fun c => c =? ch_zero) ds)
  | CRadix r _ ds => nonempty ds && forallb (fun c => digit_value c <? radix_base r) ds
  | CFloat ip fp ex =>
      (* a float has a point or an exponent *)
      wf_mant ip fp && wf_opt_expo ex && (match fp with Some _ => true | None => match ex with Some _ => true | None => false end end)
  | CImag ip fp ex _ => wf_mant ip fp && wf_opt_expo ex
  end.

Definition render_expo (e : expo) : text :=
  let '(upper, sign, ds) := e in
  (if upper then ch_E else ch_e) :: (match sign with Some true => [ch_minus] | Some false => [ch_plus] | None => [] end) ++ ds.
Definition render_mant (ip : text) (fp : option text) (ex : option expo) : text :=
  ip ++ (match fp with Some f => ch_dot :: f | None => [] end) ++ (match ex with Some e => render_expo e | None => [] end).

Definition render (l : core) : text :=
  match l with
  | CDec ds => ds
  | CRadix r upper ds => ch_zero :: radix_letter r upper :: ds
  | CFloat ip fp ex => render_mant ip fp ex
  | CImag ip fp ex upper => render_mant ip fp ex ++ [if upper then ch_J else ch_j]
  end.

(* values: integers exactly; floats as the decimal description that strtod rounds *)
Definition digits_value (base : N) (ds : text) : N := fold_left (fun a c => a * base + digit_value c) ds 0.
Definition expo_value (e : option expo) : Z :=
  match e with
  | Some (_, sign, ds) => let v := Z.of_N (digits_value 10 ds) in match sign with Some true => Z.opp v | _ => v end
  | None => 0%Z
  end.
Definition frac_digits (fp : option text) : text := match fp with Some f => f | None => [] end.
Definition mant_value (ip : text) (fp : option text) (ex : option expo) : fdesc :=
  FFin false (digits_value 10 (ip ++ frac_digits fp)) (expo_value ex - Z.of_nat (length (frac_digits fp))).

Definition value (l : core) : num :=
  match l with
  | CDec ds => NInt (Z.of_N (digits_value 10 ds))
  | CRadix r _ ds => NInt (Z.of_N (digits_value (radix_base r) ds))
  | CFloat ip fp ex => NFloat (mant_value ip fp ex)
  | CImag ip fp ex _ => NComplex fzero (mant_value ip fp ex)
  end.

(* t' is t with separator characters inserted (anywhere, including the front) *)
Inductive sep_ins : text -> text -> Prop :=
  | si_nil : sep_ins [] []
  | si_keep c t t' : sep_ins t t' -> sep_ins (c :: t) (c :: t')
  | si_ins s t t' : is_sep s = true -> sep_ins t t' -> sep_ins t (s :: t').

(* the characters numeric literals and a+bj texts are made of; none of them can spell inf or nan *)
Definition num_char (c : N) : bool :=
  is_dec c || mem c [ch_dot; ch_plus; ch_minus; ch_e; ch_E; ch_j; ch_J; 120; 88; 111; 79; 98; 66; 97; 99; 100; 102; 65; 67; 68; 70].
