(* Entry points evaluated by props/c23.py (vm_compute) for the correspondence runs:
   results are flattened to lists of numbers. *)
From HyV Require Import Base.Text Gen.LitTables Lit.Strings Lit.StringsSpec.

Definition enc_kind (k : lexkind) : N :=
  match k with EPrefix => 1 | EEscape => 2 | EBytesAscii => 3 | EDecode => 4 | EClose => 5 | ECtor => 6 end.

Definition nlen (s : text) : N := N.of_nat (length s).

Definition enc_sval (v : sval) : text := match v with VStr t => 0 :: t | VBytes b => 1 :: b end.

(* [1; unread; 0|1; value...]  [2; kind]  [3]  [4] *)
Definition enc_string (o : outcome (sval * text)) : text :=
  match o with
  | Ok (v, rest) => 1 :: nlen rest :: enc_sval v
  | Lex k => [2; enc_kind k]
  | Premature => [3]
  | FStringPath => [4]
  end.

(* [1; unread; len delim; delim...; content...] *)
Definition enc_bracket (o : outcome ((text * text) * text)) : text :=
  match o with
  | Ok ((c, d), rest) => 1 :: nlen rest :: nlen d :: d ++ c
  | Lex k => [2; enc_kind k]
  | Premature => [3]
  | FStringPath => [4]
  end.

Definition enc_opt (o : option text) : text := match o with Some t => 1 :: t | None => [0] end.
Definition enc_optv (o : option sval) : text := match o with Some v => 1 :: enc_sval v | None => [0] end.

(* the finite part of the interpreter's name table that a batch of cases can reach *)
Fixpoint mk_lookup (tbl : list (text * N)) (n : text) : option N :=
  match tbl with
  | [] => None
  | (k, v) :: r => if text_eqb k n then Some v else mk_lookup r n
  end.

Definition m_string (tbl : list (text * N)) (prefix s : text) : text := enc_string (prefixed_string (mk_lookup tbl) prefix s).
Definition m_bracket (s : text) : text := enc_bracket (bracketed_string s).
Definition m_uedec (tbl : list (text * N)) (bs : text) : text := enc_opt (unicode_escape_decode (mk_lookup tbl) bs).
Definition m_escdec (bs : text) : text := enc_opt (escape_decode bs).
Definition m_bsr (s : text) : text := latin1_bsr s.
Definition m_pyval (tbl : list (text * N)) (raw isb : bool) (body : text) : text :=
  enc_optv (py_string_value (mk_lookup tbl) raw isb (nl_spec body)).
