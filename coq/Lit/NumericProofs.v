(* C22: proofs about the identifier cascade.  Part 1: basic facts, integers, leading zeros,
   non-numbers, refutation witnesses. *)
From HyV Require Import Base.Text Gen.LitTables Lit.Numeric Lit.NumericSpec.
From Coq Require Import ZArith Lia.

(* ------------------------------------------------------------------ regenerated tables *)

Lemma separators_are : digit_separators = [ch_us; 44].
Proof. reflexivity. Qed.
Lemma cap_probes_are : cap_probes = [[105]; [73; 110; 102]; [78; 97; 78]].
Proof. reflexivity. Qed.
Lemma bare_j_are : complex_bare_excluded = [[ch_j]; [ch_J]].
Proof. reflexivity. Qed.

Lemma is_sep_spec c : is_sep c = (c =? 95) || (c =? 44).
Proof. unfold is_sep, mem. rewrite separators_are. cbn [existsb]. rewrite orb_false_r. reflexivity. Qed.

Lemma dec_bounds c : is_dec c = true -> 48 <= c <= 57.
Proof. unfold is_dec. intros H. apply andb_true_iff in H. destruct H as [A B]. apply N.leb_le in A. apply N.leb_le in B. lia. Qed.

Lemma dec_not_sep c : is_dec c = true -> is_sep c = false.
Proof.
  intros H. apply dec_bounds in H. rewrite is_sep_spec.
  replace (c =? 95) with false by (symmetry; apply N.eqb_neq; lia).
  replace (c =? 44) with false by (symmetry; apply N.eqb_neq; lia). reflexivity.
Qed.

Lemma dec_ascii c : is_dec c = true -> is_ascii c = true.
Proof. intros H. apply dec_bounds in H. unfold is_ascii. apply N.ltb_lt. lia. Qed.

Lemma remove_seps_id s : forallb (fun c => negb (is_sep c)) s = true -> remove_seps s = s.
Proof.
  induction s as [|c r IH]; intros H; [reflexivity|]. simpl in *.
  apply andb_true_iff in H. destruct H as [A B]. rewrite A. f_equal. apply IH. exact B.
Qed.

Lemma strip_seps_id s : forallb (fun c => negb (is_sep c)) s = true -> strip_seps s = s.
Proof.
  intros H. destruct s as [|c [|d r]]; try reflexivity.
  unfold strip_seps. simpl in H. apply andb_true_iff in H. destruct H as [_ H].
  f_equal. apply remove_seps_id. exact H.
Qed.

Lemma forallb_impl {A} (p q : A -> bool) l : (forall x, p x = true -> q x = true) -> forallb p l = true -> forallb q l = true.
Proof. intros I. induction l as [|x l IH]; simpl; [trivial|]. intros H. apply andb_true_iff in H. destruct H as [X Y]. rewrite (I x X), (IH Y). reflexivity. Qed.

(* ------------------------------------------------------------------ the capitalisation check on i-free texts *)

Definition is_fin (f : fdesc) : Prop := match f with FFin _ _ _ => True | _ => False end.

Lemma cap_ok_fin_noi a f : is_fin f -> has_i a = false -> cap_ok a f = true.
Proof.
  destruct f; [|contradiction|contradiction]. intros _ H. unfold cap_ok, inf_ok. rewrite H.
  destruct (overflows mant exp10); reflexivity.
Qed.

Lemma has_i_incl p s : (forall c, In c p -> In c s) -> has_i s = false -> has_i p = false.
Proof.
  intros I H. unfold has_i in *. apply orb_false_iff in H. destruct H as [H H3]. apply orb_false_iff in H. destruct H as [H1 H2].
  assert (G : forall k, mem k s = false -> mem k p = false).
  { intros k Hk. destruct (mem k p) eqn:E; [|reflexivity]. apply mem_In in E. apply I in E. apply mem_In in E. congruence. }
  rewrite (G _ H1), (G _ H2), (G _ H3). reflexivity.
Qed.

Lemma dropwhile_incl (q : N -> bool) s : forall c, In c (dropwhile q s) -> In c s.
Proof. induction s as [|x r IH]; intros c H; [exact H|]. simpl in H. destruct (q x); [right; apply IH; exact H | exact H]. Qed.

Lemma partition_plus_incl : forall s a b, partition_plus s = (a, b) -> (forall c, In c a -> In c s) /\ (forall c, In c b -> In c s).
Proof.
  induction s as [|x r IH]; intros a b H; simpl in H.
  - inversion H; subst. split; intros c X; exact X.
  - destruct (is_pm x).
    + inversion H; subst. split; intros c X; [contradiction | right; exact X].
    + destruct (partition_plus r) as [a' b'] eqn:E. inversion H; subst. destruct (IH a' b eq_refl) as [A B].
      split; intros c X; [destruct X as [X|X]; [left; exact X | right; apply A; exact X] | right; apply B; exact X].
Qed.

Section Proofs.
Variable U : uni.

(* ------------------------------------------------------------------ ASCII text: the oracle is not consulted *)

Lemma to_ascii_ascii s : forallb is_ascii s = true -> to_ascii U s = s.
Proof. intros H. unfold to_ascii. rewrite H. reflexivity. Qed.

Lemma isdigit_str_dec s : s <> [] -> forallb is_dec s = true -> isdigit_str U s = true.
Proof.
  intros N H. destruct s as [|c r]; [congruence|]. unfold isdigit_str.
  apply (forallb_impl is_dec (isdigit_ch U)); [|exact H].
  intros x Hx. unfold isdigit_ch. pose proof (dec_bounds x Hx).
  replace (x <? 128) with true by (symmetry; apply N.ltb_lt; lia). exact Hx.
Qed.

(* ------------------------------------------------------------------ the digit loop of int() *)

Definition dig_fold (base : N) (ds : text) (acc : N) : N := fold_left (fun a c => a * base + digit_value c) ds acc.

Lemma digit_value_us : digit_value ch_us = 37.
Proof. reflexivity. Qed.

Lemma int_digits_all base : base <= 36 -> forall ds acc n,
  forallb (fun c => digit_value c <? base) ds = true ->
  int_digits base ds acc n false = Some (dig_fold base ds acc, (n + length ds)%nat, []).
Proof.
  intros Hb. induction ds as [|c r IH]; intros acc n H.
  - simpl. rewrite Nat.add_0_r. reflexivity.
  - simpl in H. apply andb_true_iff in H. destruct H as [A B]. cbn [int_digits].
    assert (E : (c =? ch_us) = false).
    { apply N.eqb_neq. intros ->. rewrite digit_value_us in A. apply N.ltb_lt in A. lia. }
    rewrite E, A. rewrite (IH _ _ B). simpl. do 2 f_equal. f_equal. lia.
Qed.

Lemma dec_digit_value c : is_dec c = true -> digit_value c = c - 48.
Proof. intros H. unfold digit_value. rewrite H. reflexivity. Qed.

Lemma dec_digit_lt10 c : is_dec c = true -> (digit_value c <? 10) = true.
Proof. intros H. rewrite (dec_digit_value c H). apply dec_bounds in H. apply N.ltb_lt. lia. Qed.

Lemma dec_not_space c : is_dec c = true -> c_isspace c = false.
Proof.
  intros H. apply dec_bounds in H. unfold c_isspace.
  replace (c <=? 13) with false by (symmetry; apply N.leb_gt; lia).
  replace (c =? 32) with false by (symmetry; apply N.eqb_neq; lia). rewrite andb_false_r. reflexivity.
Qed.

(* a decimal integer, leading zeros allowed: int(text) in base 10 *)
Definition dec_value (ds : text) : N := digits_value 10 ds.
Lemma dig_fold_0 base ds : dig_fold base ds 0 = digits_value base ds.
Proof. reflexivity. Qed.

Lemma py_int10_digits ds : ds <> [] -> forallb is_dec ds = true ->
  py_int U false ds = Some (Z.of_N (dec_value ds)).
Proof.
  intros N H. destruct ds as [|c r]; [congruence|].
  assert (Hc : is_dec c = true) by (simpl in H; apply andb_true_iff in H; tauto).
  pose proof (dec_bounds c Hc) as Bc.
  unfold py_int. rewrite to_ascii_ascii by (apply (forallb_impl is_dec is_ascii); [apply dec_ascii | exact H]).
  cbn [dropwhile]. rewrite (dec_not_space c Hc).
  assert (E1 : int_sign (c :: r) = (false, c :: r)).
  { unfold int_sign.
    replace (c =? ch_plus) with false by (symmetry; apply N.eqb_neq; unfold ch_plus; lia).
    replace (c =? ch_minus) with false by (symmetry; apply N.eqb_neq; unfold ch_minus; lia). reflexivity. }
  rewrite E1. cbn [int_base].
  assert (E2 : int_skip_prefix 10 (c :: r) = c :: r).
  { unfold int_skip_prefix. destruct r as [|d r']; [reflexivity|].
    change (10 =? 16) with false. change (10 =? 8) with false. change (10 =? 2) with false.
    cbn [andb orb]. rewrite andb_false_r. reflexivity. }
  rewrite E2. unfold int_finish.
  replace (c =? ch_us) with false by (symmetry; apply N.eqb_neq; unfold ch_us; lia).
  rewrite (int_digits_all 10 ltac:(lia) (c :: r) 0 O).
  2:{ apply (forallb_impl is_dec (fun c => digit_value c <? 10)); [apply dec_digit_lt10 | exact H]. }
  cbn [length Nat.add Nat.eqb andb dropwhile]. rewrite dig_fold_0. reflexivity.
Qed.

(* "Integers can begin with leading zeroes": every non-empty string of ASCII digits reads as that integer *)
Theorem digits_read_as_integer : forall ds, ds <> [] -> forallb is_dec ds = true ->
  numeric U ds = Some (NInt (Z.of_N (dec_value ds))).
Proof.
  intros ds N H. unfold numeric, hy_integer.
  rewrite (isdigit_str_dec ds N H). cbn [negb].
  rewrite strip_seps_id by (apply (forallb_impl is_dec (fun c => negb (is_sep c))); [intros x Hx; rewrite (dec_not_sep x Hx); reflexivity | exact H]).
  rewrite (py_int10_digits ds N H). reflexivity.
Qed.

(* ------------------------------------------------------------------ non-numbers *)

Lemma parts_result_not_num : forall ps head acc bad, (forall n, parts_result head ps acc bad <> INum n).
Proof.
  induction ps as [|p ps IH]; intros head acc bad n; simpl.
  - destruct bad; discriminate.
  - destruct p; try apply IH. discriminate.
Qed.

(* if none of the three constructors accepts the text, the result is a symbol, a dotted form, or an
   error about the dotted form -- never a number; without a dot it is the symbol spelled by the text *)
Theorem non_numbers_are_symbols : forall rd s, numeric U s = None ->
  (forall n, as_identifier U rd s <> INum n) /\
  (mem ch_dot s = false -> rd = true -> as_identifier U rd s = ISym s) /\
  (forallb is_dot s = true -> as_identifier U rd s = ISym s \/ mem ch_dot s = false).
Proof.
  intros rd s H. unfold as_identifier. rewrite H. repeat split.
  - intros n. destruct (mem ch_dot s).
    + destruct (forallb is_dot s); [discriminate|].
      destruct (has_dotdot (dropwhile is_dot s)); [discriminate|].
      destruct (ends_with_dot s); [discriminate|]. apply parts_result_not_num.
    + destruct (negb rd && illegal_symbol s); discriminate.
  - intros D R. rewrite D. subst rd. reflexivity.
  - intros D. destruct (mem ch_dot s); [left; rewrite D; reflexivity | right; reflexivity].
Qed.

(* and conversely a number is reported only when one of the constructors accepted the text *)
Theorem number_only_from_cascade : forall rd s n, as_identifier U rd s = INum n -> numeric U s = Some n.
Proof.
  intros rd s n H. unfold as_identifier in H. destruct (numeric U s) as [m|] eqn:E; [inversion H; reflexivity|].
  exfalso. destruct (non_numbers_are_symbols rd s E) as [X _]. apply (X n). unfold as_identifier. rewrite E. exact H.
Qed.

End Proofs.
