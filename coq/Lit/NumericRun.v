(* Entry points evaluated by the harness for C22 / C26: results flattened to lists of numbers. *)
From HyV Require Import Base.Text Gen.LitTables Lit.Numeric.
From Coq Require Import ZArith.

(* a number as limbs below 2^30, least significant first, preceded by their count *)
Fixpoint limbs (fuel : nat) (n : N) : list N :=
  match fuel with
  | O => []
  | S f => if n =? 0 then [] else (n mod 1073741824) :: limbs f (n / 1073741824)
  end.
Definition enc_N (n : N) : list N := let l := limbs (S (N.to_nat (N.log2 n))) n in N.of_nat (length l) :: l.
Definition enc_Z (z : Z) : list N := (if (z <? 0)%Z then 1 else 0) :: enc_N (Z.abs_N z).
Definition enc_bool (b : bool) : N := if b then 1 else 0.

Definition enc_fdesc (f : fdesc) : list N :=
  match f with
  | FFin neg m e => 0 :: enc_bool neg :: enc_N m ++ enc_Z e
  | FInf neg => [1; enc_bool neg]
  | FNan neg => [2; enc_bool neg]
  end.

Definition enc_num (n : num) : list N :=
  match n with
  | NInt z => 0 :: enc_Z z
  | NFloat f => 1 :: enc_fdesc f
  | NComplex re im => 2 :: enc_fdesc re ++ enc_fdesc im
  end.

Definition enc_derr (e : derr) : N := match e with DMultiDots => 1 | DTrailingDot => 2 | DPartNotSymbol => 3 end.

Definition enc_text (t : text) : list N := N.of_nat (length t) :: t.

(* [1; num]  [2] symbol (its text is the input)  [3; len head; head; nparts; (len part; part)...]  [4; err]  [5] *)
Definition enc_ident (i : ident) : list N :=
  match i with
  | INum n => 1 :: enc_num n
  | ISym _ => [2]
  | IDotted h ps => 3 :: enc_text h ++ N.of_nat (length ps) :: flat_map enc_text ps
  | IErr e => [4; enc_derr e]
  | IIllegal => [5]
  end.

(* the finite part of the Unicode database a case can reach: (code point, isspace, isdigit, decimal) *)
Fixpoint tbl_find (tbl : list (N * (bool * bool * option N))) (c : N) : bool * bool * option N :=
  match tbl with
  | [] => (false, false, None)
  | (k, v) :: r => if c =? k then v else tbl_find r c
  end.
Definition mk_uni (tbl : list (N * (bool * bool * option N))) : uni :=
  {| u_isspace := fun c => fst (fst (tbl_find tbl c));
     u_isdigit := fun c => snd (fst (tbl_find tbl c));
     u_decimal := fun c => snd (tbl_find tbl c) |}.

Definition m_ident (tbl : list (N * (bool * bool * option N))) (from_reader : bool) (s : text) : list N :=
  enc_ident (as_identifier (mk_uni tbl) from_reader s).

Definition enc_optZ (o : option Z) : list N := match o with Some z => 1 :: enc_Z z | None => [0] end.
Definition enc_optF (o : option fdesc) : list N := match o with Some f => 1 :: enc_fdesc f | None => [0] end.
Definition enc_optC (o : option (fdesc * fdesc)) : list N :=
  match o with Some (a, b) => 1 :: enc_fdesc a ++ enc_fdesc b | None => [0] end.

(* the three CPython text grammars on their own (hypothesis validation) *)
Definition m_pyint (tbl : list (N * (bool * bool * option N))) (base0 : bool) (s : text) : list N := enc_optZ (py_int (mk_uni tbl) base0 s).
Definition m_pyfloat (tbl : list (N * (bool * bool * option N))) (s : text) : list N := enc_optF (py_float (mk_uni tbl) s).
Definition m_pycomplex (tbl : list (N * (bool * bool * option N))) (s : text) : list N := enc_optC (py_complex (mk_uni tbl) s).
Definition m_isdigit (tbl : list (N * (bool * bool * option N))) (s : text) : list N := [enc_bool (isdigit_str (mk_uni tbl) s)].
