(* C26: Symbol(s) / Keyword(s) succeed exactly when reading s / ":"+s yields that one model;
   String(s, brackets=d) versus the bracket string reading back. *)
From HyV Require Import Base.Text Gen.LitTables Lit.Strings Lit.StringsSpec Lit.StringsProofs Lit.StringsBracket
  Lit.Numeric Lit.NumericProofs Lit.NumericExt Lit.Ctor.
From Coq Require Import ZArith Lia.

(* ------------------------------------------------------------------ regenerated tables *)

Lemma heads_are : illegal_symbol_heads = [ch_colon; ch_hash].
Proof. reflexivity. Qed.
Lemma non_ident_has : forallb (fun c => mem c non_ident) [ch_dq; ch_semi; 41; 93; 125] = true.
Proof. vm_compute. reflexivity. Qed.
Lemma heads_not_non_ident : forallb (fun c => negb (mem c non_ident) && negb (is_ws c)) illegal_symbol_heads = true.
Proof. vm_compute. reflexivity. Qed.
Lemma dot_plain : mem ch_dot non_ident = false /\ is_ws ch_dot = false /\ mem ch_dot illegal_symbol_heads = false.
Proof. repeat split; vm_compute; reflexivity. Qed.
Lemma hash_lbr_plain : is_ws ch_hash = false /\ is_ws ch_colon = false.
Proof. split; vm_compute; reflexivity. Qed.

Lemma mem_neq c k l : mem c l = false -> mem k l = true -> (c =? k) = false.
Proof. intros A B. apply N.eqb_neq. intros ->. congruence. Qed.

(* ------------------------------------------------------------------ identifier characters *)

Definition clean (s : text) : bool :=
  match s with [] => false | c :: _ => negb (mem c illegal_symbol_heads) && forallb ident_char s end.

Lemma forallb_neg_or (p q : N -> bool) s : forallb (fun c => negb (p c || q c)) s = negb (existsb p s || existsb q s).
Proof.
  induction s as [|a s IH]; [reflexivity|]. cbn [forallb existsb]. rewrite IH.
  generalize (p a) (q a) (existsb p s) (existsb q s). intros [] [] [] []; reflexivity.
Qed.

Lemma ident_existsb s : forallb ident_char s = negb (existsb is_ws s || existsb (fun x => mem x non_ident) s).
Proof. exact (forallb_neg_or is_ws (fun x => mem x non_ident) s). Qed.

Lemma clean_illegal s : illegal_symbol s = negb (clean s).
Proof.
  destruct s as [|c r]; [reflexivity|]. unfold illegal_symbol, clean. rewrite ident_existsb.
  generalize (existsb is_ws (c :: r)) (existsb (fun x => mem x non_ident) (c :: r)) (mem c illegal_symbol_heads).
  intros [] [] []; reflexivity.
Qed.

Lemma takewhile_all_id (p : N -> bool) s : forallb p s = true -> takewhile p s = s /\ dropwhile p s = [].
Proof.
  induction s as [|c r IH]; intros H; [split; reflexivity|]. simpl in H. apply andb_true_iff in H. destruct H as [Hc Hr].
  simpl. rewrite Hc. destruct (IH Hr) as [A B]. rewrite A, B. split; reflexivity.
Qed.

Lemma takewhile_length (p : N -> bool) s : (length (takewhile p s) <= length s)%nat.
Proof. induction s as [|c r IH]; simpl; [lia|]. destruct (p c); simpl; lia. Qed.

Lemma takewhile_full (p : N -> bool) s : length (takewhile p s) = length s -> forallb p s = true.
Proof.
  induction s as [|c r IH]; simpl; [reflexivity|]. destruct (p c); simpl; [|discriminate].
  intros H. apply IH. lia.
Qed.

Lemma dropwhile_length (p : N -> bool) s : (length (dropwhile p s) <= length s)%nat.
Proof. induction s as [|c r IH]; simpl; [lia|]. destruct (p c); simpl; lia. Qed.

Lemma dropwhile_same (p : N -> bool) s : length (dropwhile p s) = length s -> dropwhile p s = s.
Proof.
  destruct s as [|c r]; [reflexivity|]. simpl. destruct (p c); [|reflexivity].
  intros H. pose proof (dropwhile_length p r). lia.
Qed.

Lemma skip_line_length s : (length (skip_line s) <= length s)%nat.
Proof. induction s as [|c r IH]; simpl; [lia|]. destruct (c =? ch_lf); lia. Qed.

Section Proofs.
Variable U : uni.
Variable L : text -> option N.

(* ------------------------------------------------------------------ as_identifier returning a symbol *)

Lemma parts_result_not_sym : forall ps head acc bad t, parts_result head ps acc bad <> ISym t.
Proof.
  induction ps as [|p ps IH]; intros head acc bad t; simpl.
  - destruct bad; discriminate.
  - destruct p; try apply IH. discriminate.
Qed.

Lemma as_identifier_sym rd s t : as_identifier U rd s = ISym t ->
  t = s /\ numeric U s = None /\ (mem ch_dot s = false \/ forallb is_dot s = true) /\
  (mem ch_dot s = false -> rd = false -> clean s = true).
Proof.
  unfold as_identifier. destruct (numeric U s); [discriminate|].
  destruct (mem ch_dot s) eqn:D.
  - destruct (forallb is_dot s) eqn:A.
    + intros H. inversion H. subst t. repeat split; [right; reflexivity | discriminate].
    + destruct (has_dotdot (dropwhile is_dot s)); [discriminate|].
      destruct (ends_with_dot s); [discriminate|]. intros H. exfalso. eapply parts_result_not_sym. exact H.
  - destruct (negb rd && illegal_symbol s) eqn:I; [discriminate|]. intros H. inversion H. subst t.
    repeat split; [left; reflexivity|]. intros _ ->. simpl in I. rewrite clean_illegal in I. apply negb_false_iff in I. exact I.
Qed.

Lemma all_dots_clean s : s <> [] -> forallb is_dot s = true -> clean s = true.
Proof.
  intros N H. destruct s as [|c r]; [congruence|]. destruct dot_plain as (D1 & D2 & D3).
  assert (G : forall l, forallb is_dot l = true -> forallb ident_char l = true).
  { induction l as [|x l IH]; intros HL; [reflexivity|]. simpl in HL. apply andb_true_iff in HL. destruct HL as [Hx Hl].
    apply N.eqb_eq in Hx. subst x. cbn [forallb]. unfold ident_char at 1, ends_ident. rewrite D1, D2. cbn [orb negb andb]. apply IH. exact Hl. }
  unfold clean. rewrite (G _ H). simpl in H. apply andb_true_iff in H. destruct H as [Hc _]. apply N.eqb_eq in Hc. subst c.
  rewrite D3. reflexivity.
Qed.

(* the constructor and the reader agree on what a symbol text is *)
Lemma sym_ok_iff s : sym_ok U s = true <-> (clean s = true /\ as_identifier U true s = ISym s).
Proof.
  unfold sym_ok. split.
  - destruct (as_identifier U false s) as [n|t|h ps|e|] eqn:E; try discriminate. intros _.
    destruct (as_identifier_sym false s t E) as (-> & NN & DD & CL).
    assert (C : clean s = true).
    { destruct DD as [D|A]; [apply CL; [exact D | reflexivity]|].
      apply all_dots_clean; [|exact A]. intros ->. unfold as_identifier in E. rewrite NN in E. simpl in E. discriminate E. }
    split; [exact C|]. unfold as_identifier in *. rewrite NN in *.
    destruct (mem ch_dot s) eqn:MD; [|reflexivity].
    destruct DD as [D|A]; [discriminate|]. rewrite A. reflexivity.
  - intros [C E]. destruct (as_identifier_sym true s s E) as (_ & NN & DD & _).
    unfold as_identifier in *. rewrite NN in *. destruct (mem ch_dot s) eqn:MD.
    + destruct DD as [D|A]; [discriminate|]. rewrite A. reflexivity.
    + rewrite clean_illegal, C. reflexivity.
Qed.

(* ------------------------------------------------------------------ one step of the reader on an identifier *)

Lemma read_nil f : read_many U L (S f) [] = ROk [].
Proof. reflexivity. Qed.

Lemma clean_head s : clean s = true -> exists c r, s = c :: r /\ ident_char c = true /\ forallb ident_char r = true /\
  (c =? ch_semi) = false /\ (c =? ch_colon) = false /\ (c =? ch_dq) = false /\ (c =? ch_hash) = false /\
  mem c [41; 93; 125] = false /\ mem c non_ident = false /\ is_ws c = false.
Proof.
  destruct s as [|c r]; [discriminate|]. unfold clean. intros H. apply andb_true_iff in H. destruct H as [HH HA].
  simpl in HA. apply andb_true_iff in HA. destruct HA as [Hc Hr]. apply negb_true_iff in HH.
  exists c, r. split; [reflexivity|]. split; [exact Hc|]. split; [exact Hr|].
  unfold ident_char, ends_ident in Hc. apply negb_true_iff in Hc. apply orb_false_iff in Hc. destruct Hc as [W NI].
  pose proof non_ident_has as T. cbn [forallb] in T. repeat (apply andb_true_iff in T; destruct T as [?T1 T]).
  rewrite heads_are in HH. unfold mem in HH. cbn [existsb] in HH. apply orb_false_iff in HH. destruct HH as [H1 HH].
  apply orb_false_iff in HH. destruct HH as [H2 _].
  repeat split; try assumption; try (apply (mem_neq c _ non_ident NI); assumption).
  unfold mem. cbn [existsb].
  rewrite (mem_neq c 41 non_ident NI), (mem_neq c 93 non_ident NI), (mem_neq c 125 non_ident NI) by assumption. reflexivity.
Qed.

Lemma read_clean_ident f s : clean s = true ->
  read_many U L (S (S f)) s =
    match of_ident (as_identifier U true s) with Some fm => ROk [fm] | None => RLex end.
Proof.
  intros C. destruct (clean_head s C) as (c & r & -> & Hc & Hr & E1 & E2 & E3 & E4 & E5 & E6 & E7).
  cbn [read_many dropwhile]. rewrite E7, E1, E2, E3, E4, E5, E6.
  destruct (takewhile_all_id ident_char r Hr) as [TA DA]. rewrite TA, DA.
  destruct (of_ident (as_identifier U true (c :: r))); reflexivity.
Qed.

Theorem symbol_ctor_if s : sym_ok U s = true -> read_top U L s = ROk [FSym s].
Proof.
  intros H. apply sym_ok_iff in H. destruct H as [C E]. unfold read_top.
  destruct s as [|c r]; [discriminate|]. simpl length. rewrite (read_clean_ident _ _ C), E. reflexivity.
Qed.

(* ------------------------------------------------------------------ the first form a text reads as *)

Lemma cons_ok_head fm r t l : cons_ok fm r = ROk (FSym t :: l) -> fm = FSym t.
Proof. destruct r; simpl; try discriminate. intros H. inversion H. reflexivity. Qed.
Lemma cons_ok_head_kw fm r t l : cons_ok fm r = ROk (FKw t :: l) -> fm = FKw t.
Proof. destruct r; simpl; try discriminate. intros H. inversion H. reflexivity. Qed.
Lemma cons_ok_tail fm r x l : cons_ok fm r = ROk (x :: l) -> r = ROk l.
Proof. destruct r; simpl; try discriminate. intros H. inversion H. reflexivity. Qed.

Lemma of_string_not_sym o k t l : (forall v rest, exists r, k (FStr v None) rest = cons_ok (FStr v None) r) ->
  of_string o k <> ROk (FSym t :: l).
Proof.
  intros K. destruct o as [[v rest]| | |]; simpl; try discriminate.
  destruct (K v rest) as [r ->]. intros H. apply cons_ok_head in H. discriminate.
Qed.
Lemma of_string_not_kw o k t l : (forall v rest, exists r, k (FStr v None) rest = cons_ok (FStr v None) r) ->
  of_string o k <> ROk (FKw t :: l).
Proof.
  intros K. destruct o as [[v rest]| | |]; simpl; try discriminate.
  destruct (K v rest) as [r ->]. intros H. apply cons_ok_head_kw in H. discriminate.
Qed.

Lemma of_ident_sym i t : of_ident i = Some (FSym t) -> i = ISym t.
Proof. destruct i; simpl; try discriminate; intros H; inversion H; reflexivity. Qed.

(* a top-level symbol is spelled by a stretch of the text; if it spells the whole text, the text is a
   clean identifier that as_identifier turns into that symbol *)
Lemma first_symbol : forall fuel s t l, read_many U L fuel s = ROk (FSym t :: l) ->
  (length t <= length s)%nat /\
  (length t = length s -> clean s = true /\ as_identifier U true s = ISym s /\ t = s).
Proof.
  induction fuel as [|f IH]; intros s t l H; [discriminate|].
  cbn [read_many] in H.
  pose proof (dropwhile_length is_ws s) as DL.
  destruct (dropwhile is_ws s) as [|c r] eqn:DW; [discriminate|].
  pose proof (dropwhile_head is_ws s) as DH. rewrite DW in DH.
  assert (SAME : length (c :: r) = length s -> s = c :: r).
  { intros E. rewrite <- DW in E. rewrite <- (dropwhile_same is_ws s E). exact DW. }
  destruct (c =? ch_semi) eqn:E1.
  { destruct (IH _ _ _ H) as [B _]. pose proof (skip_line_length r). simpl in DL. split; [lia | intros; lia]. }
  destruct (c =? ch_colon) eqn:E2.
  { exfalso. destruct (mem ch_dot (takewhile ident_char r)); [discriminate|]. apply cons_ok_head in H. discriminate. }
  destruct (c =? ch_dq) eqn:E3.
  { exfalso. revert H. apply of_string_not_sym. intros v rest. eexists. reflexivity. }
  destruct (c =? ch_hash) eqn:E4.
  { exfalso. destruct r as [|d r']; [discriminate|]. destruct (d =? ch_lbr); [|discriminate].
    destruct (bracketed_string r') as [[[content delim] rest]| | |]; try discriminate. apply cons_ok_head in H. discriminate. }
  destruct (mem c [41; 93; 125]) eqn:E5; [discriminate|].
  destruct (mem c non_ident) eqn:E6; [discriminate|].
  assert (ID : forall rest0, match of_ident (as_identifier U true (c :: takewhile ident_char r)) with
                        | Some fm => cons_ok fm rest0 | None => RLex end = ROk (FSym t :: l) ->
          t = c :: takewhile ident_char r /\ as_identifier U true (c :: takewhile ident_char r) = ISym t).
  { intros rest0 X. destruct (of_ident (as_identifier U true (c :: takewhile ident_char r))) as [fm|] eqn:OI; [|discriminate].
    apply cons_ok_head in X. subst fm. apply of_ident_sym in OI.
    destruct (as_identifier_sym true _ t OI) as (-> & _). split; [reflexivity | exact OI]. }
  assert (FIN : t = c :: takewhile ident_char r /\ as_identifier U true (c :: takewhile ident_char r) = ISym t).
  { destruct (dropwhile ident_char r) as [|q r2] eqn:DR; [eapply ID; exact H|].
    destruct (q =? ch_dq).
    - exfalso. revert H. apply of_string_not_sym. intros v rest. eexists. reflexivity.
    - eapply ID. exact H. }
  destruct FIN as [-> AI]. pose proof (takewhile_length ident_char r) as TL. simpl in DL |- *. split; [lia|].
  intros EQ. assert (LR : length (takewhile ident_char r) = length r) by lia.
  assert (SS : s = c :: r) by (apply SAME; simpl; lia).
  pose proof (takewhile_full ident_char r LR) as FR. destruct (takewhile_all_id ident_char r FR) as [TA _].
  rewrite TA in *. subst s. split; [|split; [exact AI | reflexivity]].
  unfold clean. rewrite heads_are. unfold mem at 1. cbn [existsb]. rewrite E2, E4. cbn [orb negb andb].
  cbn [forallb]. rewrite FR, andb_true_r. unfold ident_char, ends_ident. rewrite DH, E6. reflexivity.
Qed.

Theorem symbol_ctor_only_if s : read_top U L s = ROk [FSym s] -> sym_ok U s = true.
Proof.
  intros H. unfold read_top in H. destruct (first_symbol _ _ _ _ H) as [_ X].
  destruct (X eq_refl) as (C & A & _). apply sym_ok_iff. split; assumption.
Qed.

Theorem symbol_ctor_iff s : sym_ok U s = true <-> read_top U L s = ROk [FSym s].
Proof. split; [apply symbol_ctor_if | apply symbol_ctor_only_if]. Qed.

(* ------------------------------------------------------------------ keywords *)

Lemma kw_ok_iff s : kw_ok s = true <-> (mem ch_dot s = false /\ forallb ident_char s = true).
Proof.
  unfold kw_ok. rewrite ident_existsb. destruct s as [|c r].
  - simpl. split; [intros _; split; reflexivity | reflexivity].
  - cbn [negb andb]. destruct (mem ch_dot (c :: r)); simpl.
    + split; [discriminate | intros [X _]; discriminate].
    + split; [intros H; split; [reflexivity | exact H] | intros [_ H]; exact H].
Qed.

Theorem keyword_ctor_iff s : kw_ok s = true <-> read_top U L (ch_colon :: s) = ROk [FKw s].
Proof.
  unfold read_top. simpl length. destruct hash_lbr_plain as [_ WC].
  assert (STEP : read_many U L (S (S (length s))) (ch_colon :: s) =
                 if mem ch_dot (takewhile ident_char s) then RLex
                 else cons_ok (FKw (takewhile ident_char s)) (read_many U L (S (length s)) (dropwhile ident_char s))).
  { cbn [read_many dropwhile]. rewrite WC. reflexivity. }
  rewrite STEP. rewrite kw_ok_iff. split.
  - intros [D A]. destruct (takewhile_all_id ident_char s A) as [TA DA]. rewrite TA, DA, D. reflexivity.
  - intros H. destruct (mem ch_dot (takewhile ident_char s)) eqn:D; [discriminate|].
    pose proof (cons_ok_head_kw _ _ _ _ H) as E. inversion E as [E'].
    assert (A : forallb ident_char s = true) by (apply takewhile_full; rewrite E'; reflexivity).
    rewrite !E'. rewrite E' in D. split; assumption.
Qed.

(* ------------------------------------------------------------------ bracket strings *)

Lemma bracketed_string_ctor t c d r : bracketed_string t = Ok ((c, d), r) -> Strings.contains (closer d) c = false.
Proof.
  unfold bracketed_string. destruct (read_delim t) as [[d0 r1]| | |]; try discriminate.
  destruct (fmode d0); [discriminate|].
  destruct (dscan d0 None (drop_nl r1)) as [n|]; [|discriminate].
  destruct (Strings.contains (closer d0) (nl_norm (firstn (n - (length d0 + bracket_closing_extra)) (drop_nl r1)))) eqn:C; [discriminate|].
  intros H. inversion H; subst. exact C.
Qed.

Lemma render_step f d s :
  read_many U L (S f) (render_bracket d s) =
    match bracketed_string (d ++ ch_lbr :: (match s with c :: _ => if (c =? ch_lf) || (c =? ch_cr) then [ch_lf] else [] | [] => [] end) ++ s ++ closer d) with
    | Ok ((content, delim), rest) => cons_ok (FStr (VStr content) (Some delim)) (read_many U L f rest)
    | Lex _ => RLex
    | Premature => RPremature
    | FStringPath => ROther
    end.
Proof.
  unfold render_bracket. cbn [read_many dropwhile]. destruct hash_lbr_plain as [WH _]. rewrite WH. reflexivity.
Qed.

(* if the bracket string reads back, the constructor accepts (one direction of the property) *)
Theorem bracket_ctor_if_partial d s :
  read_top U L (render_bracket d s) = ROk [FStr (VStr s) (Some d)] -> str_ok d s = true.
Proof.
  unfold read_top. rewrite render_step.
  destruct (bracketed_string _) as [[[content delim] rest]| | |] eqn:B; try discriminate.
  intros H. destruct (read_many U L _ rest); simpl in H; try discriminate. inversion H; subst.
  unfold str_ok. rewrite (bracketed_string_ctor _ _ _ _ B). reflexivity.
Qed.

Lemma drop_nl_extra s : drop_nl ((match s with c :: _ => if (c =? ch_lf) || (c =? ch_cr) then [ch_lf] else [] | [] => [] end) ++ s) = s.
Proof.
  destruct s as [|c r]; [reflexivity|]. unfold drop_nl.
  destruct (c =? ch_lf) eqn:E1; [reflexivity|]. destruct (c =? ch_cr) eqn:E2; [reflexivity|].
  simpl app. rewrite !drop_one_cons, E2, drop_one_cons, E1. reflexivity.
Qed.

Lemma contains_find_end pat : forall s, Strings.contains pat s = true -> exists n, find_end pat s = Some n.
Proof.
  induction s as [|c r IH]; simpl; intros H.
  - rewrite orb_false_r in H. rewrite H. eexists; reflexivity.
  - destruct (starts_with pat (c :: r)); [eexists; reflexivity|]. simpl in H.
    destruct (IH H) as [n ->]. eexists; reflexivity.
Qed.

(* the bracket string reads back whenever the delimiter has no brackets and is not an f-string
   delimiter, the content has no carriage return, and ]d] first occurs at the end of content + ]d] *)
Theorem bracket_reads_back d s :
  ~ In ch_lbr d -> ~ In ch_rbr d -> fmode d = false -> ~ In ch_cr s ->
  find_end (closer d) (s ++ closer d) = Some (length s + length (closer d))%nat ->
  read_top U L (render_bracket d s) = ROk [FStr (VStr s) (Some d)].
Proof.
  intros H1 H2 HF HC HE. unfold read_top. rewrite render_step.
  set (x := match s with c :: _ => if (c =? ch_lf) || (c =? ch_cr) then [ch_lf] else [] | [] => [] end).
  replace (d ++ ch_lbr :: x ++ s ++ closer d) with (d ++ ch_lbr :: (x ++ s) ++ closer d ++ []) by (rewrite app_nil_r, <- app_assoc; reflexivity).
  rewrite (bracket_verbatim d (x ++ s) [] H1 H2 HF).
  2:{ unfold x. rewrite drop_nl_extra. exact HE. }
  unfold x. rewrite drop_nl_extra. unfold nl_spec. rewrite (nl_spec_id s HC).
  destruct (Strings.contains (closer d) s) eqn:C.
  - exfalso. destruct (contains_find_end _ _ C) as [n F]. pose proof (find_end_bounds _ _ _ F) as B.
    rewrite (find_end_app _ _ (closer d) _ F) in HE. inversion HE. rewrite closer_length in *. lia.
  - unfold render_bracket. simpl length. reflexivity.
Qed.

End Proofs.

(* the constructor accepts, the bracket string does not read back: three witnesses *)
Lemma bracket_ctor_iff_witnesses :
  (str_ok [120] [97; 93; 120] = true /\
   read_top uni0 (fun _ => None) (render_bracket [120] [97; 93; 120]) <> ROk [FStr (VStr [97; 93; 120]) (Some [120])]) /\
  (str_ok [120] [97; 13; 98] = true /\
   read_top uni0 (fun _ => None) (render_bracket [120] [97; 13; 98]) = ROk [FStr (VStr [97; 10; 98]) (Some [120])]) /\
  (str_ok [102] [97] = true /\
   read_top uni0 (fun _ => None) (render_bracket [102] [97]) = ROther).
Proof.
  split; [|split]; split; try (vm_compute; reflexivity).
  vm_compute. discriminate.
Qed.
