(* Entry points evaluated by props/c26.py. *)
From HyV Require Import Base.Text Gen.LitTables Lit.Strings Lit.StringsRun Lit.Numeric Lit.NumericRun Lit.Ctor.

Definition enc_form (f : form) : list N :=
  match f with
  | FSym t => 1 :: enc_text t
  | FKw t => 2 :: enc_text t
  | FNum n => 3 :: enc_num n
  | FDotted h ps => 4 :: enc_text h ++ N.of_nat (length ps) :: flat_map enc_text ps
  | FStr v b => 5 :: (match v with VStr t => 0 :: enc_text t | VBytes t => 1 :: enc_text t end)
                  ++ (match b with Some d => 1 :: enc_text d | None => [0] end)
  end.

(* [1; n; forms...]  [2] lex  [3] premature  [4] a form outside the token-level fragment *)
Definition enc_rout (r : rout) : list N :=
  match r with
  | ROk l => 1 :: N.of_nat (length l) :: flat_map enc_form l
  | RLex => [2]
  | RPremature => [3]
  | ROther => [4]
  end.

Definition m_read (ut : list (N * (bool * bool * option N))) (lt : list (text * N)) (s : text) : list N :=
  enc_rout (read_top (mk_uni ut) (mk_lookup lt) s).
Definition m_sym_ok (ut : list (N * (bool * bool * option N))) (s : text) : list N := [enc_bool (sym_ok (mk_uni ut) s)].
Definition m_kw_ok (s : text) : list N := [enc_bool (kw_ok s)].
Definition m_str_ok (d s : text) : list N := [enc_bool (str_ok d s)].
Definition m_render_bracket (d s : text) : list N := render_bracket d s.
