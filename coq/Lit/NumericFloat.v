(* C22: strtod on a rendered mantissa; float and imaginary literals. *)
From HyV Require Import Base.Text Gen.LitTables Lit.Numeric Lit.NumericSpec Lit.NumericProofs Lit.NumericInt.
From Coq Require Import ZArith Lia.

Definition dfold (ds : text) (acc : N) : N := fold_left (fun a c => a * 10 + (c - 48)) ds acc.

Lemma dfold_dig_fold : forall ds acc, all_dec ds = true -> dfold ds acc = dig_fold 10 ds acc.
Proof.
  induction ds as [|c r IH]; intros acc H; [reflexivity|].
  simpl in H. apply andb_true_iff in H. destruct H as [Hc Hr].
  unfold dfold, dig_fold. simpl. rewrite (dec_digit_value c Hc). apply IH. exact Hr.
Qed.

Lemma dig_fold_app base a b acc : dig_fold base (a ++ b) acc = dig_fold base b (dig_fold base a acc).
Proof. unfold dig_fold. apply fold_left_app. Qed.

Definition starts_nondigit (s : text) : bool := match s with [] => true | c :: _ => negb (is_dec c) end.

Lemma dec_run_app : forall ds rest acc n, all_dec ds = true -> starts_nondigit rest = true ->
  dec_run (ds ++ rest) acc n = (dig_fold 10 ds acc, (n + length ds)%nat, rest).
Proof.
  induction ds as [|c r IH]; intros rest acc n H S.
  - simpl. rewrite Nat.add_0_r. destruct rest as [|x rest']; [reflexivity|].
    simpl in S. apply negb_true_iff in S. simpl. rewrite S. reflexivity.
  - simpl in H. apply andb_true_iff in H. destruct H as [Hc Hr]. simpl app. cbn [dec_run]. rewrite Hc.
    rewrite (IH rest _ _ Hr S). unfold dig_fold. simpl. rewrite (dec_digit_value c Hc). do 2 f_equal. lia.
Qed.

(* what may follow a number: not a digit, a point or an exponent marker *)
Definition safe_rest (s : text) : bool :=
  match s with [] => true | c :: _ => negb (is_dec c) && negb (c =? ch_dot) && negb (lower_is c ch_e) end.

Lemma safe_nondigit s : safe_rest s = true -> starts_nondigit s = true.
Proof. destruct s as [|c r]; [trivial|]. simpl. intros H. apply andb_true_iff in H. destruct H as [H _]. apply andb_true_iff in H. tauto. Qed.

Lemma dec_not_sign c : is_dec c = true -> (c =? ch_minus) = false /\ (c =? ch_plus) = false /\ (c =? ch_dot) = false /\ lower_is c ch_e = false.
Proof.
  intros H. apply dec_bounds in H. unfold lower_is, ch_e, ch_minus, ch_plus, ch_dot.
  repeat split; try (apply N.eqb_neq; lia). apply orb_false_iff. split; apply N.eqb_neq; lia.
Qed.

Lemma exponent_rendered ex rest : wf_opt_expo ex = true -> safe_rest rest = true ->
  exponent ((match ex with Some e => render_expo e | None => [] end) ++ rest) = (expo_value ex, rest).
Proof.
  intros W S. destruct ex as [[[upper sign] ds]|].
  - cbn [wf_opt_expo wf_expo] in W. apply andb_true_iff in W. destruct W as [NE AD].
    destruct ds as [|d ds']; [discriminate|].
    assert (Hd : is_dec d = true) by (simpl in AD; apply andb_true_iff in AD; tauto).
    destruct (dec_not_sign d Hd) as (D1 & D2 & _).
    assert (EX : forall tl, exponent ((if upper then ch_E else ch_e) :: tl) =
                 let '(eneg, r1) := take_sign tl in
                 let '(ev, nev, r2) := dec_run r1 0 O in
                 if Nat.eqb nev O then (0%Z, (if upper then ch_E else ch_e) :: tl)
                 else ((if eneg then Z.opp (Z.of_N ev) else Z.of_N ev), r2)).
    { intros tl. destruct upper; reflexivity. }
    unfold render_expo. simpl app. rewrite EX.
    assert (TS : take_sign ((match sign with Some true => [ch_minus] | Some false => [ch_plus] | None => [] end) ++ (d :: ds') ++ rest)
                 = (match sign with Some true => true | _ => false end, (d :: ds') ++ rest)).
    { destruct sign as [[|]|]; simpl; [reflexivity | reflexivity |]. rewrite D1, D2. reflexivity. }
    rewrite <- app_assoc. rewrite TS.
    rewrite (dec_run_app (d :: ds') rest 0 O AD (safe_nondigit rest S)).
    cbn [length Nat.add Nat.eqb]. unfold expo_value, digits_value. fold (dig_fold 10 (d :: ds') 0).
    destruct sign as [[|]|]; reflexivity.
  - simpl. destruct rest as [|c r]; [reflexivity|].
    simpl in S. apply andb_true_iff in S. destruct S as [_ S]. apply negb_true_iff in S.
    unfold exponent. rewrite S. reflexivity.
Qed.

Lemma nonempty_length ds : nonempty ds = true -> length ds <> O.
Proof. destruct ds; [discriminate | discriminate]. Qed.

Lemma mantissa_rendered ip fp tail : wf_mant ip fp = true ->
  (match fp with Some _ => safe_rest tail = true \/ (exists c r, tail = c :: r /\ lower_is c ch_e = true)
               | None => starts_nondigit tail = true /\ match tail with c :: _ => (c =? ch_dot) = false | [] => True end end) ->
  exists nd, nd <> O /\
  mantissa (ip ++ (match fp with Some f => ch_dot :: f | None => [] end) ++ tail) =
    (digits_value 10 (ip ++ frac_digits fp), nd, length (frac_digits fp), tail).
Proof.
  intros W T. unfold wf_mant in W. apply andb_true_iff in W. destruct W as [W NE]. apply andb_true_iff in W. destruct W as [AI AF].
  unfold mantissa. destruct fp as [f|].
  - cbn [wf_frac] in AF. cbn [frac_digits].
    assert (ND : starts_nondigit tail = true).
    { destruct T as [T | (c & r & -> & L)]; [apply safe_nondigit; exact T|].
      simpl. destruct (is_dec c) eqn:D; [|reflexivity]. destruct (dec_not_sign c D) as (_ & _ & _ & X). congruence. }
    change ((ch_dot :: f) ++ tail) with (ch_dot :: f ++ tail).
    rewrite (dec_run_app ip (ch_dot :: f ++ tail) 0 O AI eq_refl).
    change (ch_dot =? ch_dot) with true. cbv iota.
    rewrite (dec_run_app f tail _ O AF ND).
    exists (0 + length ip + (0 + length f))%nat. split.
    + destruct ip; destruct f; simpl in *; try discriminate; lia.
    + unfold digits_value. fold (dig_fold 10 (ip ++ f) 0). rewrite dig_fold_app. reflexivity.
  - cbn [frac_digits]. rewrite app_nil_r. destruct T as [ND TD]. simpl app.
    rewrite (dec_run_app ip tail 0 O AI ND).
    exists (0 + length ip)%nat. split.
    + rewrite orb_false_r in NE. destruct ip; [discriminate | simpl; lia].
    + destruct tail as [|c r]; [reflexivity|]. rewrite TD. reflexivity.
Qed.

Lemma render_mant_head ip fp ex rest : wf_mant ip fp = true ->
  take_sign (render_mant ip fp ex ++ rest) = (false, render_mant ip fp ex ++ rest).
Proof.
  intros W. unfold wf_mant in W. apply andb_true_iff in W. destruct W as [W NE]. apply andb_true_iff in W. destruct W as [AI AF].
  unfold render_mant. destruct ip as [|c r].
  - simpl in NE. destruct fp as [f|]; [|discriminate]. reflexivity.
  - simpl in AI. apply andb_true_iff in AI. destruct AI as [Hc _]. destruct (dec_not_sign c Hc) as (A & B & _).
    simpl. rewrite A, B. reflexivity.
Qed.

(* strtod on a rendered mantissa [+ exponent] followed by anything that cannot extend it *)
Lemma strtod_rendered ip fp ex rest : wf_mant ip fp = true -> wf_opt_expo ex = true -> safe_rest rest = true ->
  strtod (render_mant ip fp ex ++ rest) = Some (mant_value ip fp ex, rest).
Proof.
  intros WM WE S. unfold strtod. rewrite (render_mant_head ip fp ex rest WM).
  unfold render_mant. rewrite <- !app_assoc.
  set (tail := (match ex with Some e => render_expo e | None => [] end) ++ rest).
  assert (T : match fp with
              | Some _ => safe_rest tail = true \/ (exists c r, tail = c :: r /\ lower_is c ch_e = true)
              | None => starts_nondigit tail = true /\ match tail with c :: _ => (c =? ch_dot) = false | [] => True end
              end).
  { unfold tail. destruct ex as [[[upper sign] ds]|].
    - assert (L : lower_is (if upper then ch_E else ch_e) ch_e = true) by (destruct upper; reflexivity).
      destruct fp; [right; eexists; eexists; split; [reflexivity | exact L]|].
      split; destruct upper; reflexivity.
    - simpl app. destruct fp; [left; exact S|]. split; [apply safe_nondigit; exact S|].
      destruct rest as [|c r]; [exact I|]. simpl in S. apply andb_true_iff in S. destruct S as [S _].
      apply andb_true_iff in S. destruct S as [_ S]. apply negb_true_iff in S. exact S. }
  destruct (mantissa_rendered ip fp tail WM T) as (nd & NZ & M).
  replace (ip ++ (match fp with Some f => ch_dot :: f | None => [] end) ++ (match ex with Some e => render_expo e | None => [] end) ++ rest)
    with (ip ++ (match fp with Some f => ch_dot :: f | None => [] end) ++ tail) by reflexivity.
  rewrite M. destruct nd as [|nd']; [congruence|]. cbn [Nat.eqb].
  unfold tail. rewrite (exponent_rendered ex rest WE S). reflexivity.
Qed.

Section Float.
Variable U : uni.

Lemma render_mant_ascii ip fp ex : wf_mant ip fp = true -> wf_opt_expo ex = true ->
  forallb num_char (render_mant ip fp ex) = true.
Proof.
  intros W WE. unfold wf_mant in W. apply andb_true_iff in W. destruct W as [W _]. apply andb_true_iff in W. destruct W as [AI AF].
  assert (D : forall ds, all_dec ds = true -> forallb num_char ds = true).
  { intros ds H. apply (forallb_impl is_dec num_char); [|exact H]. intros x Hx. unfold num_char. rewrite Hx. reflexivity. }
  unfold render_mant. rewrite !forallb_app. rewrite (D ip AI). cbn [andb].
  apply andb_true_iff. split.
  - destruct fp as [f|]; [|reflexivity]. cbn [wf_frac] in AF. simpl. rewrite (D f AF). reflexivity.
  - destruct ex as [[[upper sign] ds]|]; [|reflexivity].
    cbn [wf_opt_expo wf_expo] in WE. apply andb_true_iff in WE. destruct WE as [_ AD].
    unfold render_expo. cbn [forallb]. rewrite forallb_app, (D ds AD).
    destruct upper, sign as [[|]|]; reflexivity.
Qed.

Lemma num_char_ascii c : num_char c = true -> is_ascii c = true /\ is_sep c = false /\ c_isspace c = false /\ (c =? ch_us) = false.
Proof.
  unfold num_char. intros H. apply orb_true_iff in H. destruct H as [H|H].
  - pose proof (dec_bounds c H). repeat split; [apply dec_ascii; exact H | apply dec_not_sep; exact H | apply dec_not_space; exact H |].
    apply N.eqb_neq. unfold ch_us. lia.
  - apply mem_In in H. simpl in H.
    repeat (destruct H as [H|H]; [subst c; repeat split; reflexivity|]). contradiction.
Qed.

Lemma num_chars_facts s : forallb num_char s = true ->
  forallb is_ascii s = true /\ forallb (fun c => negb (is_sep c)) s = true /\ mem ch_us s = false.
Proof.
  induction s as [|c r IH]; intros H; [repeat split; reflexivity|].
  simpl in H. apply andb_true_iff in H. destruct H as [Hc Hr].
  destruct (num_char_ascii c Hc) as (A & B & _ & D). destruct (IH Hr) as (X & Y & Z).
  split; [|split].
  - simpl. rewrite A, X. reflexivity.
  - simpl. rewrite B, Y. reflexivity.
  - unfold mem in *. cbn [existsb]. rewrite (N.eqb_sym ch_us c), D. exact Z.
Qed.

Lemma rstrip_nospace s x : c_isspace x = false -> rstrip_space (s ++ [x]) = s ++ [x].
Proof. intros H. unfold rstrip_space. rewrite rev_app_distr. simpl. rewrite H. simpl. rewrite rev_involutive. reflexivity. Qed.

Lemma last_split (s : text) : s <> [] -> exists r x, s = r ++ [x].
Proof. intros H. destruct (exists_last H) as (r & x & E). exists r, x. exact E. Qed.

(* float(text) for a text of numeric characters that starts with a digit or a point: no stripping happens *)
Lemma py_float_plain s : forallb num_char s = true -> s <> [] ->
  (match s with c :: _ => c_isspace c = false | [] => True end) ->
  py_float U s = match strtod s with Some (f, []) => Some f | _ => None end.
Proof.
  intros H NE HS. destruct (num_chars_facts s H) as (A & _ & NU).
  unfold py_float. rewrite (to_ascii_ascii U s A).
  assert (DW : dropwhile c_isspace s = s) by (destruct s as [|c r]; [reflexivity|]; simpl; rewrite HS; reflexivity).
  rewrite DW. destruct (last_split s NE) as (r & x & E).
  assert (XS : c_isspace x = false).
  { rewrite E in H. rewrite forallb_app in H. apply andb_true_iff in H. destruct H as [_ H]. simpl in H.
    apply andb_true_iff in H. destruct H as [H _]. apply (num_char_ascii x H). }
  rewrite E at 1. rewrite (rstrip_nospace r x XS). rewrite <- E.
  unfold strip_us. rewrite NU. reflexivity.
Qed.

End Float.
