(* C22: digit separators are transparent; a+bj; NaN / Inf are case-sensitive; the oracle is not
   consulted on ASCII text. *)
From HyV Require Import Base.Text Gen.LitTables Lit.Numeric Lit.NumericSpec Lit.NumericProofs Lit.NumericInt Lit.NumericFloat Lit.NumericLit.
From Coq Require Import ZArith Lia.

(* ------------------------------------------------------------------ suffixes *)

Definition suffix (r s : text) : Prop := exists p, s = p ++ r.
Lemma suffix_refl s : suffix s s. Proof. exists []. reflexivity. Qed.
Lemma suffix_cons c r s : suffix r s -> suffix r (c :: s). Proof. intros [p ->]. exists (c :: p). reflexivity. Qed.
Lemma suffix_trans a b c : suffix a b -> suffix b c -> suffix a c.
Proof. intros [p ->] [q ->]. exists (q ++ p). rewrite app_assoc. reflexivity. Qed.
Lemma suffix_forallb (P : N -> bool) r s : suffix r s -> forallb P s = true -> forallb P r = true.
Proof. intros [p ->] H. rewrite forallb_app in H. apply andb_true_iff in H. tauto. Qed.

Lemma dec_run_suffix : forall s acc n v k r, dec_run s acc n = (v, k, r) -> suffix r s.
Proof.
  induction s as [|c s IH]; intros acc n v k r H; simpl in H.
  - inversion H; subst. apply suffix_refl.
  - destruct (is_dec c); [apply suffix_cons; eapply IH; exact H | inversion H; subst; apply suffix_refl].
Qed.

Lemma take_sign_suffix s : suffix (snd (take_sign s)) s.
Proof.
  unfold take_sign. destruct s as [|c r]; [apply suffix_refl|].
  destruct (c =? ch_minus); [apply suffix_cons, suffix_refl|].
  destruct (c =? ch_plus); [apply suffix_cons, suffix_refl | apply suffix_refl].
Qed.

Lemma mantissa_suffix s m nd nfr r : mantissa s = (m, nd, nfr, r) -> suffix r s.
Proof.
  unfold mantissa. destruct (dec_run s 0 O) as [[ip nip] s2] eqn:D1. pose proof (dec_run_suffix _ _ _ _ _ _ D1) as S1.
  destruct s2 as [|c r2]; [intros H; inversion H; subst; exact S1|].
  destruct (c =? ch_dot).
  - destruct (dec_run r2 ip O) as [[m' nfr'] s3] eqn:D2. intros H. inversion H; subst.
    eapply suffix_trans; [eapply dec_run_suffix; exact D2|]. eapply suffix_trans; [|exact S1]. apply suffix_cons, suffix_refl.
  - intros H. inversion H; subst. exact S1.
Qed.

Lemma exponent_suffix s e r : exponent s = (e, r) -> suffix r s.
Proof.
  unfold exponent. destruct s as [|c s']; [intros H; inversion H; apply suffix_refl|].
  destruct (lower_is c ch_e); [|intros H; inversion H; apply suffix_refl].
  pose proof (take_sign_suffix s') as TS. destruct (take_sign s') as [eneg r1]. simpl in TS.
  destruct (dec_run r1 0 O) as [[ev nev] r2] eqn:D. destruct (Nat.eqb nev O); intros H; inversion H; subst; [apply suffix_refl|].
  apply suffix_cons. eapply suffix_trans; [eapply dec_run_suffix; exact D | exact TS].
Qed.

(* ------------------------------------------------------------------ texts that cannot spell inf or nan *)


Lemma num_char_not_letter c : num_char c = true -> lower_is c 105 = false /\ lower_is c 110 = false /\ (c =? ch_lpar) = false /\ c_isspace c = false.
Proof.
  unfold num_char. intros H. apply orb_true_iff in H. destruct H as [H|H].
  - pose proof (dec_bounds c H). split; [|split; [|split]].
    + unfold lower_is. apply orb_false_iff; split; apply N.eqb_neq; lia.
    + unfold lower_is. apply orb_false_iff; split; apply N.eqb_neq; lia.
    + apply N.eqb_neq. unfold ch_lpar. lia.
    + apply (dec_not_space c H).
  - apply mem_In in H. simpl in H. repeat (destruct H as [H|H]; [subst c; repeat split; reflexivity|]). contradiction.
Qed.

Lemma parse_inf_nan_plain s : forallb num_char s = true -> parse_inf_nan s = None.
Proof.
  intros H. unfold parse_inf_nan. pose proof (take_sign_suffix s) as TS. destruct (take_sign s) as [neg s1]. simpl in TS.
  pose proof (suffix_forallb _ _ _ TS H) as H1. destruct s1 as [|c r]; [reflexivity|].
  simpl in H1. apply andb_true_iff in H1. destruct H1 as [Hc _]. destruct (num_char_not_letter c Hc) as (A & B & _).
  cbn [match_ci]. rewrite A, B. reflexivity.
Qed.

Lemma strtod_plain s f r : forallb num_char s = true -> strtod s = Some (f, r) -> is_fin f /\ suffix r s.
Proof.
  intros H. unfold strtod. pose proof (take_sign_suffix s) as TS. destruct (take_sign s) as [neg s1]. simpl in TS.
  destruct (mantissa s1) as [[[m nd] nfr] s3] eqn:M. pose proof (mantissa_suffix _ _ _ _ _ M) as MS.
  destruct (Nat.eqb nd O); [rewrite (parse_inf_nan_plain s H); discriminate|].
  destruct (exponent s3) as [ex s4] eqn:E. pose proof (exponent_suffix _ _ _ E) as ES.
  intros X. inversion X; subst. split; [exact I|].
  eapply suffix_trans; [exact ES|]. eapply suffix_trans; [exact MS | exact TS].
Qed.

Lemma cx_body_plain s x y rest : forallb num_char s = true -> cx_body s = Some (x, y, rest) -> is_fin x /\ is_fin y.
Proof.
  intros H. unfold cx_body.
  destruct (strtod s) as [[z s1]|] eqn:ST.
  - destruct (strtod_plain s z s1 H ST) as [FZ SF]. pose proof (suffix_forallb _ _ _ SF H) as H1.
    destruct s1 as [|c r]; [intros X; inversion X; subst; split; [exact FZ | exact I]|].
    destruct ((c =? ch_plus) || (c =? ch_minus)).
    + destruct (strtod (c :: r)) as [[y0 s2]|] eqn:ST2.
      * destruct (strtod_plain _ y0 s2 H1 ST2) as [FY _].
        destruct s2 as [|d r2]; [discriminate|]. destruct (is_j d); [|discriminate].
        intros X. inversion X; subst. split; assumption.
      * destruct r as [|d r2]; [discriminate|]. destruct (is_j d); [|discriminate].
        intros X. inversion X; subst. split; [exact FZ | exact I].
    + destruct (is_j c); intros X; inversion X; subst; split; try exact I; exact FZ.
  - destruct s as [|c r]; [discriminate|].
    destruct (c =? ch_plus).
    + destruct r as [|d r2]; [discriminate|]. destruct (is_j d); [|discriminate].
      intros X. inversion X; subst. split; exact I.
    + destruct (c =? ch_minus).
      * destruct r as [|d r2]; [discriminate|]. destruct (is_j d); [|discriminate].
        intros X. inversion X; subst. split; exact I.
      * destruct (is_j c); [|discriminate]. intros X. inversion X; subst. split; exact I.
Qed.

Lemma complex_inner_plain s re im : forallb num_char s = true -> complex_inner s = Some (re, im) -> is_fin re /\ is_fin im.
Proof.
  intros H. unfold complex_inner. rewrite cx_open_plain.
  2:{ destruct s as [|c r]; [exact I|]. simpl in H. apply andb_true_iff in H. destruct H as [Hc _].
      destruct (num_char_not_letter c Hc) as (_ & _ & LP & SP). split; assumption. }
  destruct (cx_body s) as [[[x y] rest]|] eqn:B; [|discriminate].
  destruct (cx_close false rest); [|discriminate]. intros X. inversion X; subst. apply (cx_body_plain s re im rest H B).
Qed.

(* ------------------------------------------------------------------ separator insertion *)

Lemma sep_ins_remove : forall t t', sep_ins t t' -> remove_seps t' = remove_seps t.
Proof.
  induction 1 as [| c t t' H IH | s t t' Hs H IH]; [reflexivity | |].
  - unfold remove_seps in *. simpl. rewrite IH. reflexivity.
  - unfold remove_seps in *. simpl. rewrite Hs. simpl. exact IH.
Qed.

Lemma sep_ins_same_or_sep : forall t t', sep_ins t t' -> t' = t \/ existsb is_sep t' = true.
Proof.
  induction 1 as [| c t t' H IH | s t t' Hs H IH]; [left; reflexivity | |].
  - destruct IH as [-> | E]; [left; reflexivity | right; simpl; rewrite E; apply orb_true_r].
  - right. simpl. rewrite Hs. reflexivity.
Qed.

Lemma sep_ins_nil t : sep_ins t [] -> t = [].
Proof. intros H. inversion H. reflexivity. Qed.

Lemma sep_ins_mem : forall t t', sep_ins t t' -> forall k, is_sep k = false -> mem k t' = mem k t.
Proof.
  induction 1 as [| c t t' H IH | s t t' Hs H IH]; intros k K; [reflexivity | |].
  - unfold mem in *. cbn [existsb]. rewrite (IH k K). reflexivity.
  - unfold mem in *. cbn [existsb]. rewrite (IH k K).
    assert (E : (k =? s) = false) by (apply N.eqb_neq; intros ->; congruence). rewrite E. reflexivity.
Qed.

Lemma sep_ins_noi t t' c : sep_ins t t' -> has_i (c :: t') = has_i (c :: t).
Proof.
  intros H. unfold has_i, mem. cbn [existsb]. fold (mem 105 t') (mem 73 t') (mem 304 t') (mem 105 t) (mem 73 t) (mem 304 t).
  rewrite (sep_ins_mem t t' H 105 eq_refl), (sep_ins_mem t t' H 73 eq_refl), (sep_ins_mem t t' H 304 eq_refl). reflexivity.
Qed.

Section Sep.
Variable U : uni.

Lemma sep_not_digit s : is_sep s = true -> isdigit_ch U s = false.
Proof.
  rewrite is_sep_spec. intros H. apply orb_true_iff in H. destruct H as [H|H]; apply N.eqb_eq in H; subst; reflexivity.
Qed.

Lemma has_sep_not_isdigit c t : existsb is_sep t = true -> isdigit_str U (c :: t) = false.
Proof.
  intros H. unfold isdigit_str. simpl. apply andb_false_iff. right.
  induction t as [|x t IH]; [discriminate|]. simpl in *. apply orb_true_iff in H. destruct H as [H|H].
  - rewrite (sep_not_digit x H). reflexivity.
  - rewrite (IH H). apply andb_false_r.
Qed.

(* Separators inserted anywhere after the first character of a text of numeric characters do not change
   how it reads -- provided that, if the text is a plain digit string, base 0 and base 10 agree on it
   (they do not for a decimal integer with a leading zero: see C22_leading_zero_refuted). *)
Theorem separators_transparent : forall c t t',
  forallb num_char (c :: t) = true -> sep_ins t t' ->
  existsb (text_eqb (c :: t)) complex_bare_excluded = false ->
  (isdigit_str U (c :: t) = true -> py_int U true (c :: t) = py_int U false (c :: t)) ->
  numeric U (c :: t') = numeric U (c :: t).
Proof.
  intros c t t' NC SI NB BASE.
  destruct (sep_ins_same_or_sep t t' SI) as [-> | HS]; [reflexivity|].
  destruct (num_chars_facts (c :: t) NC) as (AA & NS & _).
  assert (RT : remove_seps t = t).
  { apply remove_seps_id. simpl in NS. apply andb_true_iff in NS. tauto. }
  assert (SS : strip_seps (c :: t') = c :: t).
  { destruct t' as [|x t'']; [discriminate HS|]. unfold strip_seps. rewrite (sep_ins_remove t _ SI), RT. reflexivity. }
  assert (SS0 : strip_seps (c :: t) = c :: t) by (apply strip_seps_id; exact NS).
  rewrite !numeric_from_parts.
  assert (HI : hy_integer U (c :: t') = hy_integer U (c :: t)).
  { unfold hy_integer. rewrite SS, SS0, (has_sep_not_isdigit c t' HS). cbn [negb].
    destruct (isdigit_str U (c :: t)) eqn:D; [apply BASE; reflexivity | reflexivity]. }
  rewrite HI. destruct (hy_integer U (c :: t)); [reflexivity|].
  assert (NE : c :: t <> []) by discriminate.
  assert (FS : match c :: t with x :: _ => c_isspace x = false | [] => True end).
  { simpl in NC. apply andb_true_iff in NC. destruct NC as [Hc _]. apply (num_char_not_letter c Hc). }
  assert (HF : hy_float U (c :: t') = hy_float U (c :: t)).
  { unfold hy_float. rewrite SS, SS0. rewrite (py_float_plain U (c :: t) NC NE FS).
    destruct (strtod (c :: t)) as [[f r]|] eqn:ST; [|reflexivity].
    destruct (strtod_plain _ f r NC ST) as [FF _]. destruct r; [|reflexivity].
    pose proof (num_char_noi _ NC) as NI. pose proof NI as NI'. rewrite <- (sep_ins_noi t t' c SI) in NI'.
    rewrite (cap_ok_fin_noi _ f FF NI), (cap_ok_fin_noi _ f FF NI'). reflexivity. }
  rewrite HF. destruct (hy_float U (c :: t)); [reflexivity|].
  assert (NB' : existsb (text_eqb (c :: t')) complex_bare_excluded = false).
  { rewrite bare_j_are. destruct t' as [|x t'']; [discriminate HS|]. cbn [existsb text_eqb]. rewrite !andb_false_r. reflexivity. }
  rewrite NB, NB'.
  destruct (plain_text_facts U (c :: t) NC) as (_ & TA & SU & _).
  assert (HC : hy_complex U (c :: t') = hy_complex U (c :: t)).
  { destruct (py_complex U (c :: t)) as [[re im]|] eqn:PC.
    - assert (FIN : is_fin re /\ is_fin im).
      { unfold py_complex in PC. rewrite TA, SU in PC. apply (complex_inner_plain _ _ _ NC PC). }
      destruct FIN as [FR FI].
      pose proof (num_char_noi _ NC) as NI. pose proof NI as NI'. rewrite <- (sep_ins_noi t t' c SI) in NI'.
      rewrite (hy_complex_fin U (c :: t') re im); [| rewrite SS; exact PC | exact NI' | exact FR | exact FI].
      rewrite (hy_complex_fin U (c :: t) re im); [reflexivity | rewrite SS0; exact PC | exact NI | exact FR | exact FI].
    - unfold hy_complex. rewrite SS, SS0, PC. reflexivity. }
  rewrite HC. reflexivity.
Qed.

(* Python literals with underscores, and every other separator placement after the first character:
   they read as their underscore-free core.  (A decimal literal never has a leading zero unless it is
   zero, so the base condition holds.) *)
Lemma leading_rule_bases : forall ds, wf (CDec ds) = true -> py_int U true ds = py_int U false ds.
Proof.
  intros ds W. cbn [wf] in W. apply andb_true_iff in W. destruct W as [W LZ]. apply andb_true_iff in W. destruct W as [NE AD].
  destruct ds as [|c r]; [discriminate|].
  rewrite (py_int10_digits U (c :: r) ltac:(discriminate) AD).
  assert (Hc : is_dec c = true) by (simpl in AD; apply andb_true_iff in AD; tauto).
  pose proof (dec_bounds c Hc) as Bc.
  unfold py_int. rewrite to_ascii_ascii by (apply (forallb_impl is_dec is_ascii); [apply dec_ascii | exact AD]).
  cbn [dropwhile]. rewrite (dec_not_space c Hc).
  assert (E1 : int_sign (c :: r) = (false, c :: r)).
  { unfold int_sign.
    replace (c =? ch_plus) with false by (symmetry; apply N.eqb_neq; unfold ch_plus; lia).
    replace (c =? ch_minus) with false by (symmetry; apply N.eqb_neq; unfold ch_minus; lia). reflexivity. }
  rewrite E1.
  assert (FIN : forall oo, (oo = true -> digits_value 10 (c :: r) = 0) ->
            int_finish false 10 oo (c :: r) = Some (Z.of_N (dec_value (c :: r)))).
  { intros oo HO. unfold int_finish.
    replace (c =? ch_us) with false by (symmetry; apply N.eqb_neq; unfold ch_us; lia).
    rewrite (int_digits_all 10 ltac:(lia) (c :: r) 0 O).
    2:{ apply (forallb_impl is_dec (fun c => digit_value c <? 10)); [apply dec_digit_lt10 | exact AD]. }
    cbn [length Nat.add Nat.eqb]. rewrite dig_fold_0.
    unfold dec_value. destruct oo; cbn [andb]; [rewrite (HO eq_refl); reflexivity | reflexivity]. }
  assert (SK : int_skip_prefix 10 (c :: r) = c :: r).
  { unfold int_skip_prefix. destruct r as [|d r']; [reflexivity|].
    change (10 =? 16) with false. change (10 =? 8) with false. change (10 =? 2) with false.
    cbn [andb orb]. rewrite andb_false_r. reflexivity. }
  apply orb_true_iff in LZ. destruct LZ as [LZ | LZ].
  - (* starts with a non-zero digit: base 0 picks base 10 *)
    assert (B : int_base true (c :: r) = (10, false)).
    { unfold int_base. destruct r as [|d r']; cbn [negb] in *; [apply negb_true_iff in LZ; rewrite LZ; reflexivity|].
      rewrite LZ. reflexivity. }
    rewrite B, SK. apply FIN. discriminate.
  - (* all zeros: the old-octal path accepts zero *)
    assert (ZV : forall zs, forallb (fun c => c =? ch_zero) zs = true -> dig_fold 10 zs 0 = 0).
    { induction zs as [|z zs IH]; intros HZ; [reflexivity|].
      simpl in HZ. apply andb_true_iff in HZ. destruct HZ as [Hz Hzs]. apply N.eqb_eq in Hz. subst z.
      unfold dig_fold in *. simpl fold_left. change (0 * 10 + digit_value ch_zero) with 0. apply IH. exact Hzs. }
    assert (V0 : digits_value 10 (c :: r) = 0).
    { rewrite <- dig_fold_0. apply ZV. exact LZ. }
    assert (C0 : c = ch_zero) by (simpl in LZ; apply andb_true_iff in LZ; destruct LZ as [X _]; apply N.eqb_eq in X; exact X).
    assert (B : exists oo, int_base true (c :: r) = (10, oo)).
    { unfold int_base. subst c. destruct r as [|d r']; [eexists; reflexivity|].
      cbn [negb]. change (negb (ch_zero =? ch_zero)) with false. cbv iota.
      cbn [forallb] in LZ. rewrite N.eqb_refl in LZ. cbn [andb] in LZ. apply andb_true_iff in LZ. destruct LZ as [D0 _].
      apply N.eqb_eq in D0. subst d. eexists. reflexivity. }
    destruct B as [oo B]. rewrite B, SK. apply FIN. intros _. exact V0.
Qed.

End Sep.
