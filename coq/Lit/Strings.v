(* C23 -- model of the string-literal readers of hy/reader/hy_reader.py:
     HyReader.prefixed_string (prefix validation, quote_closing),
     HyReader.read_chars_until (newline normalisation, bytes ASCII test, the two decoding pipelines),
     HyReader.bracketed_string (delimiter, dropped newline, delim_closing) together with the
     check of hy.models.String.__new__ that the reader's result passes through,
   plus hand models of the two CPython decoders the code calls
     codecs.escape_decode            (bytes)
     bytes.decode("unicode_escape")  (after .encode("ISO-8859-1", "backslashreplace"))
   written as one character-at-a-time automaton [feed].  The same automaton run in
   [strict] mode directly on code points is the reference semantics of a Python literal body
   (an escape Python does not recognise has no value there).  Both uses are validated against
   the running interpreter by props/c23.py.
   Tables (escape whitelist, prefix alphabet, ...) come from Gen/LitTables.v. *)
From HyV Require Import Base.Text Gen.LitTables.

Definition ch_bs : N := 92.      (* backslash *)
Definition ch_dq : N := 34.      (* double quote *)
Definition ch_lf : N := 10.
Definition ch_cr : N := 13.
Definition ch_lbr : N := 91.     (* [ *)
Definition ch_rbr : N := 93.     (* ] *)
Definition ch_lbrace : N := 123.
Definition ch_rbrace : N := 125.
Definition ch_r : N := 114.
Definition ch_b : N := 98.
Definition ch_f : N := 102.
Definition ch_t : N := 116.

Inductive lexkind := EPrefix | EEscape | EBytesAscii | EDecode | EClose | ECtor.

(* what a handler does: a value and the unread rest, a LexException (the kind is the message
   class), PrematureEndOfInput, or the f-string path (FString model or an error -- never a
   String/Bytes model; its details belong to C24) *)
Inductive outcome (A : Type) := Ok (a : A) | Lex (k : lexkind) | Premature | FStringPath.
Arguments Ok {A} _. Arguments Lex {A} _. Arguments Premature {A}. Arguments FStringPath {A}.

Definition omap {A B} (f : A -> B) (o : outcome A) : outcome B :=
  match o with Ok a => Ok (f a) | Lex k => Lex k | Premature => Premature | FStringPath => FStringPath end.

Inductive sval := VStr (t : text) | VBytes (b : text).

(* ------------------------------------------------------------------ decoders *)

Definition oct_val (c : N) : option N := if (48 <=? c) && (c <=? 55) then Some (c - 48) else None.
Definition hex_val (c : N) : option N :=
  if (48 <=? c) && (c <=? 57) then Some (c - 48)
  else if (97 <=? c) && (c <=? 102) then Some (c - 87)
  else if (65 <=? c) && (c <=? 70) then Some (c - 55) else None.

(* backslash, single quote, double quote, a b f n r t v *)
Definition simple_escapes : list (N * N) :=
  [(92, 92); (39, 39); (34, 34); (97, 7); (98, 8); (102, 12); (110, 10); (114, 13); (116, 9); (118, 11)].
Fixpoint assoc (c : N) (l : list (N * N)) : option N :=
  match l with [] => None | (k, v) :: r => if c =? k then Some v else assoc c r end.
Definition simple_escape (c : N) : option N := assoc c simple_escapes.

Inductive dstate :=
  | SNorm
  | SEsc                           (* just after a backslash *)
  | SOct (acc : N) (more : nat)    (* in an octal escape; up to [more] further digits *)
  | SHex (acc : N) (need : nat)    (* in \x \u \U; exactly [need] further hex digits required *)
  | SNameOpen                      (* after \N *)
  | SName (racc : text).           (* inside \N{ ; the name so far, reversed *)

Section Decoders.
(* unicodedata's name table as used by \N{...}; None = unknown name *)
Variable ulookup : text -> option N.
(* strict = reference semantics of a literal body (unrecognised escape: no value);
   non-strict = what the CPython codecs do (keep the backslash and the character).
   isb = bytes flavour (escape_decode): no \N \u \U, octal values taken mod 256. *)
Variable strict isb : bool.

Definition emit_oct (v : N) : N := if isb then v mod 256 else v.
Definition feed_norm (c : N) : dstate * text := if c =? ch_bs then (SEsc, []) else (SNorm, [c]).

Definition feed (st : dstate) (c : N) : option (dstate * text) :=
  match st with
  | SNorm => Some (feed_norm c)
  | SEsc =>
      if c =? ch_lf then Some (SNorm, [])
      else match simple_escape c with
      | Some v => Some (SNorm, [v])
      | None =>
        match oct_val c with
        | Some d => Some (SOct d 2, [])
        | None =>
          if c =? 120 then Some (SHex 0 2, [])
          else if negb isb && (c =? 117) then Some (SHex 0 4, [])
          else if negb isb && (c =? 85) then Some (SHex 0 8, [])
          else if negb isb && (c =? 78) then Some (SNameOpen, [])
          else if strict then None else Some (SNorm, [ch_bs; c])
        end
      end
  | SOct acc more =>
      match oct_val c with
      | Some d =>
          match more with
          | 2%nat => Some (SOct (acc * 8 + d) 1, [])
          | _ => Some (SNorm, [emit_oct (acc * 8 + d)])
          end
      | None => let '(st', out) := feed_norm c in Some (st', emit_oct acc :: out)
      end
  | SHex acc need =>
      match hex_val c with
      | None => None
      | Some d =>
          let v := acc * 16 + d in
          match need with
          | O => None
          | 1%nat => if v <? 1114112 then Some (SNorm, [v]) else None
          | S n => Some (SHex v n, [])
          end
      end
  | SNameOpen => if c =? ch_lbrace then Some (SName [], []) else None
  | SName a =>
      if c =? ch_rbrace then
        match a with
        | [] => None
        | _ => match ulookup (rev a) with Some ch => Some (SNorm, [ch]) | None => None end
        end
      else Some (SName (c :: a), [])
  end.

Definition dfinal (st : dstate) : option text :=
  match st with
  | SNorm => Some []
  | SOct acc _ => Some [emit_oct acc]
  | _ => None
  end.

Fixpoint run (st : dstate) (s : text) : option text :=
  match s with
  | [] => dfinal st
  | c :: r =>
      match feed st c with
      | None => None
      | Some (st', out) => match run st' r with Some t => Some (out ++ t) | None => None end
      end
  end.
End Decoders.

(* bytes.decode("unicode_escape") and codecs.escape_decode(_)[0]; None = the codec raises *)
Definition unicode_escape_decode (ulookup : text -> option N) (bs : text) : option text := run ulookup false false SNorm bs.
Definition escape_decode (bs : text) : option text := run (fun _ => None) false true SNorm bs.

(* str.encode("ISO-8859-1", errors="backslashreplace") *)
Definition hex_digit (d : N) : N := if d <? 10 then 48 + d else 87 + d.
Fixpoint hexn (k : nat) (n : N) : text :=
  match k with O => [] | S k' => hexn k' (n / 16) ++ [hex_digit (n mod 16)] end.
Definition bsr_char (c : N) : text :=
  if c <? 256 then [c]
  else if c <? 65536 then ch_bs :: 117 :: hexn 4 c
  else ch_bs :: 85 :: hexn 8 c.
Definition latin1_bsr (s : text) : text := flat_map bsr_char s.

(* ------------------------------------------------------------------ read_chars_until: newlines *)

(* "".join(s).replace("\r\n", "\n").replace("\r", "\n") -- the two passes *)
Fixpoint replace_crlf (s : text) : text :=
  match s with
  | [] => []
  | c :: r =>
      if c =? ch_cr then
        match r with
        | d :: r' => if d =? ch_lf then ch_lf :: replace_crlf r' else c :: replace_crlf r
        | [] => [c]
        end
      else c :: replace_crlf r
  end.
Definition replace_cr (s : text) : text := map (fun c => if c =? ch_cr then ch_lf else c) s.
Definition nl_norm (s : text) : text := replace_cr (replace_crlf s).

(* ------------------------------------------------------------------ prefixed_string *)

Definition subset (a b : text) : bool := forallb (fun c => mem c b) a.
Definition set_size (a : text) : nat := length (nodup N.eq_dec a).
Definition set_minus (a b : text) : text := filter (fun c => negb (mem c b)) a.

(* len(prefix_chars) != len(prefix) or not prefix_chars < set("bfrt") or len(prefix_chars - set("r")) > 1 *)
Definition prefix_invalid (p : text) : bool :=
  negb (Nat.eqb (set_size p) (length p))
  || negb (subset p str_prefix_alphabet && negb (subset str_prefix_alphabet p))
  || Nat.ltb 1 (set_size (set_minus p str_prefix_rawset)).

Definition whitelist (isb : bool) : text :=
  str_escape_common ++ (if isb then str_escape_ifbytes else str_escape_nonbytes).

(* read_chars_until driven by quote_closing: the characters up to the closing quote, and the rest.
   [esc] is quote_closing's nonlocal `escaping`. *)
Fixpoint scan_q (raw isb esc : bool) (s : text) : outcome (text * text) :=
  match s with
  | [] => Premature
  | c :: r =>
      if c =? ch_bs then omap (fun br => (c :: fst br, snd br)) (scan_q raw isb (negb esc) r)
      else if (c =? ch_dq) && negb esc then Ok ([], r)
      else if esc && negb raw && negb (mem c (whitelist isb)) then Lex EEscape
      else omap (fun br => (c :: fst br, snd br)) (scan_q raw isb false r)
  end.

Section Reader.
Variable ulookup : text -> option N.

(* the part of read_chars_until after the loop *)
Definition finish (raw isb : bool) (body : text) : outcome sval :=
  let res := nl_norm body in
  if isb then
    if forallb is_ascii res then
      if raw then Ok (VBytes res)
      else match escape_decode res with Some b => Ok (VBytes b) | None => Lex EDecode end
    else Lex EBytesAscii
  else if raw then Ok (VStr res)
  else match unicode_escape_decode ulookup (latin1_bsr res) with Some t => Ok (VStr t) | None => Lex EDecode end.

(* prefixed_string(_, prefix) applied to the text after the opening quote *)
Definition prefixed_string (prefix s : text) : outcome (sval * text) :=
  if prefix_invalid prefix then Lex EPrefix
  else if mem ch_f prefix || mem ch_t prefix then FStringPath
  else
    let raw := mem ch_r prefix in
    let isb := mem ch_b prefix in
    match scan_q raw isb false s with
    | Ok (body, rest) => omap (fun v => (v, rest)) (finish raw isb body)
    | Lex k => Lex k
    | Premature => Premature
    | FStringPath => FStringPath
    end.
End Reader.

(* ------------------------------------------------------------------ bracketed_string *)

(* for c in self.chars(): "[" ends the delimiter, "]" is an error *)
Fixpoint read_delim (s : text) : outcome (text * text) :=
  match s with
  | [] => Premature
  | c :: r =>
      if c =? ch_lbr then Ok ([], r)
      else if c =? ch_rbr then Lex EClose
      else omap (fun dr => (c :: fst dr, snd dr)) (read_delim r)
  end.

(* delim == "f" or delim.startswith("f-") *)
Definition fmode (d : text) : bool := text_eqb d bracket_f_exact || starts_with bracket_f_prefix d.

(* self.peek_and_getc("\r"); self.peek_and_getc("\n") *)
Definition drop_one (c : N) (s : text) : text :=
  match s with x :: r => if x =? c then r else s | [] => s end.
Definition drop_nl (s : text) : text := drop_one ch_lf (drop_one ch_cr s).

Definition idx_is (idx : option nat) (n : nat) : bool :=
  match idx with Some i => Nat.eqb i n | None => false end.

(* read_chars_until driven by delim_closing; [idx] is its nonlocal `index` (None = -1).
   Returns how many characters were consumed, the closing bracket included. *)
Fixpoint dscan (d : text) (idx : option nat) (s : text) : option nat :=
  match s with
  | [] => None
  | c :: r =>
      if c =? ch_rbr then
        if idx_is idx (length d) then Some 1%nat
        else option_map S (dscan d (Some O) r)
      else
        match idx with
        | Some i =>
            if Nat.ltb i (length d) && (c =? nth i d 0)
            then option_map S (dscan d (Some (S i)) r)
            else option_map S (dscan d None r)
        | None => option_map S (dscan d None r)
        end
  end.

Fixpoint contains (pat s : text) : bool :=
  starts_with pat s || match s with [] => false | _ :: r => contains pat r end.

Definition closer (d : text) : text := ch_rbr :: d ++ [ch_rbr].

(* bracketed_string applied to the text after "#[": (content, delimiter), rest *)
Definition bracketed_string (s : text) : outcome ((text * text) * text) :=
  match read_delim s with
  | Ok (d, r1) =>
      let r2 := drop_nl r1 in
      if fmode d then FStringPath
      else
        match dscan d None r2 with
        | None => Premature
        | Some n =>
            (* s = s[:-n_closing_chars] with n_closing_chars = len(delim) + 2 *)
            let content := nl_norm (firstn (n - (length d + bracket_closing_extra)) r2) in
            (* String(s, brackets=delim): ValueError, turned into LexException by try_parse_one_form *)
            if contains (closer d) content then Lex ECtor
            else Ok ((content, d), skipn n r2)
        end
  | Lex k => Lex k
  | Premature => Premature
  | FStringPath => FStringPath
  end.
