(* C22: every Python numeric literal (underscore-free core) reads as the model of its type with its
   value; complex texts a+bj; separators are transparent. *)
From HyV Require Import Base.Text Gen.LitTables Lit.Numeric Lit.NumericSpec Lit.NumericProofs Lit.NumericInt Lit.NumericFloat.
From Coq Require Import ZArith Lia.

Lemma safe_j (upper : bool) : safe_rest [if upper then ch_J else ch_j] = true.
Proof. destruct upper; reflexivity. Qed.

Lemma num_char_noi : forall s, forallb num_char s = true -> has_i s = false.
Proof.
  intros s H. unfold has_i.
  assert (G : forall k, num_char k = false -> mem k s = false).
  { intros k Hk. destruct (mem k s) eqn:E; [|reflexivity]. apply mem_In in E. rewrite forallb_forall in H. apply H in E. congruence. }
  rewrite (G 105 eq_refl), (G 73 eq_refl), (G 304 eq_refl). reflexivity.
Qed.

(* a rendered mantissa is digits followed by a stopper, or digits alone *)
Lemma render_mant_split ip fp ex tail : wf_mant ip fp = true ->
  (fp <> None \/ ex <> None) ->
  exists x rest, render_mant ip fp ex ++ tail = ip ++ x :: rest /\ stopper x = true.
Proof.
  intros W H. unfold render_mant. destruct fp as [f|].
  - exists ch_dot. eexists. split; [rewrite <- !app_assoc; simpl; reflexivity | reflexivity].
  - destruct ex as [[[upper sign] ds]|]; [|destruct H; congruence].
    exists (if upper then ch_E else ch_e). eexists. split.
    + simpl. rewrite <- !app_assoc. simpl. reflexivity.
    + destruct upper; reflexivity.
Qed.

Lemma wf_mant_ip ip fp : wf_mant ip fp = true -> all_dec ip = true.
Proof. unfold wf_mant. intros W. apply andb_true_iff in W. destruct W as [W _]. apply andb_true_iff in W. tauto. Qed.

Lemma mant_first_not_space ip fp ex tail : wf_mant ip fp = true ->
  match render_mant ip fp ex ++ tail with c :: _ => c_isspace c = false /\ (c =? ch_lpar) = false | [] => True end.
Proof.
  intros W. pose proof (wf_mant_ip ip fp W) as AI. unfold wf_mant in W. apply andb_true_iff in W. destruct W as [_ NE].
  unfold render_mant. destruct ip as [|c r].
  - simpl in NE. destruct fp as [f|]; [|discriminate]. simpl. split; reflexivity.
  - simpl in AI. apply andb_true_iff in AI. destruct AI as [Hc _]. simpl. split; [apply dec_not_space; exact Hc|].
    pose proof (dec_bounds c Hc). apply N.eqb_neq. unfold ch_lpar. lia.
Qed.

Section Lit.
Variable U : uni.

(* shared: a text of numeric characters passes through strip_seps, to_ascii and strip_us unchanged *)
Lemma plain_text_facts s : forallb num_char s = true ->
  strip_seps s = s /\ to_ascii U s = s /\ strip_us s = Some s /\ forallb is_ascii s = true.
Proof.
  intros H. destruct (num_chars_facts s H) as (A & B & C).
  repeat split; [apply strip_seps_id; exact B | apply to_ascii_ascii; exact A | unfold strip_us; rewrite C; reflexivity | exact A].
Qed.

Lemma numeric_from_parts s :
  numeric U s =
  match hy_integer U s with
  | Some z => Some (NInt z)
  | None => match hy_float U s with
            | Some f => Some (NFloat f)
            | None => if existsb (text_eqb s) complex_bare_excluded then None
                      else match hy_complex U s with Some (re, im) => Some (NComplex re im) | None => None end
            end
  end.
Proof. reflexivity. Qed.

(* ------------------------------------------------------------------ float literals *)

Theorem float_literal_reads : forall ip fp ex, wf (CFloat ip fp ex) = true ->
  numeric U (render (CFloat ip fp ex)) = Some (value (CFloat ip fp ex)).
Proof.
  intros ip fp ex W. cbn [wf] in W. apply andb_true_iff in W. destruct W as [W PE]. apply andb_true_iff in W. destruct W as [WM WE].
  cbn [render value]. set (s := render_mant ip fp ex).
  assert (NC : forallb num_char s = true) by (apply render_mant_ascii; assumption).
  destruct (plain_text_facts s NC) as (SS & TA & SU & AA).
  assert (PE' : fp <> None \/ ex <> None) by (destruct fp, ex; try (left; discriminate); try (right; discriminate); discriminate).
  destruct (render_mant_split ip fp ex [] WM PE') as (x & rest & E & SX). rewrite app_nil_r in E. fold s in E.
  rewrite numeric_from_parts.
  assert (HI : hy_integer U s = None).
  { unfold hy_integer. rewrite SS. rewrite E. apply py_int_stops.
    - apply (wf_mant_ip ip fp WM).
    - unfold stopper2. rewrite SX. reflexivity.
    - intros _. exact SX.
    - rewrite <- E. exact AA. }
  rewrite HI.
  assert (HF : hy_float U s = Some (mant_value ip fp ex)).
  { unfold hy_float. rewrite SS.
    pose proof (mant_first_not_space ip fp ex [] WM) as FS. rewrite app_nil_r in FS. fold s in FS.
    assert (NE : s <> []).
    { rewrite E. destruct ip; discriminate. }
    rewrite (py_float_plain U s NC NE).
    2:{ destruct s; [exact I | tauto]. }
    pose proof (strtod_rendered ip fp ex [] WM WE eq_refl) as ST. rewrite app_nil_r in ST. fold s in ST.
    rewrite ST. rewrite (cap_ok_fin_noi s (mant_value ip fp ex) I (num_char_noi s NC)). reflexivity. }
  rewrite HF. reflexivity.
Qed.

(* ------------------------------------------------------------------ imaginary literals and a+bj *)

Lemma cx_open_plain s : (match s with c :: _ => c_isspace c = false /\ (c =? ch_lpar) = false | [] => True end) ->
  cx_open s = (false, s).
Proof.
  unfold cx_open. destruct s as [|c r]; [reflexivity|]. intros [F1 F2]. cbn [dropwhile]. rewrite F1, F2. reflexivity.
Qed.

Lemma complex_inner_imag s z (upper : bool) :
  (match s with c :: _ => c_isspace c = false /\ (c =? ch_lpar) = false | [] => False end) ->
  strtod s = Some (z, [if upper then ch_J else ch_j]) ->
  complex_inner s = Some (fzero, z).
Proof.
  intros FS ST. unfold complex_inner. rewrite cx_open_plain by (destruct s; [contradiction | exact FS]).
  unfold cx_body. rewrite ST. destruct upper; reflexivity.
Qed.

Lemma not_bare_j s : (2 <= length s)%nat -> existsb (text_eqb s) complex_bare_excluded = false.
Proof.
  intros H. rewrite bare_j_are. destruct s as [|a [|b r]]; simpl in H; try lia. cbn [existsb text_eqb]. rewrite !andb_false_r. reflexivity.
Qed.

Lemma hy_complex_fin s re im : py_complex U (strip_seps s) = Some (re, im) ->
  has_i s = false -> is_fin re -> is_fin im -> hy_complex U s = Some (re, im).
Proof.
  intros H NI R I. unfold hy_complex. rewrite H.
  destruct (partition_plus (dropwhile is_pm s)) as [p1 p2] eqn:E.
  destruct (partition_plus_incl _ _ _ E) as [A B].
  assert (N1 : has_i p1 = false) by (apply (has_i_incl p1 s); [intros c X; apply (dropwhile_incl is_pm s); apply A; exact X | exact NI]).
  assert (N2 : has_i p2 = false) by (apply (has_i_incl p2 s); [intros c X; apply (dropwhile_incl is_pm s); apply B; exact X | exact NI]).
  destruct (has_j p1).
  - rewrite (cap_ok_fin_noi p1 im I N1). destruct p2; [reflexivity|]. rewrite (cap_ok_fin_noi _ im I N2). reflexivity.
  - rewrite (cap_ok_fin_noi p1 re R N1). destruct p2; [reflexivity|]. rewrite (cap_ok_fin_noi _ im I N2). reflexivity.
Qed.

Theorem imag_literal_reads : forall ip fp ex upper, wf (CImag ip fp ex upper) = true ->
  numeric U (render (CImag ip fp ex upper)) = Some (value (CImag ip fp ex upper)).
Proof.
  intros ip fp ex upper W. cbn [wf] in W. apply andb_true_iff in W. destruct W as [WM WE].
  cbn [render value]. set (j := if upper then ch_J else ch_j). set (s := render_mant ip fp ex ++ [j]).
  assert (NJ : num_char j = true) by (destruct upper; reflexivity).
  assert (NC : forallb num_char s = true).
  { unfold s. rewrite forallb_app. rewrite (render_mant_ascii ip fp ex WM WE). simpl. rewrite NJ. reflexivity. }
  destruct (plain_text_facts s NC) as (SS & TA & SU & AA).
  pose proof (strtod_rendered ip fp ex [j] WM WE (safe_j upper)) as ST. fold s in ST.
  pose proof (mant_first_not_space ip fp ex [j] WM) as FS. fold s in FS.
  assert (SPLIT : exists x rest, s = ip ++ x :: rest /\ stopper x = true).
  { destruct fp as [f|] eqn:EF; [|destruct ex as [e|] eqn:EE].
    - apply (render_mant_split ip (Some f) ex [j] WM). left. discriminate.
    - apply (render_mant_split ip None (Some e) [j] WM). right. discriminate.
    - exists j, []. split; [unfold s, render_mant; rewrite !app_nil_r; reflexivity | destruct upper; reflexivity]. }
  destruct SPLIT as (x & rest & E & SX).
  rewrite numeric_from_parts.
  assert (HI : hy_integer U s = None).
  { unfold hy_integer. rewrite SS. rewrite E. apply py_int_stops.
    - apply (wf_mant_ip ip fp WM).
    - unfold stopper2. rewrite SX. reflexivity.
    - intros _. exact SX.
    - rewrite <- E. exact AA. }
  rewrite HI.
  assert (NE : s <> []) by (rewrite E; destruct ip; discriminate).
  assert (HF : hy_float U s = None).
  { unfold hy_float. rewrite SS. rewrite (py_float_plain U s NC NE).
    2:{ destruct s; [exact I | tauto]. }
    rewrite ST. reflexivity. }
  rewrite HF.
  assert (LEN : (2 <= length s)%nat).
  { unfold s. rewrite app_length. simpl.
    assert (render_mant ip fp ex <> []).
    { unfold wf_mant in WM. apply andb_true_iff in WM. destruct WM as [_ N1]. unfold render_mant.
      destruct ip; [|discriminate]. destruct fp; [discriminate | discriminate N1]. }
    destruct (render_mant ip fp ex); [congruence | simpl; lia]. }
  rewrite (not_bare_j s LEN).
  assert (HC : hy_complex U s = Some (fzero, mant_value ip fp ex)).
  { apply hy_complex_fin; [| apply num_char_noi; exact NC | exact I | exact I].
    unfold py_complex. rewrite SS, TA, SU.
    apply (complex_inner_imag s (mant_value ip fp ex) upper); [destruct s; [congruence | exact FS] | exact ST]. }
  rewrite HC. reflexivity.
Qed.

(* ------------------------------------------------------------------ all Python numeric literals *)

Lemma digits_value_dec_value ds : dec_value ds = digits_value 10 ds.
Proof. reflexivity. Qed.

Theorem python_literals_read : forall l, wf l = true -> numeric U (render l) = Some (value l).
Proof.
  intros [ds | r upper ds | ip fp ex | ip fp ex upper] W.
  - cbn [wf] in W. apply andb_true_iff in W. destruct W as [W _]. apply andb_true_iff in W. destruct W as [NE AD].
    cbn [render value]. rewrite <- digits_value_dec_value. apply digits_read_as_integer; [destruct ds; [discriminate | discriminate] | exact AD].
  - apply radix_literal_reads. exact W.
  - apply float_literal_reads. exact W.
  - apply imag_literal_reads. exact W.
Qed.

Corollary python_literals_read_as_identifier : forall rd l, wf l = true -> as_identifier U rd (render l) = INum (value l).
Proof. intros rd l W. unfold as_identifier. rewrite (python_literals_read l W). reflexivity. Qed.

End Lit.
