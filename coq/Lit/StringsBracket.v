(* C23: bracket strings.  delim_closing finds exactly the first occurrence of ]delim] ;
   the content is read verbatim, minus one leading newline, newline-translated. *)
From HyV Require Import Base.Text Gen.LitTables Lit.Strings Lit.StringsSpec Lit.StringsProofs.
From Coq Require Import Lia.

Lemma closing_extra_is_2 : bracket_closing_extra = 2%nat.
Proof. reflexivity. Qed.
Lemma bracket_tables_shape :
  bracket_peeked_newlines = [ch_cr; ch_lf] /\ bracket_delim_loop_chars = [ch_lbr; ch_rbr] /\
  bracket_closer_char = [ch_rbr] /\ bracket_read_prefix = [ch_r].
Proof. repeat split; reflexivity. Qed.

Lemma closer_length d : length (closer d) = (length d + 2)%nat.
Proof. unfold closer. simpl. rewrite app_length. simpl. lia. Qed.

(* ------------------------------------------------------------------ find_end means "first occurrence" *)

Lemma starts_with_false_cons pat c s : starts_with (ch_rbr :: pat) (c :: s) = (ch_rbr =? c) && starts_with pat s.
Proof. reflexivity. Qed.

Lemma find_end_spec pat : forall s,
  match find_end pat s with
  | Some n => exists pre post, s = pre ++ pat ++ post /\ n = (length pre + length pat)%nat
               /\ forall pre' post', s = pre' ++ pat ++ post' -> (length pre <= length pre')%nat
  | None => forall pre post, s <> pre ++ pat ++ post
  end.
Proof.
  induction s as [|x r IH].
  - simpl. destruct (starts_with pat []) eqn:E.
    + apply starts_with_spec in E. destruct E as [q E]. exists [], q. simpl. repeat split; [exact E | intros; lia].
    + intros pre post H. destruct pre; simpl in H.
      * assert (starts_with pat [] = true) by (apply starts_with_spec; exists post; exact H). congruence.
      * discriminate.
  - cbn [find_end]. destruct (starts_with pat (x :: r)) eqn:E.
    + apply starts_with_spec in E. destruct E as [q E]. exists [], q. simpl. repeat split; [exact E | intros; lia].
    + destruct (find_end pat r) as [m|].
      * destruct IH as (pre & post & E1 & E2 & E3). cbn [option_map].
        exists (x :: pre), post. repeat split.
        -- simpl. rewrite E1. reflexivity.
        -- simpl. lia.
        -- intros pre' post' H. destruct pre' as [|y p].
           ++ simpl in H. assert (starts_with pat (x :: r) = true) by (apply starts_with_spec; exists post'; exact H). congruence.
           ++ simpl in H. injection H as Hx Hr. simpl. apply le_n_S. apply (E3 p post'). exact Hr.
      * cbn [option_map]. intros pre post H. destruct pre as [|y p].
        -- simpl in H. assert (starts_with pat (x :: r) = true) by (apply starts_with_spec; exists post; exact H). congruence.
        -- simpl in H. injection H as Hx Hr. apply (IH p post). exact Hr.
Qed.

Lemma find_end_bounds pat : forall s n, find_end pat s = Some n -> (length pat <= n <= length s)%nat.
Proof.
  intros s n H. pose proof (find_end_spec pat s) as S. rewrite H in S.
  destruct S as (pre & post & E1 & E2 & _). subst. rewrite !app_length. lia.
Qed.

Lemma starts_with_short : forall pat s t,
  starts_with pat s = false -> starts_with pat (s ++ t) = true -> (length s < length pat)%nat.
Proof.
  induction pat as [|x p IH]; intros s t H1 H2; [discriminate|].
  destruct s as [|y s]; [simpl; lia|].
  simpl in *. destruct (x =? y); [|discriminate]. simpl in *. apply IH in H2; [lia | exact H1].
Qed.

Lemma find_end_app pat : forall s t n, find_end pat s = Some n -> find_end pat (s ++ t) = Some n.
Proof.
  induction s as [|x r IH]; intros t n H.
  - simpl in H. destruct (starts_with pat []) eqn:E; [|discriminate].
    inversion H; subst. destruct pat; [|discriminate]. destruct t; reflexivity.
  - pose proof (find_end_bounds pat _ _ H) as B.
    cbn [find_end] in H. simpl app. cbn [find_end].
    destruct (starts_with pat (x :: r)) eqn:E.
    + apply starts_with_spec in E. destruct E as [q E].
      assert (E' : starts_with pat ((x :: r) ++ t) = true).
      { apply starts_with_spec. exists (q ++ t). rewrite E, app_assoc. reflexivity. }
      simpl app in E'. rewrite E'. exact H.
    + destruct (starts_with pat (x :: r ++ t)) eqn:E'.
      * pose proof (starts_with_short pat (x :: r) t E E') as L. lia.
      * destruct (find_end pat r) as [m|] eqn:F; [|discriminate].
        rewrite (IH t m eq_refl). exact H.
Qed.

(* ------------------------------------------------------------------ the automaton *)

Lemma in_firstn {A} : forall k (l : list A) x, In x (firstn k l) -> In x l.
Proof.
  induction k as [|k IH]; intros l x H; [contradiction|].
  destruct l as [|y l]; [contradiction|]. simpl in H. destruct H as [H|H]; [left; exact H | right; apply IH; exact H].
Qed.

Lemma skipn_nth_gen : forall (l : text) k, (k < length l)%nat -> skipn k l = nth k l 0 :: skipn (S k) l.
Proof.
  induction l as [|x l IH]; intros k H; [simpl in H; lia|].
  destruct k; [reflexivity|]. simpl in *. apply IH. lia.
Qed.

Lemma firstn_S_gen : forall (l : text) k, (k < length l)%nat -> firstn (S k) l = firstn k l ++ [nth k l 0].
Proof.
  induction l as [|x l IH]; intros k H; [simpl in H; lia|].
  destruct k; [reflexivity|]. simpl in *. f_equal. apply IH. lia.
Qed.

Section Automaton.
Variable d : text.
Hypothesis no_rbr : ~ In ch_rbr d.

Lemma d_not_rbr x : In x d -> (ch_rbr =? x) = false.
Proof. intros H. apply N.eqb_neq. intros E. subst. contradiction. Qed.

Lemma firstn_not_rbr k : Forall (fun x => x <> ch_rbr) (firstn k d).
Proof.
  apply Forall_forall. intros x H E. subst. apply no_rbr. eapply in_firstn. exact H.
Qed.

Lemma find_end_skip : forall u s, Forall (fun x => x <> ch_rbr) u ->
  find_end (closer d) (u ++ s) = option_map (fun n => (length u + n)%nat) (find_end (closer d) s).
Proof.
  induction u as [|x u IH]; intros s H.
  - simpl. destruct (find_end (closer d) s); reflexivity.
  - inversion H as [|? ? Hx Hu]; subst. simpl app. cbn [find_end].
    unfold closer at 1. rewrite starts_with_false_cons.
    assert (E : (ch_rbr =? x) = false) by (apply N.eqb_neq; congruence).
    rewrite E. cbn [andb]. rewrite (IH s Hu). destruct (find_end (closer d) s); reflexivity.
Qed.

Lemma starts_with_cancel : forall a q s, starts_with (a ++ q) (a ++ s) = starts_with q s.
Proof. induction a as [|x a IH]; intros q s; [reflexivity|]. simpl. rewrite N.eqb_refl. apply IH. Qed.

Definition skipn_nth := skipn_nth_gen d.
Definition firstn_S := firstn_S_gen d.

(* with ] and k characters of the delimiter matched, a character that does not continue the match
   rules out an occurrence starting at that ] *)
Lemma mismatch0 k c r : (k <= length d)%nat ->
  ((k < length d)%nat /\ c <> nth k d 0) \/ (k = length d /\ c <> ch_rbr) ->
  starts_with (closer d) (ch_rbr :: firstn k d ++ c :: r) = false.
Proof.
  intros Hk H. unfold closer. rewrite starts_with_false_cons, N.eqb_refl. cbn [andb].
  rewrite <- (firstn_skipn k d) at 1. rewrite <- app_assoc, starts_with_cancel.
  destruct H as [[H1 H2] | [H1 H2]].
  - rewrite (skipn_nth k H1). cbn [app starts_with]. assert (E : (nth k d 0 =? c) = false) by (apply N.eqb_neq; congruence).
    rewrite E. reflexivity.
  - subst k. rewrite skipn_all. cbn [app starts_with]. assert (E : (ch_rbr =? c) = false) by (apply N.eqb_neq; congruence).
    rewrite E. reflexivity.
Qed.

Lemma short0 k : (k <= length d)%nat -> starts_with (closer d) (ch_rbr :: firstn k d ++ []) = false.
Proof.
  intros Hk. unfold closer. rewrite starts_with_false_cons, N.eqb_refl. cbn [andb].
  rewrite <- (firstn_skipn k d) at 1. rewrite <- app_assoc, starts_with_cancel.
  destruct (skipn k d); reflexivity.
Qed.

Lemma match0 r : starts_with (closer d) (ch_rbr :: firstn (length d) d ++ ch_rbr :: r) = true.
Proof.
  rewrite firstn_all. apply starts_with_spec. exists r. unfold closer. simpl. rewrite <- app_assoc. reflexivity.
Qed.

Lemma nth_in_d k : (k < length d)%nat -> In (nth k d 0) d.
Proof. intros H. apply nth_In. exact H. Qed.

Lemma dscan_spec : forall s,
  (forall k, (k <= length d)%nat ->
     option_map (fun n => (S k + n)%nat) (dscan d (Some k) s) = find_end (closer d) (ch_rbr :: firstn k d ++ s))
  /\ dscan d None s = find_end (closer d) s.
Proof.
  induction s as [|c r [IHA IHB]].
  - split.
    + intros k Hk. simpl dscan. cbn [option_map find_end]. rewrite (short0 k Hk).
      change (firstn k d ++ []) with (firstn k d ++ []).
      rewrite (find_end_skip (firstn k d) [] (firstn_not_rbr k)). reflexivity.
    + reflexivity.
  - split.
    + intros k Hk. cbn [dscan].
      destruct (c =? ch_rbr) eqn:EC.
      * apply eqb_true in EC. subst c. unfold idx_is.
        destruct (Nat.eqb k (length d)) eqn:EK.
        -- apply Nat.eqb_eq in EK. subst k. cbn [option_map find_end]. rewrite match0.
           rewrite closer_length. f_equal. lia.
        -- apply Nat.eqb_neq in EK. assert (Hlt : (k < length d)%nat) by lia.
           cbn [find_end]. rewrite (mismatch0 k ch_rbr r Hk).
           2:{ left. split; [exact Hlt|]. intros E. apply no_rbr. rewrite E. apply nth_in_d. exact Hlt. }
           rewrite (find_end_skip (firstn k d) (ch_rbr :: r) (firstn_not_rbr k)).
           specialize (IHA O ltac:(lia)). simpl firstn in IHA. simpl app in IHA. rewrite <- IHA.
           destruct (dscan d (Some O) r); cbn [option_map]; [|reflexivity].
           f_equal. rewrite firstn_length. lia.
      * assert (NC : c <> ch_rbr) by (apply eqb_false; exact EC).
        destruct (Nat.ltb k (length d) && (c =? nth k d 0)) eqn:EM.
        -- apply andb_true_iff in EM. destruct EM as [E1 E2]. apply Nat.ltb_lt in E1. apply eqb_true in E2.
           specialize (IHA (S k) ltac:(lia)). rewrite (firstn_S k E1), <- app_assoc in IHA. simpl app in IHA.
           rewrite <- E2 in IHA. rewrite <- IHA.
           destruct (dscan d (Some (S k)) r); cbn [option_map]; [|reflexivity]. f_equal. lia.
        -- cbn [find_end]. rewrite (mismatch0 k c r Hk).
           2:{ apply andb_false_iff in EM. destruct EM as [E1|E2].
               - right. apply Nat.ltb_ge in E1. split; [lia | exact NC].
               - destruct (Nat.ltb k (length d)) eqn:E3.
                 + left. apply Nat.ltb_lt in E3. split; [exact E3 | apply eqb_false; exact E2].
                 + right. apply Nat.ltb_ge in E3. split; [lia | exact NC]. }
           replace (firstn k d ++ c :: r) with ((firstn k d ++ [c]) ++ r) by (rewrite <- app_assoc; reflexivity).
           rewrite (find_end_skip (firstn k d ++ [c]) r).
           2:{ apply Forall_app. split; [apply firstn_not_rbr | constructor; [exact NC | constructor]]. }
           rewrite <- IHB. destruct (dscan d None r); cbn [option_map]; [|reflexivity].
           f_equal. rewrite app_length, firstn_length. simpl. lia.
    + cbn [dscan]. destruct (c =? ch_rbr) eqn:EC.
      * apply eqb_true in EC. subst c. cbn [idx_is].
        specialize (IHA O ltac:(lia)). simpl firstn in IHA. simpl app in IHA. rewrite <- IHA.
        destruct (dscan d (Some O) r); reflexivity.
      * cbn [find_end]. unfold closer at 1. rewrite starts_with_false_cons.
        assert (E : (ch_rbr =? c) = false) by (rewrite N.eqb_sym; exact EC).
        rewrite E. cbn [andb]. rewrite <- IHB. reflexivity.
Qed.

End Automaton.

(* delim_closing recognises exactly the first occurrence of ]delim] *)
Theorem delim_automaton_correct : forall d, ~ In ch_rbr d -> forall s,
  match dscan d None s with
  | Some n => exists pre post, s = pre ++ closer d ++ post /\ n = (length pre + length (closer d))%nat
               /\ forall pre' post', s = pre' ++ closer d ++ post' -> (length pre <= length pre')%nat
  | None => forall pre post, s <> pre ++ closer d ++ post
  end.
Proof.
  intros d H s. destruct (dscan_spec d H s) as [_ E]. rewrite E. apply find_end_spec.
Qed.

(* ------------------------------------------------------------------ the whole handler *)

Lemma read_delim_ok : forall d r, ~ In ch_lbr d -> ~ In ch_rbr d -> read_delim (d ++ ch_lbr :: r) = Ok (d, r).
Proof.
  induction d as [|x d IH]; intros r H1 H2; [reflexivity|].
  simpl app. cbn [read_delim].
  assert (E1 : (x =? ch_lbr) = false) by (apply N.eqb_neq; intros ->; apply H1; left; reflexivity).
  assert (E2 : (x =? ch_rbr) = false) by (apply N.eqb_neq; intros ->; apply H2; left; reflexivity).
  rewrite E1, E2. rewrite IH; [reflexivity | intros X; apply H1; right; exact X | intros X; apply H2; right; exact X].
Qed.

Lemma drop_one_cons k x r : drop_one k (x :: r) = if x =? k then r else x :: r.
Proof. reflexivity. Qed.

Lemma drop_nl_app c t : drop_nl (c ++ ch_rbr :: t) = drop_nl c ++ ch_rbr :: t.
Proof.
  unfold drop_nl.
  destruct c as [|x c]; [reflexivity|]. simpl app. rewrite !drop_one_cons.
  destruct (x =? ch_cr).
  - destruct c as [|y c]; [reflexivity|]. simpl app. rewrite !drop_one_cons. destruct (y =? ch_lf); reflexivity.
  - rewrite !drop_one_cons. destruct (x =? ch_lf); reflexivity.
Qed.

(* #[d[ c ]d] rest : the content is c minus one leading newline, newline-translated, provided ]d] first
   occurs at the end of (that content followed by ]d]); the String constructor's own check is the
   only other way out *)
Theorem bracket_verbatim : forall d c rest,
  ~ In ch_lbr d -> ~ In ch_rbr d -> fmode d = false ->
  find_end (closer d) (drop_nl c ++ closer d) = Some (length (drop_nl c) + length (closer d))%nat ->
  bracketed_string (d ++ ch_lbr :: c ++ closer d ++ rest) =
    if contains (closer d) (nl_spec (drop_nl c)) then Lex ECtor
    else Ok ((nl_spec (drop_nl c), d), rest).
Proof.
  intros d c rest H1 H2 HF HE.
  unfold bracketed_string. rewrite (read_delim_ok d _ H1 H2). rewrite HF.
  assert (EQ : drop_nl (c ++ closer d ++ rest) = (drop_nl c ++ closer d) ++ rest).
  { unfold closer. simpl app. rewrite drop_nl_app. rewrite <- !app_assoc. simpl. rewrite <- app_assoc. reflexivity. }
  rewrite EQ.
  destruct (dscan_spec d H2 ((drop_nl c ++ closer d) ++ rest)) as [_ E]. rewrite E.
  rewrite (find_end_app (closer d) _ rest _ HE).
  rewrite closing_extra_is_2, closer_length.
  replace (length (drop_nl c) + (length d + 2) - (length d + 2))%nat with (length (drop_nl c)) by lia.
  rewrite <- app_assoc.
  rewrite firstn_app, firstn_all, Nat.sub_diag. simpl firstn. rewrite app_nil_r.
  rewrite nl_norm_spec.
  replace (length (drop_nl c) + (length d + 2))%nat with (length (drop_nl c ++ closer d)) by (rewrite app_length, closer_length; reflexivity).
  rewrite app_assoc, skipn_app, skipn_all, Nat.sub_diag. simpl. reflexivity.
Qed.

(* the f-string delimiters never give a String *)
Theorem bracket_f_delims : forall d r, ~ In ch_lbr d -> ~ In ch_rbr d -> fmode d = true ->
  bracketed_string (d ++ ch_lbr :: r) = FStringPath.
Proof.
  intros d r H1 H2 HF. unfold bracketed_string. rewrite (read_delim_ok d _ H1 H2), HF. reflexivity.
Qed.
