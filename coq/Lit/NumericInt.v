(* C22: integer literals with a radix prefix; int() refuses a text whose digits are followed by a
   point, an exponent marker or j. *)
From HyV Require Import Base.Text Gen.LitTables Lit.Numeric Lit.NumericSpec Lit.NumericProofs.
From Coq Require Import ZArith Lia.

Lemma digit_value_lt_ascii c b : b <= 36 -> (digit_value c <? b) = true -> c < 128 /\ is_sep c = false /\ c_isspace c = false.
Proof.
  intros Hb H. apply N.ltb_lt in H. unfold digit_value in H.
  destruct (is_dec c) eqn:D.
  - pose proof (dec_bounds c D). repeat split; [lia | apply dec_not_sep; exact D | apply (dec_not_space c D)].
  - destruct ((97 <=? c) && (c <=? 122)) eqn:L.
    + apply andb_true_iff in L. destruct L as [A B]. apply N.leb_le in A. apply N.leb_le in B.
      repeat split; [lia | |].
      * rewrite is_sep_spec. replace (c =? 95) with false by (symmetry; apply N.eqb_neq; lia).
        replace (c =? 44) with false by (symmetry; apply N.eqb_neq; lia). reflexivity.
      * unfold c_isspace. replace (c <=? 13) with false by (symmetry; apply N.leb_gt; lia).
        replace (c =? 32) with false by (symmetry; apply N.eqb_neq; lia). rewrite andb_false_r. reflexivity.
    + destruct ((65 <=? c) && (c <=? 90)) eqn:K; [|lia].
      apply andb_true_iff in K. destruct K as [A B]. apply N.leb_le in A. apply N.leb_le in B.
      repeat split; [lia | |].
      * rewrite is_sep_spec. replace (c =? 95) with false by (symmetry; apply N.eqb_neq; lia).
        replace (c =? 44) with false by (symmetry; apply N.eqb_neq; lia). reflexivity.
      * unfold c_isspace. replace (c <=? 13) with false by (symmetry; apply N.leb_gt; lia).
        replace (c =? 32) with false by (symmetry; apply N.eqb_neq; lia). rewrite andb_false_r. reflexivity.
Qed.

Section Int.
Variable U : uni.

Lemma radix_base_le r : radix_base r <= 36.
Proof. destruct r; simpl; lia. Qed.

Lemma radix_facts r upper :
  let x := radix_letter r upper in
  x < 128 /\ is_sep x = false /\ is_dec x = false /\
  int_base true (ch_zero :: x :: []) = (radix_base r, false) /\
  (forall rest, int_base true (ch_zero :: x :: rest) = (radix_base r, false)) /\
  (forall c rest, (c =? ch_us) = false -> int_skip_prefix (radix_base r) (ch_zero :: x :: c :: rest) = c :: rest).
Proof.
  destruct r, upper; cbv zeta; repeat split; try reflexivity; try (vm_compute; reflexivity);
    intros; unfold int_skip_prefix; cbn; rewrite ?H; reflexivity.
Qed.

(* 0b.. 0o.. 0x.. read as that integer *)
Theorem radix_literal_reads : forall r upper ds, wf (CRadix r upper ds) = true ->
  numeric U (render (CRadix r upper ds)) = Some (value (CRadix r upper ds)).
Proof.
  intros r upper ds W. cbn [wf] in W. apply andb_true_iff in W. destruct W as [NE DV].
  destruct ds as [|c ds']; [discriminate|]. cbn [render value].
  destruct (radix_facts r upper) as (XA & XS & XD & _ & XB & XK). set (x := radix_letter r upper) in *.
  assert (DC : (digit_value c <? radix_base r) = true) by (simpl in DV; apply andb_true_iff in DV; tauto).
  destruct (digit_value_lt_ascii c _ (radix_base_le r) DC) as (CA & CS & CP).
  assert (XA' : is_ascii x = true) by (unfold is_ascii; apply N.ltb_lt; exact XA).
  assert (ALLA : forallb is_ascii (ch_zero :: x :: c :: ds') = true).
  { change (forallb is_ascii (ch_zero :: x :: c :: ds')) with (is_ascii ch_zero && (is_ascii x && forallb is_ascii (c :: ds'))).
    rewrite XA'. change (is_ascii ch_zero) with true. cbn [andb].
    apply (forallb_impl (fun c => digit_value c <? radix_base r) is_ascii); [|exact DV].
    intros y Hy. destruct (digit_value_lt_ascii y _ (radix_base_le r) Hy) as (A & _). unfold is_ascii. apply N.ltb_lt. exact A. }
  assert (NOSEP : forallb (fun c => negb (is_sep c)) (ch_zero :: x :: c :: ds') = true).
  { change (forallb (fun c => negb (is_sep c)) (ch_zero :: x :: c :: ds'))
      with (negb (is_sep ch_zero) && (negb (is_sep x) && forallb (fun c => negb (is_sep c)) (c :: ds'))).
    change (is_sep ch_zero) with false. rewrite XS. cbn [negb andb].
    apply (forallb_impl (fun c => digit_value c <? radix_base r) (fun c => negb (is_sep c))); [|exact DV].
    intros y Hy. destruct (digit_value_lt_ascii y _ (radix_base_le r) Hy) as (_ & B & _). rewrite B. reflexivity. }
  unfold numeric, hy_integer. rewrite (strip_seps_id _ NOSEP).
  assert (ND : isdigit_str U (ch_zero :: x :: c :: ds') = false).
  { unfold isdigit_str.
    change (forallb (isdigit_ch U) (ch_zero :: x :: c :: ds')) with (isdigit_ch U ch_zero && (isdigit_ch U x && forallb (isdigit_ch U) (c :: ds'))).
    assert (IX : isdigit_ch U x = false).
    { unfold isdigit_ch. replace (x <? 128) with true by (symmetry; apply N.ltb_lt; exact XA). exact XD. }
    rewrite IX. rewrite andb_false_r. reflexivity. }
  rewrite ND. cbn [negb].
  unfold py_int. rewrite (to_ascii_ascii U _ ALLA).
  cbn [dropwhile]. change (c_isspace ch_zero) with false. cbv iota.
  change (int_sign (ch_zero :: x :: c :: ds')) with (false, ch_zero :: x :: c :: ds'). cbv iota beta.
  rewrite XB.
  assert (CU : (c =? ch_us) = false).
  { apply N.eqb_neq. intros ->. rewrite digit_value_us in DC. apply N.ltb_lt in DC. pose proof (radix_base_le r). lia. }
  rewrite (XK c ds' CU). unfold int_finish. rewrite CU.
  rewrite (int_digits_all (radix_base r) (radix_base_le r) (c :: ds') 0 O DV).
  cbn [length Nat.add Nat.eqb andb dropwhile]. rewrite dig_fold_0. reflexivity.
Qed.

(* ------------------------------------------------------------------ int() stops at . e E j J *)

Definition stopper (x : N) : bool := mem x [ch_dot; ch_e; ch_E; ch_j; ch_J].
(* after at least one digit a sign stops int() too *)
Definition stopper2 (x : N) : bool := stopper x || is_pm x.

Lemma stopper2_facts x : stopper2 x = true ->
  (digit_value x <? 10) = false /\ (x =? ch_us) = false /\ c_isspace x = false /\
  lower_is x 120 = false /\ lower_is x 111 = false /\ lower_is x 98 = false /\ (x =? ch_zero) = false.
Proof.
  intros H. assert (D : In x [ch_dot; ch_e; ch_E; ch_j; ch_J; ch_plus; ch_minus]).
  { unfold stopper2 in H. apply orb_true_iff in H. destruct H as [H|H].
    - apply mem_In in H. simpl in *. tauto.
    - unfold is_pm in H. apply orb_true_iff in H. destruct H as [H|H]; apply N.eqb_eq in H; subst; simpl; tauto. }
  simpl in D. repeat (destruct D as [D|D]; [subst x; vm_compute; repeat split; reflexivity|]). contradiction.
Qed.

Lemma stopper_facts x : stopper x = true ->
  (digit_value x <? 10) = false /\ (x =? ch_us) = false /\ c_isspace x = false /\
  lower_is x 120 = false /\ lower_is x 111 = false /\ lower_is x 98 = false /\ (x =? ch_zero) = false /\
  (x =? ch_plus) = false /\ (x =? ch_minus) = false.
Proof.
  intros H. apply mem_In in H. simpl in H.
  repeat (destruct H as [H|H]; [subst x; vm_compute; repeat split; reflexivity|]). contradiction.
Qed.

Lemma int_digits_stop : forall ds x rest acc n, all_dec ds = true -> stopper2 x = true ->
  int_digits 10 (ds ++ x :: rest) acc n false = Some (dig_fold 10 ds acc, (n + length ds)%nat, x :: rest).
Proof.
  induction ds as [|c r IH]; intros x rest acc n H S.
  - destruct (stopper2_facts x S) as (A & B & _). simpl. rewrite B, A, Nat.add_0_r. reflexivity.
  - simpl in H. apply andb_true_iff in H. destruct H as [Hc Hr]. simpl app. cbn [int_digits].
    pose proof (dec_bounds c Hc).
    replace (c =? ch_us) with false by (symmetry; apply N.eqb_neq; unfold ch_us; lia).
    rewrite (dec_digit_lt10 c Hc). rewrite (IH x rest _ _ Hr S). simpl. do 2 f_equal. f_equal. lia.
Qed.

(* digits (possibly none) followed by a stopper: int() in base 0 or 10 raises ValueError *)
Lemma py_int_stops : forall b0 ds x rest, all_dec ds = true -> stopper2 x = true -> (ds = [] -> stopper x = true) ->
  forallb is_ascii (ds ++ x :: rest) = true ->
  py_int U b0 (ds ++ x :: rest) = None.
Proof.
  intros b0 ds x rest H S S0 A. unfold py_int. rewrite (to_ascii_ascii U _ A).
  destruct (stopper2_facts x S) as (F1 & F2 & F3 & F4 & F5 & F6 & F7).
  assert (FIN : forall neg oo, int_finish neg 10 oo (ds ++ x :: rest) = None).
  { intros neg oo. unfold int_finish.
    destruct (ds ++ x :: rest) as [|c0 r0] eqn:E; [reflexivity|].
    assert (C0 : (c0 =? ch_us) = false).
    { destruct ds as [|d ds']; simpl in E; inversion E; subst; [exact F2|].
      simpl in H. apply andb_true_iff in H. destruct H as [Hd _]. pose proof (dec_bounds c0 Hd).
      apply N.eqb_neq. unfold ch_us. lia. }
    rewrite C0. rewrite <- E. rewrite (int_digits_stop ds x rest 0 O H S).
    destruct (Nat.eqb (0 + length ds) 0); [reflexivity|].
    destruct (oo && negb (dig_fold 10 ds 0 =? 0)); [reflexivity|].
    cbn [dropwhile]. rewrite F3. reflexivity. }
  destruct ds as [|c r].
  - (* the text starts with the stopper *)
    destruct (stopper_facts x (S0 eq_refl)) as (_ & _ & _ & _ & _ & _ & _ & F8 & F9).
    simpl app. cbn [dropwhile]. rewrite F3. unfold int_sign. rewrite F8, F9.
    assert (B : int_base b0 (x :: rest) = (10, false) \/ int_base b0 (x :: rest) = (10, true)).
    { unfold int_base. destruct b0; [|left; reflexivity]. destruct rest; rewrite F7; left; reflexivity. }
    assert (K : int_skip_prefix 10 (x :: rest) = x :: rest).
    { unfold int_skip_prefix. destruct rest; [reflexivity|]. rewrite F7. reflexivity. }
    destruct B as [-> | ->]; rewrite K; apply (FIN false _).
  - simpl in H. apply andb_true_iff in H. destruct H as [Hc Hr]. pose proof (dec_bounds c Hc) as Bc.
    simpl app. cbn [dropwhile]. rewrite (dec_not_space c Hc). unfold int_sign.
    replace (c =? ch_plus) with false by (symmetry; apply N.eqb_neq; unfold ch_plus; lia).
    replace (c =? ch_minus) with false by (symmetry; apply N.eqb_neq; unfold ch_minus; lia).
    assert (B : exists oo, int_base b0 (c :: r ++ x :: rest) = (10, oo)).
    { unfold int_base. destruct b0; [|exists false; reflexivity].
      destruct (r ++ x :: rest) as [|c1 r1] eqn:E.
      - destruct (c =? ch_zero); eexists; reflexivity.
      - destruct (negb (c =? ch_zero)); [eexists; reflexivity|].
        assert (L : lower_is c1 120 = false /\ lower_is c1 111 = false /\ lower_is c1 98 = false).
        { destruct r as [|d r']; simpl in E; inversion E; subst; [tauto|].
          simpl in Hr. apply andb_true_iff in Hr. destruct Hr as [Hd _]. pose proof (dec_bounds c1 Hd).
          unfold lower_is. repeat split; apply orb_false_iff; split; apply N.eqb_neq; lia. }
        destruct L as (L1 & L2 & L3). rewrite L1, L2, L3. eexists; reflexivity. }
    destruct B as [oo B]. rewrite B.
    assert (K : int_skip_prefix 10 (c :: r ++ x :: rest) = c :: r ++ x :: rest).
    { unfold int_skip_prefix. destruct (r ++ x :: rest); [reflexivity|].
      change (10 =? 16) with false. change (10 =? 8) with false. change (10 =? 2) with false.
      cbn [andb orb]. rewrite andb_false_r. reflexivity. }
    rewrite K. apply (FIN false oo).
Qed.

End Int.
