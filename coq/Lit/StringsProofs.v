(* C23: proofs about the string-literal model (quoted strings). *)
From HyV Require Import Base.Text Gen.LitTables Lit.Strings Lit.StringsSpec.
From Coq Require Import Lia.

(* ------------------------------------------------------------------ small facts *)

Lemma eqb_true a b : (a =? b) = true -> a = b.
Proof. apply N.eqb_eq. Qed.
Lemma eqb_false a b : (a =? b) = false -> a <> b.
Proof. apply N.eqb_neq. Qed.

Lemma existsb_rev {A} (p : A -> bool) l : existsb p (rev l) = existsb p l.
Proof.
  induction l as [|x l IH]; simpl; [reflexivity|].
  rewrite existsb_app, IH. simpl. rewrite orb_false_r. apply orb_comm.
Qed.

(* ------------------------------------------------------------------ obligations on the regenerated tables *)

(* what the reader assumes about the table layout *)
Lemma nl_table_shape : nl_replacements = [([ch_cr; ch_lf], [ch_lf]); ([ch_cr], [ch_lf])].
Proof. reflexivity. Qed.
Lemma quote_closing_chars_shape : str_quote_closing_chars = [ch_dq; ch_bs].
Proof. reflexivity. Qed.
Lemma prefix_tables_shape : str_prefix_rawset = [ch_r] /\ subset [ch_r; ch_b; ch_f; ch_t] str_prefix_alphabet = true.
Proof. split; reflexivity. Qed.

(* the whitelist is the set of characters that start an escape Python recognises, plus the raw
   carriage return (which newline translation turns into a line feed before decoding) *)
Lemma whitelist_has_cr : forall isb, mem ch_cr (whitelist isb) = true.
Proof. intros [|]; reflexivity. Qed.
Lemma whitelist_recognised : forall isb, forallb (fun c => (c =? ch_cr) || known_start isb c) (whitelist isb) = true.
Proof. intros [|]; vm_compute; reflexivity. Qed.
Lemma whitelist_ascii : forall isb, forallb (fun c => c <? 128) (whitelist isb) = true.
Proof. intros [|]; vm_compute; reflexivity. Qed.
Lemma lf_known : forall isb, known_start isb ch_lf = true.
Proof. intros [|]; reflexivity. Qed.
Lemma cr_unknown : forall isb, known_start isb ch_cr = false.
Proof. intros [|]; reflexivity. Qed.

Lemma known_in_whitelist isb c : known_start isb c = true -> mem c (whitelist isb) = true.
Proof.
  intros H. destruct (mem c (whitelist isb)) eqn:M; [reflexivity|]. exfalso.
  assert (K : forall k, mem k (whitelist isb) = true -> c <> k) by (intros k Hk E; subst; congruence).
  assert (KK : forall k, (c =? k) = true -> mem k (whitelist true) = true -> mem k (whitelist false) = true -> False).
  { intros k E A B. apply eqb_true in E. apply (K k); [destruct isb; assumption | exact E]. }
  unfold known_start, feed in H.
  unfold simple_escape, simple_escapes, assoc in H.
  repeat match type of H with
  | context [if c =? ?k then _ else _] =>
      let E := fresh "E" in
      destruct (c =? k) eqn:E; [exact (KK k E eq_refl eq_refl)|]
  end.
  unfold oct_val in H.
  destruct ((48 <=? c) && (c <=? 55)) eqn:EO.
  - apply andb_true_iff in EO. destruct EO as [A B]. apply N.leb_le in A. apply N.leb_le in B.
    assert (D : c = 48 \/ c = 49 \/ c = 50 \/ c = 51 \/ c = 52 \/ c = 53 \/ c = 54 \/ c = 55) by lia.
    repeat (destruct D as [D|D]; [subst c; destruct isb; vm_compute in M; discriminate M|]).
    subst c; destruct isb; vm_compute in M; discriminate M.
  - destruct isb; simpl in H.
    + discriminate.
    + repeat match type of H with
      | context [if c =? ?k then _ else _] =>
          let E := fresh "E" in
          destruct (c =? k) eqn:E; [apply eqb_true in E; subst c; vm_compute in M; discriminate M|]
      end. discriminate.
Qed.

Lemma whitelist_known isb c : c <> ch_cr -> mem c (whitelist isb) = known_start isb c.
Proof.
  intros Hc. destruct (known_start isb c) eqn:K.
  - apply known_in_whitelist. exact K.
  - destruct (mem c (whitelist isb)) eqn:M; [|reflexivity].
    pose proof (whitelist_recognised isb) as W. rewrite forallb_forall in W.
    apply mem_In in M. apply W in M. apply orb_true_iff in M. destruct M as [M|M].
    + apply eqb_true in M. contradiction.
    + congruence.
Qed.

Lemma whitelist_is_pythons : forall isb c, mem c (whitelist isb) = (c =? ch_cr) || known_start isb c.
Proof.
  intros isb c. destruct (c =? ch_cr) eqn:E.
  - apply N.eqb_eq in E. subst c. apply whitelist_has_cr.
  - apply whitelist_known. apply N.eqb_neq. exact E.
Qed.

Lemma known_lt128 isb c : known_start isb c = true -> c < 128.
Proof.
  intros H. apply known_in_whitelist in H.
  pose proof (whitelist_ascii isb) as W. rewrite forallb_forall in W.
  apply mem_In in H. apply W in H. apply N.ltb_lt in H. exact H.
Qed.

Section Proofs.
Variable U : text -> option N.

Lemma known_strict_eq isb c : known_start isb c = true -> feed U false isb SEsc c = feed U true isb SEsc c.
Proof.
  unfold known_start, feed.
  destruct (c =? ch_lf); [reflexivity|].
  destruct (simple_escape c); [reflexivity|].
  destruct (oct_val c); [reflexivity|].
  destruct (c =? 120); [reflexivity|].
  destruct (negb isb && (c =? 117)); [reflexivity|].
  destruct (negb isb && (c =? 85)); [reflexivity|].
  destruct (negb isb && (c =? 78)); [reflexivity|].
  discriminate.
Qed.

Lemma unknown_strict_none isb c : known_start isb c = false -> feed U true isb SEsc c = None.
Proof.
  unfold known_start. change (feed (fun _ => None) true isb SEsc c) with (feed U true isb SEsc c).
  destruct (feed U true isb SEsc c); [discriminate | reflexivity].
Qed.

(* the reader's whitelist test on the raw body = "every escape recognised" on the translated body *)
Lemma esc_chk_rec_chk isb : forall s esc prev, (prev = true -> esc = false) ->
  esc_chk isb esc s = rec_chk isb esc (nl_spec_aux prev s).
Proof.
  induction s as [|c r IH]; intros esc prev HP; [reflexivity|].
  cbn [esc_chk nl_spec_aux].
  destruct (c =? ch_bs) eqn:E1.
  - apply eqb_true in E1. subst c. change (ch_bs =? ch_lf) with false. rewrite andb_false_r.
    change (ch_bs =? ch_cr) with false. cbn [rec_chk]. change (ch_bs =? ch_bs) with true. cbv iota.
    apply IH. discriminate.
  - destruct (prev && (c =? ch_lf)) eqn:E2.
    + apply andb_true_iff in E2. destruct E2 as [P L]. rewrite (HP P). simpl. apply IH. discriminate.
    + destruct (c =? ch_cr) eqn:E3.
      * apply eqb_true in E3. subst c. rewrite whitelist_has_cr. rewrite andb_false_r.
        cbn [rec_chk]. change (ch_lf =? ch_bs) with false. rewrite lf_known, andb_false_r. cbv iota.
        apply IH. reflexivity.
      * cbn [rec_chk]. rewrite E1. rewrite whitelist_known by (apply eqb_false; exact E3).
        destruct (esc && negb (known_start isb c)); [reflexivity|]. apply IH. discriminate.
Qed.

(* ------------------------------------------------------------------ scanning to the closing quote *)

Lemma scan_closed raw isb : forall body esc rest,
  closed_body esc body = true ->
  scan_q raw isb esc (body ++ ch_dq :: rest) =
    if raw || esc_chk isb esc body then Ok (body, rest) else Lex EEscape.
Proof.
  induction body as [|c b IH]; intros esc rest H.
  - simpl in H. apply negb_true_iff in H. subst esc. simpl. rewrite orb_true_r. reflexivity.
  - simpl app. simpl in H. cbn [scan_q esc_chk].
    destruct (c =? ch_bs) eqn:E1.
    + rewrite (IH _ rest H). destruct (raw || esc_chk isb (negb esc) b); reflexivity.
    + destruct ((c =? ch_dq) && negb esc) eqn:E2; [discriminate|].
      destruct raw.
      * cbn [negb]. rewrite andb_false_r. cbn [andb orb]. rewrite (IH _ rest H). reflexivity.
      * cbn [negb]. rewrite andb_true_r. cbn [orb].
        destruct (esc && negb (mem c (whitelist isb))) eqn:E3; [reflexivity|].
        rewrite (IH _ rest H). cbn [orb]. destruct (esc_chk isb false b); reflexivity.
Qed.

(* an unterminated body: the reader reports premature end of input or an escape error, never a value *)
Lemma scan_no_quote raw isb : forall s esc, (forall body rest, s <> body ++ ch_dq :: rest) ->
  scan_q raw isb esc s = Premature \/ scan_q raw isb esc s = Lex EEscape.
Proof.
  induction s as [|c r IH]; intros esc H; [left; reflexivity|].
  cbn [scan_q].
  assert (Hr : forall body rest, r <> body ++ ch_dq :: rest).
  { intros body rest E. apply (H (c :: body) rest). simpl. congruence. }
  destruct (c =? ch_bs).
  - destruct (IH (negb esc) Hr) as [-> | ->]; [left | right]; reflexivity.
  - destruct ((c =? ch_dq) && negb esc) eqn:E2.
    + apply andb_true_iff in E2. destruct E2 as [E2 _]. apply eqb_true in E2. subst c.
      exfalso. apply (H [] r). reflexivity.
    + destruct (esc && negb raw && negb (mem c (whitelist isb))); [right; reflexivity|].
      destruct (IH false Hr) as [-> | ->]; [left | right]; reflexivity.
Qed.

(* ------------------------------------------------------------------ newline normalisation *)

Lemma nl_aux_true s :
  nl_spec_aux true s = match s with c :: r => if c =? ch_lf then nl_spec_aux false r else nl_spec_aux false s | [] => [] end.
Proof. destruct s as [|c r]; [reflexivity|]. simpl. destruct (c =? ch_lf); reflexivity. Qed.

Lemma replace_crlf_cons2 c d s :
  replace_crlf (c :: d :: s) =
    if c =? ch_cr then (if d =? ch_lf then ch_lf :: replace_crlf s else c :: replace_crlf (d :: s))
    else c :: replace_crlf (d :: s).
Proof. reflexivity. Qed.
Lemma nl_spec_aux_cons b c r :
  nl_spec_aux b (c :: r) =
    if b && (c =? ch_lf) then nl_spec_aux false r
    else (if c =? ch_cr then ch_lf else c) :: nl_spec_aux (c =? ch_cr) r.
Proof. reflexivity. Qed.
Lemma replace_cr_cons c s : replace_cr (c :: s) = (if c =? ch_cr then ch_lf else c) :: replace_cr s.
Proof. reflexivity. Qed.

Lemma nl_norm_spec_strong : forall s, nl_norm s = nl_spec s /\ forall c, nl_norm (c :: s) = nl_spec (c :: s).
Proof.
  unfold nl_norm, nl_spec.
  induction s as [|d s [IH1 IH2]].
  - split; [reflexivity|]. intros c. simpl. destruct (c =? ch_cr) eqn:E; simpl; rewrite ?E; reflexivity.
  - split; [apply IH2|]. intros c.
    rewrite replace_crlf_cons2, (nl_spec_aux_cons false c). cbn [andb].
    destruct (c =? ch_cr) eqn:E.
    + rewrite nl_aux_true. destruct (d =? ch_lf) eqn:E2.
      * rewrite replace_cr_cons. change (ch_lf =? ch_cr) with false. cbv iota. f_equal. exact IH1.
      * rewrite replace_cr_cons, E. f_equal. exact (IH2 d).
    + rewrite replace_cr_cons, E. f_equal. exact (IH2 d).
Qed.

Lemma nl_norm_spec s : nl_norm s = nl_spec s.
Proof. apply nl_norm_spec_strong. Qed.

Lemma nl_spec_no_cr : forall s b, ~ In ch_cr (nl_spec_aux b s).
Proof.
  induction s as [|c r IH]; intros b H; [exact H|].
  simpl in H. destruct (b && (c =? ch_lf)); [exact (IH _ H)|].
  destruct H as [H|H]; [|exact (IH _ H)].
  destruct (c =? ch_cr) eqn:E; [discriminate|]. apply eqb_false in E. congruence.
Qed.

Lemma nl_spec_id : forall s, ~ In ch_cr s -> nl_spec_aux false s = s.
Proof.
  induction s as [|c r IH]; intros H; [reflexivity|].
  simpl. assert (E : (c =? ch_cr) = false) by (apply N.eqb_neq; intros ->; apply H; left; reflexivity).
  rewrite E. f_equal. apply IH. intros X. apply H. right. exact X.
Qed.

(* ------------------------------------------------------------------ running the automaton over several characters *)

Variable strict isb : bool.

Fixpoint steps (st : dstate) (s : text) : option (dstate * text) :=
  match s with
  | [] => Some (st, [])
  | c :: r =>
      match feed U strict isb st c with
      | None => None
      | Some (st', o) => match steps st' r with Some (st'', o') => Some (st'', o ++ o') | None => None end
      end
  end.

Lemma run_app : forall a b st,
  run U strict isb st (a ++ b) =
    match steps st a with
    | None => None
    | Some (st', o) => match run U strict isb st' b with Some t => Some (o ++ t) | None => None end
    end.
Proof.
  induction a as [|c a IH]; intros b st.
  - simpl. destruct (run U strict isb st b); reflexivity.
  - simpl. destruct (feed U strict isb st c) as [[st' o]|]; [|reflexivity].
    rewrite IH. destruct (steps st' a) as [[st'' o']|]; [|reflexivity].
    destruct (run U strict isb st'' b); [|reflexivity]. rewrite app_assoc. reflexivity.
Qed.

Lemma steps_app : forall a b st,
  steps st (a ++ b) =
    match steps st a with
    | None => None
    | Some (st', o) => match steps st' b with Some (st'', o') => Some (st'', o ++ o') | None => None end
    end.
Proof.
  induction a as [|c a IH]; intros b st.
  - simpl. destruct (steps st b) as [[? ?]|]; reflexivity.
  - simpl. destruct (feed U strict isb st c) as [[st' o]|]; [|reflexivity].
    rewrite IH. destruct (steps st' a) as [[st'' o']|]; [|reflexivity].
    destruct (steps st'' b) as [[? ?]|]; [|reflexivity]. rewrite app_assoc. reflexivity.
Qed.

End Proofs.

(* ------------------------------------------------------------------ hexadecimal round trip *)

Fixpoint pow16 (k : nat) : N := match k with O => 1 | S k' => 16 * pow16 k' end.

Lemma hex_val_digit d : d < 16 -> hex_val (hex_digit d) = Some d.
Proof.
  intros H.
  assert (D : d = 0 \/ d = 1 \/ d = 2 \/ d = 3 \/ d = 4 \/ d = 5 \/ d = 6 \/ d = 7 \/ d = 8 \/ d = 9 \/
              d = 10 \/ d = 11 \/ d = 12 \/ d = 13 \/ d = 14 \/ d = 15) by lia.
  repeat (destruct D as [D|D]; [subst d; reflexivity|]). subst d; reflexivity.
Qed.

Lemma hex_digit_not_rbrace d : d < 16 -> hex_digit d <> ch_rbrace.
Proof.
  intros H. unfold hex_digit, ch_rbrace. destruct (d <? 10); lia.
Qed.

Lemma hexn_no_rbrace : forall k n, Forall (fun x => x <> ch_rbrace) (hexn k n).
Proof.
  induction k as [|k IH]; intros n; simpl; [constructor|].
  apply Forall_app. split; [apply IH|]. constructor; [|constructor].
  apply hex_digit_not_rbrace. apply N.mod_lt. discriminate.
Qed.

Section Hex.
Variable U : text -> option N.
Variable strict isb : bool.

Lemma steps_hex_partial : forall k m acc n, n < pow16 k ->
  steps U strict isb (SHex acc (k + S m)) (hexn k n) = Some (SHex (acc * pow16 k + n) (S m), []).
Proof.
  induction k as [|k IH]; intros m acc n H.
  - simpl in *. assert (n = 0) by lia. subst n. do 2 f_equal. f_equal. lia.
  - cbn [hexn]. rewrite steps_app.
    replace (S k + S m)%nat with (k + S (S m))%nat by lia.
    assert (Hq : n / 16 < pow16 k).
    { apply N.div_lt_upper_bound; [discriminate|]. exact H. }
    rewrite (IH (S m) acc (n / 16) Hq).
    cbn [steps feed]. rewrite hex_val_digit by (apply N.mod_lt; discriminate).
    cbn [app]. do 2 f_equal. f_equal.
    cbn [pow16]. pose proof (N.div_mod n 16 ltac:(discriminate)) as DM. lia.
Qed.

Lemma steps_hex_full : forall k acc n, n < pow16 (S k) -> acc * pow16 (S k) + n < 1114112 ->
  steps U strict isb (SHex acc (S k)) (hexn (S k) n) = Some (SNorm, [acc * pow16 (S k) + n]).
Proof.
  intros k acc n H V. cbn [hexn]. rewrite steps_app.
  replace (S k) with (k + 1)%nat at 1 by lia.
  assert (Hq : n / 16 < pow16 k).
  { apply N.div_lt_upper_bound; [discriminate|]. exact H. }
  rewrite (steps_hex_partial k 0 acc (n / 16) Hq).
  cbn [steps feed]. rewrite hex_val_digit by (apply N.mod_lt; discriminate).
  assert (E : (acc * pow16 k + n / 16) * 16 + n mod 16 = acc * pow16 (S k) + n).
  { cbn [pow16]. pose proof (N.div_mod n 16 ltac:(discriminate)) as DM. lia. }
  rewrite E. apply N.ltb_lt in V. rewrite V. reflexivity.
Qed.

Lemma steps_name_push : forall bs a, Forall (fun x => x <> ch_rbrace) bs ->
  steps U strict isb (SName a) bs = Some (SName (rev bs ++ a), []).
Proof.
  induction bs as [|c r IH]; intros a H; [reflexivity|].
  inversion H as [|? ? Hc Hr]; subst. cbn [steps feed].
  apply N.eqb_neq in Hc. rewrite Hc. rewrite (IH _ Hr). simpl. rewrite <- app_assoc. reflexivity.
Qed.
End Hex.

