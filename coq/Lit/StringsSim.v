(* C23: the decoding pipelines of read_chars_until agree with Python's literal semantics.
     str:   unicode_escape_decode (latin1_bsr body)  =  strict automaton on the code points of body
     bytes: escape_decode body                       =  strict automaton on body
   whenever every escape of the body is recognised; and an unrecognised escape has no value. *)
From HyV Require Import Base.Text Gen.LitTables Lit.Strings Lit.StringsSpec Lit.StringsProofs.
From Coq Require Import Lia.

Definition name_bad (a : text) : bool := existsb (fun c => (c =? ch_bs) || (256 <=? c)) a.

(* hypothesis about the interpreter's name table: a name holding a backslash or a character that
   is not Latin-1 is unknown *)
Definition lookup_bad (U : text -> option N) : Prop := forall a, name_bad a = true -> U a = None.

Definition srel (sb st : dstate) : Prop :=
  sb = st \/ exists a b, sb = SName a /\ st = SName b /\ name_bad a = true /\ name_bad b = true.

(* quote_closing's `escaping` flag versus the decoder state *)
Definition einv (st : dstate) (esc : bool) : Prop :=
  match st with
  | SEsc => esc = true
  | SName a => esc = false \/ name_bad a = true
  | _ => esc = false
  end.

Definition next_esc (esc : bool) (c : N) : bool := if c =? ch_bs then negb esc else false.

Lemma oct_val_not_bs c d : oct_val c = Some d -> (c =? ch_bs) = false.
Proof.
  unfold oct_val. destruct ((48 <=? c) && (c <=? 55)) eqn:E; [|discriminate]. intros _.
  apply andb_true_iff in E. destruct E as [A B]. apply N.leb_le in B. apply N.eqb_neq. unfold ch_bs. lia.
Qed.

Lemma hex_val_not_bs c d : hex_val c = Some d -> (c =? ch_bs) = false.
Proof.
  unfold hex_val.
  destruct ((48 <=? c) && (c <=? 57)) eqn:E1.
  - intros _. apply andb_true_iff in E1. destruct E1 as [A B]. apply N.leb_le in B. apply N.eqb_neq. unfold ch_bs. lia.
  - destruct ((97 <=? c) && (c <=? 102)) eqn:E2.
    + intros _. apply andb_true_iff in E2. destruct E2 as [A B]. apply N.leb_le in A. apply N.eqb_neq. unfold ch_bs. lia.
    + destruct ((65 <=? c) && (c <=? 70)) eqn:E3; [|discriminate].
      intros _. apply andb_true_iff in E3. destruct E3 as [A B]. apply N.leb_le in B. apply N.eqb_neq. unfold ch_bs. lia.
Qed.

Lemma oct_val_big c : 256 <= c -> oct_val c = None.
Proof.
  intros H. unfold oct_val. destruct ((48 <=? c) && (c <=? 55)) eqn:E; [|reflexivity].
  apply andb_true_iff in E. destruct E as [A B]. apply N.leb_le in B. lia.
Qed.
Lemma hex_val_big c : 256 <= c -> hex_val c = None.
Proof.
  intros H. unfold hex_val.
  destruct ((48 <=? c) && (c <=? 57)) eqn:E1; [apply andb_true_iff in E1; destruct E1 as [A B]; apply N.leb_le in B; lia|].
  destruct ((97 <=? c) && (c <=? 102)) eqn:E2; [apply andb_true_iff in E2; destruct E2 as [A B]; apply N.leb_le in B; lia|].
  destruct ((65 <=? c) && (c <=? 70)) eqn:E3; [apply andb_true_iff in E3; destruct E3 as [A B]; apply N.leb_le in B; lia|].
  reflexivity.
Qed.

Lemma name_bad_cons c a : name_bad (c :: a) = ((c =? ch_bs) || (256 <=? c)) || name_bad a.
Proof. reflexivity. Qed.

Section Sim.
Variable U : text -> option N.
Hypothesis LB : lookup_bad U.

Lemma run_bad_name strict isb : forall s a, name_bad a = true -> run U strict isb (SName a) s = None.
Proof.
  induction s as [|c r IH]; intros a H; [reflexivity|].
  cbn [run feed]. destruct (c =? ch_rbrace).
  - destruct a as [|x a']; [discriminate H|].
    rewrite (LB (rev (x :: a'))); [reflexivity|]. unfold name_bad. rewrite existsb_rev. exact H.
  - rewrite IH; [reflexivity|]. rewrite name_bad_cons, H. apply orb_true_r.
Qed.

(* the flag follows the decoder *)
Lemma einv_step strict isb st esc c st' o :
  einv st esc -> feed U strict isb st c = Some (st', o) -> einv st' (next_esc esc c).
Proof.
  unfold next_esc. intros I F. destruct st; cbn [einv] in I; cbn [feed] in F.
  - (* SNorm *) subst esc. unfold feed_norm in F. destruct (c =? ch_bs); inversion F; subst; reflexivity.
  - (* SEsc *) subst esc.
    destruct (c =? ch_bs) eqn:EB.
    + apply eqb_true in EB. subst c. vm_compute in F. inversion F; subst. reflexivity.
    + destruct (c =? ch_lf); [inversion F; subst; reflexivity|].
      destruct (simple_escape c); [inversion F; subst; reflexivity|].
      destruct (oct_val c); [inversion F; subst; reflexivity|].
      destruct (c =? 120); [inversion F; subst; reflexivity|].
      destruct (negb isb && (c =? 117)); [inversion F; subst; reflexivity|].
      destruct (negb isb && (c =? 85)); [inversion F; subst; reflexivity|].
      destruct (negb isb && (c =? 78)); [inversion F; subst; reflexivity|].
      destruct strict; [discriminate|]. inversion F; subst; reflexivity.
  - (* SOct *) subst esc. destruct (oct_val c) eqn:EO.
    + rewrite (oct_val_not_bs _ _ EO). destruct more as [|[|[|?]]]; inversion F; subst; reflexivity.
    + unfold feed_norm in F. destruct (c =? ch_bs); inversion F; subst; reflexivity.
  - (* SHex *) subst esc. destruct (hex_val c) eqn:EH; [|discriminate].
    rewrite (hex_val_not_bs _ _ EH).
    destruct need as [|[|?]]; [discriminate| |inversion F; subst; reflexivity].
    destruct (acc * 16 + n <? 1114112); [inversion F; subst; reflexivity | discriminate].
  - (* SNameOpen *) subst esc. destruct (c =? ch_lbrace) eqn:E; [|discriminate].
    apply eqb_true in E. subst c. inversion F; subst. change (ch_lbrace =? ch_bs) with false. left. reflexivity.
  - (* SName *) destruct (c =? ch_rbrace) eqn:E.
    + apply eqb_true in E. subst c. change (ch_rbrace =? ch_bs) with false.
      destruct racc; [discriminate|]. destruct (U (rev (n :: racc))); inversion F; subst. reflexivity.
    + inversion F; subst. cbn [einv]. rewrite name_bad_cons.
      destruct (c =? ch_bs); [right; reflexivity|left; reflexivity].
Qed.

(* strict and non-strict decoding differ only on an unrecognised escape *)
Lemma feed_strict_eq isb st c : (st = SEsc -> known_start isb c = true) ->
  feed U false isb st c = feed U true isb st c.
Proof.
  intros H. destruct st; try reflexivity. apply known_strict_eq. apply H. reflexivity.
Qed.

Lemma bs_known isb : known_start isb ch_bs = true.
Proof. destruct isb; reflexivity. Qed.

Lemma esc_known isb st esc c r : einv st esc -> rec_chk isb esc (c :: r) = true -> st = SEsc -> known_start isb c = true.
Proof.
  intros I R E. subst st. cbn [einv] in I. subst esc. cbn [rec_chk] in R.
  destruct (c =? ch_bs) eqn:EB; [apply eqb_true in EB; subst; apply bs_known|].
  cbn [andb] in R. destruct (known_start isb c); [reflexivity | discriminate].
Qed.

Lemma rec_chk_tail isb esc c r : rec_chk isb esc (c :: r) = true -> rec_chk isb (next_esc esc c) r = true.
Proof.
  cbn [rec_chk]. unfold next_esc. destruct (c =? ch_bs); [trivial|].
  destruct (esc && negb (known_start isb c)); [discriminate | trivial].
Qed.

(* an unrecognised escape has no value *)
Lemma unrecognised_none isb : forall s st esc,
  rec_chk isb esc s = false -> einv st esc -> run U true isb st s = None.
Proof.
  induction s as [|c r IH]; intros st esc R I; [discriminate|].
  cbn [run]. cbn [rec_chk] in R.
  destruct (c =? ch_bs) eqn:EB.
  - destruct (feed U true isb st c) as [[st' o]|] eqn:F; [|reflexivity].
    pose proof (einv_step _ _ _ _ _ _ _ I F) as I'. unfold next_esc in I'. rewrite EB in I'.
    rewrite (IH _ _ R I'). reflexivity.
  - destruct (esc && negb (known_start isb c)) eqn:EK.
    + apply andb_true_iff in EK. destruct EK as [E1 E2]. apply negb_true_iff in E2. subst esc.
      destruct st; cbn [einv] in I; try discriminate.
      * rewrite (unknown_strict_none U isb c E2). reflexivity.
      * destruct I as [I|I]; [discriminate|].
        pose proof (run_bad_name true isb (c :: r) racc I) as RB. cbn [run] in RB. exact RB.
    + destruct (feed U true isb st c) as [[st' o]|] eqn:F; [|reflexivity].
      pose proof (einv_step _ _ _ _ _ _ _ I F) as I'. unfold next_esc in I'. rewrite EB in I'.
      rewrite (IH _ _ R I'). reflexivity.
Qed.

(* bytes flavour: escape_decode on a body whose escapes are all recognised is the strict semantics *)
Lemma strict_eq isb : forall s st esc,
  rec_chk isb esc s = true -> einv st esc -> run U false isb st s = run U true isb st s.
Proof.
  induction s as [|c r IH]; intros st esc R I; [reflexivity|].
  cbn [run]. rewrite (feed_strict_eq isb st c (esc_known isb st esc c r I R)).
  destruct (feed U true isb st c) as [[st' o]|] eqn:F; [|reflexivity].
  rewrite (IH st' (next_esc esc c)); [reflexivity | apply (rec_chk_tail _ _ _ _ R) | apply (einv_step _ _ _ _ _ _ _ I F)].
Qed.

(* ------------------------------------------------------------------ the Latin-1 / backslashreplace step *)

Lemma bsr_small c : c < 256 -> bsr_char c = [c].
Proof. intros H. unfold bsr_char. apply N.ltb_lt in H. rewrite H. reflexivity. Qed.

Definition bsr_tail (c : N) : text := if c <? 65536 then 117 :: hexn 4 c else 85 :: hexn 8 c.

Lemma bsr_big c : 256 <= c -> bsr_char c = ch_bs :: bsr_tail c.
Proof.
  intros H. unfold bsr_char, bsr_tail. apply N.ltb_ge in H. rewrite H. destruct (c <? 65536); reflexivity.
Qed.

Lemma bsr_tail_decodes c : 256 <= c -> c < 1114112 ->
  steps U false false SEsc (bsr_tail c) = Some (SNorm, [c]).
Proof.
  intros H V. unfold bsr_tail. destruct (c <? 65536) eqn:E.
  - apply N.ltb_lt in E.
    change (steps U false false SEsc (117 :: hexn 4 c))
      with (match steps U false false (SHex 0 4) (hexn 4 c) with Some (st'', o') => Some (st'', [] ++ o') | None => None end).
    rewrite (steps_hex_full U false false 3 0 c); [reflexivity | exact E | simpl; lia].
  - apply N.ltb_ge in E.
    change (steps U false false SEsc (85 :: hexn 8 c))
      with (match steps U false false (SHex 0 8) (hexn 8 c) with Some (st'', o') => Some (st'', [] ++ o') | None => None end).
    rewrite (steps_hex_full U false false 7 0 c); [reflexivity | simpl; lia | simpl; lia].
Qed.

Lemma bsr_tail_no_rbrace c : Forall (fun x => x <> ch_rbrace) (bsr_tail c).
Proof.
  unfold bsr_tail. destruct (c <? 65536); (constructor; [discriminate | apply hexn_no_rbrace]).
Qed.

Lemma steps_single strict isb st c :
  steps U strict isb st [c] = match feed U strict isb st c with Some (st', o) => Some (st', o ++ []) | None => None end.
Proof. cbn [steps]. destruct (feed U strict isb st c) as [[? ?]|]; reflexivity. Qed.

(* one source character: the bytes it is encoded to drive the codec exactly as the character drives the
   strict automaton *)
Lemma char_step sb st c : c < 1114112 -> srel sb st -> (st = SEsc -> known_start false c = true) ->
  match feed U true false st c with
  | None => steps U false false sb (bsr_char c) = None
  | Some (st', o) => exists sb', steps U false false sb (bsr_char c) = Some (sb', o) /\ srel sb' st'
  end.
Proof.
  intros V R K.
  destruct (c <? 256) eqn:EC.
  - (* a Latin-1 character is encoded as itself *)
    apply N.ltb_lt in EC. rewrite (bsr_small c EC), steps_single.
    destruct R as [R | (a & b & Ra & Rb & Ba & Bb)].
    + subst sb. rewrite (feed_strict_eq false st c K).
      destruct (feed U true false st c) as [[st' o]|]; [|reflexivity].
      exists st'. rewrite app_nil_r. split; [reflexivity | left; reflexivity].
    + subst sb st. cbn [feed]. destruct (c =? ch_rbrace).
      * destruct b as [|x b']; [discriminate Bb|]. destruct a as [|y a']; [discriminate Ba|].
        rewrite (LB (rev (x :: b'))) by (unfold name_bad; rewrite existsb_rev; exact Bb).
        rewrite (LB (rev (y :: a'))) by (unfold name_bad; rewrite existsb_rev; exact Ba). reflexivity.
      * exists (SName (c :: a)). split; [reflexivity|]. right. exists (c :: a), (c :: b).
        repeat split; rewrite name_bad_cons; [rewrite Ba | rewrite Bb]; apply orb_true_r.
  - (* anything else becomes a \u or \U escape *)
    apply N.ltb_ge in EC. rewrite (bsr_big c EC).
    assert (NB : (c =? ch_bs) = false) by (apply N.eqb_neq; unfold ch_bs; lia).
    assert (NR : (c =? ch_rbrace) = false) by (apply N.eqb_neq; unfold ch_rbrace; lia).
    assert (NL : (c =? ch_lbrace) = false) by (apply N.eqb_neq; unfold ch_lbrace; lia).
    assert (BADC : forall a, name_bad (c :: a) = true).
    { intros a. rewrite name_bad_cons. apply N.leb_le in EC. rewrite EC. rewrite orb_true_r. reflexivity. }
    assert (BADB : forall a, name_bad (rev (ch_bs :: bsr_tail c) ++ a) = true).
    { intros a. unfold name_bad. rewrite existsb_app, existsb_rev. reflexivity. }
    assert (PUSH : forall a, steps U false false (SName a) (ch_bs :: bsr_tail c)
                            = Some (SName (rev (ch_bs :: bsr_tail c) ++ a), [])).
    { intros a. apply steps_name_push. constructor; [discriminate | apply bsr_tail_no_rbrace]. }
    destruct R as [R | (a & b & Ra & Rb & Ba & Bb)].
    + subst sb. destruct st.
      * (* SNorm *) cbn [feed]. unfold feed_norm. rewrite NB. exists SNorm. split; [|left; reflexivity].
        cbn [steps feed]. unfold feed_norm. change (ch_bs =? ch_bs) with true. cbv iota.
        rewrite (bsr_tail_decodes c EC V). reflexivity.
      * (* SEsc: excluded, a recognised escape starts with an ASCII character *)
        pose proof (known_lt128 false c (K eq_refl)). lia.
      * (* SOct: the pending octal value is flushed on both sides *)
        cbn [feed]. rewrite (oct_val_big c EC). unfold feed_norm. rewrite NB.
        exists SNorm. split; [|left; reflexivity].
        cbn [steps feed]. change (oct_val ch_bs) with (@None N). unfold feed_norm. change (ch_bs =? ch_bs) with true. cbv iota.
        rewrite (bsr_tail_decodes c EC V). reflexivity.
      * (* SHex *) cbn [feed]. rewrite (hex_val_big c EC). reflexivity.
      * (* SNameOpen *) cbn [feed]. rewrite NL. reflexivity.
      * (* SName *) cbn [feed]. rewrite NR. eexists. split; [apply PUSH|].
        right. do 2 eexists. repeat split; [apply BADB | apply BADC].
    + subst sb st. cbn [feed]. rewrite NR. eexists. split; [apply PUSH|].
      right. do 2 eexists. repeat split; [apply BADB | apply BADC].
Qed.

(* str flavour: encode to Latin-1 with backslashreplace, decode with unicode_escape = strict semantics *)
Lemma pipeline_sim : forall body sb st esc,
  Forall valid_cp body -> srel sb st -> einv st esc -> rec_chk false esc body = true ->
  run U false false sb (latin1_bsr body) = run U true false st body.
Proof.
  induction body as [|c r IH]; intros sb st esc V R I C.
  - simpl. destruct R as [R | (a & b & Ra & Rb & _ & _)]; subst; reflexivity.
  - inversion V as [|? ? Vc Vr]; subst.
    change (latin1_bsr (c :: r)) with (bsr_char c ++ latin1_bsr r).
    rewrite run_app. cbn [run].
    pose proof (char_step sb st c Vc R (esc_known false st esc c r I C)) as CS.
    destruct (feed U true false st c) as [[st' o]|] eqn:F.
    + destruct CS as (sb' & S1 & R'). rewrite S1.
      rewrite (IH sb' st' (next_esc esc c) Vr R' (einv_step _ _ _ _ _ _ _ I F) (rec_chk_tail _ _ _ _ C)).
      reflexivity.
    + rewrite CS. reflexivity.
Qed.

End Sim.
