(* Extraction of the literal models for the correspondence harness.
   ExtrOcamlBasic only (bool, option, unit, list, prod, sumbool, sumor); numbers stay positive/N. *)
From HyV Require Import Base.Text Gen.LitTables Lit.Strings Lit.StringsSpec Lit.StringsRun Lit.Numeric Lit.NumericRun Lit.Ctor Lit.CtorRun.
Require Extraction.
Require Import ExtrOcamlBasic.
Extraction "../extract/lit_model.ml" m_string m_bracket m_uedec m_escdec m_bsr m_pyval
  m_ident m_pyint m_pyfloat m_pycomplex m_isdigit
  m_read m_sym_ok m_kw_ok m_str_ok m_render_bracket.
