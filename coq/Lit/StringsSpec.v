(* C23 -- reference semantics, written independently of the reader's control flow:
   what a Python string/bytes literal body denotes, where a body ends, newline translation,
   where a bracket string ends. *)
From HyV Require Import Base.Text Gen.LitTables Lit.Strings.

(* Python's value of the literal  <prefix>"<body>"  (or its triple-quoted form when the body holds
   newlines), for a body already newline-translated by the tokenizer.  None: not a valid literal
   (unrecognised or malformed escape, non-ASCII character in a bytes literal). *)
Definition py_string_value (ulookup : text -> option N) (raw isb : bool) (body : text) : option sval :=
  if isb then
    if forallb is_ascii body then
      if raw then Some (VBytes body) else option_map VBytes (run (fun _ => None) true true SNorm body)
    else None
  else if raw then Some (VStr body)
  else option_map VStr (run ulookup true false SNorm body).

(* universal-newline translation in one pass: CR LF -> LF, lone CR -> LF *)
Fixpoint nl_spec_aux (prev_cr : bool) (s : text) : text :=
  match s with
  | [] => []
  | c :: r =>
      if prev_cr && (c =? ch_lf) then nl_spec_aux false r
      else (if c =? ch_cr then ch_lf else c) :: nl_spec_aux (c =? ch_cr) r
  end.
Definition nl_spec (s : text) : text := nl_spec_aux false s.

(* a body is closed by the next quote: it contains no quote preceded by an even number of
   backslashes and does not end in an odd number of backslashes *)
Fixpoint closed_body (esc : bool) (s : text) : bool :=
  match s with
  | [] => negb esc
  | c :: r =>
      if c =? ch_bs then closed_body (negb esc) r
      else if (c =? ch_dq) && negb esc then false
      else closed_body false r
  end.

(* every backslash escape of the body starts with a character of the generated whitelist *)
Fixpoint esc_chk (isb esc : bool) (s : text) : bool :=
  match s with
  | [] => true
  | c :: r =>
      if c =? ch_bs then esc_chk isb (negb esc) r
      else if esc && negb (mem c (whitelist isb)) then false
      else esc_chk isb false r
  end.

(* Python recognises the escape that starts with backslash + c (language reference table; for the
   str flavour also N u U) *)
Definition known_start (isb : bool) (c : N) : bool :=
  match feed (fun _ => None) true isb SEsc c with Some _ => true | None => false end.

(* every backslash escape of a (newline-translated) body is one Python recognises *)
Fixpoint rec_chk (isb esc : bool) (s : text) : bool :=
  match s with
  | [] => true
  | c :: r =>
      if c =? ch_bs then rec_chk isb (negb esc) r
      else if esc && negb (known_start isb c) then false
      else rec_chk isb false r
  end.

(* end position of the first occurrence of [pat] in [s] *)
Fixpoint find_end (pat s : text) : option nat :=
  if starts_with pat s then Some (length pat)
  else match s with [] => None | _ :: r => option_map S (find_end pat r) end.

Definition valid_cp (c : N) : Prop := c < 1114112.
