(* C26 -- the constructors' own syntax checks (hy/models.py: Symbol.__new__, Keyword.__init__,
   String.__new__) and the part of the reader needed to say what "reading s yields that one
   symbol / keyword / bracket string" means: HyReader.parse -> parse_forms_until("") ->
   try_parse_one_form for the token-level forms (identifiers and numbers, keywords, quoted
   strings, bracket strings, line comments, whitespace).  Every other form (sequences, quote
   sugar, #-dispatch other than #[ , f-strings) is the single outcome ROther: such a form is never
   a bare Symbol, Keyword or String at top level. *)
From HyV Require Import Base.Text Gen.LitTables Lit.Strings Lit.Numeric.

Definition ch_colon : N := 58.
Definition ch_hash : N := 35.
Definition ch_semi : N := 59.

(* ------------------------------------------------------------------ constructors *)

Section Ctor.
Variable U : uni.                        (* Unicode digit / space classes, for the numeric cascade *)
Variable L : text -> option N.           (* \N{...} table, for quoted strings *)

(* Symbol(s): as_identifier(s) with reader=None must return a Symbol *)
Definition sym_ok (s : text) : bool :=
  match as_identifier U false s with ISym _ => true | _ => false end.

(* Keyword(s): value and ("." in value or any whitespace or NON_IDENT) raises *)
Definition kw_ok (s : text) : bool :=
  negb (match s with [] => false | _ => true end
        && (mem ch_dot s || existsb is_ws s || existsb (fun x => mem x non_ident) s)).

(* String(s, brackets=d): "]d]" in s raises *)
Definition str_ok (d s : text) : bool := negb (Strings.contains (closer d) s).

(* ------------------------------------------------------------------ the reader, token level *)

Inductive form :=
  | FSym (t : text)
  | FKw (t : text)
  | FNum (n : num)
  | FDotted (head : text) (parts : list text)
  | FStr (v : sval) (brackets : option text).

Inductive rout := ROk (l : list form) | RLex | RPremature | ROther.

Definition cons_ok (f : form) (r : rout) : rout := match r with ROk l => ROk (f :: l) | x => x end.

(* Reader.read_ident: up to whitespace or a character of NON_IDENT *)
Definition ends_ident (c : N) : bool := is_ws c || mem c non_ident.
Definition ident_char (c : N) : bool := negb (ends_ident c).

(* line_comment: through the next line feed *)
Fixpoint skip_line (s : text) : text :=
  match s with [] => [] | c :: r => if c =? ch_lf then r else skip_line r end.

Definition of_ident (i : ident) : option form :=
  match i with
  | INum n => Some (FNum n)
  | ISym t => Some (FSym t)
  | IDotted h ps => Some (FDotted h ps)
  | IErr _ => None
  | IIllegal => None
  end.

Definition of_string (o : outcome (sval * text)) (k : form -> text -> rout) : rout :=
  match o with
  | Ok (v, rest) => k (FStr v None) rest
  | Lex _ => RLex
  | Premature => RPremature
  | FStringPath => ROther
  end.

Fixpoint read_many (fuel : nat) (s : text) : rout :=
  match fuel with
  | O => ROther
  | S f =>
      match dropwhile is_ws s with
      | [] => ROk []
      | c :: r =>
          if c =? ch_semi then read_many f (skip_line r)
          else if c =? ch_colon then
            let id := takewhile ident_char r in
            if mem ch_dot id then RLex else cons_ok (FKw id) (read_many f (dropwhile ident_char r))
          else if c =? ch_dq then
            of_string (prefixed_string L [] r) (fun v rest => cons_ok v (read_many f rest))
          else if c =? ch_hash then
            match r with
            | d :: r' =>
                if d =? ch_lbr then
                  match bracketed_string r' with
                  | Ok ((content, delim), rest) => cons_ok (FStr (VStr content) (Some delim)) (read_many f rest)
                  | Lex _ => RLex
                  | Premature => RPremature
                  | FStringPath => ROther
                  end
                else ROther
            | [] => ROther
            end
          else if mem c [41; 93; 125] then RLex                    (* ) ] } *)
          else if mem c non_ident then ROther                      (* ( [ { ' ` ~ : sequences and sugar *)
          else
            (* read_default *)
            let id := c :: takewhile ident_char r in
            let rest := dropwhile ident_char r in
            match rest with
            | q :: r2 =>
                if q =? ch_dq then of_string (prefixed_string L id r2) (fun v rest2 => cons_ok v (read_many f rest2))
                else match of_ident (as_identifier U true id) with
                     | Some fm => cons_ok fm (read_many f rest)
                     | None => RLex
                     end
            | [] => match of_ident (as_identifier U true id) with
                    | Some fm => cons_ok fm (read_many f rest)
                    | None => RLex
                    end
            end
      end
  end.

(* hy.read_many(text): each step consumes a character, so this fuel is never exhausted *)
Definition read_top (s : text) : rout := read_many (S (length s)) s.

(* "#[" + d + "[" + (an extra line feed iff s begins with a newline) + s + "]" + d + "]" *)
Definition render_bracket (d s : text) : text :=
  ch_hash :: ch_lbr :: d ++ ch_lbr ::
  (match s with c :: _ => if (c =? ch_lf) || (c =? ch_cr) then [ch_lf] else [] | [] => [] end) ++ s ++ closer d.

End Ctor.
