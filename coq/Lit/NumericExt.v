(* C22: complex texts a+bj; ASCII texts do not consult the Unicode oracle; NaN and Inf are
   case-sensitive (finite enumeration); witnesses of the places where the reader departs from the
   documented rules. *)
From HyV Require Import Base.Text Gen.LitTables Lit.Numeric Lit.NumericSpec Lit.NumericProofs Lit.NumericInt Lit.NumericFloat
  Lit.NumericLit Lit.NumericSep.
From Coq Require Import ZArith Lia.

(* ------------------------------------------------------------------ a + b j *)

Lemma strtod_sign_prefix (minus : bool) t m e r :
  take_sign t = (false, t) -> strtod t = Some (FFin false m e, r) ->
  strtod ((if minus then ch_minus else ch_plus) :: t) = Some (FFin minus m e, r).
Proof.
  intros TS H. unfold strtod in *. rewrite TS in H.
  assert (T2 : take_sign ((if minus then ch_minus else ch_plus) :: t) = (minus, t)) by (destruct minus; reflexivity).
  rewrite T2. destruct (mantissa t) as [[[m0 nd] nfr] s3].
  destruct (Nat.eqb nd O).
  - unfold parse_inf_nan in H. rewrite TS in H.
    destruct (match_ci [105; 110; 102] t) as [r1|].
    + destruct (match_ci [105; 110; 105; 116; 121] r1); discriminate.
    + destruct (match_ci [110; 97; 110] t); discriminate.
  - destruct (exponent s3) as [ex s4]. inversion H; subst. reflexivity.
Qed.

Lemma mant_sum_split ip fp ex sg rest' : wf_mant ip fp = true -> is_pm sg = true ->
  exists x rest, render_mant ip fp ex ++ sg :: rest' = ip ++ x :: rest /\ stopper2 x = true /\ (ip = [] -> stopper x = true).
Proof.
  intros W P. destruct fp as [f|].
  - assert (Q : Some f <> None \/ ex <> None) by (left; discriminate).
    destruct (render_mant_split ip (Some f) ex (sg :: rest') W Q) as (x & rest & A & B).
    exists x, rest. split; [exact A | split; [unfold stopper2; rewrite B; reflexivity | intros _; exact B]].
  - destruct ex as [e|].
    + assert (Q : @None text <> None \/ Some e <> None) by (right; discriminate).
      destruct (render_mant_split ip None (Some e) (sg :: rest') W Q) as (x & rest & A & B).
      exists x, rest. split; [exact A | split; [unfold stopper2; rewrite B; reflexivity | intros _; exact B]].
    + exists sg, rest'. split; [|split].
      * unfold render_mant. rewrite app_nil_r. reflexivity.
      * unfold stopper2. rewrite P. apply orb_true_r.
      * intros ->. unfold wf_mant in W. simpl in W. discriminate W.
Qed.

Section Ext.
Variable U : uni.

Lemma sign_num_char (minus : bool) : num_char (if minus then ch_minus else ch_plus) = true.
Proof. destruct minus; reflexivity. Qed.

Lemma safe_sign (minus : bool) r : safe_rest ((if minus then ch_minus else ch_plus) :: r) = true.
Proof. destruct minus; reflexivity. Qed.

(* "Hy allows complex literals as understood by the constructor for complex, such as 5+4j" *)
Theorem complex_sum_reads : forall ip1 fp1 ex1 (minus : bool) ip2 fp2 ex2 (upper : bool),
  wf_mant ip1 fp1 = true -> wf_opt_expo ex1 = true -> wf_mant ip2 fp2 = true -> wf_opt_expo ex2 = true ->
  numeric U (render_mant ip1 fp1 ex1 ++ (if minus then ch_minus else ch_plus) :: render_mant ip2 fp2 ex2 ++ [if upper then ch_J else ch_j])
  = Some (NComplex (mant_value ip1 fp1 ex1)
                   (FFin minus (digits_value 10 (ip2 ++ frac_digits fp2)) (expo_value ex2 - Z.of_nat (length (frac_digits fp2))))).
Proof.
  intros ip1 fp1 ex1 minus ip2 fp2 ex2 upper W1 E1 W2 E2.
  set (sg := if minus then ch_minus else ch_plus). set (j := if upper then ch_J else ch_j).
  set (tl := sg :: render_mant ip2 fp2 ex2 ++ [j]). set (s := render_mant ip1 fp1 ex1 ++ tl).
  assert (NJ : num_char j = true) by (destruct upper; reflexivity).
  assert (NC : forallb num_char s = true).
  { unfold s, tl. rewrite forallb_app, (render_mant_ascii ip1 fp1 ex1 W1 E1). cbn [andb forallb].
    unfold sg. rewrite sign_num_char. cbn [andb]. rewrite forallb_app, (render_mant_ascii ip2 fp2 ex2 W2 E2). simpl. rewrite NJ. reflexivity. }
  destruct (plain_text_facts U s NC) as (SS & TA & SU & AA).
  pose proof (strtod_rendered ip1 fp1 ex1 tl W1 E1 (safe_sign minus _)) as ST. fold s in ST.
  pose proof (mant_first_not_space ip1 fp1 ex1 tl W1) as FS. fold s in FS.
  assert (SPLIT : exists x rest, s = ip1 ++ x :: rest /\ stopper2 x = true /\ (ip1 = [] -> stopper x = true)).
  { unfold s, tl. apply mant_sum_split; [exact W1 | unfold sg; destruct minus; reflexivity]. }
  destruct SPLIT as (x & rest & E & SX & SX0).
  rewrite numeric_from_parts.
  assert (HI : hy_integer U s = None).
  { unfold hy_integer. rewrite SS. rewrite E. apply py_int_stops; [apply (wf_mant_ip ip1 fp1 W1) | exact SX | exact SX0 | rewrite <- E; exact AA]. }
  rewrite HI.
  assert (NE : s <> []) by (rewrite E; destruct ip1; discriminate).
  assert (HF : hy_float U s = None).
  { unfold hy_float. rewrite SS. rewrite (py_float_plain U s NC NE).
    2:{ destruct s; [exact I | tauto]. }
    rewrite ST. reflexivity. }
  rewrite HF.
  assert (LEN : (2 <= length s)%nat).
  { unfold s, tl. rewrite app_length. simpl. rewrite app_length. simpl. lia. }
  rewrite (not_bare_j s LEN).
  pose proof (strtod_rendered ip2 fp2 ex2 [j] W2 E2 (safe_j upper)) as ST2.
  pose proof (render_mant_head ip2 fp2 ex2 [j] W2) as TS2.
  pose proof (strtod_sign_prefix minus _ _ _ _ TS2 ST2) as ST3.
  assert (HC : hy_complex U s = Some (mant_value ip1 fp1 ex1,
               FFin minus (digits_value 10 (ip2 ++ frac_digits fp2)) (expo_value ex2 - Z.of_nat (length (frac_digits fp2))))).
  { apply hy_complex_fin; [| apply num_char_noi; exact NC | exact I | exact I].
    unfold py_complex. rewrite SS, TA, SU. unfold complex_inner.
    rewrite cx_open_plain by (destruct s; [exact I | exact FS]).
    unfold cx_body. rewrite ST. unfold tl at 1.
    assert (PM : (sg =? ch_plus) || (sg =? ch_minus) = true) by (unfold sg; destruct minus; reflexivity).
    rewrite PM. fold tl. unfold tl at 1. fold sg in ST3. rewrite ST3.
    assert (IJ : is_j j = true) by (unfold j; destruct upper; reflexivity). rewrite IJ. reflexivity. }
  rewrite HC. reflexivity.
Qed.

(* ------------------------------------------------------------------ ASCII text: no oracle *)

Lemma isdigit_str_ascii_indep (V : uni) s : forallb is_ascii s = true -> isdigit_str U s = isdigit_str V s.
Proof.
  intros A. unfold isdigit_str. destruct s as [|c r]; [reflexivity|].
  assert (G : forall l, forallb is_ascii l = true -> forallb (isdigit_ch U) l = forallb (isdigit_ch V) l).
  { induction l as [|x l IH]; intros H; [reflexivity|]. simpl in H. apply andb_true_iff in H. destruct H as [Hx Hl].
    simpl. rewrite (IH Hl). unfold isdigit_ch. unfold is_ascii in Hx. rewrite Hx. reflexivity. }
  apply G. exact A.
Qed.

Lemma strip_seps_ascii s : forallb is_ascii s = true -> forallb is_ascii (strip_seps s) = true.
Proof.
  intros A. destruct s as [|c [|d r]]; try exact A.
  assert (Ac : is_ascii c = true) by (simpl in A; apply andb_true_iff in A; tauto).
  assert (Ar : forallb is_ascii (d :: r) = true) by (simpl in A; apply andb_true_iff in A; tauto).
  change (strip_seps (c :: d :: r)) with (c :: remove_seps (d :: r)).
  cbn [forallb]. rewrite Ac. cbn [andb].
  apply forallb_forall. intros x Hx. unfold remove_seps in Hx. apply filter_In in Hx. destruct Hx as [Hx _].
  rewrite forallb_forall in Ar. apply Ar. exact Hx.
Qed.

Theorem numeric_ascii_indep (V : uni) s : forallb is_ascii s = true -> numeric U s = numeric V s.
Proof.
  intros A. pose proof (strip_seps_ascii s A) as AS.
  assert (HI : hy_integer U s = hy_integer V s).
  { unfold hy_integer. rewrite (isdigit_str_ascii_indep V s A). unfold py_int. rewrite !to_ascii_ascii by exact AS. reflexivity. }
  assert (HF : hy_float U s = hy_float V s).
  { unfold hy_float, py_float. rewrite !to_ascii_ascii by exact AS. reflexivity. }
  assert (HC : hy_complex U s = hy_complex V s).
  { unfold hy_complex, py_complex. rewrite !to_ascii_ascii by exact AS. reflexivity. }
  rewrite !numeric_from_parts, HI, HF, HC. reflexivity.
Qed.

End Ext.

(* ------------------------------------------------------------------ NaN / Inf, every capitalisation and sign *)

Definition uni0 : uni := {| u_isspace := fun _ => false; u_decimal := fun _ => None; u_isdigit := fun _ => false |}.

Definition fdesc_eqb (a b : fdesc) : bool :=
  match a, b with
  | FFin n1 m1 e1, FFin n2 m2 e2 => Bool.eqb n1 n2 && (m1 =? m2) && (e1 =? e2)%Z
  | FInf n1, FInf n2 => Bool.eqb n1 n2
  | FNan n1, FNan n2 => Bool.eqb n1 n2
  | _, _ => false
  end.
Definition num_eqb (a b : num) : bool :=
  match a, b with
  | NInt x, NInt y => (x =? y)%Z
  | NFloat x, NFloat y => fdesc_eqb x y
  | NComplex x1 y1, NComplex x2 y2 => fdesc_eqb x1 x2 && fdesc_eqb y1 y2
  | _, _ => false
  end.
Definition onum_eqb (a b : option num) : bool :=
  match a, b with Some x, Some y => num_eqb x y | None, None => true | _, _ => false end.

Lemma fdesc_eqb_eq a b : fdesc_eqb a b = true -> a = b.
Proof.
  destruct a, b; simpl; try discriminate; intros H.
  - apply andb_true_iff in H. destruct H as [H E]. apply andb_true_iff in H. destruct H as [Nn M].
    apply Bool.eqb_prop in Nn. apply N.eqb_eq in M. apply Z.eqb_eq in E. subst. reflexivity.
  - apply Bool.eqb_prop in H. subst. reflexivity.
  - apply Bool.eqb_prop in H. subst. reflexivity.
Qed.
Lemma onum_eqb_eq a b : onum_eqb a b = true -> a = b.
Proof.
  destruct a as [x|], b as [y|]; simpl; try discriminate; [|reflexivity].
  destruct x, y; simpl; try discriminate; intros H.
  - apply Z.eqb_eq in H. subst. reflexivity.
  - apply fdesc_eqb_eq in H. subst. reflexivity.
  - apply andb_true_iff in H. destruct H as [A B]. apply fdesc_eqb_eq in A. apply fdesc_eqb_eq in B. subst. reflexivity.
Qed.

(* all capitalisations of a lower-case word, each with no sign, + and - *)
Fixpoint case_variants (w : text) : list text :=
  match w with
  | [] => [[]]
  | c :: r => flat_map (fun v => [c :: v; (c - 32) :: v]) (case_variants r)
  end.
Definition signed_variants (w : text) : list text := flat_map (fun v => [v; ch_plus :: v; ch_minus :: v]) (case_variants w).

Definition w_nan : text := [110; 97; 110].
Definition w_inf : text := [105; 110; 102].
Definition NaN_ : text := [78; 97; 78].
Definition Inf_ : text := [73; 110; 102].

(* the documented spellings and what they denote *)
Definition special_table : list (text * num) :=
  [(NaN_, NFloat (FNan false)); (ch_plus :: NaN_, NFloat (FNan false)); (ch_minus :: NaN_, NFloat (FNan true));
   (Inf_, NFloat (FInf false)); (ch_plus :: Inf_, NFloat (FInf false)); (ch_minus :: Inf_, NFloat (FInf true))].
Fixpoint special_expected (tbl : list (text * num)) (t : text) : option num :=
  match tbl with [] => None | (k, v) :: r => if text_eqb k t then Some v else special_expected r t end.

Definition special_texts : list text := signed_variants w_nan ++ signed_variants w_inf.

Lemma special_texts_ascii : forallb (forallb is_ascii) special_texts = true.
Proof. vm_compute. reflexivity. Qed.
Lemma special_texts_checked :
  forallb (fun t => onum_eqb (numeric uni0 t) (special_expected special_table t)) special_texts = true.
Proof. vm_compute. reflexivity. Qed.

(* NaN, Inf, -Inf (and the other two signs) read as floats exactly in that capitalisation; the other 42
   capitalisations are not numbers *)
Theorem nan_inf_case_sensitive : forall U t, In t special_texts ->
  numeric U t = special_expected special_table t.
Proof.
  intros U t H.
  pose proof special_texts_ascii as A. rewrite forallb_forall in A.
  pose proof special_texts_checked as C. rewrite forallb_forall in C.
  rewrite (numeric_ascii_indep U uni0 t (A t H)). apply onum_eqb_eq. apply (C t H).
Qed.

(* ------------------------------------------------------------------ where the reader departs from the documented rules *)

(* a decimal integer with a leading zero stops being an Integer once it has a separator or a sign *)
Lemma leading_zero_witness :
  numeric uni0 [48; 49] = Some (NInt 1) /\
  numeric uni0 [48; 44; 49] = Some (NFloat (FFin false 1 0)) /\
  numeric uni0 [45; 48; 49] = Some (NFloat (FFin true 1 0)).
Proof. split; [|split]; vm_compute; reflexivity. Qed.

(* a separator before the first digit is accepted after a sign or a point *)
Lemma sep_before_digit_witness :
  numeric uni0 [43; 95; 49] = Some (NInt 1) /\
  numeric uni0 [46; 44; 53] = Some (NFloat (FFin false 5 (-1))).
Proof. split; vm_compute; reflexivity. Qed.

(* j followed by a separator is a number although j is not *)
Lemma bare_j_witness :
  numeric uni0 [106] = None /\ numeric uni0 [106; 95] = Some (NComplex fzero (one false)).
Proof. split; vm_compute; reflexivity. Qed.

(* Infinity, in any capitalisation after Inf *)
Lemma infinity_witness :
  numeric uni0 [73; 110; 102; 73; 78; 73; 84; 89] = Some (NFloat (FInf false)).
Proof. vm_compute. reflexivity. Qed.

(* with the interpreter's facts U+0663 is the decimal digit 3 and U+00A0 is a space: both texts read as 3 *)
Definition uni_arabic : uni :=
  {| u_isspace := fun c => c =? 160; u_decimal := fun c => if c =? 1635 then Some 3 else None; u_isdigit := fun c => c =? 1635 |}.
Lemma unicode_witness :
  numeric uni_arabic [1635] = Some (NInt 3) /\ numeric uni_arabic [160; 51] = Some (NInt 3).
Proof. split; vm_compute; reflexivity. Qed.
