"""Shared machinery for the hy verification checks.

One check = one property module (props/cNN.py) driven by ./check.  This file
holds what every property needs: locating /repo, regenerating coq/Gen from the
source (ties T1/T2), building the proof cone under a lock, capturing `Print
Assumptions`, auditing the development, evaluating the Gallina model on
harness-written cases (tie T3), the verdict logic of DESIGN section 3 and the
evidence writer.
"""
import fcntl
import hashlib
import json
import os
import random
import re
import subprocess
import sys
import time

VERIF = os.path.dirname(os.path.dirname(os.path.abspath(__file__)))
REPO = os.environ.get("HYVERIF_REPO", "/repo")
COQ = os.path.join(VERIF, "coq")
GEN = os.path.join(COQ, "Gen")
CASES = os.path.join(COQ, "_cases")
EVID = os.path.join(VERIF, "evidence")
REPLAYS = os.path.join(VERIF, "replays")
PY = "/venv/bin/python"
NPROC = os.cpu_count() or 4

FORBIDDEN = re.compile(
    r"\b(Admitted|admit|Axiom|Axioms|Parameter|Parameters|Conjecture|Conjectures|"
    r"Admit\s+Obligations|bypass_check|Unset\s+Guard\s+Checking|Unset\s+Positivity\s+Checking|"
    r"Unset\s+Universe\s+Checking|type-in-type|impredicative-set|native_compute)\b")


class ShapeChanged(Exception):
    """A fail-closed translator met source it does not recognise."""


def impl_env(extra=None, hashseed="0"):
    env = dict(os.environ)
    env["PYTHONPATH"] = REPO
    env["PYTHONHASHSEED"] = str(hashseed)
    env["PYTHONPYCACHEPREFIX"] = os.path.join(VERIF, ".pycache")
    env["HYLANG_HY_VERIF"] = "1"
    env.pop("HYSTARTUP", None)
    if extra:
        env.update(extra)
    return env


def use_repo_in_process():
    """Make `import hy` resolve to REPO in this process."""
    sys.pycache_prefix = os.path.join(VERIF, ".pycache")
    if sys.path[0] != REPO:
        sys.path.insert(0, REPO)
    import hy  # noqa
    assert os.path.realpath(hy.__file__).startswith(os.path.realpath(REPO)), hy.__file__
    return hy


def run_impl(code, stdin=None, timeout=120, hashseed="0", extra_env=None, args=()):
    """Run a Python snippet against REPO in a fresh interpreter."""
    p = subprocess.run([PY, "-c", code, *args], input=stdin, capture_output=True,
                       text=True, timeout=timeout, env=impl_env(extra_env, hashseed),
                       cwd=VERIF)
    return p.returncode, p.stdout, p.stderr


# ---------------------------------------------------------------- Coq side

def write_if_changed(path, text):
    try:
        with open(path) as f:
            if f.read() == text:
                return False
    except FileNotFoundError:
        pass
    os.makedirs(os.path.dirname(path), exist_ok=True)
    tmp = path + ".tmp%d" % os.getpid()
    with open(tmp, "w") as f:
        f.write(text)
    os.replace(tmp, path)
    return True


class BuildLock:
    def __enter__(self):
        os.makedirs(COQ, exist_ok=True)
        self.f = open(os.path.join(COQ, ".build.lock"), "w")
        fcntl.flock(self.f, fcntl.LOCK_EX)
        return self

    def __exit__(self, *a):
        fcntl.flock(self.f, fcntl.LOCK_UN)
        self.f.close()


def coq_str(s):
    return '"' + s.replace('"', '""') + '"'


def coq_text(s):
    """A Python str as a Gallina `list N` of code points."""
    return "[" + "; ".join(str(ord(c)) for c in s) + "]%N"


def coq_list(items):
    return "[" + "; ".join(items) + "]"


def regen(translators):
    """Run translators (callables repo -> {relative .v path: text}).
    Returns list of (translator name, message) for those that failed closed."""
    failures = []
    for t in translators:
        try:
            out = t(REPO)
        except ShapeChanged as e:
            failures.append((t.__module__, "TRANSLATOR-SHAPE-CHANGED " + str(e)))
            continue
        except Exception as e:  # a translator must never guess
            failures.append((t.__module__, "TRANSLATOR-ERROR %s: %s" % (type(e).__name__, e)))
            continue
        for rel, text in out.items():
            write_if_changed(os.path.join(COQ, rel), text)
    return failures


def _ensure_makefile():
    mk = os.path.join(COQ, "Makefile")
    proj = os.path.join(COQ, "_CoqProject")
    files = sorted(
        os.path.relpath(os.path.join(d, f), COQ)
        for d, _, fs in os.walk(COQ) for f in fs
        if f.endswith(".v") and "_cases" not in d and "_wip" not in d)
    text = "-Q . HyV\n-arg -w -arg -notation-overridden,-deprecated,-ambiguous-paths\n" + "\n".join(files) + "\n"
    changed = write_if_changed(proj, text)
    if changed or not os.path.exists(mk):
        subprocess.run(["coq_makefile", "-f", "_CoqProject", "-o", "Makefile"], cwd=COQ,
                       check=True, capture_output=True)


def coq_build(targets, timeout=1500):
    """make the given .vo targets (full .vo).  Returns (ok, log)."""
    with BuildLock():
        _ensure_makefile()
        p = subprocess.run(["timeout", str(timeout), "make", "-j%d" % NPROC, "-k", *targets],
                           cwd=COQ, capture_output=True, text=True)
    return p.returncode == 0, p.stdout + p.stderr


def coqc_capture(relpath, timeout=600):
    """Compile one file directly and capture what it prints."""
    with BuildLock():
        p = subprocess.run(["timeout", str(timeout), "coqc", "-Q", ".", "HyV", "-w",
                            "-notation-overridden,-deprecated,-ambiguous-paths", relpath],
                           cwd=COQ, capture_output=True, text=True)
    return p.returncode == 0, p.stdout + p.stderr


def parse_assumptions(out):
    """Split the output of a Props file into {theorem: 'closed' | [axioms]}"""
    res = []
    blocks = re.split(r"\n(?=Closed under the global context|Axioms:)", "\n" + out)
    for b in blocks:
        b = b.strip()
        if b.startswith("Closed under the global context"):
            res.append("closed")
        elif b.startswith("Axioms:"):
            names = re.findall(r"^([A-Za-z_][\w.']*)\s*:", b[len("Axioms:"):], re.M)
            res.append(names)
    return res


def strip_coq_comments(src):
    out, depth, i, n = [], 0, 0, len(src)
    instr = False
    while i < n:
        two = src[i:i + 2]
        if depth == 0 and src[i] == '"':
            instr = not instr
            out.append(src[i]); i += 1
        elif instr:
            out.append(src[i]); i += 1
        elif two == "(*":
            depth += 1; i += 2
        elif two == "*)" and depth > 0:
            depth -= 1; i += 2
            if depth == 0:
                out.append(" ")
        elif depth > 0:
            if src[i] == "\n":
                out.append("\n")
            i += 1
        else:
            out.append(src[i]); i += 1
    return "".join(out)


def audit(dirs=None):
    """grep the development for anything that would weaken the kernel's word."""
    hits = []
    for d, _, fs in os.walk(COQ):
        if "_wip" in d or "_cases" in d:
            continue
        for f in fs:
            if not f.endswith(".v"):
                continue
            p = os.path.join(d, f)
            src = open(p, encoding="utf-8").read()
            src = strip_coq_comments(src)
            for m in FORBIDDEN.finditer(src):
                hits.append("%s: %s" % (os.path.relpath(p, COQ), m.group(0)))
            if re.search(r"^\s*(Variable|Variables|Hypothesis|Hypotheses|Context)\b", src, re.M):
                # only legal inside a Section: check nesting textually
                depth = 0
                for line in src.splitlines():
                    if re.match(r"\s*Section\s+\w+", line):
                        depth += 1
                    elif re.match(r"\s*End\s+\w+", line) and depth > 0:
                        depth -= 1
                    elif re.match(r"\s*(Variable|Variables|Hypothesis|Hypotheses|Context)\b", line) and depth == 0:
                        # Module Type bodies are not used in this development
                        hits.append("%s: %s outside a Section" % (os.path.relpath(p, COQ), line.strip()[:40]))
    return hits


_case_counter = [0]


def coq_eval(imports, defs, exprs, tag="c", timeout=600, shard=400):
    """Evaluate Gallina expressions with vm_compute, one printed result each.

    imports: list of module names (HyV.X.Y); defs: extra vernacular text;
    exprs: list of Gallina terms of a printable type.  Returns list of the
    printed normal forms (whitespace-normalised strings), in order.
    Runs shards in parallel coqc processes."""
    os.makedirs(CASES, exist_ok=True)
    shards = [exprs[i:i + shard] for i in range(0, len(exprs), shard)] or [[]]
    files = []
    for k, sh in enumerate(shards):
        _case_counter[0] += 1
        name = "%s_%d_%d_%d.v" % (tag, os.getpid(), _case_counter[0], k)
        lines = ["From Coq Require Import List NArith ZArith String Bool.",
                 "Import ListNotations."]
        lines += ["Require Import %s." % m for m in imports]
        lines.append("Set Printing Width 1000000. Set Printing Depth 1000000.")
        lines.append(defs)
        for i, e in enumerate(sh):
            lines.append('Eval vm_compute in (%d, %s).' % (i, e))
        path = os.path.join(CASES, name)
        with open(path, "w") as f:
            f.write("\n".join(lines) + "\n")
        files.append(path)
    procs = []
    results = []
    try:
        running = []
        outs = {}
        idx = 0
        while idx < len(files) or running:
            while idx < len(files) and len(running) < NPROC:
                p = subprocess.Popen(["timeout", str(timeout), "coqc", "-Q", COQ, "HyV", "-w",
                                      "-notation-overridden,-deprecated,-ambiguous-paths", files[idx]],
                                     stdout=subprocess.PIPE, stderr=subprocess.PIPE, text=True, cwd=CASES)
                running.append((idx, p))
                idx += 1
            i, p = running.pop(0)
            o, e = p.communicate()
            if p.returncode != 0:
                raise RuntimeError("coq_eval failed on %s:\n%s" % (files[i], (o + e)[-3000:]))
            outs[i] = o
        for i in range(len(files)):
            chunks = re.split(r"^\s*= ", outs[i], flags=re.M)[1:]
            for c in chunks:
                c = re.sub(r"\s+", " ", c).strip()
                m = re.match(r"\((\d+), (.*)\) : ", c)
                if not m:
                    # result type annotation might follow on the same logical line
                    m = re.match(r"\((\d+), (.*)\)\s*:", c)
                if not m:
                    raise RuntimeError("cannot parse coq output: " + c[:300])
                results.append(m.group(2))
    finally:
        for f in files:
            base = f[:-2]
            for ext in (".v", ".vo", ".vok", ".vos", ".glob"):
                try:
                    os.remove(base + ext)
                except OSError:
                    pass
            try:
                os.remove(os.path.join(os.path.dirname(f), "." + os.path.basename(base) + ".aux"))
            except OSError:
                pass
    if len(results) != len(exprs):
        raise RuntimeError("coq_eval: %d results for %d cases" % (len(results), len(exprs)))
    return results


def parse_coq_nlist(s):
    """'[104%N; 105%N]' or '[104; 105]%N' or '[]' -> python str"""
    nums = re.findall(r"\d+", s.split(":")[0] if False else s)
    return "".join(chr(int(n)) for n in nums)


def build_ocaml(name, ml_files, out):
    """ocamlfind ocamlopt the extracted model + driver into bin/<out>."""
    bindir = os.path.join(VERIF, "bin")
    os.makedirs(bindir, exist_ok=True)
    target = os.path.join(bindir, out)
    srcdir = os.path.dirname(ml_files[0])
    stamp = hashlib.sha256(b"".join(open(f, "rb").read() for f in ml_files)).hexdigest()
    stampf = target + ".stamp"
    if os.path.exists(target) and os.path.exists(stampf) and open(stampf).read() == stamp:
        return target
    with BuildLock():
        p = subprocess.run(["timeout", "600", "ocamlfind", "ocamlopt", "-O2" if False else "-inline", "100",
                            "-w", "-a", "-I", srcdir, *ml_files, "-o", target],
                           capture_output=True, text=True, cwd=srcdir)
    if p.returncode != 0:
        raise RuntimeError("ocaml build failed: " + p.stderr[-3000:])
    with open(stampf, "w") as f:
        f.write(stamp)
    return target


# ---------------------------------------------------------------- verdicts

def load_known():
    p = os.path.join(VERIF, "known_findings.json")
    if not os.path.exists(p):
        return []
    return json.load(open(p))["entries"]


class Check:
    """Collects what one run of one property's check established."""

    def __init__(self, pid, tier, seed, design_ref=""):
        self.pid, self.tier, self.seed = pid, tier, seed
        self.t0 = time.time()
        self.rng = random.Random(seed)
        self.obligations = []      # (name, ok, detail)
        self.failures = []         # oracle failures on the real code: dict(key, input, observed, expected, how)
        self.disagreements = []    # model vs implementation
        self.known_hits = {}       # finding id -> first failure
        self.evaluations = 0
        self.nontrivial = set()
        self.samples = []
        self.dist = {}
        self.rule = ""
        self.assumptions = []
        self.trusted = []
        self.extra = {}
        self.checker_cmd = ""
        self.level = "proof"
        self.notes = []
        self.known = [k for k in load_known() if k["property"] == pid]
        self.matchers = {}

    # -- bookkeeping
    def count(self, bucket, n=1):
        self.dist[bucket] = self.dist.get(bucket, 0) + n

    def case(self, key, nontrivial=True, sample=None):
        self.evaluations += 1
        if nontrivial:
            self.nontrivial.add(key if isinstance(key, (str, int, tuple)) else repr(key))
        if sample is not None and len(self.samples) < 12:
            self.samples.append(sample)

    def obligation(self, name, ok, detail=""):
        self.obligations.append((name, bool(ok), detail))

    def disagree(self, what, inp, model, impl):
        self.disagreements.append({"correspondence": what, "input": inp, "model": model, "impl": impl})

    def fail(self, key, inp, observed, expected, how=""):
        """The real code violates the property statement on `inp`."""
        rec = {"key": key, "input": inp, "observed": observed, "expected": expected, "how": how}
        for k in self.known:
            if k.get("kind") != "finding":
                continue
            m = self.matchers.get(k["matcher"])
            if m is not None and m(rec, k.get("params", {})):
                self.known_hits.setdefault(k["id"], (k, rec))
                return
        self.failures.append(rec)

    # -- the standard proof step
    def prove(self, props_file, cone_targets, translators=(), expect_theorems=None):
        """Regenerate Gen/, build the cone, compile Props/<id>.v capturing
        Print Assumptions, audit.  Records one obligation per step."""
        fails = regen(translators)
        for name, msg in fails:
            self.obligation("translator:" + name, False, msg)
        if translators and not fails:
            self.obligation("translators(%d) regenerated coq/Gen from %s" % (len(translators), REPO), True)
        ok, log = coq_build(cone_targets)
        bad = re.findall(r'File "\./([^"]+)", line (\d+)', log) if not ok else []
        self.obligation("coq cone builds: make %s" % " ".join(cone_targets), ok,
                        ("first failure: %s\n" % (bad[:1],) + log[-2500:]) if not ok else "")
        if ok:
            ok2, out = coqc_capture(props_file)
            ass = parse_assumptions(out)
            self.extra["print_assumptions"] = ass
            self.obligation("property theorems check: coqc %s" % props_file, ok2, out[-2500:] if not ok2 else "")
            if ok2:
                n_thm = len(re.findall(r"^\s*(Theorem|Lemma|Corollary)\s", open(os.path.join(COQ, props_file)).read(), re.M))
                self.extra["theorems_in_props_file"] = n_thm
                axioms = sorted({a for x in ass if x != "closed" for a in x})
                self.extra["axioms"] = axioms
                allowed = re.compile(r"(functional_extensionality|classic|proof_irrelevance|JMeq_eq|eq_rect_eq|"
                                     r"PrimFloat|Uint63|PrimInt63|FloatOps|Float|constructive_)")
                rogue = [a for a in axioms if not allowed.search(a)]
                self.obligation("Print Assumptions: %d theorem(s), axioms=%s" % (len(ass), axioms or "none"),
                                not rogue and len(ass) >= 1, "unexpected axioms: %s" % rogue if rogue else "")
        if ok and self.tier == "thorough" and "coqchk" not in self.extra and not os.environ.get("HYVERIF_NO_COQCHK"):
            # independent re-check of the compiled property file and everything it depends on
            module = "HyV." + props_file[:-2].replace("/", ".")
            with BuildLock():
                p = subprocess.run(["timeout", "1500", "coqchk", "-silent", "-o", "-Q", ".", "HyV", module],
                                   cwd=COQ, capture_output=True, text=True)
            out = p.stdout + p.stderr
            flat = re.sub(r"\s+", " ", out)
            m = re.search(r"\* Axioms: (.*?) \* Constants/Inductives relying on type-in-type: (.*?) \* Constants/Inductives "
                          r"relying on unsafe \(co\)fixpoints: (.*?) \* Inductives whose positivity is assumed: (.*?)\s*$", flat)
            okc = p.returncode == 0 and m is not None and all(m.group(i).strip() == "<none>" for i in (2, 3, 4))
            if okc and m.group(1).strip() != "<none>":
                allowed = re.compile(r"(functional_extensionality|classic|proof_irrelevance|JMeq_eq|eq_rect_eq|"
                                     r"PrimFloat|Uint63|PrimInt63|FloatOps|Float|constructive_)")
                okc = all(allowed.search(x) for x in m.group(1).split() if "." in x)
            self.obligation("coqchk -o %s (independent checker; no type-in-type, unsafe fixpoints or assumed positivity; "
                            "axioms: %s)" % (module, m.group(1).strip()[:200] if m else "?"), okc, out[-1500:] if not okc else "")
            self.extra["coqchk"] = out[-700:]
        hits = audit()
        self.obligation("audit: no Admitted/admit/Axiom/Parameter/Conjecture/unchecked flags in coq/", not hits,
                        "; ".join(hits[:10]))
        self.checker_cmd = "make -C coq %s && coqc -Q coq HyV coq/%s" % (" ".join(cone_targets), props_file)
        return all(o[1] for o in self.obligations)

    # -- finish
    def finish(self):
        wall = time.time() - self.t0
        broken = [o for o in self.obligations if not o[1]]
        viol_lines = []
        os.makedirs(REPLAYS, exist_ok=True)
        stamp = "%s-%s-%d" % (self.pid, self.tier, self.seed)
        n_viol = 0
        for i, rec in enumerate(self.failures[:5]):
            path = os.path.join(REPLAYS, "%s-fail%d.json" % (stamp, i))
            json.dump({"property": self.pid, "kind": "failing-input", **rec}, open(path, "w"), indent=1, default=repr)
            viol_lines.append("VIOLATION property=%s replay=%s" % (self.pid, path))
            n_viol += 1
        if not self.failures and (broken or self.disagreements):
            path = os.path.join(REPLAYS, "%s-broken.json" % stamp)
            json.dump({"property": self.pid, "kind": "no-failing-input-found",
                       "broken_obligations": [{"name": n, "detail": d} for n, ok, d in broken],
                       "correspondence_disagreements": self.disagreements[:10]},
                      open(path, "w"), indent=1, default=repr)
            viol_lines.append("VIOLATION property=%s replay=%s no-failing-input-found" % (self.pid, path))
            n_viol += 1
        for fid, (k, rec) in sorted(self.known_hits.items()):
            print("KNOWN-FINDING: property=%s %s [%s] e.g. %s" % (self.pid, k["what"], fid, json.dumps(rec["input"], default=repr)[:160]))
        cov = {
            "obligations": len(self.obligations),
            "discharged": len(self.obligations) - len(broken),
            "checker_cmd": self.checker_cmd or "(no proof step ran)",
            "trusted_base": self.trusted,
            "evaluations": self.evaluations,
            "distinct_nontrivial": len(self.nontrivial),
            "rule": self.rule,
            "samples": self.samples[:12] or ["(none)"],
            "obligation_list": [{"name": n, "ok": ok} for n, ok, _ in self.obligations],
            "input_distribution": self.dist,
            "correspondence_disagreements": len(self.disagreements),
            "oracle_failures_unlisted": len(self.failures),
            "known_findings_reproduced": sorted(self.known_hits),
            "notes": self.notes,
        }
        cov.update(self.extra)
        ev = {"property_id": self.pid, "tier": self.tier, "seed": self.seed, "level": self.level,
              "coverage": cov, "assumptions": self.assumptions, "wall_s": round(wall, 2),
              "violations": n_viol}
        os.makedirs(EVID, exist_ok=True)
        with open(os.path.join(EVID, self.pid + ".json"), "w") as f:
            json.dump(ev, f, indent=1, default=repr)
        for l in viol_lines:
            print(l)
        print("%s %s: obligations %d/%d, cases %d (%d distinct non-trivial), disagreements %d, failures %d, known %d, %.1fs"
              % (self.pid, self.tier, cov["discharged"], cov["obligations"], self.evaluations, len(self.nontrivial),
                 len(self.disagreements), len(self.failures), len(self.known_hits), wall))
        return 1 if viol_lines else 0
