#!/venv/bin/python
"""Edit known_findings.json under a lock.
  tools/kf.py add '<json object>'     (fields: property, kind=finding|fixed, id, matcher, params, what[, commit])
  tools/kf.py list [property]
The file is never written at check time."""
import fcntl, json, os, sys
HERE = os.path.dirname(os.path.dirname(os.path.abspath(__file__)))
P = os.path.join(HERE, "known_findings.json")
with open(P + ".lock", "w") as lk:
    fcntl.flock(lk, fcntl.LOCK_EX)
    data = json.load(open(P)) if os.path.exists(P) else {"entries": []}
    if sys.argv[1] == "add":
        e = json.loads(sys.argv[2])
        for k in ("property", "kind", "id", "what"):
            assert k in e, "missing " + k
        if e["kind"] == "finding":
            assert "matcher" in e
        data["entries"] = [x for x in data["entries"] if x["id"] != e["id"]] + [e]
        data["entries"].sort(key=lambda x: (x["property"], x["id"]))
        json.dump(data, open(P, "w"), indent=1, ensure_ascii=False)
        print("added", e["id"])
    else:
        for e in data["entries"]:
            if len(sys.argv) < 3 or e["property"] == sys.argv[2]:
                print(e["property"], e["kind"], e["id"], "-", e["what"])
