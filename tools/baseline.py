#!/venv/bin/python
"""Run /repo's pinned suite (guard off) and compare with BASELINE.json stable_pass."""
import json, os, subprocess, sys, xml.etree.ElementTree as ET
out = "/var/tmp/hyverif.baseline.%d.xml" % os.getpid()
repo = os.environ.get("BASELINE_REPO", "/repo")
env = dict(os.environ); env.pop("HYLANG_HY_VERIF", None); env["PYTHONPATH"] = repo; env["PYTHONDONTWRITEBYTECODE"] = "1"
subprocess.run(["/venv/bin/python", "-m", "pytest", "-q", "-p", "no:cacheprovider", "--timeout=900",
                "--continue-on-collection-errors", "--junitxml=" + out], cwd=repo, env=env,
               stdout=subprocess.DEVNULL, stderr=subprocess.DEVNULL)
passed = set()
why = {}
for tc in ET.parse(out).getroot().iter("testcase"):
    name = "%s::%s" % (tc.get("classname"), tc.get("name"))
    bad = [c for c in tc if c.tag in ("failure", "error", "skipped")]
    if not bad:
        passed.add(name)
    else:
        why[name] = (bad[0].get("message") or "")[:300]
os.remove(out)
stable = set(json.load(open("/root/.vp/BASELINE.json"))["stable_pass"])
missing = sorted(stable - passed)
print("stable_pass: %d, passed now: %d, stable tests not passing now: %d" % (len(stable), len(passed), len(missing)))
for m in missing[:40]:
    print("  MISSING", m, "--", why.get(m, "(not run)"))
sys.exit(1 if missing else 0)
