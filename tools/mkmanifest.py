#!/venv/bin/python
"""Rebuild MANIFEST.json from the META dict of every props/cNN.py; properties
without a module (or with META['claimed'] false) go to not_applicable."""
import glob, importlib, json, os, sys
HERE = os.path.dirname(os.path.dirname(os.path.abspath(__file__)))
sys.path.insert(0, HERE)
os.chdir(HERE)
ids = [json.loads(l)["id"] for l in open("properties.jsonl")]
checks, na = [], []
claimed = set(open("tools/claimed.txt").read().split())   # the lead lists a property here once its check is verified green
for pid in ids:
    path = "props/%s.py" % pid.lower()
    meta = None
    if os.path.exists(path):
        src = open(path).read()
        if "META" in src:
            meta = importlib.import_module("props." + pid.lower()).META
    if not meta or not meta.get("claimed", True) or pid not in claimed:
        na.append({"property_id": pid, "reason": (meta or {}).get(
            "reason", "not claimed yet: its model, theorem and tie are designed in DESIGN.md section 5 but not built; no check is registered until the theorem is Qed and the tie runs")})
        continue
    checks.append({
        "property_id": pid,
        "quick_cmd": "./check %s --tier quick" % pid,
        "thorough_cmd": "./check %s --tier thorough" % pid,
        "evidence_file": "/verif/evidence/%s.json" % pid,
        "replay_cmd_template": "./check %s --replay {path}" % pid,
        "engine": "coq-proof+correspondence",
        "level_claimed": {"category": "proof", "text": meta["level_text"], "design_ref": meta.get("design_ref", "DESIGN.md section 5, " + pid)},
        "level_note": meta["level_note"],
        "technique": meta["technique"],
    })
man = {
    "version": 1,
    "setup_cmd": "./setup.sh",
    "hooks": {"guard": "HYLANG_HY_VERIF", "enable": "no hook exists in /repo; checks export HYLANG_HY_VERIF=1 and run /repo's working tree with PYTHONPATH=/repo",
              "baseline_off_cmd": "cd /repo && env -u HYLANG_HY_VERIF /venv/bin/python -m pytest -ra -q -p no:cacheprovider --timeout=900 --continue-on-collection-errors",
              "source_commits": [], "add_only": True},
    "engines": [{"name": "coq-proof+correspondence", "path": "/verif/check",
                 "serves_properties": [c["property_id"] for c in checks],
                 "kind_free_text": "Rocq/Coq 8.16 theorems over a Gallina model (coq/), tied to /repo by regenerated tables (translator/) and by differential execution of the model (vm_compute or extraction) against the implementation (props/)"}],
    "checks": checks,
    "not_applicable": na,
    "notes": "Every check regenerates coq/Gen from /repo, rebuilds its proof cone (full .vo), captures Print Assumptions, audits the development, runs the correspondence and the property oracle on /repo's working tree, and writes evidence/<id>.json. See DESIGN.md.",
}
json.dump(man, open("MANIFEST.json", "w"), indent=1)
print("claimed:", [c["property_id"] for c in checks])
