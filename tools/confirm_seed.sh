#!/bin/bash
# tools/confirm_seed.sh <Cnn> <dir with patch.diff and demo.py (demo honours HY_TREE)>
# Confirms a seeded change in a scratch worktree of /repo HEAD (demo both ways, pinned suite), runs the property's
# own quick check against it with HYVERIF_REPO, prints the verdict, removes the worktree and restores evidence.
set -u
p=$1; d=$2; wt=/tmp/confirm-$p-$$
git -C /repo worktree add --detach "$wt" HEAD >/dev/null 2>&1 || exit 2
git -C "$wt" apply "$d/patch.diff" || { echo "APPLY FAILED"; git -C /repo worktree remove --force "$wt"; exit 2; }
(cd "$d" && HY_TREE=$wt PYTHONDONTWRITEBYTECODE=1 /venv/bin/python demo.py >/dev/null 2>&1; echo "$p demo on patched tree: exit $?")
(cd "$d" && HY_TREE=/repo PYTHONDONTWRITEBYTECODE=1 /venv/bin/python demo.py >/dev/null 2>&1; echo "$p demo on /repo: exit $?")
BASELINE_REPO=$wt /venv/bin/python /verif/tools/baseline.py > "$d/baseline.log" 2>&1 &
bp=$!
cd /verif && HYVERIF_REPO=$wt ./check "$p" 2>&1 | grep -v '^KNOWN' | tail -3 | cut -c1-400
python3 - "$p" <<'PY'
import json, sys, glob
p = sys.argv[1]
for f in sorted(glob.glob("/verif/replays/%s-quick-*-fail0.json" % p))[:1]:
    r = json.load(open(f)); print("first:", {k: str(r[k])[:260] for k in r if k in ("kind", "key", "input", "observed", "expected")})
PY
wait $bp; head -1 "$d/baseline.log"
git -C /repo worktree remove --force "$wt"; git -C /repo worktree prune
git -C /verif checkout -- evidence
