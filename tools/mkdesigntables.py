#!/venv/bin/python
"""Regenerate the generated tables of DESIGN.md (between <!-- BEGIN x --> / <!-- END x --> markers):
seeds = /verif/seeded/*/meta.json; fixes = `fix:` commits of /repo; findings = known_findings.json;
claims = tools/claimed.txt + META of the property modules."""
import glob, importlib, json, os, re, subprocess, sys
os.chdir("/verif"); sys.path.insert(0, "/verif")

def first_line(path):
    for l in open(path):
        l = l.strip().lstrip("#").strip()
        if l:
            return l
    return ""

def seeds():
    rows = ["| seeded change | what it is (seeding agent's title) | result of the property's own check |", "|---|---|---|"]
    for d in sorted(glob.glob("seeded/*/")):
        m = json.load(open(d + "meta.json"))
        title = first_line(d + "notes.md") if os.path.exists(d + "notes.md") else ""
        title = re.sub(r"^C\d\d\s*[/,:-]?\s*(change|seed)?\s*\d?\s*[:—-]*\s*", "", title, flags=re.I)
        rows.append("| %s | %s | %s |" % (os.path.basename(d[:-1]), title.replace("|", "\\|")[:160], m["result"].replace("|", "\\|")))
    return "\n".join(rows)

def fixes():
    out = subprocess.run(["git", "-C", "/repo", "log", "--reverse", "--format=%h %s", "--grep=^fix:"], capture_output=True, text=True).stdout
    rows = ["| commit | subject |", "|---|---|"]
    for l in out.splitlines():
        h, s = l.split(" ", 1)
        rows.append("| `%s` | %s |" % (h, s.replace("|", "\\|")))
    return "\n".join(rows)

def findings():
    ks = json.load(open("known_findings.json"))
    ks = ks["entries"]
    rows = ["| property | id | kind | what |", "|---|---|---|---|"]
    for k in sorted(ks, key=lambda k: (k.get("property", ""), k.get("kind", ""), k.get("id", ""))):
        rows.append("| %s | %s | %s | %s |" % (k.get("property"), k.get("id"), k.get("kind"), (k.get("what") or k.get("text") or "").replace("|", "\\|").replace("\n", " ")[:300]))
    return "\n".join(rows)

def claims():
    claimed = open("tools/claimed.txt").read().split()
    rows = ["| property | level | technique (deciding method) |", "|---|---|---|"]
    for p in claimed:
        m = importlib.import_module("props." + p.lower())
        rows.append("| %s | %s | %s |" % (p, str(m.META.get("level", m.META.get("level_text", "")))[:40].replace("|", "\\|"), m.META.get("technique", "").replace("|", "\\|")[:260]))
    return "\n".join(rows)

def levels():
    claimed = open("tools/claimed.txt").read().split()
    out = []
    for p in claimed:
        m = importlib.import_module("props." + p.lower())
        out.append("* **%s** — %s%s" % (p, m.META.get("level_text", "").strip(),
                                        ("  \n  *Partial / not covered:* " + m.META["level_note"].strip()) if m.META.get("level_note") else ""))
    return "\n".join(out)


s = open("DESIGN.md").read()
for name, fn in (("seeds", seeds), ("fixes", fixes), ("findings", findings), ("claims", claims), ("levels", levels)):
    b, e = "<!-- BEGIN %s -->" % name, "<!-- END %s -->" % name
    if b in s:
        i, j = s.index(b) + len(b), s.index(e)
        s = s[:i] + "\n" + fn() + "\n" + s[j:]
open("DESIGN.md", "w").write(s)
print("tables regenerated")
