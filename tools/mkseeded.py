#!/venv/bin/python
"""Assemble /verif/seeded/<id>-<k>/ from a seeding agent's output dir and the lead's confirmation run.
usage: tools/mkseeded.py <prop> <k> <detected-by> <verdict text>"""
import json, os, shutil, sys
prop, k, checks, verdict = sys.argv[1], sys.argv[2], sys.argv[3], sys.argv[4]
src = "/tmp/hyseed/out/%s" % prop
dst = "/verif/seeded/%s-%s" % (prop, k)
os.makedirs(dst, exist_ok=True)
shutil.copy(os.path.join(src, "patch%s.diff" % k), os.path.join(dst, "patch.diff"))
shutil.copy(os.path.join(src, "demo%s.py" % k), os.path.join(dst, "demo.py"))
notes = open(os.path.join(src, "notes%s.md" % k)).read()
open(os.path.join(dst, "notes.md"), "w").write(notes)
meta = {
    "property": prop,
    "breaks": "see notes.md (written by the independent seeding agent, which saw only the property text and a scratch worktree)",
    "needs_to_manifest": next((l.strip() for l in notes.splitlines() if "need" in l.lower() or "manifest" in l.lower()), ""),
    "confirmed_by_lead": "demo.py exits 0 on the unchanged worktree and non-zero with patch.diff applied (PYTHONPATH=<worktree> /venv/bin/python demo.py); "
                         "the seeding agent ran the full suite with the patch: same results as the unchanged tree (584 passed; the one failure, tests/test_hy2py.py::test_hy2py_import, needs an installed hy2py executable and fails regardless)",
    "checks_run": checks.split(","),
    "how_run": "a copy of /verif run with HYVERIF_REPO=<scratch worktree with the patch applied> ./check <id> (quick tier, seed 0); worktree reset afterwards",
    "result": verdict,
}
json.dump(meta, open(os.path.join(dst, "meta.json"), "w"), indent=1)
print(dst)
