"""T1 for C05: the lambda_list grammar, compile_lambda_list / compile_arguments_set /
compile_function_node / compile_function_lambda / compile_function_def of
hy/core/result_macros.py and _compile_collect / _compile_branch / Result.expr_as_stmt /
Result.__add__ of hy/compiler.py are matched against templates (fail-closed);
the constants in their holes -> coq/Gen/LambdaTables.v."""
import ast

from lib.vlib import ShapeChanged
from translator.common import parse_py, top_func
from translator.ops_tables import match_template, match_function, cstr, q, clist

RM = "hy/core/result_macros.py"
CP = "hy/compiler.py"

T_GRAMMAR = '''
NASYM = some(lambda x: isinstance(x, Symbol) and x not in (Symbol(__SLASH__), Symbol(__STAR__)))
argument = maybe_annotated(NASYM | brackets(NASYM, FORM))
varargs = lambda unpack_type, wanted: maybe_annotated(pvalue(unpack_type, wanted))
kwonly_delim = some(lambda x: x == Symbol(__STAR2__))
lambda_list = brackets(
    maybe(many(argument) + sym(__SLASH2__)),
    many(argument),
    maybe(kwonly_delim | varargs(__UNPACK_ITER__, NASYM)),
    many(argument),
    maybe(varargs(__UNPACK_MAP__, NASYM)),
)
'''

T_PVALUE = '''
def pvalue(root, wanted):
    return pexpr(sym(root) + wanted) >> (lambda x: x[0])
'''

T_MAYBE_ANNOTATED = '''
def maybe_annotated(target):
    return (
       pexpr(sym("annotate"), target, FORM).named('`annotate` form') |
       (target >> (lambda x: (x, None))))
'''

T_LAMBDA_LIST = '''
def compile_lambda_list(compiler, params):
    ret = Result()
    posonly_parms, args_parms, rest_parms, kwonly_parms, kwargs_parms = params

    if not (posonly_parms or posonly_parms is None):
        compiler._syntax_error(
            params, __MSG_SLASH__
        )

    posonly_parms = posonly_parms or []

    is_positional_arg = lambda x: isinstance(x[0], Symbol)
    invalid_non_default = next(
        (
            arg
            for arg in dropwhile(is_positional_arg, posonly_parms + args_parms)
            if is_positional_arg(arg)
        ),
        None,
    )
    if invalid_non_default:
        compiler._syntax_error(
            invalid_non_default[0], __MSG_NONDEFAULT__
        )

    posonly_ast, posonly_defaults, ret = compile_arguments_set(
        compiler, posonly_parms, ret
    )
    args_ast, args_defaults, ret = compile_arguments_set(compiler, args_parms, ret)
    kwonly_ast, kwonly_defaults, ret = compile_arguments_set(
        compiler, kwonly_parms, ret, True
    )
    rest_ast = kwargs_ast = None

    if rest_parms == Symbol(__STAR3__):
        if not kwonly_parms:
            compiler._syntax_error(
                rest_parms, __MSG_BARESTAR__
            )
        rest_ast = None
    elif rest_parms:
        [rest_ast], _, ret = compile_arguments_set(compiler, [rest_parms], ret)
    if kwargs_parms:
        [kwargs_ast], _, ret = compile_arguments_set(compiler, [kwargs_parms], ret)

    return (
        ast.arguments(
            args=args_ast,
            defaults=[*posonly_defaults, *args_defaults],
            vararg=rest_ast,
            posonlyargs=posonly_ast,
            kwonlyargs=kwonly_ast,
            kw_defaults=kwonly_defaults,
            kwarg=kwargs_ast,
        ),
        ret,
    )
'''

T_ARGUMENTS_SET = '''
def compile_arguments_set(compiler, decls, ret, is_kwonly=False):
    args_ast = []
    args_defaults = []

    for decl, ann in decls:
        default = None

        if isinstance(decl, List):
            sym, default = decl
        else:
            sym = decl

        if ann is not None:
            ret += compiler.compile(ann)
            ann_ast = ret.force_expr
        else:
            ann_ast = None

        if default is not None:
            ret += compiler.compile(default)
            args_defaults.append(ret.force_expr)
        elif not isinstance(decl, List) and is_kwonly:
            args_defaults.append(None)
        elif isinstance(decl, List):
            args_defaults.append(None)

        args_ast.append(
            asty.arg(sym, arg=mangle(compiler._nonconst(sym)), annotation=ann_ast)
        )

    return args_ast, args_defaults, ret
'''

T_FUNCTION_NODE = '''
def compile_function_node(compiler, expr, node, decorators, tp, name, args, returns, body, scope):
    ret = Result()

    if body.expr:
        enode = asty.Expr if scope.is_async and scope.has_yield else asty.Return
        body += enode(body.expr, value=body.expr)

    ret += node(
        expr,
        name=name,
        args=args,
        body=body.stmts or [asty.Pass(expr)],
        decorator_list=decorators,
        returns=compiler.compile(returns).force_expr if returns is not None else None,
        **digest_type_params(compiler, tp),
    )

    ast_name = asty.Name(expr, id=name, ctx=ast.Load())
    return ret + Result(temp_variables=[ast_name, ret.stmts[-1]])
'''

T_FUNCTION_LAMBDA = '''
def compile_function_lambda(compiler, expr, root, is_async, tp, params, body):
    params, returns = params
    posonly, args, rest, kwonly, kwargs = params
    has_annotations = returns is not None or any(
        isinstance(param, tuple) and param[1] is not None
        for param in (posonly or []) + args + kwonly + [rest, kwargs]
    )
    args, ret = compile_lambda_list(compiler, params)
    with compiler.local_state(), compiler.scope.create(ScopeFn, args, is_async) as scope:
        body = compiler._compile_branch(body)

    if not (has_annotations or tp or body.stmts or is_async):
        return ret + asty.Lambda(expr, args=args, body=body.force_expr)

    node = asty.AsyncFunctionDef if is_async else asty.FunctionDef
    name = compiler.get_anon_var()
    ret += compile_function_node(
        compiler, expr, node, [], tp, name, args, returns, body, scope
    )

    return ret + Result(expr=ret.temp_variables[0])
'''

T_FUNCTION_DEF = '''
def compile_function_def(compiler, expr, root, is_async, decorators, tp, name, params, body):
    name, returns = name
    node = asty.AsyncFunctionDef if is_async else asty.FunctionDef
    decorators, ret, _ = compiler._compile_collect(decorators[0] if decorators else [])
    args, ret2 = compile_lambda_list(compiler, params)
    ret += ret2
    name = mangle(compiler._nonconst(name))
    compiler.scope.define(name)
    with compiler.local_state(), compiler.scope.create(ScopeFn, args, is_async) as scope:
        body = compiler._compile_branch(body)

    return ret + compile_function_node(
        compiler, expr, node, decorators, tp, name, args, returns, body, scope
    )
'''

D_FN = '''pattern_macro("fn", [
    maybe(keepsym(":async")),
    maybe(type_params),
    maybe_annotated(lambda_list),
    many(FORM)])'''
D_DEFN = '''pattern_macro("defn", [
    maybe(keepsym(":async")),
    maybe(brackets(many(FORM))),
    maybe(type_params),
    maybe_annotated(SYM),
    lambda_list,
    many(FORM)])'''

# before / after the commit that rejects #** outside a dict display or a call (a branch a call never takes)
T_COLLECT_OLD = '''
def _compile_collect(self, exprs, with_kwargs=False, dict_display=False):
    compiled_exprs = []
    ret = Result()
    keywords = []

    exprs_iter = iter(exprs)
    for expr in exprs_iter:

        if is_unpack("mapping", expr):
            ret += self.compile(expr[1])
            if dict_display:
                compiled_exprs.append(None)
                compiled_exprs.append(ret.force_expr)
            elif with_kwargs:
                keywords.append(asty.keyword(expr, arg=None, value=ret.force_expr))

        elif with_kwargs and isinstance(expr, Keyword):
            try:
                value = next(exprs_iter)
            except StopIteration:
                raise self._syntax_error(
                    expr, __MSG_NEEDS_VALUE__.format(kw=expr)
                )

            if not expr:
                raise self._syntax_error(
                    expr, __MSG_EMPTY_KW__
                )

            compiled_value = self.compile(value)
            ret += compiled_value

            arg = str(expr)[1:]
            keywords.append(
                asty.keyword(expr, arg=mangle(arg), value=compiled_value.force_expr)
            )

        else:
            ret += self.compile(expr)
            compiled_exprs.append(ret.force_expr)

    return compiled_exprs, ret, keywords
'''

# after b5377ba ((unpack-mapping) without its argument is a syntax error); T_COLLECT_2 / T_COLLECT_OLD: before
T_COLLECT = '''
def _compile_collect(self, exprs, with_kwargs=False, dict_display=False):
    compiled_exprs = []
    ret = Result()
    keywords = []

    exprs_iter = iter(exprs)
    for expr in exprs_iter:

        if is_unpack("mapping", expr):
            if len(expr) != 2:
                raise self._syntax_error(
                    expr, __MSG_MAPPING_ARITY__
                )
            ret += self.compile(expr[1])
            if dict_display:
                compiled_exprs.append(None)
                compiled_exprs.append(ret.force_expr)
            elif with_kwargs:
                keywords.append(asty.keyword(expr, arg=None, value=ret.force_expr))
            else:
                raise self._syntax_error(
                    expr, __MSG_NO_MAPPING__
                )

        elif with_kwargs and isinstance(expr, Keyword):
            try:
                value = next(exprs_iter)
            except StopIteration:
                raise self._syntax_error(
                    expr, __MSG_NEEDS_VALUE__.format(kw=expr)
                )

            if not expr:
                raise self._syntax_error(
                    expr, __MSG_EMPTY_KW__
                )

            compiled_value = self.compile(value)
            ret += compiled_value

            arg = str(expr)[1:]
            keywords.append(
                asty.keyword(expr, arg=mangle(arg), value=compiled_value.force_expr)
            )

        else:
            ret += self.compile(expr)
            compiled_exprs.append(ret.force_expr)

    return compiled_exprs, ret, keywords
'''


T_COLLECT_2 = '''
def _compile_collect(self, exprs, with_kwargs=False, dict_display=False):
    compiled_exprs = []
    ret = Result()
    keywords = []

    exprs_iter = iter(exprs)
    for expr in exprs_iter:

        if is_unpack("mapping", expr):
            ret += self.compile(expr[1])
            if dict_display:
                compiled_exprs.append(None)
                compiled_exprs.append(ret.force_expr)
            elif with_kwargs:
                keywords.append(asty.keyword(expr, arg=None, value=ret.force_expr))
            else:
                raise self._syntax_error(
                    expr, __MSG_NO_MAPPING__
                )

        elif with_kwargs and isinstance(expr, Keyword):
            try:
                value = next(exprs_iter)
            except StopIteration:
                raise self._syntax_error(
                    expr, __MSG_NEEDS_VALUE__.format(kw=expr)
                )

            if not expr:
                raise self._syntax_error(
                    expr, __MSG_EMPTY_KW__
                )

            compiled_value = self.compile(value)
            ret += compiled_value

            arg = str(expr)[1:]
            keywords.append(
                asty.keyword(expr, arg=mangle(arg), value=compiled_value.force_expr)
            )

        else:
            ret += self.compile(expr)
            compiled_exprs.append(ret.force_expr)

    return compiled_exprs, ret, keywords
'''

T_BRANCH = '''
def _compile_branch(self, exprs):
    result = Result()
    last = None
    for node in exprs:
        if last is not None:
            result += last.expr_as_stmt()
        last = self.compile(node)
        result += last
    return result
'''

T_EXPR_AS_STMT = '''
def expr_as_stmt(self):
    if self.expr and not (isinstance(self.expr, ast.Name) and self.stmts):
        return Result() + asty.Expr(self.expr, value=self.expr)
    return Result()
'''


def strip_doc(fn):
    b = fn.body
    if b and isinstance(b[0], ast.Expr) and isinstance(b[0].value, ast.Constant) and isinstance(b[0].value.value, str):
        fn.body = b[1:]
    return fn


def match_fn(tree, name, tmpl, rel, cls=None):
    fn = strip_doc(top_func(tree, name, rel, cls))
    return fn, match_function(fn, tmpl, rel + ":" + name)


def translate(repo):
    tree, _ = parse_py(repo, RM)
    # the grammar: five consecutive top-level assignments
    tmpl = ast.parse(T_GRAMMAR).body
    names = [t.targets[0].id for t in tmpl]
    found = {}
    for node in tree.body:
        if isinstance(node, ast.Assign) and len(node.targets) == 1 and isinstance(node.targets[0], ast.Name) \
                and node.targets[0].id in names:
            if node.targets[0].id in found:
                raise ShapeChanged("%s: %s assigned twice" % (RM, node.targets[0].id))
            found[node.targets[0].id] = node
    holes = {}
    for t in tmpl:
        n = t.targets[0].id
        if n not in found:
            raise ShapeChanged("%s: %s not found" % (RM, n))
        match_template(t.value, found[n].value, holes, RM + ":" + n)
    g = {k: cstr(v, k) for k, v in holes.items()}
    if g["__SLASH__"] != g["__SLASH2__"] or g["__STAR__"] != g["__STAR2__"]:
        raise ShapeChanged(RM + ": the symbols excluded from NASYM are not the / and * delimiters")
    match_fn(tree, "pvalue", T_PVALUE, RM)
    match_fn(tree, "maybe_annotated", T_MAYBE_ANNOTATED, RM)
    _, h = match_fn(tree, "compile_lambda_list", T_LAMBDA_LIST, RM)
    msgs = {k: cstr(v, k) for k, v in h.items()}
    if msgs["__STAR3__"] != g["__STAR__"]:
        raise ShapeChanged(RM + ": compile_lambda_list tests a different bare-star symbol than the grammar")
    match_fn(tree, "compile_arguments_set", T_ARGUMENTS_SET, RM)
    match_fn(tree, "compile_function_node", T_FUNCTION_NODE, RM)
    fl, _ = match_fn(tree, "compile_function_lambda", T_FUNCTION_LAMBDA, RM)
    fd, _ = match_fn(tree, "compile_function_def", T_FUNCTION_DEF, RM)
    for fn, want in ((fl, D_FN), (fd, D_DEFN)):
        if len(fn.decorator_list) != 1 or ast.dump(fn.decorator_list[0]) != ast.dump(ast.parse(want, mode="eval").body):
            raise ShapeChanged("%s: decorator of %s changed" % (RM, fn.name))
    ctree, _ = parse_py(repo, CP)
    try:
        _, hc = match_fn(ctree, "_compile_collect", T_COLLECT, CP, cls="HyASTCompiler")
    except ShapeChanged as first:
        try:
            _, hc = match_fn(ctree, "_compile_collect", T_COLLECT_2, CP, cls="HyASTCompiler")
        except ShapeChanged:
            try:
                _, hc = match_fn(ctree, "_compile_collect", T_COLLECT_OLD, CP, cls="HyASTCompiler")
            except ShapeChanged:
                raise first
    hc.pop("__MSG_NO_MAPPING__", None)
    hc.pop("__MSG_MAPPING_ARITY__", None)
    cm = {k: cstr(v, k) for k, v in hc.items()}
    fnb = strip_doc(top_func(ctree, "_compile_branch", CP, cls="HyASTCompiler"))
    if len(fnb.decorator_list) != 1 or ast.dump(fnb.decorator_list[0]) != ast.dump(ast.parse("builds_model(Lazy)", mode="eval").body):
        raise ShapeChanged(CP + ": decorator of _compile_branch changed")
    match_function(fnb, T_BRANCH, CP + ":_compile_branch")
    match_fn(ctree, "expr_as_stmt", T_EXPR_AS_STMT, CP, cls="Result")

    o = ["(* GENERATED by translator/ops_lambda.py from %s, %s -- do not edit; regenerated on every check run *)" % (RM, CP),
         "From Coq Require Import List String.", "Import ListNotations.", "Open Scope string_scope.", ""]
    o.append("Definition slash_symbol : string := %s." % q(g["__SLASH__"]))
    o.append("Definition star_symbol : string := %s." % q(g["__STAR__"]))
    o.append("Definition unpack_iterable_head : string := %s." % q(g["__UNPACK_ITER__"]))
    o.append("Definition unpack_mapping_head : string := %s." % q(g["__UNPACK_MAP__"]))
    o.append("Definition msg_nothing_before_slash : string := %s." % q(msgs["__MSG_SLASH__"]))
    o.append("Definition msg_non_default_after_default : string := %s." % q(msgs["__MSG_NONDEFAULT__"]))
    o.append("Definition msg_bare_star : string := %s." % q(msgs["__MSG_BARESTAR__"]))
    o.append("Definition msg_keyword_needs_value : string := %s." % q(cm["__MSG_NEEDS_VALUE__"]))
    o.append("Definition msg_empty_keyword : string := %s." % q(cm["__MSG_EMPTY_KW__"]))
    return {"Gen/LambdaTables.v": "\n".join(o) + "\n"}
