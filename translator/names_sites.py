"""T1/T2 for C34: the expression with which each name-handling call site of the
compiler computes the Python identifier from the Hy name -> coq/Gen/NameSites.v

For every site listed in SITES the translator locates, fail-closed, the Python
expression that becomes the identifier (the `id=`/`attr=`/`arg=`/`name=` keyword
of an `asty.X(...)` call, the right-hand side of an assignment, a subscript key
or a return value) and translates it into a term of the little language `nexp`
of coq/Names/Model.v.  Only these shapes are accepted:

    <the site's name variable>              -> NName
    <the site's keyword variable>.name      -> NName      (Keyword.name: text after the colon)
    str(<keyword variable>)                 -> NKwStr NName  (Keyword.__str__ is checked to be ":%s" % self.name)
    <the site's prefix variable>            -> NPrefix
    "literal"                               -> NLit
    mangle(e)                               -> NMangle e
    compiler._nonconst(e) / self._nonconst  -> NNonconst e  (_nonconst is checked to return its argument)
    e[1:]                                   -> NTail e
    a + b                                   -> NCat a b
    e.replace("c", "lit")                   -> NReplaceCh c lit e   (one-character pattern only)
    a local variable with exactly one assignment in the function -> its right-hand side

Anything else raises ShapeChanged.  The same table is returned by `sites(repo)`
as Python data for the harness (props/c34.py), which evaluates it with the real
hy.mangle and compares with what the compiled AST contains at that site.
"""
import ast

from translator.common import *  # noqa

RM = "hy/core/result_macros.py"
CO = "hy/compiler.py"
MA = "hy/macros.py"
MO = "hy/models.py"
SC = "hy/scoping.py"

# site id, file, (class,) function, locator, name variable (source text), kind of the name variable, prefix variable
#   locator: ("kw", callee, keyword, index among the calls of callee in the function that have this keyword)
#            ("assign", variable, index among the assignments to it whose value mentions mangle or the name var)
#            ("subscript", base source text)           -- the key expression of base[...]
#            ("return",)                               -- the single return value
#            ("ret_else",)                             -- the innermost else branch of the returned conditional
SITES = [
    ("S_symbol", CO, "HyASTCompiler", "compile_symbol", ("kw", "asty.Name", "id", 0), "symbol", "sym", None),
    ("S_attr", RM, None, "compile_attribute_access", ("kw", "asty.Attribute", "attr", 0), "attr", "sym", None),
    ("S_method", RM, None, "compile_attribute_access", ("kw", "asty.Attribute", "attr", 1), "root", "sym", None),
    ("S_param", RM, None, "compile_arguments_set", ("kw", "asty.arg", "arg", 0), "sym", "sym", None),
    ("S_kwarg", CO, "HyASTCompiler", "_compile_collect", ("kw", "asty.keyword", "arg", 1), "expr", "kw", None),
    ("S_defn", RM, None, "compile_function_def", ("assign", "name", 0), "name", "sym", None),
    ("S_defclass", RM, None, "compile_class_expression", ("assign", "name", 0), "name", "sym", None),
    ("S_import_name", RM, None, "compile_import", ("kw", "asty.alias", "name", 2), "k", "sym", None),
    ("S_import_asname", RM, None, "compile_import", ("kw_else", "asty.alias", "asname", 2), "v", "sym", None),
    ("S_import_as", RM, None, "assignment_shape", ("assign", "prefix", 0), "rest[1]", "sym", None),
    ("S_import_module", RM, None, "module_name_str", ("ret_else",), "x", "sym", None),
    ("S_macro_install", MA, None, "install_macro", ("assign", "name", 0), "name", "sym", None),
    ("S_macro_lookup", MA, None, "macroexpand", ("assign", "fn", 1), "fn", "sym", None),
    ("S_kw_call", MO, "Keyword", "__call__", ("subscript", "data"), "self", "kw", None),
    ("S_global", RM, None, "compile_global_or_nonlocal", ("assign_elt", "names", 0), "s", "sym", None),
    ("S_match_as", RM, None, "compile_pattern", ("kw", "asty.MatchAs", "name", 0), "assignment", "sym", None),
    ("S_match_capture", RM, None, "compile_pattern", ("kw", "asty.MatchAs", "name", 1), "value", "sym", None),
    ("S_match_star", RM, None, "compile_pattern", ("kw_else", "asty.MatchStar", "name", 0), "value[1]", "sym", None),
    ("S_match_rest", RM, None, "compile_pattern", ("kw_body", "asty.MatchMapping", "rest", 0), "rest", "sym", None),
    ("S_match_class_kwd", RM, None, "compile_pattern", ("kw_elt", "asty.MatchClass", "kwd_attrs", 0), "kwd", "kw", None),
    ("S_except_name", RM, None, "compile_try_expression", ("assign", "name", 0), "name", "sym", None),
    ("S_setv_rename", CO, "Result", "rename", ("assign", "new_name", 0), "new_name", "sym", None),
    ("S_let_bind", SC, "ScopeLet", "add", ("assign", "name", 0), "target", "sym", None),
    ("S_local_macro", MA, None, "local_macro_name", ("return",), "original", "sym", None),
    ("S_require_name", MA, None, "require", ("assign", "_name", 0), "name", "sym", None),
    ("S_require_alias", MA, None, "require", ("assign", "alias", 0), "alias", "sym", "prefix"),
    ("S_defmacro_local", RM, None, "compile_macro_def", ("subscript", "state['macros']"), "name", "sym", None),
    ("S_deftype", RM, None, "compile_deftype", ("kw", "asty.Name", "id", 0), "name", "sym", None),
    ("S_typevar", RM, None, "digest_type_params", ("kw", "asty.TypeVar", "name", 0), "x[0]", "sym", None),
    ("S_typevartuple", RM, None, "digest_type_params", ("kw", "asty.TypeVarTuple", "name", 0), "x[1]", "sym", None),
    ("S_paramspec", RM, None, "digest_type_params", ("kw", "asty.ParamSpec", "name", 0), "x[1]", "sym", None),
]


def _u(n):
    return ast.unparse(n)


def _calls(fn, callee, kw):
    out = []
    for n in ast.walk(fn):
        if isinstance(n, ast.Call) and _u(n.func) == callee:
            for k in n.keywords:
                if k.arg == kw:
                    out.append((n.lineno, n.col_offset, k.value))
    out.sort(key=lambda t: (t[0], t[1]))
    return [v for _, _, v in out]


def _assignments(fn, var):
    out = []
    for n in ast.walk(fn):
        if isinstance(n, ast.Assign) and len(n.targets) == 1 and _u(n.targets[0]) == var:
            out.append((n.lineno, n.value))
    out.sort(key=lambda t: t[0])
    return [v for _, v in out]


class Conv:
    def __init__(self, fn, namevar, kind, prefixvar, where):
        self.fn, self.namevar, self.kind, self.prefixvar, self.where = fn, namevar, kind, prefixvar, where
        self.depth = 0

    def bad(self, node, why):
        raise ShapeChanged("%s line %s: %s: `%s`" % (self.where, getattr(node, "lineno", "?"), why, _u(node)[:80]))

    def conv(self, e, resolving=()):
        src = _u(e)
        if self.kind == "sym" and src == self.namevar:
            return ("NName",)
        if self.kind == "kw":
            if isinstance(e, ast.Attribute) and e.attr == "name" and _u(e.value) == self.namevar:
                return ("NName",)
            if isinstance(e, ast.Call) and _u(e.func) == "str" and len(e.args) == 1 and not e.keywords \
                    and _u(e.args[0]) == self.namevar:
                return ("NKwStr", ("NName",))
        if self.prefixvar and src == self.prefixvar:
            return ("NPrefix",)
        if isinstance(e, ast.Constant) and isinstance(e.value, str):
            return ("NLit", e.value)
        if isinstance(e, ast.Call) and not e.keywords:
            f = _u(e.func)
            if f == "mangle" and len(e.args) == 1:
                return ("NMangle", self.conv(e.args[0], resolving))
            if f in ("compiler._nonconst", "self._nonconst") and len(e.args) == 1:
                return ("NNonconst", self.conv(e.args[0], resolving))
            if isinstance(e.func, ast.Attribute) and e.func.attr == "replace" and len(e.args) == 2 \
                    and all(isinstance(a, ast.Constant) and isinstance(a.value, str) for a in e.args):
                pat, rep = e.args[0].value, e.args[1].value
                if len(pat) != 1:
                    self.bad(e, "replace pattern is not one character")
                return ("NReplaceCh", ord(pat), rep, self.conv(e.func.value, resolving))
        if isinstance(e, ast.Subscript) and isinstance(e.slice, ast.Slice) and e.slice.upper is None \
                and e.slice.step is None and isinstance(e.slice.lower, ast.Constant) and e.slice.lower.value == 1:
            return ("NTail", self.conv(e.value, resolving))
        if isinstance(e, ast.BinOp) and isinstance(e.op, ast.Add):
            return ("NCat", self.conv(e.left, resolving), self.conv(e.right, resolving))
        if isinstance(e, ast.Name) and e.id not in resolving:
            vals = _assignments(self.fn, e.id)
            if len(vals) == 1:
                return self.conv(vals[0], resolving + (e.id,))
            self.bad(e, "local variable with %d assignments" % len(vals))
        self.bad(e, "expression outside the accepted subset")


def _find_fn(trees, rel, cls, name):
    tree = trees[rel]
    return top_func(tree, name, rel, cls=cls)


def _locate(fn, loc, namevar, where):
    kind = loc[0]
    if kind in ("kw", "kw_else", "kw_body", "kw_elt"):
        cs = _calls(fn, loc[1], loc[2])
        if len(cs) <= loc[3]:
            raise ShapeChanged("%s: expected at least %d call(s) %s(... %s=...)" % (where, loc[3] + 1, loc[1], loc[2]))
        e = cs[loc[3]]
        if kind == "kw_else":
            # `None if v == k else mangle(v)`
            if not (isinstance(e, ast.IfExp) and isinstance(e.body, ast.Constant) and e.body.value is None):
                raise ShapeChanged("%s: %s= is not `None if ... else ...`: %s" % (where, loc[2], _u(e)))
            e = e.orelse
        elif kind == "kw_body":
            # `mangle(rest) if rest else None`
            if not (isinstance(e, ast.IfExp) and isinstance(e.orelse, ast.Constant) and e.orelse.value is None
                    and _u(e.test) == namevar):
                raise ShapeChanged("%s: %s= is not `... if %s else None`: %s" % (where, loc[2], namevar, _u(e)))
            e = e.body
        elif kind == "kw_elt":
            if not (isinstance(e, ast.ListComp) and len(e.generators) == 1 and not e.generators[0].ifs
                    and _u(e.generators[0].target) == namevar):
                raise ShapeChanged("%s: %s= is not a list comprehension over %s: %s" % (where, loc[2], namevar, _u(e)))
            e = e.elt
        return e
    if kind in ("assign", "assign_elt"):
        vals = [v for v in _assignments(fn, loc[1]) if "mangle" in _u(v) or (kind == "assign" and False)]
        if not vals:
            # an assignment that no longer mentions mangle: take the ones that mention the name variable
            vals = [v for v in _assignments(fn, loc[1]) if namevar in _u(v) and not
                    (isinstance(v, ast.Constant))]
        if len(vals) <= loc[2]:
            raise ShapeChanged("%s: no assignment to %s computing a name" % (where, loc[1]))
        e = vals[loc[2]]
        if kind == "assign_elt":
            if not (isinstance(e, ast.ListComp) and len(e.generators) == 1 and not e.generators[0].ifs
                    and _u(e.generators[0].target) == namevar):
                raise ShapeChanged("%s: %s is not a list comprehension over %s" % (where, loc[1], namevar))
            e = e.elt
        return e
    if kind == "subscript":
        found = []
        for n in ast.walk(fn):
            if isinstance(n, ast.Subscript) and _u(n.value) == loc[1]:
                found.append(n)
        if len(found) != 1:
            raise ShapeChanged("%s: expected exactly one subscript of %s, found %d" % (where, loc[1], len(found)))
        return found[0].slice
    if kind in ("return", "ret_else"):
        rets = [n for n in ast.walk(fn) if isinstance(n, ast.Return)]
        if len(rets) != 1 or rets[0].value is None:
            raise ShapeChanged("%s: expected exactly one return with a value" % where)
        e = rets[0].value
        if kind == "ret_else":
            while isinstance(e, ast.IfExp):
                e = e.orelse
        return e
    raise ShapeChanged("unknown locator " + kind)


def _check_glue(trees):
    """the places that only pass an already computed name along"""
    # Keyword.__str__ is  return ":%s" % self.name
    f = _find_fn(trees, MO, "Keyword", "__str__")
    b = body_without_docstring(f)
    if not (len(b) == 1 and isinstance(b[0], ast.Return) and _u(b[0].value) in ("':%s' % self.name", '":%s" % self.name')):
        raise ShapeChanged("%s: Keyword.__str__ is not `return ':%%s' %% self.name`" % MO)
    # _nonconst returns its argument (or raises)
    f = _find_fn(trees, CO, "HyASTCompiler", "_nonconst")
    b = body_without_docstring(f)
    if not (len(b) == 2 and isinstance(b[0], ast.If) and isinstance(b[1], ast.Return) and _u(b[1].value) == f.args.args[1].arg
            and _u(b[0].test) == "str(%s) in ('None', 'True', 'False')" % f.args.args[1].arg
            and len(b[0].body) == 1 and isinstance(b[0].body[0], ast.Raise) and not b[0].orelse):
        raise ShapeChanged("%s: _nonconst is not `if str(name) in (None/True/False names): raise ...; return name`" % CO)
    # compile_function_def hands `name` to compile_function_node, which stores it as name=name
    fd = _find_fn(trees, RM, None, "compile_function_def")
    fnode = _find_fn(trees, RM, None, "compile_function_node")
    pos = [a.arg for a in fnode.args.args]
    if "name" not in pos:
        raise ShapeChanged("%s: compile_function_node has no parameter `name`" % RM)
    i = pos.index("name")
    calls = [n for n in ast.walk(fd) if isinstance(n, ast.Call) and _u(n.func) == "compile_function_node"]
    if len(calls) != 1 or len(calls[0].args) <= i or _u(calls[0].args[i]) != "name":
        raise ShapeChanged("%s: compile_function_def does not pass `name` to compile_function_node" % RM)
    if [_u(v) for v in _calls(fnode, "node", "name")] != ["name"]:
        raise ShapeChanged("%s: compile_function_node does not build node(..., name=name, ...)" % RM)
    # defclass stores name=name
    fc = _find_fn(trees, RM, None, "compile_class_expression")
    if [_u(v) for v in _calls(fc, "asty.ClassDef", "name")] != ["name"]:
        raise ShapeChanged("%s: compile_class_expression does not build ClassDef(name=name)" % RM)
    # install_macro stores the function under [name]
    fi = _find_fn(trees, MA, None, "install_macro")
    subs = [n for n in ast.walk(fi) if isinstance(n, ast.Subscript) and isinstance(n.ctx, ast.Store)]
    if len(subs) != 1 or _u(subs[0].slice) != "name" or "_hy_macros" not in _u(subs[0].value):
        raise ShapeChanged("%s: install_macro does not store into _hy_macros[name]" % MA)
    # global / nonlocal hand `names` on
    fg = _find_fn(trees, RM, None, "compile_global_or_nonlocal")
    if [_u(v) for v in _calls(fg, "asty.Global", "names")] != ["names"]:
        raise ShapeChanged("%s: compile_global_or_nonlocal does not build Global(names=names)" % RM)
    # except handler name: scope.add(name, get_anon_var('exc', name)) and ExceptHandler(name=name)
    ft = _find_fn(trees, RM, None, "compile_try_expression")
    if [_u(v) for v in _calls(ft, "asty.ExceptHandler", "name")] != ["name"]:
        raise ShapeChanged("%s: compile_try_expression does not build ExceptHandler(name=name)" % RM)
    # import ... :as : asname=prefix if prefix != module_name else None
    fi = _find_fn(trees, RM, None, "compile_import")
    asn = [_u(v) for v in _calls(fi, "asty.alias", "asname")]
    if len(asn) != 3 or asn[1] != "prefix if prefix != module_name else None":
        raise ShapeChanged("%s: compile_import alias(asname=...) calls changed: %r" % (RM, asn))
    # require stores target_macros[alias] = source_macros[_name]
    fr = _find_fn(trees, MA, None, "require")
    st = [n for n in ast.walk(fr) if isinstance(n, ast.Assign) and _u(n.targets[0]) == "target_macros[alias]"]
    if len(st) != 1 or _u(st[0].value) != "source_macros[_name]":
        raise ShapeChanged("%s: require does not do target_macros[alias] = source_macros[_name]" % MA)
    # Result.rename writes new_name into Name.id and FunctionDef.name
    fr = _find_fn(trees, CO, "Result", "rename")
    wr = sorted(_u(n.targets[0]) for n in ast.walk(fr) if isinstance(n, ast.Assign) and _u(n.value) == "new_name")
    if wr != ["var.id", "var.name"]:
        raise ShapeChanged("%s: Result.rename no longer writes new_name to var.id / var.name: %r" % (CO, wr))
    # ScopeLet.add keys the binding by `name`
    fl = _find_fn(trees, SC, "ScopeLet", "add")
    st = [n for n in ast.walk(fl) if isinstance(n, ast.Assign) and _u(n.targets[0]) == "self.bindings[name]"]
    if len(st) != 1 or _u(st[0].value) != "new_name":
        raise ShapeChanged("%s: ScopeLet.add does not do self.bindings[name] = new_name" % SC)


def sites(repo):
    trees = {}
    for rel in (RM, CO, MA, MO, SC):
        trees[rel], _ = parse_py(repo, rel)
    _check_glue(trees)
    out = []
    for sid, rel, cls, fname, loc, namevar, kind, prefixvar in SITES:
        where = "%s:%s%s[%s]" % (rel, (cls + ".") if cls else "", fname, sid)
        fn = _find_fn(trees, rel, cls, fname)
        e = _locate(fn, loc, namevar, where)
        term = Conv(fn, namevar, kind, prefixvar, where).conv(e)
        out.append((sid, term, "%s:%d" % (rel, e.lineno)))
    return out


def coq_term(t):
    k = t[0]
    if k in ("NName", "NPrefix"):
        return k
    if k == "NLit":
        return "(NLit %s)" % coq_text(t[1])
    if k in ("NMangle", "NNonconst", "NKwStr", "NTail"):
        return "(%s %s)" % (k, coq_term(t[1]))
    if k == "NCat":
        return "(NCat %s %s)" % (coq_term(t[1]), coq_term(t[2]))
    if k == "NReplaceCh":
        return "(NReplaceCh %d%%N %s %s)" % (t[1], coq_text(t[2]), coq_term(t[3]))
    raise ShapeChanged("unknown term " + k)


def translate(repo):
    tab = sites(repo)
    out = "(* GENERATED by translator/names_sites.py from hy/compiler.py hy/core/result_macros.py hy/macros.py " \
          "hy/models.py hy/scoping.py -- do not edit; regenerated on every check run *)\n"
    out += "From HyV Require Import Base.Text Names.Syntax.\n"
    out += "Definition site_expr (s : site) : nexp :=\n  match s with\n"
    for sid, term, where in tab:
        out += "  | %s => %s  (* %s *)\n" % (sid, coq_term(term), where)
    out += "  end.\n"
    return {"Gen/NameSites.v": out}
