"""T1/T2 for C35: hy/macros.py:macroexpand's lookup chain, hy/core/result_macros.py:assignment_shape,
hy/compiler.py:HyASTCompiler.local_state / new_local_state / is_in_local_state  ->  coq/Gen/MacroLookup.v

Fail-closed: every recognised piece of source is compared against the exact syntactic shape this
translator understands; anything else raises ShapeChanged."""
import ast

from translator.common import *  # noqa

MACROS = "hy/macros.py"
RESULT = "hy/core/result_macros.py"
COMPILER = "hy/compiler.py"


def _d(node):
    return ast.dump(node, annotate_fields=False)


def _expr(src):
    return ast.parse(src, mode="eval").body


def _same(node, src):
    return ast.unparse(node) == ast.unparse(_expr(src))


def _find_m_assign(fn):
    """the `m = (...) or next(...)` statement inside macroexpand's while loop"""
    hits = []
    for n in ast.walk(fn):
        if isinstance(n, ast.Assign) and len(n.targets) == 1 and isinstance(n.targets[0], ast.Name) \
                and n.targets[0].id == "m" and isinstance(n.value, ast.BoolOp):
            hits.append(n)
    if len(hits) != 1:
        raise ShapeChanged("%s: macroexpand: expected exactly one `m = <a or b>` lookup, found %d" % (MACROS, len(hits)))
    return hits[0]


def _chain_of_operand(op, line):
    """one operand of the `or`: either the compiler-side chain or the module-side chain"""
    # compiler side:  compiler and next((d[fn] for d in [...] if fn in d), None)
    if isinstance(op, ast.BoolOp) and isinstance(op.op, ast.And) and len(op.values) == 2 \
            and _same(op.values[0], "compiler"):
        call = op.values[1]
        if not (isinstance(call, ast.Call) and _same(call.func, "next") and len(call.args) == 2
                and not call.keywords and _same(call.args[1], "None")
                and isinstance(call.args[0], ast.GeneratorExp)):
            raise ShapeChanged("%s:%d: compiler-side lookup is not next(<genexp>, None)" % (MACROS, line))
        g = call.args[0]
        if not (_same(g.elt, "d[fn]") and len(g.generators) == 1):
            raise ShapeChanged("%s:%d: compiler-side generator element is not d[fn]" % (MACROS, line))
        c = g.generators[0]
        if not (_same(c.target, "d") and len(c.ifs) == 1 and _same(c.ifs[0], "fn in d") and not c.is_async
                and isinstance(c.iter, ast.List)):
            raise ShapeChanged("%s:%d: compiler-side generator is not `for d in [...] if fn in d`" % (MACROS, line))
        out = []
        for e in c.iter.elts:
            if _same(e, "compiler.extra_macros"):
                out.append("NsExtra")
            elif isinstance(e, ast.Starred) and isinstance(e.value, ast.GeneratorExp):
                gg = e.value
                if not (_same(gg.elt, "s['macros']") and len(gg.generators) == 1
                        and _same(gg.generators[0].target, "s") and not gg.generators[0].ifs):
                    raise ShapeChanged("%s:%d: local-state generator is not s['macros'] for s in ..." % (MACROS, line))
                it = gg.generators[0].iter
                if _same(it, "reversed(compiler.local_state_stack)"):
                    out.append("NsLocals true")
                elif _same(it, "compiler.local_state_stack"):
                    out.append("NsLocals false")
                else:
                    raise ShapeChanged("%s:%d: unrecognised local-state iteration %s" % (MACROS, line, ast.unparse(it)))
            else:
                raise ShapeChanged("%s:%d: unrecognised namespace %s" % (MACROS, line, ast.unparse(e)))
        return out
    # module side:  next((mod._hy_macros[fn] for mod in (module, builtins) if fn in getattr(mod, "_hy_macros", ())), None)
    if isinstance(op, ast.Call) and _same(op.func, "next") and len(op.args) == 2 and not op.keywords \
            and _same(op.args[1], "None") and isinstance(op.args[0], ast.GeneratorExp):
        g = op.args[0]
        if not (_same(g.elt, "mod._hy_macros[fn]") and len(g.generators) == 1):
            raise ShapeChanged("%s:%d: module-side generator element is not mod._hy_macros[fn]" % (MACROS, line))
        c = g.generators[0]
        if not (_same(c.target, "mod") and len(c.ifs) == 1
                and _same(c.ifs[0], "fn in getattr(mod, '_hy_macros', ())") and isinstance(c.iter, ast.Tuple)):
            raise ShapeChanged("%s:%d: module-side generator is not `for mod in (...) if fn in getattr(mod, '_hy_macros', ())`"
                               % (MACROS, line))
        out = []
        for e in c.iter.elts:
            if _same(e, "module"):
                out.append("NsModule")
            elif _same(e, "builtins"):
                out.append("NsCore")
            else:
                raise ShapeChanged("%s:%d: unrecognised module namespace %s" % (MACROS, line, ast.unparse(e)))
        return out
    raise ShapeChanged("%s:%d: unrecognised operand of the macro lookup `or`: %s" % (MACROS, line, ast.unparse(op)[:80]))


def lookup_chain(repo):
    tree, _ = parse_py(repo, MACROS)
    fn = top_func(tree, "macroexpand", MACROS)
    a = _find_m_assign(fn)
    if not isinstance(a.value.op, ast.Or):
        raise ShapeChanged("%s:%d: macro lookup is not an `or` chain" % (MACROS, a.lineno))
    chain = []
    for op in a.value.values:
        chain += _chain_of_operand(op, a.lineno)
    # the statement after the lookup must stop the loop when nothing was found
    par = None
    for n in ast.walk(fn):
        for field in ("body", "orelse"):
            b = getattr(n, field, None)
            if isinstance(b, list) and a in b:
                par = n
    if par is None:
        raise ShapeChanged("%s: cannot locate the lookup's enclosing block" % MACROS)
    blk = par.orelse if a in par.orelse else par.body
    nxt = blk[blk.index(a) + 1] if blk.index(a) + 1 < len(blk) else None
    if not (isinstance(nxt, ast.If) and _same(nxt.test, "not m") and len(nxt.body) == 1
            and isinstance(nxt.body[0], ast.Break) and not nxt.orelse):
        raise ShapeChanged("%s:%d: lookup is not followed by `if not m: break`" % (MACROS, a.lineno))
    # the name that is looked up must be the mangled head symbol
    srcs = [ast.unparse(n) for n in ast.walk(fn) if isinstance(n, ast.Assign) and _same(n.targets[0], "fn")]
    want = ["fn = tree[0]", "fn = '.'.join(map(mangle, fn[1:]))", "fn = mangle(fn)"]
    if [s for s in srcs if "hy.R" not in s and "partition" not in s][:3] != want:
        raise ShapeChanged("%s: macroexpand: head-name computation changed: %r" % (MACROS, srcs))
    return chain


def shape_table(repo):
    tree, _ = parse_py(repo, RESULT)
    fn = top_func(tree, "assignment_shape", RESULT)
    body = body_without_docstring(fn)
    if [a.arg for a in fn.args.args] != ["module", "rest"]:
        raise ShapeChanged("%s: assignment_shape parameters changed" % RESULT)
    if len(body) != 4 or ast.unparse(body[0]) != "prefix = ''" or not isinstance(body[2], ast.If) \
            or ast.unparse(body[3]) != "return (prefix, assignments)":
        raise ShapeChanged("%s:%d: assignment_shape body shape changed" % (RESULT, fn.lineno))
    dflt = body[1]
    if not (isinstance(dflt, ast.Assign) and ast.unparse(dflt.targets[0]) == "assignments"
            and isinstance(dflt.value, ast.Constant) and dflt.value.value in ("EXPORTS", "ALL")):
        raise ShapeChanged("%s:%d: default assignments is not 'EXPORTS'/'ALL'" % (RESULT, dflt.lineno))
    default_asg = {"EXPORTS": "AkExports", "ALL": "AkAll"}[dflt.value.value]
    tests = {"rest is None": "TgBare", "rest == Symbol('*')": "TgStar", "rest[0] == Keyword('as')": "TgAs"}
    rows = []
    node = body[2]
    seen = []
    while True:
        t = ast.unparse(node.test)
        if t not in tests:
            raise ShapeChanged("%s:%d: unrecognised assignment_shape test %s" % (RESULT, node.lineno, t))
        rows.append((tests[t], _shape_branch(node.body, default_asg, node.lineno)))
        seen.append(tests[t])
        if len(node.orelse) == 1 and isinstance(node.orelse[0], ast.If):
            node = node.orelse[0]
            continue
        rows.append(("TgList", _shape_branch(node.orelse, default_asg, node.lineno)))
        break
    if seen != ["TgBare", "TgStar", "TgAs"]:
        raise ShapeChanged("%s: assignment_shape branches changed: %r" % (RESULT, seen))
    return rows


def _shape_branch(stmts, default_asg, line):
    prefix, asg = "PfEmpty", default_asg
    for s in stmts:
        u = ast.unparse(s)
        if u == "pass":
            continue
        if u == "prefix = module_name_str(module)":
            prefix = "PfModuleName"
        elif u == "prefix = mangle(rest[1])":
            prefix = "PfAlias"
        elif u in ("assignments = [(k, v or k) for (k, v) in rest[0]]", "assignments = [(k, v or k) for k, v in rest[0]]"):
            asg = "AkList"
        elif u in ("assignments = 'ALL'", "assignments = 'EXPORTS'"):
            asg = "AkAll" if "ALL" in u else "AkExports"
        else:
            raise ShapeChanged("%s:%d: unrecognised statement in assignment_shape: %s" % (RESULT, line, u))
    return prefix, asg


def prefixed_override(repo):
    """compile_require: what follows `prefix, assignments = assignment_shape(module, rest)`:
    either `if prefix: assignments = "ALL"|"EXPORTS"` (a prefixed require overrides the shape's assignments) or nothing"""
    tree, _ = parse_py(repo, RESULT)
    fn = top_func(tree, "compile_require", RESULT)
    loops = [s for s in fn.body if isinstance(s, ast.For)]
    if len(loops) != 1:
        raise ShapeChanged("%s:%d: compile_require: expected one `for entry in entries` loop" % (RESULT, fn.lineno))
    body = loops[0].body
    idx = [k for k, s in enumerate(body) if ast.unparse(s) == "(prefix, assignments) = assignment_shape(module, rest)"
           or ast.unparse(s) == "prefix, assignments = assignment_shape(module, rest)"]
    if len(idx) != 1:
        raise ShapeChanged("%s:%d: compile_require no longer calls assignment_shape(module, rest) once" % (RESULT, fn.lineno))
    nxt = body[idx[0] + 1]
    if ast.unparse(nxt) == "module_name = module_name_str(module)":
        override = "None"
    elif isinstance(nxt, ast.If) and ast.unparse(nxt.test) == "prefix" and not nxt.orelse and len(nxt.body) == 1 \
            and ast.unparse(nxt.body[0]) in ("assignments = 'ALL'", "assignments = 'EXPORTS'") \
            and ast.unparse(body[idx[0] + 2]) == "module_name = module_name_str(module)":
        override = "(Some AkAll)" if "ALL" in ast.unparse(nxt.body[0]) else "(Some AkExports)"
    else:
        raise ShapeChanged("%s:%d: unrecognised statement after assignment_shape(...) in compile_require: %s"
                           % (RESULT, nxt.lineno, ast.unparse(nxt)[:70]))
    # between there and the require calls, prefix/assignments must not be reassigned
    for s in body[idx[0] + 2:]:
        for n in ast.walk(s):
            if isinstance(n, ast.Assign) and any(ast.unparse(t) in ("prefix", "assignments") for t in n.targets) and n is not nxt \
                    and not (isinstance(nxt, ast.If) and n in nxt.body):
                raise ShapeChanged("%s:%d: compile_require reassigns prefix/assignments" % (RESULT, n.lineno))
    src = ast.unparse(fn)
    for piece in ("require(module_name, compiler.local_state_stack[-1]['macros'], assignments=assignments, prefix=prefix, compiler=compiler)",
                  "require(module_name, compiler.module, assignments=assignments, prefix=prefix, compiler=compiler)"):
        if piece not in src:
            raise ShapeChanged("%s:%d: compile_require no longer calls %s" % (RESULT, fn.lineno, piece[:60]))
    return override


def _cstmts(stmts, rel):
    out = []
    for s in stmts:
        u = ast.unparse(s)
        if u == "self.new_local_state()":
            out.append("CPush")
        elif u == "self.local_state_stack.pop()":
            out.append("CPop")
        elif u == "yield":
            out.append("CYield")
        elif isinstance(s, ast.Try) and not s.handlers and not s.orelse:
            out.append("CTry [%s] [%s]" % ("; ".join(_cstmts(s.body, rel)), "; ".join(_cstmts(s.finalbody, rel))))
        elif isinstance(s, ast.Pass):
            continue
        else:
            raise ShapeChanged("%s:%d: local_state: statement outside the accepted subset: %s" % (rel, s.lineno, u[:60]))
    return out


def local_state(repo):
    tree, _ = parse_py(repo, COMPILER)
    fn = top_func(tree, "local_state", COMPILER, cls="HyASTCompiler")
    if [ast.unparse(d) for d in fn.decorator_list] != ["contextmanager"]:
        raise ShapeChanged("%s:%d: local_state is not a @contextmanager" % (COMPILER, fn.lineno))
    term = _cstmts(body_without_docstring(fn), COMPILER)
    new = top_func(tree, "new_local_state", COMPILER, cls="HyASTCompiler")
    nb = [ast.unparse(s) for s in body_without_docstring(new)]
    if nb != ["self.local_state_stack.append(dict(macros={}))"]:
        raise ShapeChanged("%s:%d: new_local_state does not push dict(macros={}): %r" % (COMPILER, new.lineno, nb))
    inl = top_func(tree, "is_in_local_state", COMPILER, cls="HyASTCompiler")
    ib = body_without_docstring(inl)
    if not (len(ib) == 1 and isinstance(ib[0], ast.Return) and isinstance(ib[0].value, ast.Compare)
            and ast.unparse(ib[0].value.left) == "len(self.local_state_stack)" and len(ib[0].value.ops) == 1
            and isinstance(ib[0].value.ops[0], ast.Gt) and isinstance(ib[0].value.comparators[0], ast.Constant)
            and isinstance(ib[0].value.comparators[0].value, int)):
        raise ShapeChanged("%s:%d: is_in_local_state is not `len(self.local_state_stack) > <int>`" % (COMPILER, inl.lineno))
    threshold = ib[0].value.comparators[0].value
    init = top_func(tree, "__init__", COMPILER, cls="HyASTCompiler")
    ini = [ast.unparse(s) for s in body_without_docstring(init)]
    if "self.local_state_stack = []" not in ini or ini.count("self.new_local_state()") != 1 \
            or "self.extra_macros = extra_macros or {}" not in ini:
        raise ShapeChanged("%s:%d: HyASTCompiler.__init__ no longer starts with one local state / extra_macros" % (COMPILER, init.lineno))
    glo = top_func(tree, "get_local_option", COMPILER, cls="HyASTCompiler")
    gb = [ast.unparse(s) for s in body_without_docstring(glo)]
    if gb != ["return next((s[key] for s in reversed(self.local_state_stack) if key in s), default)"]:
        raise ShapeChanged("%s:%d: get_local_option changed: %r" % (COMPILER, glo.lineno, gb))
    return term, threshold


def translate(repo):
    chain = lookup_chain(repo)
    rows = shape_table(repo)
    term, threshold = local_state(repo)
    override = prefixed_override(repo)
    out = "(* GENERATED by translator/macro_lookup.py from %s, %s, %s -- do not edit; regenerated on every check run *)\n" \
          % (MACROS, RESULT, COMPILER)
    out += "From HyV Require Import Base.Text MacroNS.LookupSyntax.\n"
    out += "(* namespaces consulted by macroexpand, first match wins *)\n"
    out += "Definition lookup_chain : list nsref := [%s].\n" % "; ".join(chain)
    out += "(* assignment_shape: per shape of a require entry, where the prefix comes from and what is assigned *)\n"
    out += "Definition shape_table : list (shape_tag * (prefix_kind * assign_kind)) :=\n  [%s].\n" \
           % "; ".join("(%s, (%s, %s))" % (t, p, a) for t, (p, a) in rows)
    out += "(* compile_require: `if prefix: assignments = ...` after assignment_shape (None: no such statement) *)\n"
    out += "Definition prefixed_override : option assign_kind := %s.\n" % override
    out += "(* HyASTCompiler.local_state, a @contextmanager; new_local_state pushes dict(macros={}) *)\n"
    out += "Definition local_state_term : list cstmt := [%s].\n" % "; ".join(term)
    out += "(* is_in_local_state: len(self.local_state_stack) > this *)\n"
    out += "Definition in_local_threshold : nat := %d%%nat.\n" % threshold
    return {"Gen/MacroLookup.v": out}
