"""T1 for the reader family (C18-C21): constants and dispatch structure of
hy/reader/reader.py and hy/reader/hy_reader.py -> coq/Gen/ReaderTables.v

What is taken from the source (fail-closed, every shape is matched exactly):
  * HyReader.NON_IDENT                      -> non_ident_chars
  * _whitespace / isnormalizedspace         -> ws_chars
  * every @reader_for(key[, args]) decorator of HyReader, mapped to a handler
    descriptor (coq/Reader/Syntax.v) by the decorated method; for the small
    sugar handlers the method body is compared with a stored skeleton and the
    string constants / argument order inside are extracted -> reader_table
  * the except clauses of try_parse_one_form -> try_handlers
  * prefixed_string: prefix alphabet, raw marker, escape whitelist(s)
  * as_identifier: the dot, the `None` of `.a.b`, mkexpr head
"""
import ast
import re

from translator.common import *  # noqa

HR = "hy/reader/hy_reader.py"
RR = "hy/reader/reader.py"


class _Skel(ast.NodeTransformer):
    """replace every string constant by a placeholder, remembering the strings in order"""

    def __init__(self):
        self.consts = []

    def visit_Constant(self, node):
        if isinstance(node.value, str):
            self.consts.append(node.value)
            return ast.copy_location(ast.Constant(value="$"), node)
        return node


def skel(node):
    import copy
    s = _Skel()
    n = s.visit(copy.deepcopy(node))
    return ast.dump(n), s.consts


def expect(node, want, what):
    got, consts = skel(node)
    if got != want:
        raise ShapeChanged("%s:%s: %s does not have the expected shape\n  got  %s\n  want %s"
                           % (HR, getattr(node, "lineno", "?"), what, got, want))
    return consts


def _call_self(meth, *args):
    return "Call(func=Attribute(value=Name(id='self', ctx=Load()), attr='%s', ctx=Load()), args=[%s], keywords=[])" % (
        meth, ", ".join(args))


LAMBDA = ("Lambda(args=arguments(posonlyargs=[], args=[arg(arg='self'), arg(arg='_')], kwonlyargs=[], kw_defaults=[], "
          "defaults=[]), body=%s)")
SK_TAG_AS = "Return(value=" + LAMBDA % ("Call(func=Name(id='mkexpr', ctx=Load()), args=[Name(id='root', ctx=Load()), %s], keywords=[])"
                                        % _call_self("parse_one_form")) + ")"
SK_SEQUENCE = "Return(value=" + LAMBDA % ("Call(func=Name(id='seq_type', ctx=Load()), args=[%s], keywords=[])"
                                          % _call_self("parse_forms_until", "Name(id='closer', ctx=Load())")) + ")"
SK_UNQUOTE = ("Return(value=Call(func=Name(id='mkexpr', ctx=Load()), args=[BinOp(left=Constant(value='$'), op=Add(), "
              "right=IfExp(test=%s, body=Constant(value='$'), orelse=Constant(value='$'))), %s], keywords=[]))"
              % (_call_self("peek_and_getc", "Constant(value='$')"), _call_self("parse_one_form")))
SK_HASH_STAR = ("Return(value=Call(func=Name(id='mkexpr', ctx=Load()), args=[BinOp(left=Constant(value='$'), op=Add(), "
                "right=Subscript(value=Dict(keys=[%s], values=[%s]), slice=Name(id='stars', ctx=Load()), ctx=Load())), %s], "
                "keywords=[]))")
SK_DISCARD = ["Expr(value=%s)" % _call_self("parse_one_form"), "Return(value=Constant(value=None))"]
SK_COMMENT = ["Expr(value=Call(func=Name(id='any', ctx=Load()), args=[GeneratorExp(elt=Compare(left=Name(id='c', ctx=Load()), "
              "ops=[Eq()], comparators=[Constant(value='$')]), generators=[comprehension(target=Name(id='c', ctx=Store()), "
              "iter=Call(func=Attribute(value=Name(id='self', ctx=Load()), attr='chars', ctx=Load()), args=[], "
              "keywords=[keyword(arg='eof_ok', value=Constant(value=True))]), ifs=[], is_async=0)])], keywords=[]))",
              "Return(value=Constant(value=None))"]
SK_INVALID_PREFIX = "Raise(exc=Call(func=Attribute(value=Name(id='LexException', ctx=Load()), attr='from_reader', ctx=Load())"
SK_PARSE_ONE = ["Assign(targets=[Name(id='model', ctx=Store())], value=Constant(value=None))",
                "While(test=Compare(left=Name(id='model', ctx=Load()), ops=[Is()], comparators=[Constant(value=None)]), "
                "body=[Assign(targets=[Name(id='model', ctx=Store())], value=%s)], orelse=[])" % _call_self("try_parse_one_form"),
                "Return(value=Name(id='model', ctx=Load()))"]
SK_FORMS_UNTIL = ("While(test=Constant(value=True), body=[Expr(value=%s), If(test=%s, body=[Break()], orelse=[]), "
                  "Assign(targets=[Name(id='model', ctx=Store())], value=%s), If(test=Compare(left=Name(id='model', ctx=Load()), "
                  "ops=[IsNot()], comparators=[Constant(value=None)]), body=[Expr(value=Yield(value=Name(id='model', ctx=Load())))], "
                  "orelse=[])], orelse=[])"
                  % (_call_self("slurp_space"), _call_self("peek_and_getc", "Name(id='closer', ctx=Load())"),
                     _call_self("try_parse_one_form")))

SK_PARSE = [
    "Expr(value=Call(func=Attribute(value=Name(id='self', ctx=Load()), attr='_set_source', ctx=Load()), "
    "args=[Name(id='stream', ctx=Load()), Name(id='filename', ctx=Load())], keywords=[]))",
    "If(test=BoolOp(op=And(), values=[Name(id='skip_shebang', ctx=Load()), Compare(left=Call(func=Attribute(value=Constant(value='$'), "
    "attr='join', ctx=Load()), args=[Call(func=Name(id='islice', ctx=Load()), args=[Call(func=Attribute(value=Name(id='self', ctx=Load()), "
    "attr='peeking', ctx=Load()), args=[], keywords=[keyword(arg='eof_ok', value=Constant(value=True))]), Call(func=Name(id='len', ctx=Load()), "
    "args=[Constant(value='$')], keywords=[])], keywords=[])], keywords=[]), ops=[Eq()], comparators=[Constant(value='$')])]), "
    "body=[For(target=Name(id='c', ctx=Store()), iter=Call(func=Attribute(value=Name(id='self', ctx=Load()), attr='chars', ctx=Load()), "
    "args=[], keywords=[]), body=[If(test=Compare(left=Name(id='c', ctx=Load()), ops=[Eq()], comparators=[Constant(value='$')]), "
    "body=[Break()], orelse=[])], orelse=[])], orelse=[])",
    "Expr(value=YieldFrom(value=Call(func=Attribute(value=Name(id='self', ctx=Load()), attr='parse_forms_until', ctx=Load()), "
    "args=[Constant(value='$')], keywords=[])))"]

SEQ_KINDS = {"Expression": "KExpr", "List": "KList", "Dict": "KDict", "Set": "KSet", "Tuple": "KTuple"}


def one_char(s, what):
    if len(s) != 1:
        raise ShapeChanged("%s: %r is not a single character" % (what, s))
    return ord(s)


def decorators(fn):
    """[(key, [arg nodes])] for the @reader_for decorators of fn, innermost (applied first) last in source"""
    out = []
    for d in fn.decorator_list:
        if not (isinstance(d, ast.Call) and isinstance(d.func, ast.Name) and d.func.id == "reader_for" and not d.keywords):
            raise ShapeChanged("%s:%d: decorator of %s is not reader_for(...)" % (HR, d.lineno, fn.name))
        if len(d.args) == 1:
            args = None
        elif len(d.args) == 2 and isinstance(d.args[1], ast.Tuple):
            args = d.args[1].elts
        else:
            raise ShapeChanged("%s:%d: reader_for with unexpected arguments" % (HR, d.lineno))
        out.append((const_str(d.args[0], "reader_for key"), args))
    return out


def handler_for(fn, key, args):
    """descriptor (Coq term) for one (method, key, args)"""
    body = body_without_docstring(fn)
    name = fn.name

    def noargs():
        if args is not None:
            raise ShapeChanged("%s:%d: %s registered with arguments" % (HR, fn.lineno, name))

    if name == "INVALID":
        noargs()
        if len(body) != 1 or not ast.dump(body[0]).startswith(SK_INVALID_PREFIX):
            raise ShapeChanged("%s:%d: INVALID is not a single raise of LexException.from_reader" % (HR, fn.lineno))
        return "HInvalid"
    if name == "line_comment":
        noargs()
        if len(body) != 2:
            raise ShapeChanged("%s:%d: line_comment body" % (HR, fn.lineno))
        c = expect(body[0], SK_COMMENT[0], "line_comment") + expect(body[1], SK_COMMENT[1], "line_comment")
        if c != ["\n"]:
            raise ShapeChanged("%s:%d: line_comment does not stop at a newline" % (HR, fn.lineno))
        return "HComment"
    if name == "keyword":
        noargs()
        return "HKeyword"
    if name == "prefixed_string":
        noargs()
        return "HString"
    if name == "tag_as":
        if args is None or len(args) != 1 or len(body) != 1:
            raise ShapeChanged("%s:%d: tag_as(root)" % (HR, fn.lineno))
        expect(body[0], SK_TAG_AS, "tag_as")
        if [a.arg for a in fn.args.args] != ["root"]:
            raise ShapeChanged("%s:%d: tag_as parameters" % (HR, fn.lineno))
        return "HWrap %s" % coq_text(const_str(args[0], "tag_as root"))
    if name == "unquote":
        noargs()
        if len(body) != 1:
            raise ShapeChanged("%s:%d: unquote body" % (HR, fn.lineno))
        base, ch, suffix, empty = expect(body[0], SK_UNQUOTE, "unquote")
        if empty != "":
            raise ShapeChanged("%s:%d: unquote: the else branch is not the empty string" % (HR, fn.lineno))
        return "HUnquote %s %s %d" % (coq_text(base), coq_text(suffix), one_char(ch, "unquote splice character"))
    if name == "sequence":
        if args is None or len(args) != 2 or len(body) != 1:
            raise ShapeChanged("%s:%d: sequence(seq_type, closer)" % (HR, fn.lineno))
        expect(body[0], SK_SEQUENCE, "sequence")
        if [a.arg for a in fn.args.args] != ["seq_type", "closer"]:
            raise ShapeChanged("%s:%d: sequence parameters" % (HR, fn.lineno))
        if not (isinstance(args[0], ast.Name) and args[0].id in SEQ_KINDS):
            raise ShapeChanged("%s:%d: unknown sequence type" % (HR, fn.lineno))
        return "HSeq %s %d" % (SEQ_KINDS[args[0].id], one_char(const_str(args[1], "closer"), "closer"))
    if name == "tag_dispatch":
        noargs()
        return "HDispatch"
    if name == "discard":
        noargs()
        if len(body) != 2:
            raise ShapeChanged("%s:%d: discard body" % (HR, fn.lineno))
        expect(body[0], SK_DISCARD[0], "discard")
        expect(body[1], SK_DISCARD[1], "discard")
        return "HDiscard"
    if name == "hash_star":
        noargs()
        if len(body) != 1 or not isinstance(body[0], ast.Return):
            raise ShapeChanged("%s:%d: hash_star body" % (HR, fn.lineno))
        try:
            d = body[0].value.args[0].right.value
            n = len(d.keys)
        except Exception:
            raise ShapeChanged("%s:%d: hash_star body" % (HR, fn.lineno))
        want = SK_HASH_STAR % (", ".join(["Constant(value='$')"] * n), ", ".join(["Constant(value='$')"] * n),
                               _call_self("parse_one_form"))
        consts = expect(body[0], want, "hash_star")
        base, ks, vs = consts[0], consts[1:1 + n], consts[1 + n:1 + 2 * n]
        if [a.arg for a in fn.args.args] != ["self", "stars"]:
            raise ShapeChanged("%s:%d: hash_star parameters" % (HR, fn.lineno))
        table = dict(zip(ks, vs))
        if len(table) != n or not key.startswith("#") or key[1:] not in table:
            raise ShapeChanged("%s:%d: hash_star registered for %r which its table does not know" % (HR, fn.lineno, key))
        return "HWrap %s" % coq_text(base + table[key[1:]])
    if name == "annotate":
        noargs()
        # two forms are read, then mkexpr(root, <the two names in some order>)
        if len(body) != 3:
            raise ShapeChanged("%s:%d: annotate body" % (HR, fn.lineno))
        reads = []
        for st in body[:2]:
            if not (isinstance(st, ast.Assign) and len(st.targets) == 1 and isinstance(st.targets[0], ast.Name)
                    and ast.dump(st.value) == _call_self("parse_one_form")):
                raise ShapeChanged("%s:%d: annotate does not read two forms" % (HR, st.lineno))
            reads.append(st.targets[0].id)
        r = body[2]
        if not (isinstance(r, ast.Return) and isinstance(r.value, ast.Call) and isinstance(r.value.func, ast.Name)
                and r.value.func.id == "mkexpr" and len(r.value.args) == 3 and not r.value.keywords
                and all(isinstance(a, ast.Name) for a in r.value.args[1:])):
            raise ShapeChanged("%s:%d: annotate return" % (HR, r.lineno))
        order = [a.id for a in r.value.args[1:]]
        if len(set(reads)) != 2 or sorted(order) != sorted(reads):
            raise ShapeChanged("%s:%d: annotate: emitted names are not the two forms read" % (HR, r.lineno))
        return "HAnn %s %s" % (coq_text(const_str(r.value.args[0], "annotate root")),
                               "false" if order == reads else "true")
    if name == "bracketed_string":
        noargs()
        return "HBracket"
    raise ShapeChanged("%s:%d: reader_for on a method this translator does not know: %s" % (HR, fn.lineno, name))


def try_handlers(fn):
    body = body_without_docstring(fn)
    if not (len(body) == 1 and isinstance(body[0], ast.With) and len(body[0].items) == 1
            and ast.dump(body[0].items[0].context_expr) == _call_self("as_current_reader")
            and len(body[0].body) == 1 and isinstance(body[0].body[0], ast.Try)):
        raise ShapeChanged("%s:%d: try_parse_one_form is not `with self.as_current_reader(): try: ...`" % (HR, fn.lineno))
    tr = body[0].body[0]
    if tr.orelse or tr.finalbody:
        raise ShapeChanged("%s:%d: try_parse_one_form: try has else/finally" % (HR, tr.lineno))
    if not tr.body or ast.dump(tr.body[0]) != "Expr(value=%s)" % _call_self("slurp_space"):
        raise ShapeChanged("%s:%d: try_parse_one_form: the try block does not start at slurp_space" % (HR, tr.lineno))
    out = []
    for h in tr.handlers:
        if not isinstance(h.type, ast.Name):
            raise ShapeChanged("%s:%d: except clause without a plain class name" % (HR, h.lineno))
        if len(h.body) == 1 and isinstance(h.body[0], ast.Raise) and h.body[0].exc is None:
            act = "Reraise"
        elif (len(h.body) == 1 and isinstance(h.body[0], ast.Raise) and isinstance(h.body[0].exc, ast.Call)
              and ast.dump(h.body[0].exc.func) == "Attribute(value=Name(id='LexException', ctx=Load()), attr='from_reader', ctx=Load())"
              and h.body[0].cause is None):
            act = "ToLex"
        else:
            raise ShapeChanged("%s:%d: except clause is neither `raise` nor `raise LexException.from_reader(...)`" % (HR, h.lineno))
        out.append((h.type.id, act))
    return out


def ws_class(tree):
    v = top_assign(tree, "_whitespace", RR)
    if not (isinstance(v, ast.Call) and ast.dump(v.func) == "Attribute(value=Name(id='re', ctx=Load()), attr='compile', ctx=Load())"
            and len(v.args) == 1 and not v.keywords):
        raise ShapeChanged("%s: _whitespace is not re.compile(<literal>)" % RR)
    pat = const_str(v.args[0], "_whitespace pattern")
    m = re.fullmatch(r"\[((?:\\[tnrfv]|[^\\\]\[\-^])+)\]\+", pat)
    if not m:
        raise ShapeChanged("%s: _whitespace pattern %r is not a plain character class followed by +" % (RR, pat))
    esc = {"t": "\t", "n": "\n", "r": "\r", "f": "\f", "v": "\v"}
    chars, body, i = [], m.group(1), 0
    while i < len(body):
        if body[i] == "\\":
            chars.append(esc[body[i + 1]])
            i += 2
        else:
            chars.append(body[i])
            i += 1
    fn = top_func(tree, "isnormalizedspace", RR)
    b = body_without_docstring(fn)
    want = ("Return(value=Call(func=Name(id='bool', ctx=Load()), args=[Call(func=Attribute(value=Name(id='_whitespace', ctx=Load()), "
            "attr='match', ctx=Load()), args=[Name(id='s', ctx=Load())], keywords=[])], keywords=[]))")
    if len(b) != 1 or ast.dump(b[0]) != want:
        raise ShapeChanged("%s:%d: isnormalizedspace is not bool(_whitespace.match(s))" % (RR, fn.lineno))
    return sorted(set(chars))


GETC_POS = ("[Assign(targets=[Tuple(elts=[Name(id='line', ctx=Store()), Name(id='col', ctx=Store())], ctx=Store())], "
            "value=Attribute(value=Name(id='self', ctx=Load()), attr='_pos', ctx=Load())), "
            "AugAssign(target=Name(id='col', ctx=Store()), op=Add(), value=Constant(value=%s)), "
            "If(test=Compare(left=Name(id='c', ctx=Load()), ops=[Eq()], comparators=[Constant(value=%s)]), "
            "body=[AugAssign(target=Name(id='line', ctx=Store()), op=Add(), value=Constant(value=%s)), "
            "Assign(targets=[Name(id='col', ctx=Store())], value=Constant(value=%s))], orelse=[]), "
            "Assign(targets=[Attribute(value=Name(id='self', ctx=Load()), attr='_pos', ctx=Store())], "
            "value=Tuple(elts=[Name(id='line', ctx=Load()), Name(id='col', ctx=Load())], ctx=Load()))]")
FILL_POS = ["Assign(targets=[Tuple(elts=[Attribute(value=Name(id='model', ctx=Load()), attr='start_line', ctx=Store()), "
            "Attribute(value=Name(id='model', ctx=Load()), attr='start_column', ctx=Store())], ctx=Store())], "
            "value=Name(id='start', ctx=Load()))",
            "Assign(targets=[Tuple(elts=[Attribute(value=Name(id='model', ctx=Load()), attr='end_line', ctx=Store()), "
            "Attribute(value=Name(id='model', ctx=Load()), attr='end_column', ctx=Store())], ctx=Store())], "
            "value=Attribute(value=Name(id='self', ctx=Load()), attr='pos', ctx=Load()))",
            "Return(value=Call(func=Attribute(value=Name(id='model', ctx=Load()), attr='replace', ctx=Load()), "
            "args=[Name(id='model', ctx=Load())], keywords=[]))"]


def getc_rule(rtree, htree):
    """Reader.getc's line/column bookkeeping, Reader._set_source's initial position, HyReader.fill_pos"""
    g = top_func(rtree, "getc", RR, cls="Reader")
    ifs = [st for st in body_without_docstring(g) if isinstance(st, ast.If) and ast.dump(st.test) == "Name(id='c', ctx=Load())"]
    if len(ifs) != 1 or len(ifs[0].body) < 4 or ifs[0].orelse:
        raise ShapeChanged("%s:%d: getc: no single `if c:` block with the position update" % (RR, g.lineno))
    b = ifs[0].body[:4]
    try:
        k1 = b[1].value.value
        nl = b[2].test.comparators[0].value
        k2 = b[2].body[0].value.value
        k3 = b[2].body[1].value.value
    except Exception:
        raise ShapeChanged("%s:%d: getc: position update changed shape" % (RR, g.lineno))
    if "[" + ", ".join(ast.dump(x) for x in b) + "]" != GETC_POS % (repr(k1), repr(nl), repr(k2), repr(k3)):
        raise ShapeChanged("%s:%d: getc: position update changed shape" % (RR, g.lineno))
    if not (isinstance(nl, str) and len(nl) == 1 and all(isinstance(k, int) and k >= 0 for k in (k1, k2, k3))):
        raise ShapeChanged("%s:%d: getc: unexpected constants" % (RR, g.lineno))
    ss = top_func(rtree, "_set_source", RR, cls="Reader")
    init = [x.value for x in ast.walk(ss) if isinstance(x, ast.Assign) and len(x.targets) == 1
            and ast.dump(x.targets[0]) == "Attribute(value=Name(id='self', ctx=Load()), attr='_pos', ctx=Store())"]
    if not (len(init) == 1 and isinstance(init[0], ast.Tuple) and len(init[0].elts) == 2
            and all(isinstance(e, ast.Constant) and isinstance(e.value, int) and e.value >= 0 for e in init[0].elts)):
        raise ShapeChanged("%s:%d: _set_source: initial position" % (RR, ss.lineno))
    fp = body_without_docstring(top_func(htree, "fill_pos", HR, cls="HyReader"))
    if [ast.dump(x) for x in fp] != FILL_POS:
        raise ShapeChanged("%s: fill_pos changed shape" % HR)
    return k1, ord(nl), k2, k3, init[0].elts[0].value, init[0].elts[1].value


def string_constants_of(fn):
    return string_constants(body_without_docstring(fn))


def translate(repo):
    htree, _ = parse_py(repo, HR)
    rtree, _ = parse_py(repo, RR)
    cls = [n for n in htree.body if isinstance(n, ast.ClassDef) and n.name == "HyReader"]
    if len(cls) != 1:
        raise ShapeChanged("%s: class HyReader" % HR)
    cls = cls[0]
    if [ast.dump(b) for b in cls.bases] != ["Name(id='Reader', ctx=Load())"]:
        raise ShapeChanged("%s: HyReader's bases changed" % HR)
    # Reader (the base) must not register handlers of its own
    for n in ast.walk(rtree):
        if isinstance(n, ast.FunctionDef) and n.decorator_list and any(
                isinstance(d, ast.Call) and getattr(d.func, "id", "") == "reader_for" for d in n.decorator_list):
            raise ShapeChanged("%s:%d: the base Reader registers a handler" % (RR, n.lineno))
    # NON_IDENT = set("...")
    ni = None
    for n in cls.body:
        if isinstance(n, ast.Assign) and len(n.targets) == 1 and getattr(n.targets[0], "id", None) == "NON_IDENT":
            ni = n.value
    if not (isinstance(ni, ast.Call) and isinstance(ni.func, ast.Name) and ni.func.id == "set" and len(ni.args) == 1
            and not ni.keywords):
        raise ShapeChanged("%s: NON_IDENT is not set(<string literal>)" % HR)
    non_ident = sorted(set(const_str(ni.args[0], "NON_IDENT")))
    ws = ws_class(rtree)
    # dispatch table, in the order ReaderMeta.__new__ builds it (class body order; within one method
    # the innermost decorator is applied first; later entries override earlier ones)
    table = []
    for n in cls.body:
        if isinstance(n, ast.FunctionDef) and n.decorator_list:
            names = [getattr(d, "id", None) or getattr(getattr(d, "func", None), "id", None) for d in n.decorator_list]
            if all(x in ("classmethod", "contextmanager", "staticmethod", "property") for x in names):
                continue
            for key, args in reversed(decorators(n)):
                if not key:
                    raise ShapeChanged("%s:%d: empty reader_for key" % (HR, n.lineno))
                table.append((key, handler_for(n, key, args)))
    keys = [k for k, _ in table]
    if len(set(keys)) != len(keys):
        raise ShapeChanged("%s: a reader_for key is registered twice" % HR)
    if "#" not in keys:
        raise ShapeChanged("%s: no handler for '#'" % HR)
    # the three small drivers
    po = body_without_docstring(top_func(htree, "parse_one_form", HR, cls="HyReader"))
    if [ast.dump(x) for x in po] != SK_PARSE_ONE:
        raise ShapeChanged("%s: parse_one_form changed shape" % HR)
    fu = body_without_docstring(top_func(htree, "parse_forms_until", HR, cls="HyReader"))
    if [ast.dump(x) for x in fu] != [SK_FORMS_UNTIL]:
        raise ShapeChanged("%s: parse_forms_until changed shape" % HR)
    # parse(): the code that runs outside try_parse_one_form's except clauses
    pa = body_without_docstring(top_func(htree, "parse", HR, cls="HyReader"))
    if len(pa) != 3:
        raise ShapeChanged("%s: parse changed shape" % HR)
    pconsts_parse = []
    for st, want in zip(pa, SK_PARSE):
        pconsts_parse += expect(st, want, "parse")
    if len(pconsts_parse) != 5 or pconsts_parse[0] != "" or pconsts_parse[4] != "" or pconsts_parse[1] != pconsts_parse[2] \
            or len(pconsts_parse[3]) != 1 or not pconsts_parse[1]:
        raise ShapeChanged("%s: parse: unexpected constants %r" % (HR, pconsts_parse))
    shebang, shebang_end = pconsts_parse[1], pconsts_parse[3]
    handlers = try_handlers(top_func(htree, "try_parse_one_form", HR, cls="HyReader"))
    # prefixed_string constants
    ps = top_func(htree, "prefixed_string", HR, cls="HyReader")
    pconsts = string_constants_of(ps)
    alph = [c for c in pconsts if set(c) == set("bfrt") or (len(c) == 4 and c.isalpha())]
    wl = [c for c in pconsts if "\\" in c and len(c) > 6]
    extra = None
    for x in ast.walk(ps):
        if (isinstance(x, ast.BinOp) and isinstance(x.op, ast.Add) and isinstance(x.left, ast.Constant)
                and isinstance(x.right, ast.IfExp) and isinstance(x.left.value, str) and len(x.left.value) > 6):
            if not (ast.dump(x.right.test) == "Compare(left=Constant(value='b'), ops=[In()], comparators=[Name(id='prefix', ctx=Load())])"
                    and isinstance(x.right.body, ast.Constant) and x.right.body.value == ""
                    and isinstance(x.right.orelse, ast.Constant) and isinstance(x.right.orelse.value, str)):
                raise ShapeChanged("%s:%d: escape whitelist expression" % (HR, x.lineno))
            wl = [x.left.value]
            extra = x.right.orelse.value
    if len(alph) != 1 or len(wl) != 1 or extra is None:
        raise ShapeChanged("%s:%d: prefixed_string: prefix alphabet / escape whitelist not found" % (HR, ps.lineno))
    for needed in ("r", "f", "t", "b", "\\", '"'):
        if needed not in pconsts:
            raise ShapeChanged("%s:%d: prefixed_string no longer mentions %r" % (HR, ps.lineno, needed))
    # as_identifier constants
    ai = top_func(htree, "as_identifier", HR)
    aconsts = string_constants_of(ai)
    for needed in (".", "..", "None", "j", "J"):
        if needed not in aconsts:
            raise ShapeChanged("%s:%d: as_identifier no longer mentions %r" % (HR, ai.lineno, needed))

    out = HEADER % ("translator/reader_tables.py", HR + ", " + RR)
    out += "From HyV Require Import Base.Text Reader.Syntax.\n"
    out += "Definition non_ident_chars : list N := %s.\n" % coq_text("".join(non_ident))
    out += "Definition ws_chars : list N := %s.\n" % coq_text("".join(ws))
    out += "Definition reader_table : list (text * handler) :=\n  [%s].\n" % ";\n   ".join(
        "(%s, %s)" % (coq_text(k), h) for k, h in table)
    out += "Definition try_handlers : list (text * exc_action) := [%s].\n" % "; ".join(
        "(%s, %s)" % (coq_text(c), a) for c, a in handlers)
    out += "Definition prefix_alphabet : text := %s.\n" % coq_text(alph[0])
    out += "Definition escape_whitelist : text := %s.\n" % coq_text(wl[0])
    out += "Definition escape_whitelist_str : text := %s.\n" % coq_text(extra)
    out += "Definition none_name : text := %s.\n" % coq_text("None")
    out += "(* HyReader.parse(skip_shebang=True): a text starting with shebang_mark loses everything through shebang_end *)\n"
    out += "Definition shebang_mark : text := %s.\nDefinition shebang_end : N := %d%%N.\n" % (coq_text(shebang), ord(shebang_end))
    k1, nl, k2, k3, l0, c0 = getc_rule(rtree, htree)
    out += "(* Reader.getc: col += %d; at the newline character line += %d and col = %d; Reader._set_source starts at (%d, %d) *)\n" % (k1, k2, k3, l0, c0)
    out += "Definition getc_col_step : nat := %d%%nat.\nDefinition getc_newline : N := %d%%N.\n" % (k1, nl)
    out += "Definition getc_line_step : nat := %d%%nat.\nDefinition getc_col_reset : nat := %d%%nat.\n" % (k2, k3)
    out += "Definition pos_init : nat * nat := (%d%%nat, %d%%nat).\n" % (l0, c0)
    return {"Gen/ReaderTables.v": out}
