"""A small s-expression reader for hy/core/hy_repr.hy, independent of Hy's own
reader (which is under test).  It understands exactly the lexical forms that file
uses and raises ShapeChanged on anything else.

Tree: ("list", open_char, [items]) | ("sym", text) | ("kw", text) | ("str", value, prefix)
      | ("quote", item) | ("unpack", item)
"""
from lib.vlib import ShapeChanged

WS = " \t\n\r\f\v"
CLOSE = {"(": ")", "[": "]", "{": "}"}
DELIMS = set("()[]{};\"'`~") | set(WS)
ESC = {"n": "\n", "t": "\t", "r": "\r", "\\": "\\", '"': '"', "'": "'", "0": "\0"}


class Sexp:
    def __init__(self, text, name):
        self.t, self.i, self.name = text, 0, name

    def err(self, msg):
        line = self.t.count("\n", 0, self.i) + 1
        raise ShapeChanged("%s:%d: %s" % (self.name, line, msg))

    def skip(self):
        t = self.t
        while self.i < len(t):
            c = t[self.i]
            if c in WS:
                self.i += 1
            elif c == ";":
                while self.i < len(t) and t[self.i] != "\n":
                    self.i += 1
            else:
                return

    def string(self, prefix):
        # self.i is just after the opening double quote
        t, out = self.t, []
        while True:
            if self.i >= len(t):
                self.err("unterminated string")
            c = t[self.i]
            self.i += 1
            if c == '"':
                return ("str", "".join(out), prefix)
            if "f" in prefix and c == "{":
                if t.startswith("{", self.i):
                    self.i += 1
                    out.append("{{")
                    continue
                # a replacement field: forms (which may hold strings) up to the closing brace, kept as source text
                start = self.i
                while True:
                    self.skip()
                    if self.i >= len(t):
                        self.err("unterminated replacement field")
                    if t[self.i] == "}":
                        break
                    self.form()
                out.append("{" + t[start:self.i] + "}")
                self.i += 1
                continue
            if c == "\\" and "r" not in prefix:
                if self.i >= len(t):
                    self.err("unterminated string")
                e = t[self.i]
                self.i += 1
                if e not in ESC:
                    self.err("string escape \\%s not understood by the translator" % e)
                out.append(ESC[e])
            else:
                out.append(c)

    def bracket_string(self):
        # self.i is just after "#["
        t = self.t
        j = t.find("[", self.i)
        if j < 0:
            self.err("bad bracket string")
        delim = t[self.i:j]
        if "]" in delim or "\n" in delim:
            self.err("bad bracket string delimiter")
        end = t.find("]" + delim + "]", j + 1)
        if end < 0:
            self.err("unterminated bracket string")
        body = t[j + 1:end]
        self.i = end + len(delim) + 2
        if body.startswith("\n"):
            body = body[1:]
        return ("str", body, "#[" + delim)

    def form(self):
        self.skip()
        t = self.t
        if self.i >= len(t):
            self.err("unexpected end of file")
        c = t[self.i]
        if c in CLOSE:
            self.i += 1
            items = []
            while True:
                self.skip()
                if self.i >= len(t):
                    self.err("unclosed %s" % c)
                if t[self.i] == CLOSE[c]:
                    self.i += 1
                    return ("list", c, items)
                items.append(self.form())
        if c in ")]}":
            self.err("unexpected %s" % c)
        if c == '"':
            self.i += 1
            return self.string("")
        if c == "'":
            self.i += 1
            return ("quote", self.form())
        if c in "`~":
            self.err("quasiquote syntax is not expected in this file")
        if c == "#":
            if t.startswith("#[", self.i):
                self.i += 2
                return self.bracket_string()
            if t.startswith("#(", self.i):
                self.i += 1
                f = self.form()
                return ("list", "#(", f[2])
            if t.startswith("#* ", self.i):
                self.i += 3
                return ("unpack", self.form())
            self.err("reader tag not understood by the translator")
        j = self.i
        while j < len(t) and t[j] not in DELIMS:
            j += 1
        tok = t[self.i:j]
        self.i = j
        if j < len(t) and t[j] == '"':
            if tok not in ("f", "r", "b"):
                self.err("string prefix %r not understood" % tok)
            self.i += 1
            return self.string(tok)
        if tok.startswith(":"):
            return ("kw", tok[1:])
        return ("sym", tok)

    def forms(self):
        out = []
        while True:
            self.skip()
            if self.i >= len(self.t):
                return out
            out.append(self.form())


def read_file(path, name):
    with open(path, encoding="utf-8") as f:
        return Sexp(f.read(), name).forms()


def is_call(x, head):
    return x[0] == "list" and x[1] == "(" and x[2] and x[2][0] == ("sym", head)


def walk(x):
    yield x
    if x[0] == "list":
        for y in x[2]:
            yield from walk(y)
    elif x[0] in ("quote", "unpack"):
        yield from walk(x[1])
