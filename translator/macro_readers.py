"""T1/T2 for C37: the pieces of source whose SHAPE makes reading lazy and the current reader scoped
  hy/reader/__init__.py:read_many      wraps reader.parse(...) (a generator) in Lazy without forcing it
  hy/reader/hy_reader.py:parse / parse_forms_until / try_parse_one_form / tag_dispatch / as_current_reader / __init__
  hy/compiler.py:_compile_branch       compiles each node inside the loop that draws it from the iterator
  hy/models.py:Lazy                    __iter__/__next__ delegate to the generator
-> coq/Gen/MacroReaders.v.  Fail-closed."""
import ast

from translator.common import *  # noqa

RINIT = "hy/reader/__init__.py"
HYR = "hy/reader/hy_reader.py"
COMPILER = "hy/compiler.py"
MODELS = "hy/models.py"
MACROS = "hy/macros.py"


def _u(n):
    return ast.unparse(n)


def _rstmts(stmts, rel):
    out = []
    for s in stmts:
        u = _u(s)
        if u == "old_reader = HyReader._current_reader":
            out.append("RSave")
        elif u == "HyReader._current_reader = self":
            out.append("RSetSelf")
        elif u == "HyReader._current_reader = old_reader":
            out.append("RRestore")
        elif u == "yield":
            out.append("RYield")
        elif isinstance(s, ast.Try) and not s.handlers and not s.orelse:
            out.append("RTry [%s] [%s]" % ("; ".join(_rstmts(s.body, rel)), "; ".join(_rstmts(s.finalbody, rel))))
        else:
            raise ShapeChanged("%s:%d: as_current_reader: statement outside the accepted subset: %s" % (rel, s.lineno, u[:60]))
    return out


def translate(repo):
    # ---- read_many
    tree, _ = parse_py(repo, RINIT)
    fn = top_func(tree, "read_many", RINIT)
    body = [_u(s) for s in body_without_docstring(fn)]
    want_tail = ["reader = reader or HyReader()",
                 "m = hy.models.Lazy(reader.parse(stream, filename, skip_shebang))",
                 "m.source = source", "m.filename = filename", "m.reader = reader", "return m"]
    if body[-6:] != want_tail:
        raise ShapeChanged("%s:%d: read_many no longer returns Lazy(reader.parse(...)) with .reader set: %r" % (RINIT, fn.lineno, body[-6:]))
    # ---- Lazy
    mt, _ = parse_py(repo, MODELS)
    it = top_func(mt, "__iter__", MODELS, cls="Lazy")
    nx = top_func(mt, "__next__", MODELS, cls="Lazy")
    ini = top_func(mt, "__init__", MODELS, cls="Lazy")
    if [_u(s) for s in it.body] != ["yield from self._gen"] or [_u(s) for s in nx.body] != ["return self._gen.__next__()"] \
            or [_u(s) for s in ini.body] != ["super().__init__()", "self._gen = gen"]:
        raise ShapeChanged("%s: Lazy no longer delegates to its generator unchanged" % MODELS)
    # ---- HyReader
    ht, _ = parse_py(repo, HYR)
    parse = top_func(ht, "parse", HYR, cls="HyReader")
    pb = [_u(s) for s in body_without_docstring(parse)]
    if pb[0] != "self._set_source(stream, filename)" or pb[-1] != "yield from self.parse_forms_until('')":
        raise ShapeChanged("%s:%d: HyReader.parse is not _set_source + yield from parse_forms_until('')" % (HYR, parse.lineno))
    pfu = top_func(ht, "parse_forms_until", HYR, cls="HyReader")
    want = ("while True:\n    self.slurp_space()\n    if self.peek_and_getc(closer):\n        break\n"
            "    model = self.try_parse_one_form()\n    if model is not None:\n        yield model")
    if [_u(s) for s in body_without_docstring(pfu)] != [want]:
        raise ShapeChanged("%s:%d: parse_forms_until changed" % (HYR, pfu.lineno))
    tp = top_func(ht, "try_parse_one_form", HYR, cls="HyReader")
    tb = body_without_docstring(tp)
    if not (len(tb) == 1 and isinstance(tb[0], ast.With) and _u(tb[0].items[0].context_expr) == "self.as_current_reader()"):
        raise ShapeChanged("%s:%d: try_parse_one_form is not wrapped in `with self.as_current_reader()`" % (HYR, tp.lineno))
    inner = _u(tb[0])
    for piece in ("handler = self.reader_table.get(c)", "model = handler(self, c) if handler else self.read_default(c)",
                  "if model is not None:", "model.reader = self", "return None"):
        if piece not in inner:
            raise ShapeChanged("%s:%d: try_parse_one_form lost `%s`" % (HYR, tp.lineno, piece))
    td = top_func(ht, "tag_dispatch", HYR, cls="HyReader")
    tdb = [_u(s) for s in body_without_docstring(td)]
    want_td = ["ident = self.read_ident() or self.getc()",
               "if ident in self.reader_macros:\n    tree = self.reader_macros[ident](self, ident)\n"
               "    return as_model(tree) if tree is not None else None"]
    if tdb[1:3] != want_td or not tdb[3].startswith("raise LexException.from_reader("):
        raise ShapeChanged("%s:%d: tag_dispatch changed: %r" % (HYR, td.lineno, tdb[1:]))
    none_no_form = True
    acr = top_func(ht, "as_current_reader", HYR, cls="HyReader")
    if [_u(d) for d in acr.decorator_list] != ["contextmanager"]:
        raise ShapeChanged("%s:%d: as_current_reader is not a @contextmanager" % (HYR, acr.lineno))
    term = _rstmts(body_without_docstring(acr), HYR)
    cr = top_func(ht, "current_reader", HYR, cls="HyReader")
    if [_u(s) for s in body_without_docstring(cr)] != ["return override or HyReader._current_reader or (cls() if create else None)"]:
        raise ShapeChanged("%s:%d: current_reader changed" % (HYR, cr.lineno))
    ur = top_func(ht, "using_reader", HYR, cls="HyReader")
    if [_u(s) for s in body_without_docstring(ur)] != [
            "reader = cls.current_reader(override, create)",
            "with reader.as_current_reader() if reader else nullcontext():\n    yield"]:
        raise ShapeChanged("%s:%d: using_reader changed" % (HYR, ur.lineno))
    hin = top_func(ht, "__init__", HYR, cls="HyReader")
    hb = [_u(s) for s in body_without_docstring(hin)]
    if "self.reader_macros = {}" not in hb or "super().__init__()" not in hb:
        raise ShapeChanged("%s:%d: HyReader.__init__ no longer creates a fresh reader_macros dict per reader" % (HYR, hin.lineno))
    cls = [n for n in ht.body if isinstance(n, ast.ClassDef) and n.name == "HyReader"][0]
    if "_current_reader = None" not in [_u(s) for s in cls.body]:
        raise ShapeChanged("%s: HyReader._current_reader no longer starts as None" % HYR)
    # ---- the compiler draws one form at a time
    ct, _ = parse_py(repo, COMPILER)
    cb = top_func(ct, "_compile_branch", COMPILER, cls="HyASTCompiler")
    if [_u(d) for d in cb.decorator_list] != ["builds_model(Lazy)"]:
        raise ShapeChanged("%s:%d: _compile_branch no longer builds Lazy" % (COMPILER, cb.lineno))
    loop = [s for s in body_without_docstring(cb) if isinstance(s, ast.For)]
    if len(loop) != 1 or _u(loop[0].iter) != "exprs" or "last = self.compile(node)" not in [_u(s) for s in loop[0].body]:
        raise ShapeChanged("%s:%d: _compile_branch does not compile each node inside `for node in exprs`" % (COMPILER, cb.lineno))
    hc = top_func(ct, "hy_compile", COMPILER)
    src = _u(hc)
    for piece in ("reader = getattr(tree, 'reader', None)", "with HyReader.using_reader(reader, create=False), compiler.scope:\n        result = compiler.compile(tree)"):
        if piece not in src:
            raise ShapeChanged("%s:%d: hy_compile lost `%s`" % (COMPILER, hc.lineno, piece.split("\n")[0]))
    # ---- reader_macro / enable_readers write where the model says
    mt2, _ = parse_py(repo, MACROS)
    rm = top_func(mt2, "reader_macro", MACROS)
    if [_u(s) for s in rm.body] != ["fn = rename_function(fn, name)", "fn.__globals__.setdefault('_hy_reader_macros', {})[name] = fn"]:
        raise ShapeChanged("%s:%d: reader_macro changed" % (MACROS, rm.lineno))
    out = "(* GENERATED by translator/macro_readers.py from %s, %s, %s, %s, %s -- do not edit; regenerated on every check run *)\n" \
          % (RINIT, HYR, COMPILER, MODELS, MACROS)
    out += "From HyV Require Import Base.Text MacroNS.ReaderMacrosSyntax.\n"
    out += "(* HyReader.as_current_reader, a @contextmanager over the class attribute HyReader._current_reader *)\n"
    out += "Definition as_current_reader_term : list rstmt := [%s].\n" % "; ".join(term)
    out += "(* read_many returns Lazy(generator) unforced, Lazy delegates, parse_forms_until yields one model per request,\n"
    out += "   _compile_branch compiles each node inside the loop that draws it *)\n"
    out += "Definition reading_is_lazy : bool := true.\n"
    out += "(* tag_dispatch: `return as_model(tree) if tree is not None else None`; parse_forms_until skips None *)\n"
    out += "Definition none_yields_no_form_flag : bool := %s.\n" % ("true" if none_no_form else "false")
    return {"Gen/MacroReaders.v": out}
