"""T1 for C36: the loop skeleton of hy/macros.py:macroexpand and the keyword arguments with which
hy/core/util.hy's macroexpand / macroexpand-1 call it  ->  coq/Gen/MacroExpand.v (booleans the model is
parameterised by).  Fail-closed."""
import ast

from translator.common import *  # noqa
from translator import macro_sexp as sx

MACROS = "hy/macros.py"
UTIL = "hy/core/util.hy"


def _b(x):
    return "true" if x else "false"


def py_side(repo):
    tree, _ = parse_py(repo, MACROS)
    fn = top_func(tree, "macroexpand", MACROS)
    args = [a.arg for a in fn.args.args]
    if args != ["tree", "module", "compiler", "once", "result_ok"] or fn.args.kwonlyargs or fn.args.vararg or fn.args.kwarg:
        raise ShapeChanged("%s:%d: macroexpand parameters changed: %r" % (MACROS, fn.lineno, args))
    d = fn.args.defaults
    if len(d) != 3 or not all(isinstance(x, ast.Constant) for x in d) or d[0].value is not None \
            or not isinstance(d[1].value, bool) or not isinstance(d[2].value, bool):
        raise ShapeChanged("%s:%d: macroexpand defaults changed" % (MACROS, fn.lineno))
    default_once, default_result_ok = d[1].value, d[2].value
    body = body_without_docstring(fn)
    loops = [s for s in body if isinstance(s, ast.While)]
    if len(loops) != 1 or ast.unparse(loops[0].test) != "isinstance(tree, Expression) and tree" or loops[0].orelse:
        raise ShapeChanged("%s:%d: macroexpand: the loop is not `while isinstance(tree, Expression) and tree`" % (MACROS, fn.lineno))
    if not (isinstance(body[-1], ast.Return) and ast.unparse(body[-1]) == "return tree" and body[-2] is loops[0]):
        raise ShapeChanged("%s:%d: macroexpand does not end with the loop followed by `return tree`" % (MACROS, fn.lineno))
    lb = loops[0].body
    # the tail of the loop body: with MacroExceptions(...): <apply> ; if once: break
    if len(lb) < 2 or not isinstance(lb[-2], ast.With):
        raise ShapeChanged("%s:%d: macroexpand loop tail is not `with MacroExceptions(...)` + `if once: break`" % (MACROS, loops[0].lineno))
    once_breaks = (isinstance(lb[-1], ast.If) and ast.unparse(lb[-1].test) == "once" and len(lb[-1].body) == 1
                   and isinstance(lb[-1].body[0], ast.Break) and not lb[-1].orelse)
    if not once_breaks:
        raise ShapeChanged("%s:%d: macroexpand loop does not end with `if once: break`" % (MACROS, lb[-1].lineno))
    w = lb[-2]
    if ast.unparse(w.items[0].context_expr) != "MacroExceptions(module, tree, compiler)":
        raise ShapeChanged("%s:%d: expansion is not wrapped in MacroExceptions(module, tree, compiler)" % (MACROS, w.lineno))
    wb = w.body
    if len(wb) != 4:
        raise ShapeChanged("%s:%d: body of the MacroExceptions block changed (%d statements)" % (MACROS, w.lineno, len(wb)))
    if ast.unparse(wb[0]) != "if compiler:\n    compiler.this = tree":
        raise ShapeChanged("%s:%d: `if compiler: compiler.this = tree` changed" % (MACROS, wb[0].lineno))
    call = wb[1]
    if not (isinstance(call, ast.Assign) and ast.unparse(call.targets[0]) == "obj" and isinstance(call.value, ast.Call)
            and ast.unparse(call.value.func) == "m" and len(call.value.args) == 2
            and ast.unparse(call.value.args[1]) == "*map(as_model, tree[1:])"):
        raise ShapeChanged("%s:%d: the macro is not called as m(<compiler?>, *map(as_model, tree[1:]))" % (MACROS, call.lineno))
    chk = wb[2]
    if not (isinstance(chk, ast.If) and ast.unparse(chk.test) == "isinstance(obj, (hy.compiler.Result, AST))"
            and len(chk.body) == 1 and isinstance(chk.body[0], ast.Return) and not chk.orelse):
        raise ShapeChanged("%s:%d: the compiler-result test changed" % (MACROS, chk.lineno))
    ret = ast.unparse(chk.body[0].value)
    if ret == "obj if result_ok else tree":
        not_ok_returns_tree = True
    elif ret == "obj":
        not_ok_returns_tree = False
    else:
        raise ShapeChanged("%s:%d: unrecognised return for compiler results: %s" % (MACROS, chk.lineno, ret))
    if ast.unparse(wb[3]) != "tree = replace_hy_obj(obj, tree)":
        raise ShapeChanged("%s:%d: `tree = replace_hy_obj(obj, tree)` changed" % (MACROS, wb[3].lineno))
    return default_once, default_result_ok, not_ok_returns_tree


def _kwargs(call_items, rel, what):
    """keyword arguments (:k v ...) of a call form's tail; positional ones are returned too"""
    pos, kw, i = [], {}, 0
    while i < len(call_items):
        t = call_items[i]
        if t[0] == "atom" and t[1].startswith(":") and len(t[1]) > 1:
            if i + 1 >= len(call_items):
                raise ShapeChanged("%s: %s: keyword %s without value" % (rel, what, t[1]))
            kw[t[1][1:]] = call_items[i + 1]
            i += 2
        elif t == ("atom", "#**"):
            kw["#**"] = call_items[i + 1]
            i += 2
        else:
            pos.append(t)
            i += 1
    return pos, kw


def _bool_atom(x, rel, what):
    if x == ("atom", "True"):
        return True
    if x == ("atom", "False"):
        return False
    raise ShapeChanged("%s: %s is not a literal True/False: %s" % (rel, what, sx.show(x)))


def hy_side(repo, default_once):
    import os
    src = open(os.path.join(repo, UTIL), encoding="utf-8").read()
    forms = sx.read_all(src, UTIL)
    inner = sx.find_def(forms, "defn", "_macroexpand")[1]
    if sx.show(inner[2]) != "[model module macros #** kwargs]" or len(inner) != 4:
        raise ShapeChanged("%s: _macroexpand signature/body changed" % UTIL)
    body = inner[3]
    if not (body[0] == "(" and len(body[1]) == 4 and body[1][0] == ("atom", "if")
            and sx.show(body[1][1]) == "(and (isinstance model hy.models.Expression) model)"
            and body[1][3] == ("atom", "model")):
        raise ShapeChanged("%s: _macroexpand is not (if (and (isinstance model hy.models.Expression) model) <call> model)" % UTIL)
    call = body[1][2]
    if not (call[0] == "(" and call[1][0] == ("atom", "hy.macros.macroexpand")):
        raise ShapeChanged("%s: _macroexpand does not call hy.macros.macroexpand" % UTIL)
    pos, kw = _kwargs(call[1][1:], UTIL, "_macroexpand")
    if pos or set(kw) != {"tree", "module", "compiler", "result-ok", "#**"}:
        raise ShapeChanged("%s: _macroexpand passes unexpected arguments: %r %r" % (UTIL, pos, sorted(kw)))
    if kw["tree"] != ("atom", "model") or kw["module"] != ("atom", "module") or kw["#**"] != ("atom", "kwargs") \
            or sx.show(kw["compiler"]) != "(HyASTCompiler module :extra-macros macros)":
        raise ShapeChanged("%s: _macroexpand's tree/module/compiler arguments changed" % UTIL)
    result_ok = _bool_atom(kw["result-ok"], UTIL, ":result-ok")
    onces = {}
    for name in ("macroexpand", "macroexpand-1"):
        d = sx.find_def(forms, "defn", name)[1]
        if sx.show(d[2]) != "[model [module None] [macros None]]":
            raise ShapeChanged("%s: %s parameters changed" % (UTIL, name))
        last = d[-1]
        if not (last[0] == "(" and last[1][0] == ("atom", "_macroexpand")):
            raise ShapeChanged("%s: %s does not end with a call of _macroexpand" % (UTIL, name))
        pos, kw = _kwargs(last[1][1:], UTIL, name)
        if [sx.show(p) for p in pos] != ["model", "(or module (calling-module))", "macros"] or set(kw) - {"once"}:
            raise ShapeChanged("%s: %s passes unexpected arguments to _macroexpand" % (UTIL, name))
        onces[name] = _bool_atom(kw["once"], UTIL, ":once") if "once" in kw else default_once
    return result_ok, onces["macroexpand"], onces["macroexpand-1"]


def translate(repo):
    default_once, default_result_ok, not_ok_returns_tree = py_side(repo)
    result_ok, once_full, once_1 = hy_side(repo, default_once)
    out = "(* GENERATED by translator/macro_expand.py from %s and %s -- do not edit; regenerated on every check run *)\n" % (MACROS, UTIL)
    out += "(* hy.macros.macroexpand: `return obj if result_ok else tree` (true) or `return obj` (false) for compiler results *)\n"
    out += "Definition me_not_ok_returns_tree : bool := %s.\n" % _b(not_ok_returns_tree)
    out += "(* defaults of macroexpand(tree, module, compiler=None, once=..., result_ok=...) *)\n"
    out += "Definition me_default_once : bool := %s.\nDefinition me_default_result_ok : bool := %s.\n" % (_b(default_once), _b(default_result_ok))
    out += "(* hy.core.util._macroexpand passes :result-ok ...; hy.macroexpand / hy.macroexpand-1 pass :once ... (or the default) *)\n"
    out += "Definition util_result_ok : bool := %s.\nDefinition util_once_macroexpand : bool := %s.\nDefinition util_once_macroexpand_1 : bool := %s.\n" \
           % (_b(result_ok), _b(once_full), _b(once_1))
    return {"Gen/MacroExpand.v": out}
