"""T1: constants of hy/reader/mangling.py -> coq/Gen/MangleTables.v"""
from translator.common import *  # noqa

REL = "hy/reader/mangling.py"


def translate(repo):
    tree, _ = parse_py(repo, REL)
    delim = const_str(top_assign(tree, "MANGLE_DELIM", REL), "MANGLE_DELIM")
    if len(delim) != 1:
        raise ShapeChanged("MANGLE_DELIM is not one character")
    us = const_str(top_assign(tree, "normalizes_to_underscore", REL), "normalizes_to_underscore")
    mconsts = string_constants(body_without_docstring(top_func(tree, "mangle", REL)))
    uconsts = string_constants(body_without_docstring(top_func(tree, "unmangle", REL)))
    hyx = [c for c in mconsts if c.startswith("hyx")]
    if len(set(hyx)) != 1:
        raise ShapeChanged("mangle: expected exactly one hyx prefix literal, got %r" % hyx)
    out = HEADER % ("translator/mangle_tables.py", REL)
    out += "Definition mangle_delim : N := %d%%N.\n" % ord(delim)
    out += "Definition normalizes_to_underscore : list N := %s.\n" % coq_text(us)
    out += "Definition hyx_prefix : list N := %s.\n" % coq_text(hyx[0])
    out += "(* every string literal of mangle() and unmangle(), in source order *)\n"
    out += "Definition mangle_literals : list (list N) := [%s].\n" % "; ".join(coq_text(c) for c in mconsts)
    out += "Definition unmangle_literals : list (list N) := [%s].\n" % "; ".join(coq_text(c) for c in uconsts)
    return {"Gen/MangleTables.v": out}
