"""T1 for the Print family (C24 C25 C27): tables of hy/core/hy_repr.hy (read with
translator/print_sexp.py, not Hy's reader) and of hy/reader/hy_reader.py,
hy/reader/reader.py (read with Python's ast) -> coq/Gen/PrintTables.v.  Fail-closed."""
import ast
import os
import re

from lib.vlib import ShapeChanged
from translator.common import parse_py, top_assign, top_func, const_str, coq_text, HEADER
from translator import print_sexp as sx

HY_REPR = "hy/core/hy_repr.hy"
HY_READER = "hy/reader/hy_reader.py"
READER = "hy/reader/reader.py"


def q(s):
    return coq_text(s) if s else "[]"


def opt(s):
    return "None" if s is None else "(Some %s)" % q(s)


# ------------------------------------------------------------------ hy_repr.hy

def type_names(x, where):
    """a type expression of hy-repr-register: a symbol or a list of symbols"""
    if x[0] == "sym":
        return [x[1]]
    if x[0] == "list" and x[1] == "[" and all(y[0] == "sym" for y in x[2]):
        return [y[1] for y in x[2]]
    raise ShapeChanged("%s: hy-repr-register %s: types are not a symbol or a list of symbols" % (HY_REPR, where))


def parse_register(form):
    """(hy-repr-register TYPES [:placeholder STR] FN) with the keyword pair anywhere after the head"""
    args = form[2][1:]
    pos, placeholder, i = [], None, 0
    while i < len(args):
        a = args[i]
        if a[0] == "kw":
            if a[1] != "placeholder" or i + 1 >= len(args) or args[i + 1][0] != "str" or args[i + 1][2] != "":
                raise ShapeChanged("%s: hy-repr-register with an unexpected keyword argument" % HY_REPR)
            placeholder = args[i + 1][1]
            i += 2
        else:
            pos.append(a)
            i += 1
    if len(pos) != 2:
        raise ShapeChanged("%s: hy-repr-register call does not have (types, function)" % HY_REPR)
    return type_names(pos[0], "call"), placeholder, pos[1]


def format_string(fn, names):
    """the literal format of a printer of the shape (fn [x] (.format "<fmt>" ...)) or (fn [x] f"<fmt>")"""
    if not (sx.is_call(fn, "fn") and len(fn[2]) == 3):
        raise ShapeChanged("%s: printer of %s is not a one-expression fn" % (HY_REPR, names))
    body = fn[2][2]
    if body[0] == "str" and body[2] == "f":
        return body[1]
    if sx.is_call(body, ".format") and len(body[2]) >= 2 and body[2][1][0] == "str" and body[2][1][2] == "":
        return body[2][1][1]
    raise ShapeChanged("%s: printer of %s is neither (.format <literal> ...) nor an f-string" % (HY_REPR, names))


FORMAT_PRINTERS = ["collections.ChainMap", "collections.Counter", "collections.OrderedDict",
                   "collections.defaultdict", "Fraction", "bytearray"]


def repr_tables(repo):
    forms = sx.read_file(os.path.join(repo, HY_REPR), HY_REPR)
    registered, conditional, formats, seq_formats, syntax = [], [], {}, [], None
    for f in forms:
        if sx.is_call(f, "hy-repr-register"):
            names, ph, fn = parse_register(f)
            for n in names:
                registered.append((n, ph))
            if names == ["hy.models.Expression"]:
                for x in sx.walk(fn):
                    if sx.is_call(x, "setv") and len(x[2]) == 3 and x[2][1] == ("sym", "syntax"):
                        d = x[2][2]
                        if not (d[0] == "list" and d[1] == "{" and len(d[2]) % 2 == 0):
                            raise ShapeChanged("%s: syntax is not a dict display" % HY_REPR)
                        syntax = []
                        for k, v in zip(d[2][0::2], d[2][1::2]):
                            if not (k[0] == "quote" and k[1][0] == "sym" and v[0] == "str" and v[2] == ""):
                                raise ShapeChanged("%s: syntax entry is not 'symbol \"text\"" % HY_REPR)
                            syntax.append((k[1][1], v[1]))
            for n in names:
                if n in FORMAT_PRINTERS:
                    formats[n] = format_string(fn, names)
        elif sx.is_call(f, "when"):
            for x in f[2][2:]:
                for y in sx.walk(x):
                    if sx.is_call(y, "hy-repr-register"):
                        conditional.extend(parse_register(y)[0])
        elif sx.is_call(f, "for"):
            # (for [[types fmt] [[T "fmt"] ...]] (defn mkrepr ...) (hy-repr-register types :placeholder fmt (mkrepr fmt)))
            regs = [y for y in sx.walk(f) if sx.is_call(y, "hy-repr-register")]
            if not regs:
                continue
            head = f[2][1]
            ok = (head[0] == "list" and len(head[2]) == 2 and head[2][0] == ("list", "[", [("sym", "types"), ("sym", "fmt")])
                  and len(regs) == 1
                  and regs[0][2][1:] == [("sym", "types"), ("kw", "placeholder"), ("sym", "fmt"),
                                         ("list", "(", [("sym", "mkrepr"), ("sym", "fmt")])])
            mk = [y for y in sx.walk(f) if sx.is_call(y, "defn") and y[2][1] == ("sym", "mkrepr")]
            want_mk = ("list", "(", [("sym", "fn"), ("list", "[", [("sym", "x")]),
                                     ("list", "(", [("sym", ".replace"), ("sym", "fmt"), ("str", "...", ""),
                                                    ("list", "(", [("sym", "_cat"), ("sym", "x")]), ("sym", "1")])])
            ok = ok and len(mk) == 1 and mk[0][2][2:] == [("list", "[", [("sym", "fmt")]), want_mk]
            if not ok:
                raise ShapeChanged("%s: the placeholder-format registration loop changed shape" % HY_REPR)
            for ent in head[2][1][2]:
                if not (ent[0] == "list" and len(ent[2]) == 2 and ent[2][1][0] == "str"):
                    raise ShapeChanged("%s: entry of the registration loop is not [types \"fmt\"]" % HY_REPR)
                for n in type_names(ent[2][0], "loop"):
                    registered.append((n, ent[2][1][1]))
                    seq_formats.append((n, ent[2][1][1]))
    if syntax is None:
        raise ShapeChanged("%s: no syntax dict in the Expression printer" % HY_REPR)
    for n in FORMAT_PRINTERS:
        if n not in formats:
            raise ShapeChanged("%s: no registration for %s" % (HY_REPR, n))
    return registered, conditional, formats, seq_formats, syntax


# ------------------------------------------------------------------ hy_reader.py / reader.py

def reader_tables(repo):
    tree, _ = parse_py(repo, HY_READER)
    cls = [n for n in tree.body if isinstance(n, ast.ClassDef) and n.name == "HyReader"]
    if len(cls) != 1:
        raise ShapeChanged("%s: class HyReader" % HY_READER)
    cls = cls[0]
    non_ident = None
    table = []
    for n in cls.body:
        if isinstance(n, ast.Assign) and len(n.targets) == 1 and getattr(n.targets[0], "id", None) == "NON_IDENT":
            v = n.value
            if not (isinstance(v, ast.Call) and getattr(v.func, "id", None) == "set" and len(v.args) == 1):
                raise ShapeChanged("%s: NON_IDENT is not set(<literal>)" % HY_READER)
            non_ident = const_str(v.args[0], "NON_IDENT")
        if isinstance(n, ast.FunctionDef):
            for d in n.decorator_list:
                if isinstance(d, ast.Call) and getattr(d.func, "id", None) == "reader_for":
                    if not (1 <= len(d.args) <= 2) or d.keywords:
                        raise ShapeChanged("%s:%d: reader_for arguments" % (HY_READER, d.lineno))
                    key = const_str(d.args[0], "reader_for key")
                    args = []
                    if len(d.args) == 2:
                        if not isinstance(d.args[1], ast.Tuple):
                            raise ShapeChanged("%s:%d: reader_for args is not a tuple" % (HY_READER, d.lineno))
                        for e in d.args[1].elts:
                            if isinstance(e, ast.Constant) and isinstance(e.value, str):
                                args.append(e.value)
                            elif isinstance(e, ast.Name):
                                args.append(e.id)
                            else:
                                raise ShapeChanged("%s:%d: reader_for arg" % (HY_READER, d.lineno))
                    table.append((key, n.name, args))
    if non_ident is None:
        raise ShapeChanged("%s: NON_IDENT not found" % HY_READER)
    ps = top_func(tree, "prefixed_string", HY_READER, cls="HyReader")
    esc = None
    alphabet = None
    for x in ast.walk(ps):
        if isinstance(x, ast.Compare) and len(x.ops) == 1 and isinstance(x.ops[0], ast.NotIn):
            c = x.comparators[0]
            if isinstance(c, ast.BinOp) and isinstance(c.op, ast.Add) and isinstance(c.right, ast.IfExp):
                t = c.right
                ok = (isinstance(t.test, ast.Compare) and isinstance(t.test.ops[0], ast.In)
                      and const_str(t.test.left, "escape test") == "b" and getattr(t.test.comparators[0], "id", "") == "prefix")
                if not ok:
                    raise ShapeChanged("%s: escape whitelist condition changed" % HY_READER)
                esc = (const_str(c.left, "escape whitelist"), const_str(t.body, "escapes for bytes"),
                       const_str(t.orelse, "escapes for str"))
        if isinstance(x, ast.Compare) and len(x.ops) == 1 and isinstance(x.ops[0], ast.Lt) \
                and getattr(x.left, "id", "") == "prefix_chars":
            c = x.comparators[0]
            if isinstance(c, ast.Call) and getattr(c.func, "id", "") == "set" and len(c.args) == 1:
                alphabet = const_str(c.args[0], "prefix alphabet")
    if esc is None or alphabet is None:
        raise ShapeChanged("%s: prefixed_string: escape whitelist / prefix alphabet not found" % HY_READER)
    rtree, _ = parse_py(repo, READER)
    wsre = top_assign(rtree, "_whitespace", READER)
    if not (isinstance(wsre, ast.Call) and isinstance(wsre.func, ast.Attribute) and wsre.func.attr == "compile"
            and len(wsre.args) == 1):
        raise ShapeChanged("%s: _whitespace is not re.compile(<literal>)" % READER)
    pat = const_str(wsre.args[0], "_whitespace")
    m = re.fullmatch(r"\[((?: |\\[tnrfv])+)\]\+", pat)
    if not m:
        raise ShapeChanged("%s: _whitespace pattern %r is not a plain character class" % (READER, pat))
    ws = m.group(1).replace("\\t", "\t").replace("\\n", "\n").replace("\\r", "\r").replace("\\f", "\f").replace("\\v", "\v")
    return non_ident, table, esc, alphabet, ws


# ------------------------------------------------------------------ the body of hy-repr (state handling)

START_QUOTING = ("list", "(", [
    ("sym", "when"),
    ("list", "(", [("sym", "and"),
                   ("list", "(", [("sym", "not"), ("sym", "_quoting")]),
                   ("list", "(", [("sym", "isinstance"), ("sym", "obj"), ("sym", "hy.models.Object")]),
                   ("list", "(", [("sym", "not"), ("list", "(", [("sym", "isinstance"), ("sym", "obj"), ("sym", "hy.models.Keyword")])])]),
    ("list", "(", [("sym", "setv"), ("sym", "_quoting"), ("sym", "True")]),
    ("list", "(", [("sym", "setv"), ("sym", "started-quoting"), ("sym", "True")])])
ADD_SEEN = ("list", "(", [("sym", ".add"), ("sym", "_seen"), ("sym", "oid")])
DISCARD_SEEN = ("list", "(", [("sym", ".discard"), ("sym", "_seen"), ("sym", "oid")])
RESET_QUOTING = ("list", "(", [("sym", "when"), ("sym", "started-quoting"),
                               ("list", "(", [("sym", "setv"), ("sym", "_quoting"), ("sym", "False")])])
CALL_PRINTER = ("list", "(", [("sym", "f"), ("sym", "obj")])
NEUTRAL = [("list", "(", [("sym", "global"), ("sym", "_quoting")]),
           ("list", "(", [("sym", "setv"), ("sym", "started-quoting"), ("sym", "False")]),
           ("list", "(", [("sym", "setv"), ("sym", "oid"), ("list", "(", [("sym", "id"), ("sym", "obj")])])]


def touches_state(x):
    return any(y in (("sym", "_seen"), ("sym", "_quoting")) for y in sx.walk(x))


def repr_steps(forms, where):
    """statements of hy-repr -> names of the state steps they perform, in order (fail-closed)"""
    out = []
    for x in forms:
        if x == START_QUOTING:
            out.append("StartQuoting")
        elif x == ADD_SEEN:
            out.append("AddSeen")
        elif x == DISCARD_SEEN:
            out.append("DiscardSeen")
        elif x == RESET_QUOTING:
            out.append("ResetQuoting")
        elif sx.is_call(x, "when") and len(x[2]) == 3 and x[2][1] == ("list", "(", [("sym", "in"), ("sym", "oid"), ("sym", "_seen")]) \
                and sx.is_call(x[2][2], "return") and not touches_state(x[2][2]):
            out.append("ReturnIfSeen")
        elif x in NEUTRAL or x[0] in ("sym", "str"):
            continue
        elif sx.is_call(x, "setv") and len(x[2]) == 3 and x[2][1] == ("list", "[", [("sym", "f"), ("sym", "placeholder")]) \
                and not touches_state(x[2][2]):
            continue
        elif any(y == CALL_PRINTER for y in sx.walk(x)) and not touches_state(x) \
                and not any(sx.is_call(y, h) and any(z == CALL_PRINTER for z in sx.walk(y))
                            for y in sx.walk(x) for h in ("try", "return", "when", "if", "cond", "while", "for", "fn", "and", "or")):
            out.append("CallPrinter")
        else:
            raise ShapeChanged("%s: hy-repr: statement of %s not understood (it may touch _seen/_quoting): %r" % (HY_REPR, where, x[:2]))
    return out


def repr_body(repo):
    forms = sx.read_file(os.path.join(repo, HY_REPR), HY_REPR)
    fn = [f for f in forms if sx.is_call(f, "defn") and len(f[2]) > 3 and f[2][1] == ("sym", "hy-repr")]
    if len(fn) != 1 or fn[0][2][2] != ("list", "[", [("sym", "obj")]):
        raise ShapeChanged("%s: (defn hy-repr [obj] ...) not found" % HY_REPR)
    body = fn[0][2][3:]
    if body and sx.is_call(body[-1], "try"):
        t = body[-1][2][1:]
        fins = [x for x in t if sx.is_call(x, "finally")]
        if len(fins) != 1 or t[-1] is not fins[0] or any(sx.is_call(x, h) for x in t for h in ("except", "else")):
            raise ShapeChanged("%s: hy-repr: the try form is not (try body... (finally ...))" % HY_REPR)
        return "TryFinally [%s] [%s] [%s]" % ("; ".join(repr_steps(body[:-1], "the prologue")),
                                               "; ".join(repr_steps(t[:-1], "the try body")),
                                               "; ".join(repr_steps(fins[0][2][1:], "the finally clause")))
    return "Straight [%s]" % "; ".join(repr_steps(body, "the body"))


def translate(repo):
    registered, conditional, formats, seq_formats, syntax = repr_tables(repo)
    non_ident, table, esc, alphabet, ws = reader_tables(repo)
    out = HEADER % ("translator/print_tables.py", ", ".join([HY_REPR, HY_READER, READER]))
    out += "(* hy_repr.hy: the `syntax` dict of the Expression printer: head symbol, printed prefix *)\n"
    out += "Definition repr_syntax : list (list N * list N) := [%s].\n" % "; ".join(
        "(%s, %s)" % (q(k), q(v)) for k, v in syntax)
    out += "(* every unconditional hy-repr-register: type, placeholder *)\n"
    out += "Definition repr_registered : list (list N * option (list N)) := [%s].\n" % ";\n  ".join(
        "(%s, %s)" % (q(n), opt(p)) for n, p in registered)
    out += "(* types registered only under a version test (not on this interpreter's model) *)\n"
    out += "Definition repr_conditional : list (list N) := [%s].\n" % "; ".join(q(n) for n in conditional)
    out += "(* literal formats of the constructor-call printers *)\n"
    out += "Definition repr_formats : list (list N * list N) := [%s].\n" % ";\n  ".join(
        "(%s, %s)" % (q(n), q(formats[n])) for n in FORMAT_PRINTERS)
    out += "(* the [types fmt] rows of the placeholder-format loop *)\n"
    out += "Definition repr_seq_formats : list (list N * list N) := [%s].\n" % ";\n  ".join(
        "(%s, %s)" % (q(n), q(f)) for n, f in seq_formats)
    out += ("(* the body of hy-repr as the sequence of its steps on the state (_quoting, _seen) *)\n"
            "Inductive rstep := StartQuoting | ReturnIfSeen | AddSeen | CallPrinter | DiscardSeen | ResetQuoting.\n"
            "Inductive rbody := Straight (l : list rstep) | TryFinally (pre tr fin : list rstep).\n")
    out += "Definition hy_repr_body : rbody := %s.\n" % repr_body(repo)
    out += "(* hy_reader.py *)\n"
    out += "Definition rd_non_ident : list N := %s.\n" % q(non_ident)
    out += "Definition rd_whitespace : list N := %s.\n" % q(ws)
    out += "Definition rd_escapes : list N := %s.\n" % q(esc[0])
    out += "Definition rd_escapes_bytes_extra : list N := %s.\n" % q(esc[1])
    out += "Definition rd_escapes_str_extra : list N := %s.\n" % q(esc[2])
    out += "Definition rd_prefix_alphabet : list N := %s.\n" % q(alphabet)
    out += "(* every reader_for decorator: key, handler, arguments *)\n"
    out += "Definition rd_table : list (list N * list N * list (list N)) := [%s].\n" % ";\n  ".join(
        "(%s, %s, [%s])" % (q(k), q(h), "; ".join(q(a) for a in args)) for k, h, args in table)
    return {"Gen/PrintTables.v": out}
