"""A small s-expression reader for .hy sources, independent of Hy's own reader (which is under test).
Produces nested Python lists: ("(", [...]) / ("[", [...]) / ("{", [...]) for sequences, ("str", text) for
string literals (plain and bracket strings), ("atom", text) for everything else.  Fail-closed on anything
unbalanced."""
from lib.vlib import ShapeChanged

CLOSE = {"(": ")", "[": "]", "{": "}"}


def read_all(src, rel="<hy>"):
    pos = 0
    n = len(src)

    def err(msg):
        line = src.count("\n", 0, pos) + 1
        raise ShapeChanged("%s:%d: %s" % (rel, line, msg))

    def skip():
        nonlocal pos
        while pos < n:
            c = src[pos]
            if c.isspace() or c == ",":
                pos += 1
            elif c == ";":
                while pos < n and src[pos] != "\n":
                    pos += 1
            else:
                break

    def read():
        nonlocal pos
        skip()
        if pos >= n:
            err("unexpected end of input")
        c = src[pos]
        if c in CLOSE:
            pos += 1
            items = []
            while True:
                skip()
                if pos >= n:
                    err("unclosed %s" % c)
                if src[pos] == CLOSE[c]:
                    pos += 1
                    return (c, items)
                if src[pos] in ")]}":
                    err("mismatched closer")
                items.append(read())
        if c in ")]}":
            err("unexpected closer")
        if c == '"':
            j = pos + 1
            out = []
            while j < n and src[j] != '"':
                if src[j] == "\\":
                    out.append(src[j:j + 2])
                    j += 2
                else:
                    out.append(src[j])
                    j += 1
            if j >= n:
                err("unterminated string")
            pos = j + 1
            return ("str", "".join(out))
        if src.startswith("#[", pos):
            k = src.find("[", pos + 2)
            if k < 0:
                err("bad bracket string")
            delim = src[pos + 2:k]
            end = src.find("]" + delim + "]", k + 1)
            if end < 0:
                err("unterminated bracket string")
            text = src[k + 1:end]
            pos = end + len(delim) + 2
            return ("str", text)
        j = pos
        while j < n and not src[j].isspace() and src[j] not in "()[]{}\";":
            j += 1
        if j == pos:
            err("cannot read token at %r" % src[pos:pos + 10])
        tok = src[pos:j]
        pos = j
        if tok in ("'", "`", "~", "~@") or (tok.startswith(("'", "`", "~")) and len(tok) >= 1 and tok.strip("'`~@") == ""):
            return ("atom", tok)
        return ("atom", tok)

    forms = []
    while True:
        skip()
        if pos >= n:
            return forms
        forms.append(read())


def show(x):
    """canonical text of a parsed form (whitespace-insensitive comparison)"""
    t, v = x
    if t in CLOSE:
        return t + " ".join(show(i) for i in v) + CLOSE[t]
    if t == "str":
        return '"' + v + '"'
    return v


def find_def(forms, head, name):
    """the top-level (head name ...) form"""
    hits = [f for f in forms if f[0] == "(" and len(f[1]) >= 2 and f[1][0] == ("atom", head) and f[1][1] == ("atom", name)]
    if len(hits) != 1:
        raise ShapeChanged("expected exactly one (%s %s ...), found %d" % (head, name, len(hits)))
    return hits[0]
