"""T1: importlib.machinery.SOURCE_SUFFIXES as seen by the interpreter that runs
the implementation, and the literals of hy/importer.py that decide which files
are Hy source -> coq/Gen/CmdSuffixes.v"""
import ast
import json
import subprocess

from lib import vlib
from translator.common import *  # noqa

REL = "hy/importer.py"


def interpreter_facts():
    code = ("import importlib.machinery as m, os, json; "
            "print(json.dumps({'suffixes': list(m.SOURCE_SUFFIXES), 'sep': os.sep, 'altsep': os.altsep, "
            "'extsep': os.extsep}))")
    p = subprocess.run([vlib.PY, "-S", "-c", code], capture_output=True, text=True, timeout=60,
                       env={"PATH": "/usr/bin:/bin"})
    if p.returncode != 0:
        raise ShapeChanged("cannot ask %s for SOURCE_SUFFIXES: %s" % (vlib.PY, p.stderr[-300:]))
    return json.loads(p.stdout)


def translate(repo):
    tree, _ = parse_py(repo, REL)
    # importlib.machinery.SOURCE_SUFFIXES.insert(0, ".hy")
    ins = [n.value for n in tree.body if isinstance(n, ast.Expr) and isinstance(n.value, ast.Call)
           and ast.unparse(n.value.func) == "importlib.machinery.SOURCE_SUFFIXES.insert"]
    if len(ins) != 1 or len(ins[0].args) != 2 or not (isinstance(ins[0].args[0], ast.Constant) and ins[0].args[0].value == 0):
        raise ShapeChanged("%s: expected exactly one importlib.machinery.SOURCE_SUFFIXES.insert(0, <str>)" % REL)
    inserted = const_str(ins[0].args[1], "inserted suffix")
    # def _could_be_hy_src(filename): return os.path.splitext(filename)[1] not in set(SOURCE_SUFFIXES) - {<str>...}
    fn = top_func(tree, "_could_be_hy_src", REL)
    body = body_without_docstring(fn)
    if [a.arg for a in fn.args.args] != ["filename"] or len(body) != 1 or not isinstance(body[0], ast.Return):
        raise ShapeChanged("%s: _could_be_hy_src is not a single return over `filename`" % REL)
    e = body[0].value
    ok = (isinstance(e, ast.Compare) and len(e.ops) == 1 and isinstance(e.ops[0], ast.NotIn)
          and ast.unparse(e.left) == "os.path.splitext(filename)[1]"
          and isinstance(e.comparators[0], ast.BinOp) and isinstance(e.comparators[0].op, ast.Sub)
          and ast.unparse(e.comparators[0].left) == "set(importlib.machinery.SOURCE_SUFFIXES)"
          and isinstance(e.comparators[0].right, ast.Set))
    if not ok:
        raise ShapeChanged("%s:%d: _could_be_hy_src is not `splitext(filename)[1] not in set(SOURCE_SUFFIXES) - {...}`"
                           % (REL, fn.lineno))
    excluded = [const_str(x, "excluded suffix") for x in e.comparators[0].right.elts]
    # the guard of _hy_source_to_code
    stc = top_func(tree, "_hy_source_to_code", REL)
    first = body_without_docstring(stc)[0]
    if not (isinstance(first, ast.If) and ast.unparse(first.test) == "_could_be_hy_src(path)" and not first.orelse):
        raise ShapeChanged("%s:%d: _hy_source_to_code does not start with `if _could_be_hy_src(path):`" % (REL, stc.lineno))
    facts = interpreter_facts()
    if facts["altsep"] is not None or len(facts["sep"]) != 1 or len(facts["extsep"]) != 1:
        raise ShapeChanged("interpreter path conventions are not POSIX-like: %r" % (facts,))
    out = HEADER % ("translator/cmd_suffixes.py", REL + " and the interpreter " + vlib.PY)
    out += "(* importlib.machinery.SOURCE_SUFFIXES of the interpreter before hy is imported *)\n"
    out += "Definition py_source_suffixes : list (list N) := [%s].\n" % "; ".join(coq_text(s) for s in facts["suffixes"])
    out += "(* SOURCE_SUFFIXES.insert(0, _) in hy/importer.py *)\n"
    out += "Definition hy_suffix_inserted : list N := %s.\n" % coq_text(inserted)
    out += "(* the set subtracted in _could_be_hy_src *)\n"
    out += "Definition hy_suffixes_excluded : list (list N) := [%s].\n" % "; ".join(coq_text(s) for s in excluded)
    out += "Definition os_sep : N := %d%%N.\nDefinition os_extsep : N := %d%%N.\n" % (ord(facts["sep"]), ord(facts["extsep"]))
    return {"Gen/CmdSuffixes.v": out}
