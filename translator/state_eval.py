"""T2 for C39: the bodies of hy_eval_user and hy_eval (hy/compiler.py) as terms
of the Python fragment -> coq/Gen/StateEvalTerm.v"""
from translator.state_py import function_term, GEN_HEADER

REL = "hy/compiler.py"


def translate(repo):
    out = GEN_HEADER % ("translator/state_eval.py", REL)
    out += "\n(* hy_eval_user -- advertised as hy.eval *)\nDefinition hy_eval_user_def : fundef :=\n  %s.\n" % \
        function_term(repo, REL, "hy_eval_user", opaque_roots=("inspect",))
    out += "\n(* hy_eval -- the two-step exec / eval *)\nDefinition hy_eval_def : fundef :=\n  %s.\n" % \
        function_term(repo, REL, "hy_eval")
    return {"Gen/StateEvalTerm.v": out}
