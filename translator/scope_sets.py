"""T1 (C13): every construction and every use of a Python set in the compiler's
source files -> coq/Gen/SetUses.v, plus the per-run obligation
coq/Gen/SetUsesOk.v that each use is declared by the model
(coq/Scope/SetDecl.v: order-irrelevant by kind, sorted before iteration, or a
listed iteration whose order the model takes from the oracle `perm`).

A small intraprocedural taint analysis, fail-closed:
  * set-typed expressions: set()/frozenset() calls, set displays, set
    comprehensions, set-returning methods/operators on set-typed values,
    local names assigned a set-typed value in the same function, attributes
    (by attribute name, across all scanned files) assigned a set-typed value;
  * every occurrence of a set-typed expression is classified by its syntactic
    context; anything that is not recognisably order-irrelevant is an
    iteration (UIter) -- including passing the set to a call, returning it,
    storing it in a container or formatting it -- so a set cannot leave the
    analysis unnoticed;
  * the two places whose *shape* the model mirrors are matched exactly
    (visit_OuterVar's Nonlocal names, ScopeGen.finalize's return).
"""
import ast
import os
import re

from lib.vlib import ShapeChanged, coq_str
from translator.common import parse_py, top_func

FILES = ["hy/compiler.py", "hy/scoping.py", "hy/core/result_macros.py", "hy/macros.py"]
# set-typed attributes may also be touched from these; they are scanned for uses too
EXTRA_PY = ["hy/__init__.py", "hy/cmdline.py", "hy/compat.py", "hy/completer.py", "hy/errors.py",
            "hy/hy_inspect.py", "hy/importer.py", "hy/model_patterns.py", "hy/models.py", "hy/repl.py",
            "hy/reader/__init__.py", "hy/reader/exceptions.py", "hy/reader/hy_reader.py",
            "hy/reader/mangling.py", "hy/reader/reader.py"]
HY_FILES = ["hy/core/macros.hy", "hy/core/util.hy", "hy/core/hy_repr.hy", "hy/pyops.hy"]

SET_CTORS = {"set", "frozenset"}
SET_RETURNING = {"intersection", "union", "difference", "symmetric_difference", "copy"}
BOOL_ALG = {"issuperset", "issubset", "isdisjoint"}
MUTATORS = {"add", "update", "difference_update", "intersection_update", "symmetric_difference_update",
            "discard", "remove", "clear"}
SET_BINOPS = (ast.BitOr, ast.BitAnd, ast.Sub, ast.BitXor)
ITER_FUNCS = {"list", "tuple", "iter", "next", "enumerate", "map", "filter", "zip", "reversed", "sum", "min",
              "max", "any", "all", "dict", "str", "repr", "print"}


def _funcs(tree):
    """[(qualname, node, qualname of the enclosing function or None)] for the module and every function"""
    out = [("<module>", tree, None)]

    def rec(node, prefix, owner):
        for ch in ast.iter_child_nodes(node):
            if isinstance(ch, (ast.FunctionDef, ast.AsyncFunctionDef)):
                q = prefix + ch.name
                k = sum(1 for x in out if x[0] == q or x[0].startswith(q + "#"))
                if k:  # property getter/setter pairs share a name
                    q = "%s#%d" % (q, k + 1)
                out.append((q, ch, owner))
                rec(ch, q + ".", q)
            elif isinstance(ch, ast.ClassDef):
                rec(ch, prefix + ch.name + ".", owner)
            else:
                rec(ch, prefix, owner)
    rec(tree, "", "<module>")
    return out


def _own_nodes(fn):
    """(node, parent, field) for the nodes belonging to fn: not the bodies of nested defs (their decorators,
    defaults and annotations do belong to fn); lambdas and class bodies are part of fn"""
    res = []

    def rec(node):
        for field, val in ast.iter_fields(node):
            vals = val if isinstance(val, list) else [val]
            for ch in vals:
                if not isinstance(ch, ast.AST):
                    continue
                res.append((ch, node, field))
                if isinstance(ch, (ast.FunctionDef, ast.AsyncFunctionDef)):
                    for sub in ch.decorator_list + [ch.args] + ([ch.returns] if ch.returns else []):
                        res.append((sub, ch, "header"))
                        rec(sub)
                    continue
                rec(ch)
    rec(fn)
    return res


class Analysis:
    def __init__(self):
        self.set_attrs = set()

    def is_set(self, e, local):
        if isinstance(e, ast.Call):
            f = e.func
            if isinstance(f, ast.Name) and f.id in SET_CTORS:
                return True
            if isinstance(f, ast.Attribute) and f.attr in SET_RETURNING and self.is_set(f.value, local):
                return True
            return False
        if isinstance(e, (ast.Set, ast.SetComp)):
            return True
        if isinstance(e, ast.Name):
            return e.id in local
        if isinstance(e, ast.Attribute):
            return e.attr in self.set_attrs
        if isinstance(e, ast.BinOp) and isinstance(e.op, SET_BINOPS):
            return self.is_set(e.left, local) or self.is_set(e.right, local)
        if isinstance(e, ast.IfExp):
            return self.is_set(e.body, local) or self.is_set(e.orelse, local)
        if isinstance(e, ast.BoolOp):
            return any(self.is_set(v, local) for v in e.values)
        if isinstance(e, ast.NamedExpr):
            return self.is_set(e.value, local)
        return False


def _bindings(an, fn_nodes, local):
    """one round of propagation; returns True if something new became set-typed"""
    changed = False
    for node, parent, field in fn_nodes:
        tv = None
        if isinstance(node, ast.Assign):
            tv = [(t, node.value) for t in node.targets]
        elif isinstance(node, ast.AnnAssign) and node.value is not None:
            tv = [(node.target, node.value)]
        elif isinstance(node, ast.NamedExpr):
            tv = [(node.target, node.value)]
        if not tv:
            continue
        for t, v in tv:
            if not an.is_set(v, local):
                continue
            if isinstance(t, ast.Name):
                if t.id not in local:
                    local.add(t.id)
                    changed = True
            elif isinstance(t, ast.Attribute):
                if t.attr not in an.set_attrs:
                    an.set_attrs.add(t.attr)
                    changed = True
            # other targets (subscripts, tuples) are reported as iterations by classify()
    return changed


def classify(an, e, parent, field, local, parents):
    P = parent
    if isinstance(P, (ast.Assign, ast.AnnAssign, ast.NamedExpr)) and field == "value":
        targets = P.targets if isinstance(P, ast.Assign) else [P.target]
        if all(isinstance(t, (ast.Name, ast.Attribute)) for t in targets):
            return ("UBind", None)
        return ("UIter", "assign-to-" + type(targets[0]).__name__)
    if isinstance(P, (ast.Assign, ast.AnnAssign, ast.NamedExpr)) and field in ("targets", "target"):
        return None  # a store, not a use
    if isinstance(P, ast.AugAssign):
        return ("UAlgebra", "augassign") if field == "value" else ("UMutate", "augassign")
    if isinstance(P, ast.Attribute) and field == "value":
        GP = parents.get(id(P))
        if GP is not None and isinstance(GP[0], ast.Call) and GP[0].func is P:
            m = P.attr
            if m in SET_RETURNING or m in BOOL_ALG:
                return ("UAlgebra", m)
            if m in MUTATORS:
                return ("UMutate", m)
            return ("UIter", "method:" + m)
        return ("UIter", "attr:" + P.attr)
    if isinstance(P, ast.Call) and field in ("args", "keywords"):
        f = P.func
        if isinstance(f, ast.Name):
            if f.id == "sorted" and P.args and P.args[0] is e:
                return ("USorted", None)
            if f.id in SET_CTORS:
                return ("UAlgebra", f.id)
            if f.id == "len":
                return ("ULen", None)
            if f.id == "bool":
                return ("UTruth", None)
            return ("UIter", f.id if f.id in ITER_FUNCS else "call:" + f.id)
        if isinstance(f, ast.Attribute) and an.is_set(f.value, local) and \
                (f.attr in SET_RETURNING or f.attr in BOOL_ALG or f.attr in MUTATORS):
            return ("UAlgebra", "arg:" + f.attr)
        return ("UIter", "call:" + ast.unparse(f))
    if isinstance(P, ast.keyword):
        GP = parents[id(P)][0]
        return ("UIter", "call:%s(%s=)" % (ast.unparse(GP.func), P.arg))
    if isinstance(P, ast.Compare):
        if field == "comparators" and all(isinstance(o, (ast.In, ast.NotIn, ast.Eq, ast.NotEq, ast.LtE, ast.Lt,
                                                         ast.GtE, ast.Gt)) for o in P.ops):
            return ("UMember", None)
        if field == "left" and all(isinstance(o, (ast.Eq, ast.NotEq, ast.LtE, ast.Lt, ast.GtE, ast.Gt))
                                   for o in P.ops):
            return ("UMember", None)
        return ("UIter", "compare")
    if isinstance(P, (ast.For, ast.AsyncFor)) and field == "iter":
        return ("UIter", "for")
    if isinstance(P, ast.comprehension) and field == "iter":
        return ("UIter", "comprehension")
    if isinstance(P, ast.Starred):
        return ("UIter", "star")
    if isinstance(P, (ast.If, ast.While, ast.IfExp, ast.Assert)) and field == "test":
        return ("UTruth", None)
    if isinstance(P, ast.IfExp) and field in ("body", "orelse"):
        return ("UAlgebra", "ifexp-branch")
    if isinstance(P, ast.UnaryOp) and isinstance(P.op, ast.Not):
        return ("UTruth", None)
    if isinstance(P, ast.BoolOp):
        return ("UTruth", None)
    if isinstance(P, ast.BinOp) and isinstance(P.op, SET_BINOPS):
        return ("UAlgebra", "binop")
    if isinstance(P, ast.Return):
        return ("UIter", "return")
    if isinstance(P, ast.Expr):
        return ("UAlgebra", "discarded")
    return ("UIter", "other:" + type(P).__name__)


def analyse(repo):
    an = Analysis()
    per_file = {}
    for rel in FILES:
        tree, _ = parse_py(repo, rel)
        fns = {}
        for q, fn, owner in _funcs(tree):
            if q in fns:
                raise ShapeChanged("%s: two functions named %s" % (rel, q))
            fns[q] = {"node": fn, "owner": owner, "nodes": _own_nodes(fn), "own": set()}
        per_file[rel] = fns

    def visible(fns, q):
        """set-typed names visible in q: its own and those of the enclosing functions (closures)"""
        names = set()
        while q is not None:
            names |= fns[q]["own"]
            q = fns[q]["owner"]
        return names
    for _ in range(50):
        changed = False
        for rel, fns in per_file.items():
            for q, d in fns.items():
                vis = visible(fns, q)
                before = set(vis)
                if _bindings(an, d["nodes"], vis):
                    d["own"] |= vis - before
                    changed = True
        if not changed:
            break
    else:
        raise ShapeChanged("set-typing did not reach a fixpoint")
    uses = []
    for rel in FILES:
        fns = per_file[rel]
        for q, d in fns.items():
            local = visible(fns, q)
            parents = {id(n): (p, f) for n, p, f in d["nodes"]}
            for node, parent, field in d["nodes"]:
                if not isinstance(node, ast.expr) or not an.is_set(node, local):
                    continue
                if isinstance(getattr(node, "ctx", None), (ast.Store, ast.Del)):
                    continue
                c = classify(an, node, parent, field, local, parents)
                if c is None:
                    continue
                uses.append((rel, q, re.sub(r"\s+", " ", ast.unparse(node)), c[0], c[1], node.lineno))
    # nothing else in the package may touch the set-typed attributes
    for rel in EXTRA_PY + HY_FILES:
        src = open(os.path.join(repo, rel), encoding="utf-8").read()
        for a in sorted(an.set_attrs):
            if re.search(r"\.%s\b" % re.escape(a), src):
                raise ShapeChanged("%s mentions set-typed attribute .%s (not analysed)" % (rel, a))
    return an, uses


def _order_of(expr, setname, what):
    """list(S) -> OList; sorted(S) / list(sorted(S)) -> OSorted; else fail closed"""
    def is_call(e, fname):
        return isinstance(e, ast.Call) and isinstance(e.func, ast.Name) and e.func.id == fname \
            and len(e.args) == 1 and not e.keywords

    def is_s(e):
        return isinstance(e, ast.Name) and e.id == setname
    if is_call(expr, "list") and is_s(expr.args[0]):
        return "OList"
    if is_call(expr, "sorted") and is_s(expr.args[0]):
        return "OSorted"
    if is_call(expr, "list") and is_call(expr.args[0], "sorted") and is_s(expr.args[0].args[0]):
        return "OSorted"
    raise ShapeChanged("%s: unrecognised conversion of the set %r to a list: %s (line %d)"
                       % (what, setname, ast.unparse(expr), expr.lineno))


def outervar_order(repo):
    rel = "hy/scoping.py"
    tree, _ = parse_py(repo, rel)
    fn = top_func(tree, "visit_OuterVar", rel, cls="ResolveOuterVars")
    found = []
    for n in ast.walk(fn):
        if isinstance(n, ast.Call) and isinstance(n.func, ast.Attribute) and n.func.attr == "Nonlocal" \
                and isinstance(n.func.value, ast.Name) and n.func.value.id == "asty":
            kw = {k.arg: k.value for k in n.keywords}
            if "names" not in kw:
                raise ShapeChanged("visit_OuterVar: asty.Nonlocal without names= (line %d)" % n.lineno)
            v = kw["names"]
            if isinstance(v, ast.Attribute) and ast.unparse(v) == "node.names":
                continue  # the fall-through statement keeps the declaration order (a list)
            found.append(_order_of(v, "defined", "visit_OuterVar"))
    if len(found) != 1:
        raise ShapeChanged("visit_OuterVar: expected exactly one Nonlocal built from the set `defined`, found %d"
                           % len(found))
    return found[0]


def finalize_order(repo):
    rel = "hy/scoping.py"
    tree, _ = parse_py(repo, rel)
    fn = top_func(tree, "finalize", rel, cls="ScopeGen")
    rets = [n for n in ast.walk(fn) if isinstance(n, ast.Return)]
    if len(rets) != 1 or rets[0].value is None:
        raise ShapeChanged("ScopeGen.finalize: expected a single return with a value")
    return _order_of(rets[0].value, "res", "ScopeGen.finalize")


def render_kind(kind, arg):
    if arg is None:
        return kind
    return "(%s %s)" % (kind, coq_str(arg))


def translate(repo):
    an, uses = analyse(repo)
    if not any(u[0] == "hy/scoping.py" for u in uses):
        raise ShapeChanged("no set use found in hy/scoping.py: the analysis no longer sees the scope classes")
    out = ["(* GENERATED by translator/scope_sets.py from %s -- do not edit; regenerated on every check run *)"
           % ", ".join(FILES),
           "From Coq Require Import List String.", "Import ListNotations.", "Open Scope string_scope.",
           "From HyV Require Import Scope.SetDecl.",
           "(* attributes holding sets: %s *)" % ", ".join(sorted(an.set_attrs)),
           "Definition set_uses : list set_use := ["]
    rows = []
    for rel, q, expr, kind, arg, line in uses:
        rows.append("  SetUse %s %s %s %s" % (coq_str(rel), coq_str(q), coq_str(expr), render_kind(kind, arg)))
    out.append(";\n".join(rows))
    out.append("].")
    out.append("Definition outervar_nonlocal_order : order_kind := %s." % outervar_order(repo))
    out.append("Definition finalize_order : order_kind := %s." % finalize_order(repo))
    ok = ["(* GENERATED by translator/scope_sets.py -- per-run obligation: every use of a set in the compiler is",
          "   declared by the model (Scope/SetDecl.v); a new undeclared iteration over a set breaks this file *)",
          "From Coq Require Import List String Bool.", "From HyV Require Import Scope.SetDecl Gen.SetUses.",
          "Example set_uses_declared : forallb declared set_uses = true.",
          "Proof. vm_compute. reflexivity. Qed."]
    return {"Gen/SetUses.v": "\n".join(out) + "\n", "Gen/SetUsesOk.v": "\n".join(ok) + "\n"}


def listing(repo):
    """for the evidence file: the uses with line numbers"""
    an, uses = analyse(repo)
    return sorted(an.set_attrs), [{"file": r, "func": q, "expr": e, "kind": k + ((":" + a) if a else ""), "line": ln}
                                  for r, q, e, k, a, ln in uses]
