"""T2: hy/core/util.hy:gensym -> coq/Gen/GensymSteps.v (the step program) + coq/Gen/GensymObl.v (obligations).

The body of `gensym` is read with a small s-expression reader of this file (not
Hy's reader), translated form by form into the steps of coq/Gensym/Model.v
(Acquire / Release / Read / Add / Write / Assign / Local, split into
pre / try-body / finally / post), and cross-checked against `dis` of the function
as compiled by the repository's own Hy: the sequence of bytecodes touching
_gensym_lock / _gensym_counter must be the translated sequence and the exception
table must protect exactly the try body with a handler that releases the lock.
Fail-closed: any form or bytecode shape not listed here raises ShapeChanged.
A body that is recognised but not correctly locked is still translated: then the
obligation `gensym_well_locked` fails and the check searches for a schedule."""
import json
import os
import subprocess

from lib.vlib import ShapeChanged, PY, impl_env

REL = "hy/core/util.hy"
LOCK, COUNTER = "_gensym_lock", "_gensym_counter"


# ------------------------------------------------------------------ a small reader
class Node:
    __slots__ = ("kind", "val", "line")

    def __init__(self, kind, val, line):
        self.kind, self.val, self.line = kind, val, line

    def __repr__(self):
        return "%s:%r" % (self.kind, self.val)

    def is_sym(self, name=None):
        return self.kind == "sym" and (name is None or self.val == name)

    def is_list(self, op="("):
        return self.kind == "list" + op


CLOSE = {"(": ")", "[": "]", "{": "}"}
DELIMS = set("()[]{}\";") | set(" \t\r\n")


def read_all(src):
    pos = [0]
    line = [1]
    n = len(src)

    def err(msg):
        raise ShapeChanged("%s:%d: reader: %s" % (REL, line[0], msg))

    def skip():
        while pos[0] < n:
            c = src[pos[0]]
            if c == "\n":
                line[0] += 1
                pos[0] += 1
            elif c in " \t\r,":
                pos[0] += 1
            elif c == ";":
                while pos[0] < n and src[pos[0]] != "\n":
                    pos[0] += 1
            else:
                break

    def read_string():
        # after the opening quote
        out = []
        while True:
            if pos[0] >= n:
                err("unterminated string")
            c = src[pos[0]]
            pos[0] += 1
            if c == "\"":
                return "".join(out)
            if c == "\n":
                line[0] += 1
            if c == "\\":
                d = src[pos[0]]
                pos[0] += 1
                if d == "\n":
                    line[0] += 1
                    continue
                m = {"n": "\n", "t": "\t", "\\": "\\", "\"": "\"", "'": "'", "r": "\r", "0": "\0"}
                if d not in m:
                    err("string escape \\%s not supported by this reader" % d)
                out.append(m[d])
            else:
                out.append(c)

    def read_form():
        skip()
        if pos[0] >= n:
            return None
        ln = line[0]
        c = src[pos[0]]
        if c in CLOSE:
            pos[0] += 1
            items = []
            while True:
                skip()
                if pos[0] >= n:
                    err("unterminated %s" % c)
                if src[pos[0]] == CLOSE[c]:
                    pos[0] += 1
                    return Node("list" + c, items, ln)
                if src[pos[0]] in ")]}":
                    err("mismatched closer")
                items.append(read_form())
        if c in ")]}":
            err("unexpected closer")
        if c == "\"":
            pos[0] += 1
            return Node("str", read_string(), ln)
        if c in "'`~":
            pos[0] += 1
            name = {"'": "quote", "`": "quasiquote", "~": "unquote"}[c]
            if c == "~" and pos[0] < n and src[pos[0]] == "@":
                pos[0] += 1
                name = "unquote-splice"
            return Node("list(", [Node("sym", name, ln), read_form()], ln)
        if c == "#":
            d = src[pos[0] + 1] if pos[0] + 1 < n else ""
            if d == "[":
                # bracket string  #[delim[ ... ]delim]
                j = src.index("[", pos[0] + 2)
                delim = src[pos[0] + 2:j]
                end = "]" + delim + "]"
                k = src.find(end, j + 1)
                if k < 0:
                    err("unterminated bracket string")
                body = src[j + 1:k]
                line[0] += body.count("\n")
                pos[0] = k + len(end)
                if body.startswith("\n"):
                    body = body[1:]
                return Node("str", body, ln)
            if d == "(":
                pos[0] += 1
                x = read_form()
                return Node("list#(", x.val, ln)
            if d == "{":
                pos[0] += 1
                x = read_form()
                return Node("list#{", x.val, ln)
            if d == "_":
                pos[0] += 2
                read_form()
                return read_form()
            if d == "*":
                k = 2 if src[pos[0] + 2:pos[0] + 3] == "*" else 1
                pos[0] += 1 + k
                return Node("list(", [Node("sym", "unpack-mapping" if k == 2 else "unpack-iterable", ln), read_form()], ln)
            if d == "^":
                pos[0] += 2
                a = read_form()
                b = read_form()
                return Node("list(", [Node("sym", "annotate", ln), b, a], ln)
        # an atom
        j = pos[0]
        while j < n and src[j] not in DELIMS:
            j += 1
        tok = src[pos[0]:j]
        if not tok:
            err("cannot read at %r" % src[pos[0]:pos[0] + 10])
        pos[0] = j
        if tok.startswith(":") and len(tok) > 1:
            return Node("kw", tok[1:], ln)
        if tok[0].isdigit() or (tok[0] in "+-" and len(tok) > 1 and tok[1].isdigit()):
            return Node("num", tok, ln)
        return Node("sym", tok, ln)

    forms = []
    while True:
        f = read_form()
        if f is None:
            return forms
        forms.append(f)


def mentions(node, names):
    if node.kind == "sym":
        base = node.val
        return any(base == nm or base.startswith(nm + ".") or base.endswith("." + nm) for nm in names)
    if node.kind.startswith("list"):
        return any(mentions(x, names) for x in node.val)
    return False


# ------------------------------------------------------------------ the translation
def _call(node, head):
    return node.is_list() and node.val and node.val[0].is_sym(head)


def simple_form(f, info):
    """a body form that is not the try -> list of steps"""
    where = "%s:%d" % (REL, f.line)
    if _call(f, ".acquire") and len(f.val) == 2 and f.val[1].is_sym(LOCK):
        return ["Acquire"]
    if _call(f, ".release") and len(f.val) == 2 and f.val[1].is_sym(LOCK):
        return ["Release"]
    if _call(f, "global") and len(f.val) == 2 and f.val[1].is_sym(COUNTER):
        return []
    if _call(f, "+=") and len(f.val) == 3 and f.val[1].is_sym(COUNTER) and f.val[2].kind == "num" and f.val[2].val == "1":
        return ["Read", "Add", "Write"]
    if _call(f, "setv") and len(f.val) == 3 and f.val[1].is_sym(COUNTER):
        v = f.val[2]
        if _call(v, "+") and len(v.val) == 3 and v.val[1].is_sym(COUNTER) and v.val[2].kind == "num" and v.val[2].val == "1":
            return ["Read", "Add", "Write"]
        raise ShapeChanged("%s: unexpected assignment to %s" % (where, COUNTER))
    if _call(f, "setv") and len(f.val) == 3 and f.val[1].is_sym("n") and f.val[2].is_sym(COUNTER):
        return ["Assign"]
    if mentions(f, [LOCK, COUNTER]):
        raise ShapeChanged("%s: unexpected use of %s / %s" % (where, LOCK, COUNTER))
    # formatting: (setv g (hy.mangle (.format "<fmt>" g n)))
    if _call(f, "setv") and len(f.val) == 3 and f.val[1].is_sym("g"):
        v = f.val[2]
        if _call(v, "hy.mangle") and len(v.val) == 2 and _call(v.val[1], ".format") and len(v.val[1].val) == 4 \
                and v.val[1].val[1].kind == "str" and v.val[1].val[2].is_sym("g") and v.val[1].val[3].is_sym("n"):
            info["fmt"] = v.val[1].val[1].val
            return ["Local"]
    # result: (hy.models.Symbol (if (.startswith g "<p>") (+ "<r>" (cut g (len "<p>") None)) g))
    if _call(f, "hy.models.Symbol") and len(f.val) == 2 and _call(f.val[1], "if") and len(f.val[1].val) == 4:
        c, a, b = f.val[1].val[1:]
        if _call(c, ".startswith") and len(c.val) == 3 and c.val[1].is_sym("g") and c.val[2].kind == "str" \
                and b.is_sym("g") and _call(a, "+") and len(a.val) == 3 and a.val[1].kind == "str" \
                and _call(a.val[2], "cut") and len(a.val[2].val) == 4 and a.val[2].val[1].is_sym("g") \
                and _call(a.val[2].val[2], "len") and len(a.val[2].val[2].val) == 2 \
                and a.val[2].val[2].val[1].kind == "str" and a.val[2].val[2].val[1].val == c.val[2].val \
                and a.val[2].val[3].is_sym("None"):
            info["strip"] = c.val[2].val
            info["repl"] = a.val[1].val
            info["returns"] = True
            return ["Local"]
    raise ShapeChanged("%s: unrecognised form in gensym" % where)


def translate_source(repo):
    path = os.path.join(repo, REL)
    with open(path, encoding="utf-8") as fh:
        src = fh.read()
    forms = read_all(src)
    defs = [f for f in forms if _call(f, "defn") and len(f.val) > 2 and f.val[1].is_sym("gensym")]
    if len(defs) != 1:
        raise ShapeChanged("%s: expected exactly one (defn gensym ...)" % REL)
    d = defs[0]
    # module-level state
    counter_init = [f for f in forms if _call(f, "setv") and len(f.val) == 3 and f.val[1].is_sym(COUNTER)]
    lock_init = [f for f in forms if _call(f, "setv") and len(f.val) == 3 and f.val[1].is_sym(LOCK)]
    if len(counter_init) != 1 or counter_init[0].val[2].kind != "num" or counter_init[0].val[2].val != "0":
        raise ShapeChanged("%s: expected one top-level (setv %s 0)" % (REL, COUNTER))
    if len(lock_init) != 1 or not (_call(lock_init[0].val[2], "Lock") and len(lock_init[0].val[2].val) == 1):
        raise ShapeChanged("%s: expected one top-level (setv %s (Lock))" % (REL, LOCK))
    imp = [f for f in forms if _call(f, "import") and len(f.val) == 3 and f.val[1].is_sym("threading")
           and f.val[2].is_list("[") and any(x.is_sym("Lock") for x in f.val[2].val)]
    if len(imp) != 1:
        raise ShapeChanged("%s: expected (import threading [Lock])" % REL)
    for f in forms:
        if f is d or f is counter_init[0] or f is lock_init[0]:
            continue
        if mentions(f, [LOCK, COUNTER]):
            raise ShapeChanged("%s:%d: %s / %s used outside gensym" % (REL, f.line, LOCK, COUNTER))
    # parameters and docstring
    params = d.val[2]
    if not (params.is_list("[") and len(params.val) == 1 and params.val[0].is_list("[") and len(params.val[0].val) == 2
            and params.val[0].val[0].is_sym("g") and params.val[0].val[1].kind == "str"):
        raise ShapeChanged("%s:%d: gensym parameters are not [[g \"\"]]" % (REL, d.line))
    body = d.val[3:]
    if body and body[0].kind == "str":
        body = body[1:]
    info = {}
    pre, tbody, fin, post = [], [], [], []
    seen_try = False
    for f in body:
        if _call(f, "try"):
            if seen_try:
                raise ShapeChanged("%s:%d: a second try in gensym" % (REL, f.line))
            seen_try = True
            inner = f.val[1:]
            if not inner or not _call(inner[-1], "finally"):
                raise ShapeChanged("%s:%d: the try in gensym has no finally clause" % (REL, f.line))
            for x in inner[:-1]:
                if _call(x, "except") or _call(x, "except*") or _call(x, "else") or _call(x, "finally"):
                    raise ShapeChanged("%s:%d: unexpected clause in gensym's try" % (REL, x.line))
                tbody += simple_form(x, info)
            for x in inner[-1].val[1:]:
                fin += simple_form(x, info)
        elif seen_try:
            post += simple_form(f, info)
        else:
            pre += simple_form(f, info)
    if not info.get("returns") or "fmt" not in info:
        raise ShapeChanged("%s: gensym does not format and return as expected" % REL)
    if not seen_try:
        # no try at all: everything up to the formatting is 'pre'
        k = max([i for i, s in enumerate(pre) if s != "Local"], default=-1) + 1
        pre, post = pre[:k], pre[k:] + post
    fmt = info["fmt"]
    parts = fmt.split("{}")
    if len(parts) != 3 or "{" in fmt.replace("{}", "") or "}" in fmt.replace("{}", ""):
        raise ShapeChanged("%s: format string %r is not <text>{}<text>{}<text>" % (REL, fmt))
    return {"pre": pre, "body": tbody, "fin": fin, "post": post, "has_try": seen_try,
            "fmt": parts, "strip": info["strip"], "repl": info["repl"]}


# ------------------------------------------------------------------ the bytecode
DIS_CODE = r"""
import dis, json, sys
import hy
f = hy.gensym
ins = [(i.offset, i.opname, i.argval if isinstance(i.argval, (str, int, type(None))) else repr(i.argval), i.argrepr)
       for i in dis.get_instructions(f)]
try:
    tab = [(e.start, e.end, e.target) for e in dis._parse_exception_table(f.__code__)]
except Exception:
    tab = None
print(json.dumps({"ins": ins, "tab": tab, "file": f.__code__.co_filename, "py": sys.version_info[:2]}))
"""


def bytecode(repo):
    env = impl_env()
    env["PYTHONPATH"] = repo
    p = subprocess.run([PY, "-c", DIS_CODE], capture_output=True, text=True, timeout=120, env=env)
    if p.returncode != 0:
        raise ShapeChanged("cannot compile/disassemble hy.gensym: " + p.stderr[-400:])
    d = json.loads(p.stdout.strip().splitlines()[-1])
    if not os.path.realpath(d["file"]).startswith(os.path.realpath(repo)):
        raise ShapeChanged("hy.gensym was not loaded from %s but from %s" % (repo, d["file"]))
    return d


def bytecode_events(d):
    """[(step, offset)] of the main path, and the handler blocks"""
    ins = d["ins"]
    tab = d["tab"]
    if tab is None:
        raise ShapeChanged("no exception table support in this interpreter (need CPython >= 3.11)")
    first_handler = min([t for _, _, t in tab], default=10 ** 9)
    main = [i for i in ins if i[0] < first_handler]
    ev = []
    k = 0

    def name_of(i):
        return i[2] if isinstance(i[2], str) else None
    while k < len(main):
        off, op, arg, rep = main[k]
        if op in ("LOAD_GLOBAL", "LOAD_NAME") and name_of(main[k]) == LOCK:
            if k + 2 < len(main) and main[k + 1][1] in ("LOAD_ATTR", "LOAD_METHOD") and main[k + 1][2] in ("acquire", "release") \
                    and main[k + 2][1] in ("CALL", "CALL_METHOD", "PRECALL"):
                ev.append(("Acquire" if main[k + 1][2] == "acquire" else "Release", main[k + 2][0]))
                k += 3
                continue
            raise ShapeChanged("bytecode: unexpected use of %s at offset %d" % (LOCK, off))
        if op in ("LOAD_GLOBAL", "LOAD_NAME") and name_of(main[k]) == COUNTER:
            if k + 1 < len(main) and main[k + 1][1] == "STORE_FAST" and main[k + 1][2] == "n":
                ev.append(("Assign", off))
                k += 2
                continue
            if k + 2 < len(main) and main[k + 1][1] == "LOAD_CONST" and main[k + 1][2] == 1 \
                    and main[k + 2][1] == "BINARY_OP" and main[k + 2][3] in ("+", "+="):
                ev.append(("Read", off))
                ev.append(("Add", main[k + 2][0]))
                k += 3
                continue
            raise ShapeChanged("bytecode: unexpected read of %s at offset %d" % (COUNTER, off))
        if op in ("STORE_GLOBAL", "STORE_NAME") and name_of(main[k]) == COUNTER:
            ev.append(("Write", off))
            k += 1
            continue
        if name_of(main[k]) in (LOCK, COUNTER):
            raise ShapeChanged("bytecode: unexpected %s of %s at offset %d" % (op, name_of(main[k]), off))
        k += 1
    handlers = []
    for start, end, target in tab:
        blk = [i for i in ins if i[0] >= target]
        # the handler releases the lock and re-raises
        rel = False
        for j in range(len(blk) - 2):
            if blk[j][1] in ("LOAD_GLOBAL", "LOAD_NAME") and blk[j][2] == LOCK and blk[j + 1][2] == "release" \
                    and blk[j + 2][1] in ("CALL", "CALL_METHOD", "PRECALL"):
                rel = True
                break
            if blk[j][1] == "RERAISE":
                break
        handlers.append((start, end, target, rel))
    return ev, handlers


def cross_check(t, d):
    ev, handlers = bytecode_events(d)
    src_steps = [s for s in t["pre"] + t["body"] + t["fin"] + t["post"] if s != "Local"]
    bc_steps = [s for s, _ in ev]
    if src_steps != bc_steps:
        raise ShapeChanged("source steps %s and bytecode steps %s of gensym disagree" % (src_steps, bc_steps))
    if t["has_try"]:
        npre = len([s for s in t["pre"] if s != "Local"])
        nbody = len([s for s in t["body"] if s != "Local"])
        body_offs = [o for _, o in ev[npre:npre + nbody]]
        pre_offs = [o for _, o in ev[:npre]]
        ok = False
        for start, end, target, rel in handlers:
            if rel and body_offs and all(start <= o < end for o in body_offs) and not any(start <= o < end for o in pre_offs):
                ok = True
        if not ok:
            raise ShapeChanged("bytecode: no exception-table entry protects exactly the try body of gensym "
                               "with a handler that releases the lock (%s)" % (handlers,))
    return ev


# ------------------------------------------------------------------ output
def coq_text(s):
    return "[" + "; ".join(str(ord(c)) for c in s) + "]%N" if s else "(@nil N)"


def coq_steps(l):
    return "[" + "; ".join(l) + "]" if l else "(@nil step)"


def translate(repo):
    t = translate_source(repo)
    d = bytecode(repo)
    ev = cross_check(t, d)
    hdr = "(* GENERATED by translator/gensym_steps.py from %s -- do not edit; regenerated on every check run *)\n" % REL
    steps = hdr + "From HyV Require Import Base.Text Gensym.Model.\n"
    steps += "(* bytecode events (CPython %s): %s *)\n" % (".".join(map(str, d["py"])), " ".join("%s@%d" % e for e in ev))
    steps += "Definition gensym_prog : prog :=\n  {| p_pre := %s;\n     p_body := %s;\n     p_fin := %s;\n     p_post := %s |}.\n" % (
        coq_steps(t["pre"]), coq_steps(t["body"]), coq_steps(t["fin"]), coq_steps(t["post"]))
    steps += "Definition gen_fmt_pre : text := %s.\nDefinition gen_fmt_mid : text := %s.\nDefinition gen_fmt_post : text := %s.\n" % tuple(
        coq_text(x) for x in t["fmt"])
    steps += "Definition gen_strip_prefix : text := %s.\nDefinition gen_strip_repl : text := %s.\n" % (
        coq_text(t["strip"]), coq_text(t["repl"]))
    obl = hdr + "From HyV Require Import Base.Text Gensym.Model Gen.GensymSteps.\n"
    obl += "Example gensym_well_locked : well_locked gensym_prog = true.\nProof. vm_compute. reflexivity. Qed.\n"
    obl += ("Example gensym_constants :\n  (gen_fmt_pre, gen_fmt_mid, gen_fmt_post, gen_strip_prefix, gen_strip_repl)\n"
            "  = (fmt_pre, fmt_mid, fmt_post, strip_prefix, strip_repl).\nProof. vm_compute. reflexivity. Qed.\n")
    return {"Gen/GensymSteps.v": steps, "Gen/GensymObl.v": obl}
