"""T1 for C10: the argument grammars of the @pattern_macro decorators of
hy/core/result_macros.py whose pattern is written in the closed combinator
sub-language -> coq/Gen/Patterns.v (terms of coq/Valid/Comb.v).

Accepted pattern expressions (anything else: the decorator is listed as
`untranslated`, and if it is one of the operator macros the translator fails
closed, because the C10 theorems are stated for those):

    FORM SYM KEYWORD STR LITERAL finished
    a + b, a | b
    many(p) oneplus(p) maybe(p) times(lo, hi, p)  (hi an int or Inf)
    sym("x") keepsym("x")  (":x" = keyword)
    brackets(p, ...) pexpr(p, ...) braces(p, ...) in_tuple(p, ...)   (no name= keyword other than a string)
    dolike("x") notpexpr("x", ...) unpack("iterable"|"mapping"|"either"[, Symbol])

Head lists: a string, a list of strings, "a b c".split(), a (version, name)
tuple, and the two comprehensions over a_ops (evaluated from the m_ops literal).
"""
import ast

from translator.common import *  # noqa

REL = "hy/core/result_macros.py"
MP = "hy/model_patterns.py"

ATOMS = {"FORM": "(Some_ PAny)", "SYM": "(Some_ PSym)", "KEYWORD": "(Some_ PKw)", "STR": "(Some_ PStr)",
         "LITERAL": "(Some_ PLiteral)", "finished": "Finished"}
GROUPS = {"brackets": "GList", "pexpr": "GExpr", "braces": "GDict", "in_tuple": "GTuple"}

# heads for which the translation must succeed (the flat operator macros and the other closed grammars the
# theorems and the correspondence are stated for)
REQUIRED = ["+", "-", "*", "/", "//", "%", "**", "<<", ">>", "|", "^", "&", "@", "=", "!=", "<", "<=", ">", ">=", "is",
            "is-not", "in", "not-in", "not", "bnot", "and", "or", "+=", "%=", "do", "if", "get", "cut", "chainc",
            "unpack-iterable", "quote", "quasiquote"]


class Untranslatable(Exception):
    pass


def _check_atoms(repo):
    """FORM/SYM/... in model_patterns.py are what ATOMS says"""
    tree, _ = parse_py(repo, MP)
    want = {
        "FORM": "some(lambda _: True).named('form')",
        "SYM": "some(lambda x: isinstance(x, Symbol)).named('Symbol')",
        "KEYWORD": "some(lambda x: isinstance(x, Keyword)).named('Keyword')",
        "STR": "some(lambda x: isinstance(x, String)).named('String')",
        "LITERAL": "some(lambda x: isinstance(x, (String, Integer, Float, Complex, Bytes))).named('literal')",
    }
    for k, v in want.items():
        got = ast.unparse(top_assign(tree, k, MP))
        if got != v:
            raise ShapeChanged("%s: %s is `%s`, expected `%s`" % (MP, k, got, v))
    # the helper parsers the model gives a fixed meaning to: compare their source with the text the model was written from
    expected_src = {
        "sym": 'return _sym(wanted, skip)',
        "keepsym": 'return _sym(wanted)',
        "dolike": "return pexpr(sym(head), many(FORM)) >> (lambda r: r[0])",
    }
    for fn, ret in expected_src.items():
        f = top_func(tree, fn, MP)
        b = body_without_docstring(f)
        if len(b) != 1 or ast.unparse(b[0]) != ret:
            raise ShapeChanged("%s: body of %s changed: %s" % (MP, fn, ast.unparse(b[-1])[:100]))
    # _sym, whole, _grouped, notpexpr, unpack, times: modelled by hand in Valid/Comb.v and compared behaviourally on
    # every run (props/c10.py: real pattern.parse vs the model); here only their presence is required
    for fn in ("_sym", "whole", "_grouped", "notpexpr", "unpack", "times"):
        top_func(tree, fn, MP)
    return tree


def conv(e):
    """pattern expression -> Coq term of type pat"""
    if isinstance(e, ast.Name):
        if e.id in ATOMS:
            return ATOMS[e.id]
        raise Untranslatable("name %s" % e.id)
    if isinstance(e, ast.BinOp) and isinstance(e.op, ast.Add):
        return "(Seq %s %s)" % (conv(e.left), conv(e.right))
    if isinstance(e, ast.BinOp) and isinstance(e.op, ast.BitOr):
        return "(Alt %s %s)" % (conv(e.left), conv(e.right))
    if isinstance(e, ast.Call) and isinstance(e.func, ast.Name):
        f = e.func.id
        strs = [a.value for a in e.args if isinstance(a, ast.Constant) and isinstance(a.value, str)]
        if f in ("many", "oneplus", "maybe") and len(e.args) == 1 and not e.keywords:
            return "(%s %s)" % ({"many": "Many", "oneplus": "Oneplus", "maybe": "Maybe"}[f], conv(e.args[0]))
        if f == "times" and len(e.args) == 3 and not e.keywords:
            lo, hi = e.args[0], e.args[1]
            if not (isinstance(lo, ast.Constant) and type(lo.value) is int and lo.value >= 0):
                raise Untranslatable("times lower bound")
            if isinstance(hi, ast.Name) and hi.id == "Inf":
                his = "None"
            elif isinstance(hi, ast.Constant) and type(hi.value) is int and hi.value >= 0:
                his = "(Some %d%%nat)" % hi.value
            else:
                raise Untranslatable("times upper bound")
            return "(Times %d %s %s)" % (lo.value, his, conv(e.args[2]))
        if f in ("sym", "keepsym") and len(e.args) == 1 and len(strs) == 1 and not e.keywords:
            s = strs[0]
            inner = "(Some_ (PKwEq %s))" % coq_text(s[1:]) if s.startswith(":") else "(Some_ (PSymEq %s))" % coq_text(s)
            return "(Skip %s)" % inner if f == "sym" else inner
        if f in GROUPS:
            for k in e.keywords:
                if k.arg != "name" or not (isinstance(k.value, ast.Constant) and isinstance(k.value.value, str)):
                    raise Untranslatable("group keyword")
            return "(Group %s [%s])" % (GROUPS[f], "; ".join(conv(a) for a in e.args))
        if f == "dolike" and len(e.args) == 1 and len(strs) == 1 and not e.keywords:
            return "(Dolike %s)" % coq_text(strs[0])
        if f == "notpexpr" and len(strs) == len(e.args) and not e.keywords:
            return "(Some_ (PNotExprHead [%s]))" % "; ".join(coq_text(s) for s in strs)
        if f == "unpack" and 1 <= len(e.args) <= 2 and strs and not e.keywords:
            kind = strs[0]
            kinds = ["iterable", "mapping"] if kind == "either" else [kind]
            if kind not in ("iterable", "mapping", "either"):
                raise Untranslatable("unpack kind")
            one = "false"
            if len(e.args) == 2:
                if not (isinstance(e.args[1], ast.Name) and e.args[1].id == "Symbol"):
                    raise Untranslatable("unpack content type")
                one = "true"
            return "(Some_ (PUnpack [%s] %s))" % ("; ".join(coq_text(k) for k in kinds), one)
        raise Untranslatable("call %s" % f)
    raise Untranslatable(type(e).__name__)


def _m_ops(tree):
    d = top_assign(tree, "m_ops", REL)
    if not isinstance(d, ast.Dict):
        raise ShapeChanged("%s: m_ops is not a dict display" % REL)
    out = {}
    for k, v in zip(d.keys, d.values):
        if not (isinstance(k, ast.Constant) and isinstance(k.value, str) and isinstance(v, ast.Tuple) and len(v.elts) == 2
                and isinstance(v.elts[0], ast.Attribute) and isinstance(v.elts[0].value, ast.Name) and v.elts[0].value.id == "ast"
                and isinstance(v.elts[1], ast.Constant) and (v.elts[1].value is None or isinstance(v.elts[1].value, str))):
            raise ShapeChanged("%s: m_ops entry at line %d is not \"op\": (ast.X, \"agg\" or None)" % (REL, k.lineno))
        out[k.value] = (v.elts[0].attr, v.elts[1].value)
    a = ast.unparse(top_assign(tree, "a_ops", REL))
    if a != "{x + '=': v for x, v in m_ops.items()}":
        raise ShapeChanged("%s: a_ops is `%s`" % (REL, a))
    return out


def heads_of(e, m_ops):
    if isinstance(e, ast.Constant) and isinstance(e.value, str):
        return [e.value]
    if isinstance(e, ast.List) and all(isinstance(x, ast.Constant) and isinstance(x.value, str) for x in e.elts):
        return [x.value for x in e.elts]
    if isinstance(e, ast.Tuple) and len(e.elts) == 2 and isinstance(e.elts[0], ast.Tuple):
        return heads_of(e.elts[1], m_ops)
    src = ast.unparse(e)
    if isinstance(e, ast.Call) and isinstance(e.func, ast.Attribute) and e.func.attr == "split" and not e.args \
            and isinstance(e.func.value, ast.Constant) and isinstance(e.func.value.value, str):
        return e.func.value.value.split()
    if src == "[x for x, (_, v) in a_ops.items() if v is not None]":
        return [k + "=" for k, (_, agg) in m_ops.items() if agg is not None]
    if src == "[x for x, (_, v) in a_ops.items() if v is None]":
        return [k + "=" for k, (_, agg) in m_ops.items() if agg is None]
    raise ShapeChanged("%s line %d: head list of a pattern_macro is `%s`" % (REL, e.lineno, src[:80]))


def decorators(repo):
    """-> list of dicts: heads, pattern terms (or None), shadow, handler name, line"""
    _check_atoms(repo)
    tree, _ = parse_py(repo, REL)
    m_ops = _m_ops(tree)
    out = []
    for node in tree.body:
        if not isinstance(node, ast.FunctionDef):
            continue
        for d in node.decorator_list:
            if not (isinstance(d, ast.Call) and isinstance(d.func, ast.Name) and d.func.id == "pattern_macro"):
                continue
            if len(d.args) != 2 or any(k.arg != "shadow" for k in d.keywords):
                raise ShapeChanged("%s line %d: pattern_macro call shape" % (REL, d.lineno))
            heads = heads_of(d.args[0], m_ops)
            pat = d.args[1]
            if not isinstance(pat, ast.List):
                raise ShapeChanged("%s line %d: pattern is not a list display" % (REL, d.lineno))
            try:
                terms = [conv(x) for x in pat.elts]
                why = None
            except Untranslatable as e:
                terms, why = None, str(e)
            shadow = any(isinstance(k.value, ast.Constant) and k.value.value is True for k in d.keywords)
            out.append({"heads": heads, "terms": terms, "why": why, "shadow": shadow, "handler": node.name, "line": d.lineno,
                        "src": ast.unparse(pat)})
    translated = {h for x in out if x["terms"] is not None for h in x["heads"]}
    for h in REQUIRED:
        if h not in translated:
            raise ShapeChanged("%s: the grammar of `%s` is no longer in the closed combinator sub-language" % (REL, h))
    return out, m_ops


def _dict_in(fn, name, rel):
    for n in ast.walk(fn):
        if isinstance(n, ast.Assign) and len(n.targets) == 1 and ast.unparse(n.targets[0]) == name and isinstance(n.value, ast.Dict):
            return n.value
    raise ShapeChanged("%s: no dict literal assigned to %s in %s" % (rel, name, getattr(fn, "name", "module")))


def _ast_attr(e, what):
    if isinstance(e, ast.Attribute) and isinstance(e.value, ast.Name) and e.value.id == "ast":
        return e.attr
    raise ShapeChanged("%s: expected ast.<Class>, got %s" % (what, ast.unparse(e)))


def op_tables(repo):
    tree, _ = parse_py(repo, REL)
    out = {}
    un = _dict_in(top_func(tree, "compile_unary_operator", REL), "ops", REL)
    out["unary"] = [(const_str(k, "unary op"), _ast_attr(v, "unary op")) for k, v in zip(un.keys, un.values)]
    bo = _dict_in(top_func(tree, "compile_logical_or_and_and_operator", REL), "ops", REL)
    rows = []
    for k, v in zip(bo.keys, bo.values):
        if not (isinstance(v, ast.Tuple) and len(v.elts) == 2 and isinstance(v.elts[1], ast.Constant) and v.elts[1].value in (True, None)):
            raise ShapeChanged("%s: and/or table entry is not (ast.X, True|None)" % REL)
        rows.append((const_str(k, "boolop"), _ast_attr(v.elts[0], "boolop"), "CTrue" if v.elts[1].value is True else "CNone"))
    out["bool"] = rows
    co = top_assign(tree, "c_ops", REL)   # first assignment: the literal
    firsts = [n for n in tree.body if isinstance(n, ast.Assign) and ast.unparse(n.targets[0]) == "c_ops"]
    if len(firsts) != 2 or not isinstance(firsts[0].value, ast.Dict) or ast.unparse(firsts[1].value) != "{mangle(k): v for k, v in c_ops.items()}":
        raise ShapeChanged("%s: c_ops is not a dict literal followed by the mangling comprehension" % REL)
    out["compare"] = [(const_str(k, "c_op"), _ast_attr(v, "c_op")) for k, v in zip(firsts[0].value.keys, firsts[0].value.values)]
    mf = top_func(tree, "compile_maths_expression", REL)
    ident = [n for n in ast.walk(mf) if isinstance(n, ast.Dict) and n.keys and all(isinstance(v, ast.Constant) and type(v.value) is int for v in n.values)]
    if len(ident) != 1:
        raise ShapeChanged("%s: identity-element table of compile_maths_expression not found" % REL)
    out["identity"] = [(const_str(k, "identity"), v.value) for k, v in zip(ident[0].keys, ident[0].values)]
    un2 = [n for n in ast.walk(mf) if isinstance(n, ast.Dict) and n.keys and all(isinstance(v, ast.Attribute) for v in n.values)]
    if len(un2) != 1:
        raise ShapeChanged("%s: unary plus/minus table of compile_maths_expression not found" % REL)
    out["unary_maths"] = [(const_str(k, "unary maths"), _ast_attr(v, "unary maths")) for k, v in zip(un2[0].keys, un2[0].values)]
    # macros written in Hy (hy/core/macros.hy): names only
    import os
    import re
    with open(os.path.join(repo, "hy/core/macros.hy"), encoding="utf-8") as f:
        names = re.findall(r"^\(defmacro\s+([^\s\[\]()]+)", f.read(), re.M)
    if not names:
        raise ShapeChanged("hy/core/macros.hy: no defmacro found")
    out["hy_macros"] = names
    return out


def translate(repo):
    decs, m_ops = decorators(repo)
    out = "(* GENERATED by translator/valid_patterns.py from %s -- do not edit; regenerated on every check run *)\n" % REL
    out += "From Coq Require Import ZArith.\nFrom HyV Require Import Base.Text Valid.Comb.\n\n"
    out += "(* (heads, pattern list, shadow) of every @pattern_macro decorator written in the closed combinator sub-language *)\n"
    out += "Definition grammars : list (list text * list pat * bool) := [\n"
    rows = []
    for d in decs:
        if d["terms"] is None:
            continue
        rows.append("  (* line %d %s: %s *)\n  ([%s], [%s], %s)" % (
            d["line"], d["handler"], d["src"].replace("*)", "* )"), "; ".join(coq_text(h) for h in d["heads"]),
            "; ".join(d["terms"]), "true" if d["shadow"] else "false"))
    out += ";\n".join(rows) + "\n].\n\n"
    out += "(* heads whose decorator uses tag/lambda/helper parsers: not translated *)\n"
    out += "Definition untranslated_heads : list text := [%s].\n\n" % "; ".join(
        coq_text(h) for d in decs if d["terms"] is None for h in d["heads"])
    out += "(* m_ops: operator -> has an aggregation operator for augmented assignment with 3+ arguments *)\n"
    out += "Definition m_ops_agg : list (text * bool) := [%s].\n" % "; ".join(
        "(%s, %s)" % (coq_text(k), "true" if agg is not None else "false") for k, (_, agg) in m_ops.items())
    t = op_tables(repo)
    pair = lambda k, v: "(%s, %s)" % (coq_text(k), coq_text(v))  # noqa
    out += "Definition m_ops_class : list (text * text) := [%s].\n" % "; ".join(pair(k, c) for k, (c, _) in m_ops.items())
    out += "Definition c_ops_class : list (text * text) := [%s].\n" % "; ".join(pair(k, c) for k, c in t["compare"])
    out += "Definition unary_ops_class : list (text * text) := [%s].\n" % "; ".join(pair(k, c) for k, c in t["unary"])
    out += "Definition unary_maths_class : list (text * text) := [%s].\n" % "; ".join(pair(k, c) for k, c in t["unary_maths"])
    out += "Definition bool_ops_class : list (text * text * bool) := [%s].\n" % "; ".join(
        "(%s, %s, %s)" % (coq_text(k), coq_text(c), "true" if d == "CTrue" else "false") for k, c, d in t["bool"])
    out += "Definition identity_elements : list (text * Z) := [%s].\n" % "; ".join("(%s, %d%%Z)" % (coq_text(k), v) for k, v in t["identity"])
    out += "Definition hy_macro_names : list text := [%s].\n" % "; ".join(coq_text(n) for n in t["hy_macros"])
    out += "Definition all_pattern_heads : list text := [%s].\n" % "; ".join(coq_text(h) for d in decs for h in d["heads"])
    return {"Gen/Patterns.v": out}
