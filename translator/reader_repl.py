"""T2-style check for C19: hy/repl.py:HyCommandCompiler.__call__ turns PrematureEndOfInput -- and only
that -- into "no code yet" (None), which makes code.InteractiveConsole ask for more input.
-> coq/Gen/ReplTables.v"""
import ast

from translator.common import *  # noqa

REL = "hy/repl.py"
WANT = ("[Try(body=[Return(value=Call(func=Attribute(value=Call(func=Name(id='super', ctx=Load()), args=[], keywords=[]), "
        "attr='__call__', ctx=Load()), args=[Starred(value=Name(id='args', ctx=Load()), ctx=Load())], "
        "keywords=[keyword(value=Name(id='kwargs', ctx=Load()))]))], handlers=[ExceptHandler(type=Name(id='%s', ctx=Load()), "
        "body=[If(test=UnaryOp(op=Not(), operand=Attribute(value=Name(id='self', ctx=Load()), attr='allow_incomplete', ctx=Load())), "
        "body=[Raise()], orelse=[])])], orelse=[], finalbody=[])]")


def translate(repo):
    tree, _ = parse_py(repo, REL)
    fn = top_func(tree, "__call__", REL, cls="HyCommandCompiler")
    body = body_without_docstring(fn)
    try:
        cls = body[0].handlers[0].type.id
    except Exception:
        raise ShapeChanged("%s:%d: HyCommandCompiler.__call__ changed shape" % (REL, fn.lineno))
    # comments inside the handler are not part of the AST
    if "[" + ", ".join(ast.dump(x) for x in body) + "]" != WANT % cls:
        raise ShapeChanged("%s:%d: HyCommandCompiler.__call__ changed shape" % (REL, fn.lineno))
    init = top_func(tree, "__init__", REL, cls="HyCommandCompiler")
    dflt = [d for a, d in zip(init.args.kwonlyargs, init.args.kw_defaults) if a.arg == "allow_incomplete"]
    if not (len(dflt) == 1 and isinstance(dflt[0], ast.Constant) and dflt[0].value is True):
        raise ShapeChanged("%s:%d: allow_incomplete no longer defaults to True" % (REL, init.lineno))
    out = HEADER % ("translator/reader_repl.py", REL)
    out += "(* the exception class whose instances make HyCommandCompiler.__call__ return None (= ask for more input) *)\n"
    out += "Definition repl_incomplete_class : list N := %s.\n" % coq_text(cls)
    return {"Gen/ReplTables.v": out}
