"""A small s-expression reader for the .hy sources the Ops translators read
(hy/pyops.hy).  Deliberately NOT Hy's reader (which is under test elsewhere).

Tree: ("sym", s) ("kw", s) ("int", n) ("str", s, prefix) ("bstr", s)
      ("expr", [..]) ("list", [..]) ("tuple", [..]) ("dict", [..])
      ("quote"|"quasi"|"unquote"|"splice"|"star"|"starstar", x)
Anything it does not understand raises ShapeChanged."""
from lib.vlib import ShapeChanged

DELIMS = set("()[]{}\"; \t\r\n")
OPEN = {"(": ("expr", ")"), "[": ("list", "]"), "{": ("dict", "}")}


class Reader:
    def __init__(self, text, name):
        self.t, self.i, self.name = text, 0, name

    def err(self, msg):
        line = self.t.count("\n", 0, self.i) + 1
        raise ShapeChanged("%s:%d: %s" % (self.name, line, msg))

    def ws(self):
        t = self.t
        while self.i < len(t):
            c = t[self.i]
            if c in " \t\r\n,":
                if c == ",":
                    self.err("unexpected comma")
                self.i += 1
            elif c == ";":
                while self.i < len(t) and t[self.i] != "\n":
                    self.i += 1
            else:
                break

    def string(self, prefix):
        t = self.t
        assert t[self.i] == '"'
        self.i += 1
        out = []
        while True:
            if self.i >= len(t):
                self.err("unterminated string")
            c = t[self.i]
            if c == "\\":
                if self.i + 1 >= len(t):
                    self.err("unterminated string")
                out.append(t[self.i:self.i + 2])
                self.i += 2
            elif c == '"':
                self.i += 1
                break
            else:
                out.append(c)
                self.i += 1
        return ("str", "".join(out), prefix)

    def seq(self, kind, close):
        items = []
        while True:
            self.ws()
            if self.i >= len(self.t):
                self.err("unterminated " + kind)
            if self.t[self.i] == close:
                self.i += 1
                return (kind, items)
            items.append(self.form())

    def form(self):
        self.ws()
        t = self.t
        if self.i >= len(t):
            self.err("unexpected end of input")
        c = t[self.i]
        if c in OPEN:
            kind, close = OPEN[c]
            self.i += 1
            return self.seq(kind, close)
        if c in ")]}":
            self.err("unbalanced " + c)
        if c == '"':
            return self.string("")
        if c == "'":
            self.i += 1
            return ("quote", self.form())
        if c == "`":
            self.i += 1
            return ("quasi", self.form())
        if c == "~":
            self.i += 1
            if t[self.i:self.i + 1] == "@":
                self.i += 1
                return ("splice", self.form())
            return ("unquote", self.form())
        if c == "#":
            if t.startswith("#**", self.i):
                self.i += 3
                return ("starstar", self.form())
            if t.startswith("#*", self.i):
                self.i += 2
                return ("star", self.form())
            if t.startswith("#(", self.i):
                self.i += 2
                return self.seq("tuple", ")")
            if t.startswith("#[", self.i):
                j = t.find("[", self.i + 2)
                if j < 0:
                    self.err("bad bracket string")
                delim = t[self.i + 2:j]
                end = t.find("]" + delim + "]", j + 1)
                if end < 0:
                    self.err("unterminated bracket string")
                s = t[j + 1:end]
                self.i = end + len(delim) + 2
                return ("bstr", s)
            self.err("unsupported # syntax")
        j = self.i
        while j < len(t) and t[j] not in DELIMS:
            j += 1
        tok = t[self.i:j]
        if not tok:
            self.err("empty token")
        if j < len(t) and t[j] == '"' and tok in ("f", "r", "b", "rb", "br"):
            self.i = j
            return self.string(tok)
        self.i = j
        if tok.startswith(":") and len(tok) > 1:
            return ("kw", tok[1:])
        try:
            return ("int", int(tok))
        except ValueError:
            return ("sym", tok)

    def all(self):
        out = []
        while True:
            self.ws()
            if self.i >= len(self.t):
                return out
            out.append(self.form())


def read_all(text, name="<hy>"):
    return Reader(text, name).all()


def show(x):
    """canonical one-line rendering (used for exact-shape comparison)"""
    k = x[0]
    if k == "sym":
        return x[1]
    if k == "kw":
        return ":" + x[1]
    if k == "int":
        return str(x[1])
    if k == "str":
        return x[2] + '"' + x[1] + '"'
    if k == "bstr":
        return "#[[" + x[1] + "]]"
    if k in ("expr", "list", "tuple", "dict"):
        o, c = {"expr": "()", "list": "[]", "tuple": ("#(", ")"), "dict": "{}"}[k]
        return o + " ".join(show(y) for y in x[1]) + c
    pre = {"quote": "'", "quasi": "`", "unquote": "~", "splice": "~@", "star": "#* ", "starstar": "#** "}[k]
    return pre + show(x[1])


def is_sym(x, name=None):
    return x[0] == "sym" and (name is None or x[1] == name)


def head(x):
    if x[0] == "expr" and x[1] and x[1][0][0] == "sym":
        return x[1][0][1]
    return None
