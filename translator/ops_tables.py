"""T1/T2 for C03: the operator tables, decorator arities and handler-body
constants of hy/core/result_macros.py, the shadow fallback of
hy/macros.py:pattern_macro, and the defop definitions of hy/pyops.hy (their
documentation rows, lambda lists and bodies as terms of Ops/OpSyntax.v:hx)
-> coq/Gen/OpTables.v.  Fail-closed: every function body is matched against
a template with holes; anything else raises ShapeChanged."""
import ast
import os

from lib.vlib import ShapeChanged
from translator.common import parse_py, top_func
from translator import ops_sexpr as sx

RM = "hy/core/result_macros.py"
MC = "hy/macros.py"
PYOPS = "hy/pyops.hy"

MOPS = ["Add", "Sub", "Mult", "Div", "FloorDiv", "Mod", "Pow", "LShift", "RShift", "BitOr", "BitXor", "BitAnd", "MatMult"]
UOPS = ["UAdd", "USub", "Invert", "Not"]
COPS = ["Eq", "NotEq", "Lt", "LtE", "Gt", "GtE", "Is", "IsNot", "In", "NotIn"]

# functions of CPython's operator module -> the operator they apply (trusted; validated by the value-level runs)
OPERATOR_FN = {"add": "Add", "sub": "Sub", "mul": "Mult", "truediv": "Div", "floordiv": "FloorDiv", "mod": "Mod",
               "pow": "Pow", "lshift": "LShift", "rshift": "RShift", "or_": "BitOr", "xor": "BitXor", "and_": "BitAnd",
               "matmul": "MatMult", "lt": "Lt", "le": "LtE", "eq": "Eq", "ne": "NotEq", "ge": "GtE", "gt": "Gt",
               "is_": "Is", "is-not": "IsNot", "is_not": "IsNot"}


def q(s):
    return '"' + s.replace('"', '""') + '"'


def clist(items):
    return "[" + "; ".join(items) + "]"


def copt(x, f=lambda y: y):
    return "None" if x is None else "(Some %s)" % f(x)


# ---------------------------------------------------------------- template matching

def match_template(t, a, holes, where):
    """Walk template node t and actual node a in lockstep; Name nodes of the
    template called __X__ capture the actual subtree."""
    if isinstance(t, ast.Name) and t.id.startswith("__") and t.id.endswith("__"):
        if t.id in holes and ast.dump(holes[t.id]) != ast.dump(a):
            raise ShapeChanged("%s: hole %s bound twice to different code" % (where, t.id))
        holes[t.id] = a
        return
    if type(t) is not type(a):
        raise ShapeChanged("%s: line %s: expected %s, found %s" % (
            where, getattr(a, "lineno", "?"), type(t).__name__, type(a).__name__))
    for f in t._fields:
        if f in ("ctx", "type_comment", "kind"):
            continue
        tv, av = getattr(t, f, None), getattr(a, f, None)
        if isinstance(tv, list):
            if not isinstance(av, list) or len(tv) != len(av):
                raise ShapeChanged("%s: line %s: field %s of %s has %s entries, expected %d" % (
                    where, getattr(a, "lineno", "?"), f, type(a).__name__,
                    len(av) if isinstance(av, list) else "no", len(tv)))
            for x, y in zip(tv, av):
                if isinstance(x, ast.AST):
                    match_template(x, y, holes, where)
                elif x != y:
                    raise ShapeChanged("%s: field %s differs" % (where, f))
        elif isinstance(tv, ast.AST):
            if not isinstance(av, ast.AST):
                raise ShapeChanged("%s: line %s: field %s missing" % (where, getattr(a, "lineno", "?"), f))
            match_template(tv, av, holes, where)
        elif tv != av:
            raise ShapeChanged("%s: line %s: %s.%s is %r, expected %r" % (
                where, getattr(a, "lineno", "?"), type(a).__name__, f, av, tv))


def match_function(fn, template_src, where):
    t = ast.parse(template_src).body[0]
    holes = {}
    save_t, save_a = t.decorator_list, fn.decorator_list
    t.decorator_list, fn.decorator_list = [], []
    try:
        match_template(t, fn, holes, where)
    finally:
        t.decorator_list, fn.decorator_list = save_t, save_a
    return holes


T_UNARY = '''
def compile_unary_operator(compiler, expr, root, arg):
    ops = __OPS__
    operand = compiler.compile(arg)
    return operand + asty.UnaryOp(expr, op=ops[root](), operand=operand.force_expr)
'''

T_GET_C_OP = '''
def get_c_op(compiler, sym):
    k = mangle(sym)
    if k not in c_ops:
        compiler._syntax_error(sym, "Illegal comparison operator: " + str(sym))
    return c_ops[k]()
'''

T_COMPARE = '''
def compile_compare_op_expression(compiler, expr, root, args):
    if len(args) == 1:
        return compiler.compile(args[0]) + asty.Constant(expr, value=__CMP1__)

    ops = [get_c_op(compiler, root) for _ in args[1:]]
    exprs, ret, _ = compiler._compile_collect(args)
    return ret + asty.Compare(expr, left=exprs[0], ops=ops, comparators=exprs[1:])
'''

T_CHAINC = '''
def compile_chained_comparison(compiler, expr, root, arg1, args):
    ret = compiler.compile(arg1)
    arg1 = ret.force_expr

    ops = [get_c_op(compiler, op) for op, _ in args]
    args, ret2, _ = compiler._compile_collect([x for _, x in args])

    return ret + ret2 + asty.Compare(expr, left=arg1, ops=ops, comparators=args)
'''

T_MATHS = '''
def compile_maths_expression(compiler, expr, root, args):
    if len(args) == 0:
        return asty.Constant(expr, value=(__IDENT__[root]))

    if len(args) == 1:
        if root == __RECIP__:
            args = [Integer(__ONE__).replace(expr), args[0]]
        elif root in __UNAMES__:
            op = __UOPS__[root]()
            ret = compiler.compile(args[0])
            return ret + asty.UnaryOp(expr, op=op, operand=ret.force_expr)
        else:
            return compiler.compile(args[0])

    op = m_ops[root][0]
    right_associative = root == __RASSOC__
    ret = compiler.compile(args[-1 if right_associative else 0])
    for child in args[-2 if right_associative else 1 :: -1 if right_associative else 1]:
        left_expr = ret.force_expr
        ret += compiler.compile(child)
        right_expr = ret.force_expr
        if right_associative:
            left_expr, right_expr = right_expr, left_expr
        ret += asty.BinOp(expr, left=left_expr, op=op(), right=right_expr)

    return ret
'''

T_AUG = '''
def compile_augassign_expression(compiler, expr, root, target, values):
    if len(values) > 1:
        return compiler.compile(
            mkexpr(root, [target], mkexpr(a_ops[root][1], rest=values)).replace(expr)
        )

    op = a_ops[root][0]
    target = compiler._storeize(target, compiler.compile(target))
    ret = compiler.compile(values[0])
    return ret + asty.AugAssign(expr, target=target, value=ret.force_expr, op=op())
'''

T_PATTERN_MACRO = '''
def pattern_macro(names, pattern, shadow=None):
    pattern = whole(pattern)
    py_version_required = None
    if isinstance(names, tuple):
        py_version_required, names = names

    def dec(fn):
        def wrapper_maker(name):
            def wrapper(_hy_compiler, *args):

                if shadow and any(is_unpack("iterable", x) for x in args):
                    return Expression(
                        [Expression(map(Symbol, __SHADOWPATH__)), *args]
                    ).replace(_hy_compiler.this)

                expr = _hy_compiler.this

                if py_version_required and sys.version_info < py_version_required:
                    raise _hy_compiler._syntax_error(
                        expr,
                        "`{}` requires Python {} or later".format(
                            name, ".".join(map(str, py_version_required))
                        ),
                    )

                try:
                    parse_tree = pattern.parse(args)
                except NoParseError as e:
                    raise _hy_compiler._syntax_error(
                        expr[min(e.state.pos + 1, len(expr) - 1)],
                        "parse error for pattern macro '{}': {}".format(
                            name, e.msg.replace("end of input", "end of macro call")
                        ),
                    )
                return fn(_hy_compiler, expr, name, *parse_tree)

            return wrapper

        for name in [names] if isinstance(names, str) else names:
            install_macro(name, wrapper_maker(name), fn)
        return fn

    return dec
'''

T_INSTALL = '''
def install_macro(name, fn, module_of):
    name = mangle(name)
    fn = rename_function(fn, name)
    module_of.__globals__.setdefault("_hy_macros", {})[name] = fn
    return fn
'''

T_IS_UNPACK = '''
def is_unpack(kind, x):
    return isinstance(x, Expression) and len(x) > 0 and x[0] == Symbol("unpack-" + kind)
'''


# ---------------------------------------------------------------- converting captured constants

def ast_attr(node, allowed, what):
    if isinstance(node, ast.Attribute) and isinstance(node.value, ast.Name) and node.value.id == "ast" \
            and node.attr in allowed:
        return node.attr
    raise ShapeChanged("%s: expected ast.<%s>, line %s" % (what, "|".join(allowed[:3]) + "..", getattr(node, "lineno", "?")))


def cstr(node, what):
    if isinstance(node, ast.Constant) and isinstance(node.value, str):
        return node.value
    raise ShapeChanged("%s: expected a string literal, line %s" % (what, getattr(node, "lineno", "?")))


def cint(node, what):
    if isinstance(node, ast.Constant) and type(node.value) is int:
        return node.value
    raise ShapeChanged("%s: expected an int literal, line %s" % (what, getattr(node, "lineno", "?")))


def dict_items(node, what):
    if not isinstance(node, ast.Dict) or any(k is None for k in node.keys):
        raise ShapeChanged("%s: expected a dict display" % what)
    keys = [cstr(k, what) for k in node.keys]
    if len(set(keys)) != len(keys):
        raise ShapeChanged("%s: duplicate keys" % what)
    return list(zip(keys, node.values))


def top_assigns(tree, name):
    return [n for n in tree.body if isinstance(n, ast.Assign) and len(n.targets) == 1
            and isinstance(n.targets[0], ast.Name) and n.targets[0].id == name]


def coq_const(v, what):
    if v is True:
        return "KTrue"
    if v is False:
        return "KFalse"
    if v is None:
        return "KNone"
    if type(v) is int:
        return "(KInt (%d)%%Z)" % v
    raise ShapeChanged("%s: unsupported constant %r" % (what, v))


def is_inf(node):
    return isinstance(node, ast.Name) and node.id == "Inf"


def parser_arity(node, what):
    """FORM -> None (a single leading form); many/oneplus/times(FORM) -> (lo, hi)"""
    if isinstance(node, ast.Name) and node.id == "FORM":
        return None
    if isinstance(node, ast.Call) and isinstance(node.func, ast.Name) and not node.keywords:
        f, a = node.func.id, node.args
        form = lambda x: isinstance(x, ast.Name) and x.id == "FORM"
        if f == "many" and len(a) == 1 and form(a[0]):
            return (0, None)
        if f == "oneplus" and len(a) == 1 and form(a[0]):
            return (1, None)
        if f == "times" and len(a) == 3 and form(a[2]):
            lo = cint(a[0], what)
            hi = None if is_inf(a[1]) else cint(a[1], what)
            if lo < 0 or (hi is not None and hi < lo):
                raise ShapeChanged("%s: bad times() bounds" % what)
            return (lo, hi)
    raise ShapeChanged("%s: unsupported parser in pattern, line %s" % (what, getattr(node, "lineno", "?")))


AUG_NAMES_T = "[x for x, (_, v) in a_ops.items() if v is not None]"
AUG_NAMES_F = "[x for x, (_, v) in a_ops.items() if v is None]"


def decorator_rows(fn, handler, a_ops, what):
    """rows in INSTALLATION order (decorators apply bottom-up)"""
    rows = []
    for d in reversed(fn.decorator_list):
        if not (isinstance(d, ast.Call) and isinstance(d.func, ast.Name) and d.func.id == "pattern_macro"):
            raise ShapeChanged("%s: unexpected decorator" % what)
        if len(d.args) != 2:
            raise ShapeChanged("%s: pattern_macro takes names and a pattern" % what)
        shadow = False
        for kw in d.keywords:
            if kw.arg == "shadow" and isinstance(kw.value, ast.Constant) and kw.value.value in (True, False, None):
                shadow = bool(kw.value.value)
            else:
                raise ShapeChanged("%s: unexpected decorator keyword" % what)
        n = d.args[0]
        if isinstance(n, ast.Constant) and isinstance(n.value, str):
            names = [n.value]
        elif isinstance(n, ast.List):
            names = [cstr(e, what) for e in n.elts]
        elif isinstance(n, ast.ListComp):
            src = ast.dump(n)
            if src == ast.dump(ast.parse(AUG_NAMES_T, mode="eval").body):
                names = [k for k, (_, v) in a_ops if v is not None]
            elif src == ast.dump(ast.parse(AUG_NAMES_F, mode="eval").body):
                names = [k for k, (_, v) in a_ops if v is None]
            else:
                raise ShapeChanged("%s: unexpected name comprehension" % what)
        else:
            raise ShapeChanged("%s: unexpected macro name list" % what)
        p = d.args[1]
        if not isinstance(p, ast.List) or not p.elts:
            raise ShapeChanged("%s: pattern is not a non-empty list display" % what)
        ar = [parser_arity(e, what) for e in p.elts]
        lead = 0
        while lead < len(ar) - 1 and ar[lead] is None:
            lead += 1
        if lead != len(ar) - 1:
            raise ShapeChanged("%s: only leading FORMs then one repetition are supported" % what)
        last = ar[-1] if ar[-1] is not None else (1, 1)
        rows.append((handler, names, lead, last[0], last[1], shadow))
    return rows


# ---------------------------------------------------------------- pyops.hy

EXPECT_DEFOP = ('(defmacro defop [op lambda-list doc #* body] "An internal macro for concisely describing the docstrings of '
                'operators." (setv name (get doc 0)) (setv d (dfor [k v] (zip (cut doc 1 None 2) (cut doc 2 None 2)) k.name '
                '(if (= v \'None) None (str v)))) (setv pyop (.get d "pyop" (.replace (str op) "-" " "))) `(defn ~op '
                '~lambda-list ~(.format "The {} operator. {}\\n\\n{}{}" name "Its effect can be defined by the equivalent '
                'Python:" (.join "\\n" (filter (fn [x] x) [(when (in "nullary" d) f"- ``({op})`` → ``{(:nullary d)}``") '
                '(when (in "unary" d) f"- ``({op} x)`` → ``{(:unary d)}``") (when (.get d "binary" True) '
                'f"- ``({op} x y)`` → ``x {pyop} y``") (when (.get d "n-ary" True) '
                'f"- ``({op} a1 a2 … an)`` → ``a1 {pyop} a2 {pyop} … {pyop} an``")])) (if (not-in "agg" d) "" '
                'f"\\n\\nAggregator for augmented assignment: :hy:func:`{(:agg d)} <hy.pyops.{(:agg d)}>`")) ~@body))')
EXPECT_FOLDR = "(defn _foldr [f xs] (reduce (fn [x y] (f y x)) (cut xs None None -1)))"
EXPECT_COMP_OP = ('(defn comp-op [op a1 a-rest] "Helper for shadow comparison operators" (if a-rest (and #* (gfor #(x y) '
                  '(zip (+ #(a1) a-rest) a-rest) (op x y))) True))')
EXPECT_IMPORT = "(import functools [reduce] operator)"
SKIPPED_DEFOPS = ("and", "or")      # C02's operators; their bodies are outside this fragment
# ... but comp-op calls hy.pyops.and (through the shadow fallback of the `and` macro), so its text is pinned
EXPECT_AND = ('(defop and [#* args] ["logical conjuction" :nullary "True" :unary "x"] (if (= (len args) 0) True '
              '(if (= (len args) 1) (get args 0) (reduce (fn [x y] (and x y)) args))))')
SKIPPED_DEFNS = ("get", "cut")


def doc_expr(src, what, arg=False):
    """a documentation row such as '0', '+x', '1 / x', 'True' as a dexpr term"""
    try:
        e = ast.parse(src, mode="eval").body
    except SyntaxError:
        raise ShapeChanged("%s: documentation row %r is not a Python expression" % (what, src))

    def go(n):
        if isinstance(n, ast.Constant):
            return "(DConst %s)" % coq_const(n.value, what)
        if arg and isinstance(n, ast.Name) and n.id == "x":
            return "DX"
        if isinstance(n, ast.UnaryOp) and type(n.op).__name__ in UOPS:
            return "(DUn %s %s)" % (type(n.op).__name__, go(n.operand))
        if isinstance(n, ast.BinOp) and type(n.op).__name__ in MOPS:
            return "(DBin %s %s %s)" % (go(n.left), type(n.op).__name__, go(n.right))
        raise ShapeChanged("%s: unsupported documentation row %r" % (what, src))
    return go(e)


def doc_pyop(pyop, what):
    try:
        e = ast.parse("x %s y" % pyop, mode="eval").body
    except SyntaxError:
        raise ShapeChanged("%s: pyop %r does not form a Python expression" % (what, pyop))
    ok = lambda n, i: isinstance(n, ast.Name) and n.id == i
    if isinstance(e, ast.BinOp) and ok(e.left, "x") and ok(e.right, "y") and type(e.op).__name__ in MOPS:
        return "(FBin %s)" % type(e.op).__name__
    if isinstance(e, ast.Compare) and ok(e.left, "x") and len(e.ops) == 1 and ok(e.comparators[0], "y") \
            and type(e.ops[0]).__name__ in COPS:
        return "(FCmp C%s)" % type(e.ops[0]).__name__
    raise ShapeChanged("%s: pyop %r is not one binary or comparison operator" % (what, pyop))


def doc_row(name, doc, what):
    if doc[0] != "list" or not doc[1] or doc[1][0][0] != "str":
        raise ShapeChanged("%s: documentation list must start with the operator's English name" % what)
    rest = doc[1][1:]
    if len(rest) % 2:
        raise ShapeChanged("%s: odd documentation list" % what)
    d = {}
    for k, v in zip(rest[0::2], rest[1::2]):
        if k[0] != "kw" or k[1] not in ("nullary", "unary", "binary", "n-ary", "agg", "pyop") or k[1] in d:
            raise ShapeChanged("%s: unexpected documentation key %s" % (what, sx.show(k)))
        if sx.is_sym(v, "None"):
            d[k[1]] = None
        elif v[0] == "str" and v[2] == "" and "\\" not in v[1]:
            d[k[1]] = v[1]
        else:
            raise ShapeChanged("%s: unexpected documentation value %s" % (what, sx.show(v)))
    for k in ("binary", "n-ary"):
        if k in d and d[k] is not None:
            raise ShapeChanged("%s: :%s is only ever given as None" % (what, k))
    binary, nary = d.get("binary", True) is not None, d.get("n-ary", True) is not None
    for k in ("nullary", "unary", "agg", "pyop"):
        if k in d and d[k] is None:
            raise ShapeChanged("%s: :%s None would print 'None'" % (what, k))
    pyop = d.get("pyop", name.replace("-", " "))
    return "{| doc_pyop := %s; doc_nullary := %s; doc_unary := %s; doc_binary := %s; doc_nary := %s; doc_agg := %s |}" % (
        copt(doc_pyop(pyop, what) if (binary or nary) else None),
        copt(doc_expr(d["nullary"], what) if "nullary" in d else None),
        copt(doc_expr(d["unary"], what, arg=True) if "unary" in d else None),
        "true" if binary else "false", "true" if nary else "false",
        copt(d.get("agg"), q))


def raw_doc(name, doc, what):
    """the documentation list as plain strings (for the harness): what the defop macro prints"""
    rest = doc[1][1:]
    d = {}
    for k, v in zip(rest[0::2], rest[1::2]):
        d[k[1]] = None if sx.is_sym(v, "None") else v[1]
    return {"nullary": d.get("nullary"), "unary": d.get("unary"),
            "binary": d.get("binary", True) is not None, "nary": d.get("n-ary", True) is not None,
            "pyop": d.get("pyop", name.replace("-", " ")), "agg": d.get("agg")}


def opfn(e, c_ops, what):
    if e[0] == "sym" and e[1].startswith("operator.") and e[1][9:] in OPERATOR_FN:
        cls = OPERATOR_FN[e[1][9:]]
        return "(FBin %s)" % cls if cls in MOPS else "(FCmp C%s)" % cls
    # (fn [x y] (OP x y)) with OP a comparison macro
    if sx.head(e) == "fn" and len(e[1]) == 3 and sx.show(e[1][1]) == "[x y]" and e[1][2][0] == "expr":
        b = e[1][2][1]
        if len(b) == 3 and b[0][0] == "sym" and sx.show(b[1]) == "x" and sx.show(b[2]) == "y" and b[0][1] in dict(c_ops):
            return "(FCmp C%s)" % dict(c_ops)[b[0][1]]
    raise ShapeChanged("%s: unsupported function argument %s" % (what, sx.show(e)))


def body_term(e, names, macro_names, c_ops, what):
    go = lambda x: body_term(x, names, macro_names, c_ops, what)
    k = e[0]
    if k == "int":
        return "(XInt (%d)%%Z)" % e[1]
    if k == "sym":
        if e[1] == "True":
            return "XTrue"
        if e[1] == "None":
            return "XNone"
        if e[1] in names:
            return "(XVar %s)" % q(e[1])
        raise ShapeChanged("%s: free symbol %s" % (what, e[1]))
    if k != "expr" or not e[1] or e[1][0][0] != "sym":
        raise ShapeChanged("%s: unsupported form %s" % (what, sx.show(e)))
    h, a = e[1][0][1], e[1][1:]
    var = lambda x: x[0] == "sym" and x[1] in names
    if h == "if" and len(a) == 3:
        return "(XIf %s %s %s)" % tuple(go(x) for x in a)
    if h == "=" and len(a) == 2 and sx.head(a[0]) == "len" and len(a[0][1]) == 2 and var(a[0][1][1]) and a[1][0] == "int" \
            and a[1][1] >= 0:
        return "(XLenEq %s %d)" % (q(a[0][1][1][1]), a[1][1])
    if h == "get" and len(a) == 2 and var(a[0]) and a[1] == ("int", 0):
        return "(XGet0 %s)" % q(a[0][1])
    if h == "reduce" and len(a) in (2, 3):
        if len(a) == 2:
            return "(XReduce %s %s)" % (opfn(a[0], c_ops, what), go(a[1]))
        return "(XReduce3 %s %s %s)" % (opfn(a[0], c_ops, what), go(a[1]), go(a[2]))
    if h == "_foldr" and len(a) == 2:
        return "(XFoldr %s %s)" % (opfn(a[0], c_ops, what), go(a[1]))
    if h == "comp-op" and len(a) == 3:
        return "(XCompOp %s %s %s)" % (opfn(a[0], c_ops, what), go(a[1]), go(a[2]))
    if h == "+" and len(a) == 2 and a[0][0] == "tuple" and len(a[0][1]) in (1, 2):
        return "(XTupCat%d %s %s)" % (len(a[0][1]), " ".join(go(x) for x in a[0][1]), go(a[1]))
    if h in macro_names and len(a) in (1, 2):
        return "(XMacro%d %s %s)" % (len(a), q(h), " ".join(go(x) for x in a))
    raise ShapeChanged("%s: unsupported form %s" % (what, sx.show(e)))


def lambda_list(ll, what):
    if ll[0] != "list":
        raise ShapeChanged("%s: lambda list expected" % what)
    params, rest = [], None
    for p in ll[1]:
        if rest is not None:
            raise ShapeChanged("%s: parameter after #*" % what)
        if p[0] == "sym" and p[1] not in ("/", "*"):
            params.append(p[1])
        elif p[0] == "star" and p[1][0] == "sym":
            rest = p[1][1]
        else:
            raise ShapeChanged("%s: unsupported parameter %s" % (what, sx.show(p)))
    return params, rest


def pyops_defs(repo, macro_names, c_ops):
    path = os.path.join(repo, PYOPS)
    forms = sx.read_all(open(path, encoding="utf-8").read(), PYOPS)
    if not forms or forms[0][0] != "str":
        raise ShapeChanged(PYOPS + ": module docstring expected first")
    defs, seen, all_names = [], set(), None
    for f in forms[1:]:
        h = sx.head(f)
        what = PYOPS + ":" + (sx.show(f)[:40])
        if h == "import":
            if sx.show(f) != EXPECT_IMPORT:
                raise ShapeChanged(what + ": imports changed")
            seen.add("import")
        elif h == "defmacro":
            if sx.show(f) != EXPECT_DEFOP:
                raise ShapeChanged(PYOPS + ": the defop macro changed")
            seen.add("defop")
        elif h == "defn" and sx.is_sym(f[1][1], "_foldr"):
            if sx.show(f) != EXPECT_FOLDR:
                raise ShapeChanged(PYOPS + ": _foldr changed")
            seen.add("_foldr")
        elif h == "defn" and sx.is_sym(f[1][1], "comp-op"):
            if sx.show(f) != EXPECT_COMP_OP:
                raise ShapeChanged(PYOPS + ": comp-op changed")
            seen.add("comp-op")
        elif h == "defn" and f[1][1][0] == "sym" and f[1][1][1] in SKIPPED_DEFNS:
            continue
        elif h == "defop" or (h == "defn" and sx.is_sym(f[1][1], "not")):
            if len(f[1]) != 5 or f[1][1][0] != "sym":
                raise ShapeChanged(what + ": (defop name lambda-list doc body) expected")
            name = f[1][1][1]
            if name in SKIPPED_DEFOPS:
                if name == "and":
                    if sx.show(f) != EXPECT_AND:
                        raise ShapeChanged(PYOPS + ": the and function (used by comp-op) changed")
                    seen.add("and")
                continue
            params, rest = lambda_list(f[1][2], what)
            names = set(params) | ({rest} if rest else set())
            if name in [d[0] for d in defs]:
                raise ShapeChanged(what + ": defined twice")
            defs.append((name, params, rest, doc_row(name, f[1][3], what),
                         body_term(f[1][4], names, macro_names, c_ops, what), raw_doc(name, f[1][3], what)))
        elif h == "setv" and len(f[1]) == 3 and sx.is_sym(f[1][1], "__all__"):
            v = f[1][2]
            ok = sx.head(v) == "list" and len(v[1]) == 2 and sx.head(v[1][1]) == "map" and len(v[1][1][1]) == 3 \
                and sx.is_sym(v[1][1][1][1], "hy.mangle") and v[1][1][1][2][0] == "list"
            if not ok:
                raise ShapeChanged(PYOPS + ": __all__ shape changed")
            all_names = []
            for x in v[1][1][1][2][1]:
                if x[0] != "quote" or x[1][0] != "sym":
                    raise ShapeChanged(PYOPS + ": __all__ entry")
                all_names.append(x[1][1])
        else:
            raise ShapeChanged(what + ": unexpected top-level form")
    for need in ("import", "defop", "_foldr", "comp-op", "and"):
        if need not in seen:
            raise ShapeChanged(PYOPS + ": %s not found" % need)
    if all_names is None:
        raise ShapeChanged(PYOPS + ": __all__ not found")
    return defs, all_names


# ---------------------------------------------------------------- main

def read_tables(repo):
    tree, _ = parse_py(repo, RM)
    # c_ops
    ca = top_assigns(tree, "c_ops")
    if len(ca) != 2:
        raise ShapeChanged(RM + ": expected two assignments to c_ops")
    c_ops = [(k, ast_attr(v, COPS, "c_ops")) for k, v in dict_items(ca[0].value, "c_ops")]
    if ast.dump(ca[1].value) != ast.dump(ast.parse("{mangle(k): v for k, v in c_ops.items()}", mode="eval").body):
        raise ShapeChanged(RM + ": the re-keying of c_ops by mangle changed")
    # m_ops
    ma = top_assigns(tree, "m_ops")
    if len(ma) != 1:
        raise ShapeChanged(RM + ": expected one assignment to m_ops")
    m_ops = []
    for k, v in dict_items(ma[0].value, "m_ops"):
        if not (isinstance(v, ast.Tuple) and len(v.elts) == 2):
            raise ShapeChanged("m_ops[%r]: expected a pair" % k)
        agg = v.elts[1]
        if isinstance(agg, ast.Constant) and (agg.value is None or isinstance(agg.value, str)):
            m_ops.append((k, (ast_attr(v.elts[0], MOPS, "m_ops"), agg.value)))
        else:
            raise ShapeChanged("m_ops[%r]: aggregator must be a string or None" % k)
    aa = top_assigns(tree, "a_ops")
    if len(aa) != 1:
        raise ShapeChanged(RM + ": expected one assignment to a_ops")
    want = ast.parse('{x + "=": v for x, v in m_ops.items()}', mode="eval").body
    holes = {}
    tmpl = ast.parse('{x + __SUFFIX__: v for x, v in m_ops.items()}', mode="eval").body
    match_template(tmpl, aa[0].value, holes, "a_ops")
    suffix = cstr(holes["__SUFFIX__"], "a_ops suffix")
    a_ops = [(k + suffix, v) for k, v in m_ops]
    if len({k for k, _ in a_ops}) != len(a_ops):
        raise ShapeChanged("a_ops: duplicate keys")

    fns = {}
    for name, tmpl in (("compile_unary_operator", T_UNARY), ("get_c_op", T_GET_C_OP),
                       ("compile_compare_op_expression", T_COMPARE), ("compile_chained_comparison", T_CHAINC),
                       ("compile_maths_expression", T_MATHS), ("compile_augassign_expression", T_AUG)):
        fn = top_func(tree, name, RM)
        fns[name] = (fn, match_function(fn, tmpl, RM + ":" + name))
    h = fns["compile_unary_operator"][1]
    unary_ops = [(k, ast_attr(v, UOPS, "unary ops")) for k, v in dict_items(h["__OPS__"], "compile_unary_operator ops")]
    h = fns["compile_compare_op_expression"][1]
    if not isinstance(h["__CMP1__"], ast.Constant):
        raise ShapeChanged("compile_compare_op_expression: unary result is not a constant")
    cmp1 = coq_const(h["__CMP1__"].value, "compile_compare_op_expression")
    h = fns["compile_maths_expression"][1]
    ident = [(k, cint(v, "identity elements")) for k, v in dict_items(h["__IDENT__"], "identity elements")]
    recip = cstr(h["__RECIP__"], "reciprocal root")
    one = cint(h["__ONE__"], "reciprocal numerator")
    if not isinstance(h["__UNAMES__"], ast.Tuple):
        raise ShapeChanged("compile_maths_expression: unary roots must be a tuple")
    unames = [cstr(e, "unary roots") for e in h["__UNAMES__"].elts]
    uops = [(k, ast_attr(v, UOPS, "unary maths ops")) for k, v in dict_items(h["__UOPS__"], "unary maths ops")]
    rassoc = cstr(h["__RASSOC__"], "right-associative root")

    decs = []
    decs += decorator_rows(fns["compile_unary_operator"][0], "HUnary", a_ops, "compile_unary_operator")
    decs += decorator_rows(fns["compile_compare_op_expression"][0], "HCompare", a_ops, "compile_compare_op_expression")
    decs += decorator_rows(fns["compile_maths_expression"][0], "HMaths", a_ops, "compile_maths_expression")
    decs += decorator_rows(fns["compile_augassign_expression"][0], "HAug", a_ops, "compile_augassign_expression")
    chd = fns["compile_chained_comparison"][0].decorator_list
    if len(chd) != 1 or ast.dump(chd[0]) != ast.dump(ast.parse('pattern_macro("chainc", [FORM, oneplus(SYM + FORM)])', mode="eval").body):
        raise ShapeChanged("compile_chained_comparison: decorator changed")
    # no other function may install a macro under one of these names
    mine = {n for d in decs for n in d[1]}
    own = {fns[k][0] for k in fns}
    for node in ast.walk(tree):
        if isinstance(node, (ast.FunctionDef, ast.AsyncFunctionDef)) and node not in own:
            for d in node.decorator_list:
                if isinstance(d, ast.Call) and getattr(d.func, "id", None) == "pattern_macro" and d.args:
                    n = d.args[0]
                    if isinstance(n, ast.Tuple) and len(n.elts) == 2:
                        n = n.elts[1]
                    lits = [n] if isinstance(n, ast.Constant) else list(getattr(n, "elts", []))
                    for e in lits:
                        if isinstance(e, ast.Constant) and e.value in mine:
                            raise ShapeChanged("%s: %s also installs macro %r" % (RM, node.name, e.value))

    mtree, _ = parse_py(repo, MC)
    h = match_function(top_func(mtree, "pattern_macro", MC), T_PATTERN_MACRO, MC + ":pattern_macro")
    match_function(top_func(mtree, "install_macro", MC), T_INSTALL, MC + ":install_macro")
    sp = h["__SHADOWPATH__"]
    if not (isinstance(sp, ast.List) and len(sp.elts) >= 2 and isinstance(sp.elts[-1], ast.Name) and sp.elts[-1].id == "name"):
        raise ShapeChanged(MC + ": shadow call path changed")
    shadow_path = [cstr(e, "shadow path") for e in sp.elts[:-1]]
    motree, _ = parse_py(repo, "hy/models.py")
    match_function(top_func(motree, "is_unpack", "hy/models.py"), T_IS_UNPACK, "hy/models.py:is_unpack")

    macro_names = {n for d in decs if d[0] != "HAug" for n in d[1]}
    defs, all_names = pyops_defs(repo, macro_names, c_ops)
    return dict(c_ops=c_ops, m_ops=m_ops, a_ops=a_ops, suffix=suffix, unary_ops=unary_ops, cmp1=cmp1, ident=ident,
                recip=recip, one=one, unames=unames, uops=uops, rassoc=rassoc, decs=decs, shadow_path=shadow_path,
                defs=defs, all_names=all_names)


def translate(repo):
    t = read_tables(repo)
    o = ["(* GENERATED by translator/ops_tables.py from %s, %s, %s -- do not edit; regenerated on every check run *)" % (RM, MC, PYOPS),
         "From HyV Require Import Ops.OpSyntax.", "Open Scope string_scope.", ""]
    pair = lambda k, v: "(%s, %s)" % (q(k), v)
    o.append("Definition c_ops : list (string * cop) := %s." % clist(pair(k, "C" + v) for k, v in t["c_ops"]))
    mo = lambda v: "(%s, %s)" % (v[0], copt(v[1], q))
    o.append("Definition m_ops : list (string * (mop * option string)) := %s." % clist(pair(k, mo(v)) for k, v in t["m_ops"]))
    o.append("Definition aug_suffix : string := %s." % q(t["suffix"]))
    o.append("Definition a_ops : list (string * (mop * option string)) := %s." % clist(pair(k, mo(v)) for k, v in t["a_ops"]))
    o.append("Definition unary_operator_ops : list (string * uop) := %s." % clist(pair(k, v) for k, v in t["unary_ops"]))
    o.append("Definition compare_unary_result : pconst := %s." % t["cmp1"])
    o.append("Definition identity_elements : list (string * Z) := %s." % clist(pair(k, "(%d)%%Z" % v) for k, v in t["ident"]))
    o.append("Definition recip_root : string := %s." % q(t["recip"]))
    o.append("Definition recip_numerator : Z := (%d)%%Z." % t["one"])
    o.append("Definition unary_root_names : list string := %s." % clist(q(x) for x in t["unames"]))
    o.append("Definition unary_root_ops : list (string * uop) := %s." % clist(pair(k, v) for k, v in t["uops"]))
    o.append("Definition right_assoc_root : string := %s." % q(t["rassoc"]))
    o.append("(* @pattern_macro decorators of the operator handlers, in installation order *)")
    rows = []
    for (h, names, lead, lo, hi, shadow) in t["decs"]:
        rows.append("{| d_handler := %s; d_names := %s; d_lead := %d; d_lo := %d; d_hi := %s; d_shadow := %s |}" % (
            h, clist(q(n) for n in names), lead, lo, copt(hi, str), "true" if shadow else "false"))
    o.append("Definition decorators : list decorator :=\n  [ %s ]." % ";\n    ".join(rows))
    o.append("Definition shadow_path : list string := %s." % clist(q(x) for x in t["shadow_path"]))
    o.append("(* the defop definitions of hy/pyops.hy *)")
    ds = []
    for (name, params, rest, doc, body, _raw) in t["defs"]:
        ds.append("{| f_name := %s; f_params := %s; f_rest := %s;\n       f_doc := %s;\n       f_body := %s |}" % (
            q(name), clist(q(p) for p in params), copt(rest, q), doc, body))
    o.append("Definition pyops_defs : list defop :=\n  [ %s ]." % ";\n    ".join(ds))
    o.append("Definition pyops_all : list string := %s." % clist(q(x) for x in t["all_names"]))
    return {"Gen/OpTables.v": "\n".join(o) + "\n"}
