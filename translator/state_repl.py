"""T2/T1 for C40: hy/repl.py's REPL.runsource / runcode / showsyntaxerror / showtraceback / _error_wrap,
set_last_exc, the running interpreter's code.InteractiveInterpreter.runsource, the exception class
linearisations (hy/errors.py, hy/reader/exceptions.py + builtins) and the shape of
HyCommandCompiler.__call__ -> coq/Gen/StateReplTerm.v"""
import ast
import builtins
import code as _code
import os

from lib.vlib import ShapeChanged
from translator.common import parse_py, top_func, body_without_docstring
from translator.state_py import FunTranslator, GEN_HEADER, cstr, clist

REL = "hy/repl.py"


def c3(name, bases_of, memo):
    if name in memo:
        return memo[name]
    bases = bases_of[name]
    seqs = [list(c3(b, bases_of, memo)) for b in bases] + [list(bases)]
    out = [name]
    while any(seqs):
        seqs = [s for s in seqs if s]
        for s in seqs:
            cand = s[0]
            if not any(cand in t[1:] for t in seqs):
                break
        else:
            raise ShapeChanged("inconsistent class hierarchy at " + name)
        out.append(cand)
        for s in seqs:
            if s and s[0] == cand:
                del s[0]
    memo[name] = out
    return out


def class_table(repo):
    bases_of = {}
    for n in dir(builtins):
        o = getattr(builtins, n)
        if isinstance(o, type) and issubclass(o, BaseException):
            bases_of[o.__name__] = [b.__name__ for b in o.__bases__]
    bases_of["object"] = []
    for rel in ("hy/errors.py", "hy/reader/exceptions.py"):
        tree, _ = parse_py(repo, rel)
        for node in tree.body:
            if isinstance(node, ast.ClassDef):
                bs = []
                for b in node.bases:
                    if not isinstance(b, ast.Name):
                        raise ShapeChanged("%s:%d: base class of %s is not a plain name" % (rel, node.lineno, node.name))
                    bs.append(b.id)
                if node.keywords:
                    raise ShapeChanged("%s:%d: class keywords" % (rel, node.lineno))
                bases_of[node.name] = bs or ["object"]
    for k, bs in bases_of.items():
        for b in bs:
            if b not in bases_of:
                raise ShapeChanged("unknown base class %s of %s" % (b, k))
    memo = {}
    return {k: c3(k, bases_of, memo) for k in sorted(bases_of)}


def repl_class_mro(repo):
    tree, _ = parse_py(repo, REL)
    for node in tree.body:
        if isinstance(node, ast.ClassDef) and node.name == "REPL":
            if len(node.bases) != 1 or ast.unparse(node.bases[0]) != "code.InteractiveConsole":
                raise ShapeChanged("%s:%d: REPL no longer derives from code.InteractiveConsole only" % (REL, node.lineno))
            return ["REPL"] + [c.__name__ for c in _code.InteractiveConsole.__mro__]
    raise ShapeChanged("no class REPL")


def hcc_shape(repo):
    """HyCommandCompiler.__call__ must be exactly:
         try: return super().__call__(*args, **kwargs)
         except PrematureEndOfInput:
             if not self.allow_incomplete: raise
       i.e. incomplete input (and nothing else) is turned into `None` when allow_incomplete."""
    tree, _ = parse_py(repo, REL)
    fn = top_func(tree, "__call__", REL, cls="HyCommandCompiler")
    body = body_without_docstring(fn)
    want = ("try:\n    return super().__call__(*args, **kwargs)\nexcept PrematureEndOfInput:\n"
            "    if not self.allow_incomplete:\n        raise")
    got = "\n".join(ast.unparse(s) for s in body)
    if got != want:
        raise ShapeChanged("%s:%d: HyCommandCompiler.__call__ changed shape:\n%s" % (REL, fn.lineno, got))
    tree2, _ = parse_py(repo, "hy/reader/exceptions.py")
    return True


def stdlib_runsource():
    path = _code.__file__
    with open(path, encoding="utf-8") as f:
        tree = ast.parse(f.read(), filename=path)
    fn = top_func(tree, "runsource", path, cls="InteractiveInterpreter")
    return FunTranslator(fn, os.path.basename(path)).fundef()


def translate(repo):
    tree, _ = parse_py(repo, REL)
    out = GEN_HEADER % ("translator/state_repl.py", REL + ", hy/errors.py, hy/reader/exceptions.py, <stdlib>/code.py")
    defs = []
    for cname, meth in (("REPL", "runsource"), ("REPL", "runcode"), ("REPL", "showsyntaxerror"),
                        ("REPL", "showtraceback"), ("REPL", "_error_wrap")):
        fn = top_func(tree, meth, REL, cls=cname)
        term = FunTranslator(fn, REL, opaque_roots=("sys",)).fundef()
        ident = "repl_%s_def" % meth.strip("_")
        out += "\nDefinition %s : fundef :=\n  %s.\n" % (ident, term)
        defs.append(("%s.%s" % (cname, meth), ident))
    fn = top_func(tree, "set_last_exc", REL)
    out += "\nDefinition set_last_exc_def : fundef :=\n  %s.\n" % FunTranslator(fn, REL, opaque_roots=("sys",)).fundef()
    defs.append(("set_last_exc", "set_last_exc_def"))
    out += "\n(* code.InteractiveInterpreter.runsource of the interpreter that runs the check *)\n"
    out += "Definition stdlib_runsource_def : fundef :=\n  %s.\n" % stdlib_runsource()
    defs.append(("InteractiveInterpreter.runsource", "stdlib_runsource_def"))
    out += "\nDefinition repl_funs : list (string * fundef) :=\n  %s.\n" % clist("(%s, %s)" % (cstr(a), b) for a, b in defs)
    table = class_table(repo)
    table["REPL"] = repl_class_mro(repo)
    out += "\n(* class -> linearisation (C3), itself first *)\nDefinition repl_mro : list (string * list string) :=\n  %s.\n" % \
        clist("(%s, %s)" % (cstr(k), clist(cstr(x) for x in v)) for k, v in sorted(table.items()))
    hcc_shape(repo)
    out += ("\n(* HyCommandCompiler.__call__ matched the expected shape: it returns what codeop's CommandCompiler returns,\n"
            "   turns PrematureEndOfInput -- and no other exception -- into None when allow_incomplete, re-raises otherwise *)\n"
            "Definition hcc_incomplete_to_none : bool := true.\n")
    return {"Gen/StateReplTerm.v": out}
