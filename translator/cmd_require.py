"""T1: the literals of compile_require / assignment_shape (hy/core/result_macros.py)
and of require (hy/macros.py) that the model of C15 relies on -> coq/Gen/CmdRequire.v"""
import ast

from translator.common import *  # noqa

RM = "hy/core/result_macros.py"
MA = "hy/macros.py"


def _emitted_call(fn):
    """the Expression([...]) whose head is dotted("hy.macros.require") inside compile_require"""
    found = []
    for n in ast.walk(fn):
        if isinstance(n, ast.Call) and isinstance(n.func, ast.Name) and n.func.id == "Expression" and n.args \
                and isinstance(n.args[0], ast.List) and n.args[0].elts:
            h = n.args[0].elts[0]
            if isinstance(h, ast.Call) and isinstance(h.func, ast.Name) and h.func.id == "dotted" and h.args \
                    and isinstance(h.args[0], ast.Constant) and h.args[0].value == "hy.macros.require":
                found.append(n.args[0].elts)
    if len(found) != 1:
        raise ShapeChanged("%s: compile_require: expected exactly one emitted hy.macros.require call" % RM)
    return found[0]


def translate(repo):
    tree, _ = parse_py(repo, RM)
    fn = top_func(tree, "compile_require", RM)
    elts = _emitted_call(fn)
    # positional: String(module_name), Symbol("None"); then Keyword(k), value pairs
    def is_call(n, name):
        return isinstance(n, ast.Call) and isinstance(n.func, ast.Name) and n.func.id == name
    if len(elts) != 9 or not (is_call(elts[1], "String") and ast.unparse(elts[1].args[0]) == "module_name"
                              and is_call(elts[2], "Symbol") and const_str(elts[2].args[0], "target") == "None"):
        raise ShapeChanged("%s: emitted require call: positional part changed" % RM)
    kws = []
    for k, v in ((elts[3], elts[4]), (elts[5], elts[6]), (elts[7], elts[8])):
        if not is_call(k, "Keyword"):
            raise ShapeChanged("%s: emitted require call: keyword part changed" % RM)
        kws.append((const_str(k.args[0], "keyword"), ast.unparse(v)))
    want = [("target_module_name", "String(compiler.module.__name__)"),
            ("assignments", "String(assignments) if assignments in ('ALL', 'EXPORTS') else List([List([String(k), String(v)]) "
                            "for k, v in assignments])"),
            ("prefix", "String(prefix)")]
    if kws != want:
        raise ShapeChanged("%s: emitted require call: keyword arguments are %r" % (RM, kws))
    # the compile-time call in the same elif must pass the same three things
    ct = [n for n in ast.walk(fn) if isinstance(n, ast.Call) and isinstance(n.func, ast.Name) and n.func.id == "require"
          and len(n.args) == 2 and ast.unparse(n.args[1]) == "compiler.module"]
    if len(ct) != 1:
        raise ShapeChanged("%s: compile_require: expected one compile-time require(module_name, compiler.module, ...)" % RM)
    ctk = sorted((k.arg, ast.unparse(k.value)) for k in ct[0].keywords)
    if ast.unparse(ct[0].args[0]) != "module_name" or ctk != [("assignments", "assignments"), ("compiler", "compiler"),
                                                               ("prefix", "prefix")]:
        raise ShapeChanged("%s: compile-time require call arguments are %r" % (RM, ctk))
    # `prefix, assignments = assignment_shape(module, rest)` must be followed by `if prefix: assignments = "ALL"`
    # (ImporterModel.require_shape)
    found = False
    for n in ast.walk(fn):
        body = getattr(n, "body", None)
        if not isinstance(body, list):
            continue
        for st, nxt in zip(body, body[1:]):
            if isinstance(st, ast.Assign) and ast.unparse(st) == "prefix, assignments = assignment_shape(module, rest)":
                if not (isinstance(nxt, ast.If) and ast.unparse(nxt.test) == "prefix" and not nxt.orelse
                        and len(nxt.body) == 1 and ast.unparse(nxt.body[0]) == "assignments = 'ALL'"):
                    raise ShapeChanged("%s: compile_require: the prefixed-require override `if prefix: assignments = \"ALL\"` "
                                       "does not follow the assignment_shape call" % RM)
                found = True
    if not found:
        raise ShapeChanged("%s: compile_require: `prefix, assignments = assignment_shape(module, rest)` not found" % RM)
    # nothing else in compile_require assigns `assignments` or `prefix` after that
    stores = [ast.unparse(n) for n in ast.walk(fn) if isinstance(n, (ast.Assign, ast.AugAssign))
              and any(isinstance(t, ast.Name) and t.id in ("assignments", "prefix")
                      for tt in (n.targets if isinstance(n, ast.Assign) else [n.target]) for t in ast.walk(tt))]
    if sorted(stores) != sorted(["prefix, assignments = assignment_shape(module, rest)", "assignments = 'ALL'",
                                 "module, assignments = entry"]):
        raise ShapeChanged("%s: compile_require: assignments to `assignments`/`prefix` are %r" % (RM, stores))
    shape_lits = string_constants(body_without_docstring(top_func(tree, "assignment_shape", RM)))
    mtree, _ = parse_py(repo, MA)
    req = top_func(mtree, "require", MA)
    req_lits = string_constants(body_without_docstring(req))
    sig = [a.arg for a in req.args.args]
    if sig[:4] != ["source_module", "target", "assignments", "prefix"]:
        raise ShapeChanged("%s: require signature is %r" % (MA, sig))
    out = HEADER % ("translator/cmd_require.py", RM + ", " + MA)
    out += "(* keyword names of the emitted run-time call hy.macros.require(module_name, None, ...) in order *)\n"
    out += "Definition emitted_keywords : list (list N) := [%s].\n" % "; ".join(coq_text(k) for k, _ in kws)
    out += "(* every string literal of assignment_shape and of require, in source order *)\n"
    out += "Definition assignment_shape_literals : list (list N) := [%s].\n" % "; ".join(coq_text(c) for c in shape_lits)
    out += "Definition require_literals : list (list N) := [%s].\n" % "; ".join(coq_text(c) for c in req_lits)
    return {"Gen/CmdRequire.v": out}
