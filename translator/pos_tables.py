"""T1 for C17: Asty.POS_ATTRS, the shape of Asty._get_pos, and the position
source (first argument) of every asty.X(...) call in the handlers
-> coq/Gen/PosTables.v

Each (function, first-argument text) pair must be classified below as
  SForm     the form being compiled (`expr`, or the model parameter of a model compiler)
  SSub      a sub-form: a component of the parse tree / an element of the form
  SEmitted  a Result or AST node compiled earlier from the form or its sub-forms
A pair that is not listed raises ShapeChanged (a new position source must be looked at)."""
import ast

from translator.common import *  # noqa

CO = "hy/compiler.py"
RM = "hy/core/result_macros.py"
SC = "hy/scoping.py"

FORM_PARAMS = {"expr"}
CLASS = {
    # result_macros.py
    ("digest_type_params", "x[1]"): "SSub", ("digest_type_params", "x[0]"): "SSub",
    ("compile_logical_or_and_and_operator", "expr[0]"): "SSub", ("compile_logical_or_and_and_operator", "node"): "SEmitted",
    ("compile_assign", "x"): "SSubOrEmitted",
    ("compile_deftype", "name"): "SSub",
    ("compile_attribute_access", "attr"): "SSub", ("compile_attribute_access", "root"): "SSub",
    ("compile_comprehension", "key"): "SEmitted", ("compile_comprehension", "elt"): "SEmitted",
    ("compile_comprehension", "v[1]"): "SEmitted", ("compile_comprehension", "value"): "SEmitted", ("compile_comprehension", "v"): "SEmitted",
    ("compile_comprehension", "final"): "SSub",
    ("compile_while_expression", "cond"): "SSub",
    ("compile_match_expression", "pattern[0]"): "SSub", ("compile_match_expression", "guard"): "SEmitted",
    ("compile_match_expression", "guard.expr"): "SEmitted",
    ("compile_pattern", "value"): "SSub",
    ("compile_try_expression", "catcher"): "SSub", ("compile_try_expression", "exceptions"): "SSub",
    ("compile_arguments_set", "sym"): "SSub",
    ("compile_import", "module"): "SSub",
    ("compile_assert_expression", "test"): "SEmitted",
    # compiler.py
    ("Result.expr_as_stmt", "self.expr"): "SEmitted",
    ("HyASTCompiler._compile_collect", "expr"): "SSub",
    ("HyASTCompiler.compile_expression", "expr"): "SForm", ("HyASTCompiler.compile_expression", "root"): "SSub",
    ("HyASTCompiler.compile_numeric_literal", "x"): "SForm", ("HyASTCompiler.compile_symbol", "symbol"): "SForm",
    ("HyASTCompiler.compile_keyword", "obj"): "SForm", ("HyASTCompiler.compile_string", "string"): "SForm",
    ("HyASTCompiler.compile_fcomponent", "fcomponent"): "SForm", ("HyASTCompiler.compile_fstring", "fstring"): "SForm",
    ("HyASTCompiler.compile_list", "expression"): "SForm", ("HyASTCompiler.compile_dict", "m"): "SForm",
    ("HyASTCompiler.compile_tuple", "expression"): "SForm",
    # scoping.py
    ("OuterVar.__init__", "expr"): "SForm", ("ResolveOuterVars.visit_OuterVar", "node"): "SEmitted",
}


def _funcs(body, prefix=""):
    for n in body:
        if isinstance(n, (ast.FunctionDef, ast.AsyncFunctionDef)):
            yield prefix + n.name, n
        elif isinstance(n, ast.ClassDef):
            yield from _funcs(n.body, n.name + ".")


def _is_asty_callee(f):
    """asty.X   or   (asty.A if c else asty.B)   or a local alias `node`/`node_class`/`enode`/`x` bound to those"""
    src = ast.unparse(f)
    return src.startswith("asty.") or "asty." in src


def sites(repo):
    out = []
    for rel in (RM, CO, SC):
        tree, _ = parse_py(repo, rel)
        for name, fn in _funcs(tree.body):
            if name.startswith("Asty."):
                continue
            for x in ast.walk(fn):
                if isinstance(x, ast.Call) and _is_asty_callee(x.func) and not ast.unparse(x.func).startswith("asty._"):
                    if ast.unparse(x.func) in ("asty._get_pos",):
                        continue
                    if not x.args:
                        raise ShapeChanged("%s:%d: asty call without a positional position source: %s" % (rel, x.lineno, ast.unparse(x)[:60]))
                    arg = ast.unparse(x.args[0])
                    a0 = x.args[0]
                    if isinstance(a0, ast.Constant) and a0.value is None:
                        kind = "SNone"
                    elif isinstance(a0, ast.Call) and ast.unparse(a0.func) in (
                            "Symbol", "Integer", "String", "Expression", "List", "Keyword", "mkexpr", "dotted", "E", "S"):
                        kind = "SFresh"
                    elif rel == RM and arg == "expr" and (name, arg) not in CLASS:
                        kind = "SForm"
                    elif (name, arg) in CLASS:
                        kind = CLASS[(name, arg)]
                    else:
                        raise ShapeChanged("%s:%d: unclassified position source `%s` in %s" % (rel, x.lineno, arg, name))
                    out.append((name, ast.unparse(x.func)[:40], arg, kind, "%s:%d" % (rel, x.lineno)))
    return out


CTORS = {"Symbol", "Integer", "Expression", "mkexpr", "dotted", "E", "S", "List", "String", "Keyword", "Dict", "Tuple", "FString"}
# hand classification of constructor calls that are neither .replace()d nor merely compared
SYNTH_CLASS = {
    # every piece built in render_quoted_form ends up below `Expression([...]).replace(form)` (recursive replace)
    "render_quoted_form": "InsideReplaced",
}
SYNTH_PAIRS = {
    ("compile_with_expression", "Symbol('_')"): "NotCompiled",   # placeholder variable, compared with Symbol("_") and dropped
    ("compile_cut_expression", "Symbol('None')"): "Unreplaced",  # lower = Symbol("None"); compiled by c(lower)
    ("compile_pattern", "dotted('hy.models.Keyword')"): "Unreplaced",  # compiler.compile(dotted(...)) for a keyword pattern
}


def synthesized(repo):
    out = []
    for rel in (RM, CO, "hy/macros.py"):
        tree, _ = parse_py(repo, rel)
        parents = {}
        for n in ast.walk(tree):
            for c in ast.iter_child_nodes(n):
                parents[c] = n

        def is_ctor(n):
            return isinstance(n, ast.Call) and isinstance(n.func, ast.Name) and n.func.id in CTORS

        def enclosing_fn(n):
            while n in parents:
                n = parents[n]
                if isinstance(n, ast.FunctionDef):
                    return n.name
            return "<module>"
        for n in ast.walk(tree):
            if not is_ctor(n):
                continue
            p, inner = n, False
            while p in parents:
                p = parents[p]
                if is_ctor(p):
                    inner = True
                    break
                if isinstance(p, (ast.FunctionDef, ast.Lambda)):
                    break
            if inner:
                continue
            fn = enclosing_fn(n)
            if fn in ("<module>", "dotted", "E", "make_hy_model", "mkexpr"):
                continue
            par = parents.get(n)
            text = ast.unparse(n)
            if isinstance(par, ast.Attribute) and par.attr == "replace":
                kind = "Replaced"
            elif isinstance(par, ast.Compare):
                kind = "ComparedOnly"
            elif (fn, text) in SYNTH_PAIRS:
                kind = SYNTH_PAIRS[(fn, text)]
            elif fn in SYNTH_CLASS:
                kind = SYNTH_CLASS[fn]
            else:
                raise ShapeChanged("%s:%d: a model built in %s is neither .replace()d nor classified: %s" % (rel, n.lineno, fn, text[:60]))
            out.append((fn, text[:60], kind, "%s:%d" % (rel, n.lineno)))
    return out


def pos_attrs(repo):
    tree, _ = parse_py(repo, CO)
    cls = [n for n in tree.body if isinstance(n, ast.ClassDef) and n.name == "Asty"]
    if not cls:
        raise ShapeChanged("%s: no class Asty" % CO)
    d = None
    for n in cls[0].body:
        if isinstance(n, ast.Assign) and ast.unparse(n.targets[0]) == "POS_ATTRS":
            d = n.value
    if not isinstance(d, ast.Dict) or not all(isinstance(k, ast.Constant) and isinstance(v, ast.Constant) and
                                              isinstance(k.value, str) and isinstance(v.value, str) for k, v in zip(d.keys, d.values)):
        raise ShapeChanged("%s: Asty.POS_ATTRS is not a dict of string literals" % CO)
    gp = top_func(tree, "_get_pos", CO, cls="Asty")
    body = body_without_docstring(gp)
    want = "return {attr: getattr(node, hy_attr, getattr(node, attr, None)) for attr, hy_attr in Asty.POS_ATTRS.items()}"
    if len(body) != 1 or ast.unparse(body[0]) != want:
        raise ShapeChanged("%s: Asty._get_pos is not `%s`" % (CO, want))
    # Object.start_line etc. default to 1 when unset
    mtree, _ = parse_py(repo, "hy/models.py")
    for prop in ("start_line", "start_column", "end_line", "end_column"):
        getter = [n for n in ast.walk(mtree) if isinstance(n, ast.FunctionDef) and n.name == prop and
                  any(ast.unparse(d) == "property" for d in n.decorator_list)]
        if len(getter) != 1 or ast.unparse(getter[0].body[0]) != "return getattr(self, '_%s', 1)" % prop:
            raise ShapeChanged("hy/models.py: Object.%s is not `return getattr(self, '_%s', 1)`" % (prop, prop))
    return [(k.value, v.value) for k, v in zip(d.keys, d.values)]


def fcomponent_replace(repo):
    """does FComponent.replace keep the positioned copy that Sequence.replace(recursive=True) returns?"""
    tree, _ = parse_py(repo, "hy/models.py")
    fn = top_func(tree, "replace", "hy/models.py", cls="FComponent")
    body = body_without_docstring(fn)
    if not body or ast.unparse(body[-1]) not in ("return self", "return new"):
        raise ShapeChanged("hy/models.py: FComponent.replace does not end in `return self` / `return new`")
    first = body[0]
    call = "super().replace(other, recursive)"
    if isinstance(first, ast.Expr) and ast.unparse(first.value) == call and ast.unparse(body[-1]) == "return self":
        return True          # result discarded: self keeps whatever positions it had
    if isinstance(first, ast.Assign) and ast.unparse(first.value) == call:
        return False
    raise ShapeChanged("hy/models.py: FComponent.replace no longer starts with `%s`" % call)


def translate(repo):
    attrs = pos_attrs(repo)
    ss = sites(repo)
    out = "(* GENERATED by translator/pos_tables.py from %s %s %s -- do not edit; regenerated on every check run *)\n" % (CO, RM, SC)
    out += "From HyV Require Import Base.Text Pos.Syntax.\n"
    out += "Definition pos_attrs : list (text * text) := [%s].\n" % "; ".join(
        "(%s, %s)" % (coq_text(k), coq_text(v)) for k, v in attrs)
    out += "(* (handler, position source text, classification) of every asty.X(source, ...) call *)\n"
    out += "Definition asty_sites : list (text * text * psrc) := [\n"
    out += ";\n".join("  (%s, %s, %s)  (* %s %s *)" % (coq_text(n), coq_text(a), k, w, f) for n, f, a, k, w in ss)
    out += "\n].\n"
    out += "(* FComponent.replace calls Sequence.replace and drops the positioned copy it returns *)\n"
    out += "Definition fcomponent_replace_discards : bool := %s.\n" % ("true" if fcomponent_replace(repo) else "false")
    out += "(* models built by the handlers themselves: (handler, text, what happens to it) *)\n"
    out += "Definition synthesized : list (text * text * synth) := [\n"
    out += ";\n".join("  (%s, %s, %s)  (* %s *)" % (coq_text(f), coq_text(t), k, w) for f, t, k, w in synthesized(repo))
    out += "\n].\n"
    return {"Gen/PosTables.v": out}
