"""T1: the shape of hy/core/result_macros.py:compile_eval_foo_compile -> coq/Gen/CmdStaging.v
(which macro names it serves, that the body is evaluated first, and what each name leaves in the program)"""
import ast

from translator.common import *  # noqa

REL = "hy/core/result_macros.py"


def translate(repo):
    tree, _ = parse_py(repo, REL)
    fn = top_func(tree, "compile_eval_foo_compile", REL)
    if [a.arg for a in fn.args.args] != ["compiler", "expr", "root", "body"]:
        raise ShapeChanged("%s: compile_eval_foo_compile signature changed" % REL)
    decs = [d for d in fn.decorator_list if isinstance(d, ast.Call) and ast.unparse(d.func) == "pattern_macro"]
    if len(decs) != 1 or len(decs[0].args) != 2 or not isinstance(decs[0].args[0], ast.List):
        raise ShapeChanged("%s:%d: compile_eval_foo_compile is not decorated by pattern_macro([names], pattern)" % (REL, fn.lineno))
    names = [const_str(x, "macro name") for x in decs[0].args[0].elts]
    if ast.unparse(decs[0].args[1]) != "[many(FORM)]":
        raise ShapeChanged("%s:%d: the pattern is no longer [many(FORM)]" % (REL, fn.lineno))
    body = body_without_docstring(fn)
    # new_expr = ...; try: value = compiler.eval(new_expr + body) ...; return <conditional>
    if len(body) != 3 or not isinstance(body[1], ast.Try) or not isinstance(body[2], ast.Return):
        raise ShapeChanged("%s:%d: compile_eval_foo_compile is not assign / try / return" % (REL, fn.lineno))
    tb = body[1].body
    if len(tb) != 1 or ast.unparse(tb[0]) != "value = compiler.eval(new_expr + body)":
        raise ShapeChanged("%s:%d: the body is not evaluated by `value = compiler.eval(new_expr + body)`" % (REL, body[1].lineno))
    if ast.unparse(body[0]) != "new_expr = Expression([Symbol('do').replace(expr[0])]).replace(expr)":
        raise ShapeChanged("%s:%d: new_expr is not (do)" % (REL, body[0].lineno))
    ACTIONS = {"compiler.compile(as_model(value).replace(expr))": 1, "compiler._compile_branch(body)": 2, "Result()": 0}
    dispatch = []
    e = body[2].value
    while isinstance(e, ast.IfExp):
        t = e.test
        if not (isinstance(t, ast.Compare) and len(t.ops) == 1 and isinstance(t.ops[0], ast.Eq)
                and ast.unparse(t.left) == "root"):
            raise ShapeChanged("%s:%d: dispatch test is not `root == <name>`" % (REL, e.lineno))
        act = ast.unparse(e.body)
        if act not in ACTIONS:
            raise ShapeChanged("%s:%d: unknown staging action %s" % (REL, e.lineno, act))
        dispatch.append((const_str(t.comparators[0], "root name"), ACTIONS[act]))
        e = e.orelse
    default = ast.unparse(e)
    if default not in ACTIONS:
        raise ShapeChanged("%s: unknown default staging action %s" % (REL, default))
    out = HEADER % ("translator/cmd_staging.py", REL)
    out += "(* macro names served by compile_eval_foo_compile *)\n"
    out += "Definition staging_names : list (list N) := [%s].\n" % "; ".join(coq_text(n) for n in names)
    out += "(* after value = compiler.eval(do body): what is left in the program, by name;\n"
    out += "   1 = compile(as_model(value)), 2 = _compile_branch(body), 0 = empty Result *)\n"
    out += "Definition staging_dispatch : list (list N * N) := [%s].\n" % "; ".join(
        "(%s, %d%%N)" % (coq_text(n), a) for n, a in dispatch)
    out += "Definition staging_default : N := %d%%N.\n" % ACTIONS[default]
    return {"Gen/CmdStaging.v": out}
