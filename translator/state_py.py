"""T2: a fail-closed walk over Python `ast` that renders a function body as a term
of the deep-embedded fragment coq/State/EvalRestoreSyntax.v.

Anything outside the accepted subset raises ShapeChanged -- the translator never
guesses.  Scoping is resolved here (it is static in Python): names assigned in
the function (or parameters) and not declared `global` are locals (EName/TName),
every other name is module-level (EGlob/TGlob)."""
import ast

from lib.vlib import ShapeChanged
from translator.common import parse_py, top_func, body_without_docstring


def cstr(s):
    if any(ord(c) < 32 or ord(c) > 126 for c in s):
        raise ShapeChanged("non-printable character in a string literal %r" % s)
    return '"' + s.replace('"', '""') + '"'


def clist(items):
    return "[" + "; ".join(items) + "]"


CMP = {ast.Is: "OpIs", ast.IsNot: "OpIsNot", ast.In: "OpIn", ast.NotIn: "OpNotIn", ast.Eq: "OpEq", ast.NotEq: "OpNotEq"}


class FunTranslator:
    def __init__(self, fn, rel, opaque_roots=(), is_method=False):
        self.fn, self.rel = fn, rel
        self.opaque_roots = set(opaque_roots)
        a = fn.args
        if a.kwonlyargs or a.posonlyargs:
            self.bad(fn, "only plain parameters are accepted")
        # *args / **kwargs are accepted only as sinks: the body must never mention them
        self.extra = bool(a.vararg or a.kwarg)
        sink_names = {x.arg for x in (a.vararg, a.kwarg) if x is not None}
        for n in ast.walk(fn):
            if isinstance(n, ast.Name) and n.id in sink_names:
                self.bad(n, "*args/**kwargs parameter is used in the body")
        if fn.decorator_list:
            self.bad(fn, "decorated function")
        if isinstance(fn, ast.AsyncFunctionDef):
            self.bad(fn, "async function")
        self.params = [x.arg for x in a.args]
        nd = len(a.defaults)
        self.defaults = [None] * (len(self.params) - nd) + list(a.defaults)
        self.globals = set()
        assigned = set()
        for n in ast.walk(fn):
            if isinstance(n, (ast.FunctionDef, ast.AsyncFunctionDef, ast.Lambda, ast.ClassDef)) and n is not fn:
                self.bad(n, "nested function/class")
            if isinstance(n, (ast.ListComp, ast.SetComp, ast.DictComp, ast.GeneratorExp, ast.NamedExpr, ast.Yield,
                              ast.YieldFrom, ast.Await, ast.With, ast.While, ast.Delete, ast.AugAssign, ast.Import,
                              ast.ImportFrom, ast.Nonlocal, ast.Match)):
                self.bad(n, "construct outside the fragment: " + type(n).__name__)
            if isinstance(n, ast.Global):
                self.globals.update(n.names)
            if isinstance(n, ast.Name) and isinstance(n.ctx, ast.Store):
                assigned.add(n.id)
            if isinstance(n, ast.ExceptHandler) and n.name:
                assigned.add(n.name)
        self.locals = (set(self.params) | assigned) - self.globals

    def bad(self, node, why):
        raise ShapeChanged("%s:%s: %s (in %s)" % (self.rel, getattr(node, "lineno", "?"), why, self.fn.name))

    # ---- expressions
    def const(self, node):
        v = node.value
        if v is None:
            return "CNone"
        if v is True:
            return "CTrue"
        if v is False:
            return "CFalse"
        if isinstance(v, str):
            return "(CStr %s)" % cstr(v)
        if isinstance(v, int):
            return "(CInt (%d)%%Z)" % v
        self.bad(node, "constant of type %s" % type(v).__name__)

    def is_opaque_chain(self, node):
        """Attribute / Call / Subscript chain rooted at an allowed imported module, arguments likewise or constants."""
        if isinstance(node, ast.Name):
            return node.id in self.opaque_roots and node.id not in self.locals
        if isinstance(node, ast.Attribute):
            return self.is_opaque_chain(node.value)
        if isinstance(node, ast.Subscript):
            return self.is_opaque_chain(node.value) and isinstance(node.slice, ast.Constant)
        if isinstance(node, ast.Call):
            return (self.is_opaque_chain(node.func) and not node.keywords
                    and all(isinstance(a, ast.Constant) or self.is_opaque_chain(a) for a in node.args))
        return False

    def expr(self, e):
        if isinstance(e, ast.Name):
            if not isinstance(e.ctx, ast.Load):
                self.bad(e, "name in non-load context")
            return "(EName %s)" % cstr(e.id) if e.id in self.locals else "(EGlob %s)" % cstr(e.id)
        if isinstance(e, ast.Constant):
            return "(EConst %s)" % self.const(e)
        if not isinstance(e, ast.Name) and self.is_opaque_chain(e):
            return "(EOpaque %s)" % cstr(ast.unparse(e))
        if isinstance(e, ast.Tuple):
            if any(isinstance(x, ast.Starred) for x in e.elts):
                self.bad(e, "starred element")
            return "(ETuple %s)" % clist(self.expr(x) for x in e.elts)
        if isinstance(e, ast.Attribute):
            return "(EAttr %s %s)" % (self.expr(e.value), cstr(e.attr))
        if isinstance(e, ast.Subscript):
            if isinstance(e.slice, (ast.Slice, ast.Tuple)):
                self.bad(e, "slice subscript")
            return "(ESub %s %s)" % (self.expr(e.value), self.expr(e.slice))
        if isinstance(e, ast.Compare):
            if len(e.ops) != 1 or type(e.ops[0]) not in CMP:
                self.bad(e, "comparison outside {is, is not, in, not in, ==, !=} or chained")
            return "(ECmp %s %s %s)" % (CMP[type(e.ops[0])], self.expr(e.left), self.expr(e.comparators[0]))
        if isinstance(e, ast.BoolOp):
            k = "EAnd" if isinstance(e.op, ast.And) else "EOr"
            out = self.expr(e.values[-1])
            for v in reversed(e.values[:-1]):
                out = "(%s %s %s)" % (k, self.expr(v), out)
            return out
        if isinstance(e, ast.UnaryOp) and isinstance(e.op, ast.Not):
            return "(ENot %s)" % self.expr(e.operand)
        if isinstance(e, ast.IfExp):
            return "(EIf %s %s %s)" % (self.expr(e.test), self.expr(e.body), self.expr(e.orelse))
        if isinstance(e, ast.BinOp) and isinstance(e.op, ast.Add):
            return "(EAdd %s %s)" % (self.expr(e.left), self.expr(e.right))
        if isinstance(e, ast.Call):
            if isinstance(e.func, ast.Name) and e.func.id == "super" and "super" not in self.locals:
                if e.args or e.keywords:
                    self.bad(e, "super() with arguments")
                return "ESuper"
            if any(isinstance(a, ast.Starred) for a in e.args) or any(k.arg is None for k in e.keywords):
                self.bad(e, "star-arguments in a call")
            kws = clist("(%s, %s)" % (cstr(k.arg), self.expr(k.value)) for k in e.keywords)
            return "(ECall %s %s %s)" % (self.callee(e.func), clist(self.expr(a) for a in e.args), kws)
        self.bad(e, "expression outside the fragment: " + type(e).__name__)

    def callee(self, f):
        """the function position of a call: never collapsed into an opaque chain"""
        if isinstance(f, ast.Attribute):
            inner = f.value
            recv = self.callee(inner) if isinstance(inner, ast.Attribute) else self.expr(inner)
            return "(EAttr %s %s)" % (recv, cstr(f.attr))
        return self.expr(f)

    # ---- targets
    def target(self, t):
        if isinstance(t, ast.Name):
            return "(TName %s)" % cstr(t.id) if t.id in self.locals else "(TGlob %s)" % cstr(t.id)
        if isinstance(t, ast.Subscript):
            if isinstance(t.slice, (ast.Slice, ast.Tuple)):
                self.bad(t, "slice target")
            return "(TSub %s %s)" % (self.expr(t.value), self.expr(t.slice))
        if isinstance(t, ast.Attribute):
            return "(TAttr %s %s)" % (self.expr(t.value), cstr(t.attr))
        if isinstance(t, (ast.Tuple, ast.List)):
            if any(isinstance(x, ast.Starred) for x in t.elts):
                self.bad(t, "starred target")
            return "(TTuple %s)" % clist(self.target(x) for x in t.elts)
        self.bad(t, "assignment target outside the fragment: " + type(t).__name__)

    # ---- statements
    def block(self, stmts, ind):
        pad = "\n" + " " * ind
        return "[" + (";" + pad).join(self.stmt(s, ind + 1) for s in stmts) + "]"

    def handler_classes(self, h):
        if h.type is None:
            return []
        ts = h.type.elts if isinstance(h.type, ast.Tuple) else [h.type]
        out = []
        for t in ts:
            if not isinstance(t, ast.Name):
                self.bad(h, "except clause naming something other than a class name")
            out.append(t.id)
        return out

    def stmt(self, s, ind):
        if isinstance(s, ast.Assign):
            if len(s.targets) != 1:
                self.bad(s, "chained assignment")
            return "SAssign %s %s" % (self.target(s.targets[0]), self.expr(s.value))
        if isinstance(s, ast.Expr):
            return "SExpr %s" % self.expr(s.value)
        if isinstance(s, ast.If):
            return "SIf %s %s %s" % (self.expr(s.test), self.block(s.body, ind + 2), self.block(s.orelse, ind + 2))
        if isinstance(s, ast.Try):
            if s.orelse:
                self.bad(s, "try ... else")
            hs = clist("(%s, %s, %s)" % (clist(cstr(c) for c in self.handler_classes(h)),
                                         "Some %s" % cstr(h.name) if h.name else "None",
                                         self.block(h.body, ind + 4)) for h in s.handlers)
            return "STry %s %s %s" % (self.block(s.body, ind + 2), hs, self.block(s.finalbody, ind + 2))
        if isinstance(s, ast.For):
            if s.orelse:
                self.bad(s, "for ... else")
            return "SFor %s %s %s" % (self.target(s.target), self.expr(s.iter), self.block(s.body, ind + 2))
        if isinstance(s, ast.Return):
            return "SReturn %s" % ("None" if s.value is None else "(Some %s)" % self.expr(s.value))
        if isinstance(s, ast.Raise):
            if s.cause is not None:
                self.bad(s, "raise ... from")
            return "SRaise %s" % ("None" if s.exc is None else "(Some %s)" % self.expr(s.exc))
        if isinstance(s, ast.Global):
            return "SGlobal %s" % clist(cstr(n) for n in s.names)
        if isinstance(s, ast.Pass):
            return "SPass"
        self.bad(s, "statement outside the fragment: " + type(s).__name__)

    def fundef(self):
        ps = []
        for p, d in zip(self.params, self.defaults):
            if d is None:
                ps.append("(%s, None)" % cstr(p))
            else:
                if not isinstance(d, ast.Constant):
                    self.bad(d, "non-constant default")
                ps.append("(%s, Some %s)" % (cstr(p), self.const(d)))
        body = body_without_docstring(self.fn)
        return "{| fparams := %s;\n   fextra := %s;\n   fbody := %s |}" % (
            clist(ps), "true" if self.extra else "false", self.block(body, 13))


def function_term(repo, rel, name, cls=None, opaque_roots=()):
    tree, _ = parse_py(repo, rel)
    fn = top_func(tree, name, rel, cls=cls)
    return FunTranslator(fn, rel, opaque_roots).fundef()


GEN_HEADER = ("(* GENERATED by %s from %s -- do not edit; regenerated on every check run *)\n"
              "From HyV Require Import State.EvalRestoreSyntax.\n")
