"""T1/T2 for C14: keyword.kwlist as seen by the running interpreter, and the
keyword-mincing expression of hy/compat.py:rewriting_unparse -> coq/Gen/Keywords.v

Accepted shape of rewriting_unparse (anything else: ShapeChanged):
    deep copy; for node in ast.walk: skip `type(node) is ast.Constant`;
    for field in node._fields: v = getattr(node, field, None);
    if type(v) is str and keyword.iskeyword(v) and v not in (<string literals>):
        setattr(node, field, chr(ord(v[0]) - ord(<c1>) + ord(<c2>)) + v[1:])
    return true_unparse(ast_obj)
"""
import ast
import keyword

from translator.common import *  # noqa

REL = "hy/compat.py"


def extract(repo):
    tree, _ = parse_py(repo, REL)
    ifs = [n for n in tree.body if isinstance(n, ast.If)]
    guard = [n for n in ifs if "ast.unparse(ast.parse(" in ast.unparse(n.test)]
    if len(guard) != 1:
        raise ShapeChanged("%s: the conditional installation of rewriting_unparse was not found" % REL)
    g = guard[0]
    test = ast.unparse(g.test)
    if test != "'def' in ast.unparse(ast.parse('𝕕𝕖𝕗 = 1'))":
        raise ShapeChanged("%s: installation test is `%s`" % (REL, test))
    fns = [n for n in g.body if isinstance(n, ast.FunctionDef) and n.name == "rewriting_unparse"]
    if len(fns) != 1:
        raise ShapeChanged("%s: no rewriting_unparse in the guarded block" % REL)
    if "ast.unparse = rewriting_unparse" not in [ast.unparse(n) for n in g.body]:
        raise ShapeChanged("%s: ast.unparse is not replaced by rewriting_unparse" % REL)
    fn = fns[0]
    body = body_without_docstring(fn)
    if len(body) != 3 or ast.unparse(body[0]) != "ast_obj = copy.deepcopy(ast_obj)" or \
            ast.unparse(body[2]) != "return true_unparse(ast_obj)" or not isinstance(body[1], ast.For):
        raise ShapeChanged("%s: rewriting_unparse is not copy / walk / return true_unparse" % REL)
    loop = body[1]
    if ast.unparse(loop.iter) != "ast.walk(ast_obj)" or len(loop.body) != 2:
        raise ShapeChanged("%s: outer loop of rewriting_unparse changed" % REL)
    skip, inner = loop.body
    if not (isinstance(skip, ast.If) and ast.unparse(skip.test) == "type(node) is ast.Constant" and
            len(skip.body) == 1 and isinstance(skip.body[0], ast.Continue) and not skip.orelse):
        raise ShapeChanged("%s: the `skip Constant nodes` test changed" % REL)
    if not (isinstance(inner, ast.For) and ast.unparse(inner.iter) == "node._fields" and len(inner.body) == 2):
        raise ShapeChanged("%s: inner loop of rewriting_unparse changed" % REL)
    assign, cond = inner.body
    if ast.unparse(assign) != "v = getattr(node, field, None)" or not isinstance(cond, ast.If) or cond.orelse:
        raise ShapeChanged("%s: field access in rewriting_unparse changed" % REL)
    t = cond.test
    if not (isinstance(t, ast.BoolOp) and isinstance(t.op, ast.And) and len(t.values) == 3 and
            ast.unparse(t.values[0]) == "type(v) is str" and ast.unparse(t.values[1]) == "keyword.iskeyword(v)" and
            isinstance(t.values[2], ast.Compare) and isinstance(t.values[2].ops[0], ast.NotIn) and
            ast.unparse(t.values[2].left) == "v" and isinstance(t.values[2].comparators[0], ast.Tuple)):
        raise ShapeChanged("%s: mincing condition changed: %s" % (REL, ast.unparse(t)))
    excl = [const_str(e, "mincing exclusion") for e in t.values[2].comparators[0].elts]
    stmts = [s for s in cond.body]
    if len(stmts) != 1 or not (isinstance(stmts[0], ast.Expr) and isinstance(stmts[0].value, ast.Call) and
                               ast.unparse(stmts[0].value.func) == "setattr" and len(stmts[0].value.args) == 3 and
                               ast.unparse(stmts[0].value.args[0]) == "node" and ast.unparse(stmts[0].value.args[1]) == "field"):
        raise ShapeChanged("%s: mincing assignment changed" % REL)
    e = stmts[0].value.args[2]
    # chr(ord(v[0]) - ord(c1) + ord(c2)) + v[1:]
    ok = (isinstance(e, ast.BinOp) and isinstance(e.op, ast.Add) and ast.unparse(e.right) == "v[1:]" and
          isinstance(e.left, ast.Call) and ast.unparse(e.left.func) == "chr" and len(e.left.args) == 1)
    if ok:
        inner_e = e.left.args[0]
        ok = (isinstance(inner_e, ast.BinOp) and isinstance(inner_e.op, ast.Add) and isinstance(inner_e.left, ast.BinOp) and
              isinstance(inner_e.left.op, ast.Sub) and ast.unparse(inner_e.left.left) == "ord(v[0])" and
              isinstance(inner_e.left.right, ast.Call) and ast.unparse(inner_e.left.right.func) == "ord" and
              isinstance(inner_e.right, ast.Call) and ast.unparse(inner_e.right.func) == "ord")
    if not ok:
        raise ShapeChanged("%s: mincing expression is `%s`" % (REL, ast.unparse(e)))
    c1 = const_str(inner_e.left.right.args[0], "mince base")
    c2 = const_str(inner_e.right.args[0], "mince target")
    if len(c1) != 1 or len(c2) != 1:
        raise ShapeChanged("%s: mince bases are not single characters" % REL)
    return {"exclusions": excl, "from": ord(c1), "to": ord(c2)}


def translate(repo):
    x = extract(repo)
    out = HEADER % ("translator/valid_keywords.py", REL + " and keyword.kwlist of the running interpreter")
    out += "Definition kwlist : list (list N) := [%s].\n" % "; ".join(coq_text(k) for k in keyword.kwlist)
    out += "Definition softkwlist : list (list N) := [%s].\n" % "; ".join(coq_text(k) for k in keyword.softkwlist)
    out += "Definition mince_exclusions : list (list N) := [%s].\n" % "; ".join(coq_text(k) for k in x["exclusions"])
    out += "Definition mince_from : N := %d%%N.\nDefinition mince_to : N := %d%%N.\n" % (x["from"], x["to"])
    return {"Gen/Keywords.v": out}
