"""T1/T2 for C14: keyword.kwlist as seen by the running interpreter, and the
keyword-mincing expression of hy/compat.py:rewriting_unparse -> coq/Gen/Keywords.v

Accepted shape (anything else: ShapeChanged):
    rewriting_unparse: ast_obj = NegativeConstants().visit(copy.deepcopy(ast_obj)); for node in ast.walk:
      skip `type(node) is ast.Constant`; for field in node._fields: v = getattr(node, field, None);
      if type(v) is str: setattr(node, field, mince(v))
      [elif type(v) is list and all(type(x) is str for x in v): setattr(node, field, [mince(x) for x in v])]
      return true_unparse(ast_obj)
    mince(v): if keyword.iskeyword(v) and v not in (<string literals>): return chr(ord(v[0]) - ord(<c1>) + ord(<c2>)) + v[1:]; return v
    NegativeConstants(ast.NodeTransformer).visit_Constant: v = node.value;
      if type(v) in (<int, float[, complex]>) and math.copysign(1, v) < 0: return UnaryOp(USub, Constant(-v)) (locations copied); return node
"""
import ast
import keyword

from translator.common import *  # noqa

REL = "hy/compat.py"


def _u(n):
    return ast.unparse(n)


def extract(repo):
    tree, _ = parse_py(repo, REL)
    ifs = [n for n in tree.body if isinstance(n, ast.If)]
    guard = [n for n in ifs if "ast.unparse(ast.parse(" in _u(n.test)]
    if len(guard) != 1:
        raise ShapeChanged("%s: the conditional installation of rewriting_unparse was not found" % REL)
    g = guard[0]
    if _u(g.test) != "'def' in ast.unparse(ast.parse('𝕕𝕖𝕗 = 1'))":
        raise ShapeChanged("%s: installation test is `%s`" % (REL, _u(g.test)))
    fns = {n.name: n for n in g.body if isinstance(n, ast.FunctionDef)}
    classes = {n.name: n for n in g.body if isinstance(n, ast.ClassDef)}
    if "rewriting_unparse" not in fns or "mince" not in fns or "NegativeConstants" not in classes:
        raise ShapeChanged("%s: expected rewriting_unparse, mince and NegativeConstants in the guarded block" % REL)
    if "ast.unparse = rewriting_unparse" not in [_u(n) for n in g.body]:
        raise ShapeChanged("%s: ast.unparse is not replaced by rewriting_unparse" % REL)
    # ---- rewriting_unparse: transform negative constants on a deep copy, walk, rewrite str and list-of-str fields
    body = body_without_docstring(fns["rewriting_unparse"])
    if len(body) != 3 or _u(body[0]) != "ast_obj = NegativeConstants().visit(copy.deepcopy(ast_obj))" or \
            _u(body[2]) != "return true_unparse(ast_obj)" or not isinstance(body[1], ast.For):
        raise ShapeChanged("%s: rewriting_unparse is not NegativeConstants-on-a-copy / walk / return true_unparse" % REL)
    loop = body[1]
    if _u(loop.iter) != "ast.walk(ast_obj)" or len(loop.body) != 2:
        raise ShapeChanged("%s: outer loop of rewriting_unparse changed" % REL)
    skip, inner = loop.body
    if not (isinstance(skip, ast.If) and _u(skip.test) == "type(node) is ast.Constant" and
            len(skip.body) == 1 and isinstance(skip.body[0], ast.Continue) and not skip.orelse):
        raise ShapeChanged("%s: the `skip Constant nodes` test changed" % REL)
    if not (isinstance(inner, ast.For) and _u(inner.iter) == "node._fields" and len(inner.body) == 2):
        raise ShapeChanged("%s: inner loop of rewriting_unparse changed" % REL)
    assign, cond = inner.body
    if _u(assign) != "v = getattr(node, field, None)" or not isinstance(cond, ast.If):
        raise ShapeChanged("%s: field access in rewriting_unparse changed" % REL)
    if _u(cond.test) != "type(v) is str" or [_u(x) for x in cond.body] != ["setattr(node, field, mince(v))"]:
        raise ShapeChanged("%s: the str-field branch of rewriting_unparse changed" % REL)
    lists = False
    if cond.orelse:
        if not (len(cond.orelse) == 1 and isinstance(cond.orelse[0], ast.If) and not cond.orelse[0].orelse and
                _u(cond.orelse[0].test) == "type(v) is list and all((type(x) is str for x in v))" and
                [_u(x) for x in cond.orelse[0].body] == ["setattr(node, field, [mince(x) for x in v])"]):
            raise ShapeChanged("%s: the list-field branch of rewriting_unparse changed: %s" % (REL, _u(cond.orelse[0])[:120]))
        lists = True
    # ---- mince
    mb = body_without_docstring(fns["mince"])
    if len(mb) != 2 or not isinstance(mb[0], ast.If) or mb[0].orelse or _u(mb[1]) != "return v" or len(mb[0].body) != 1 \
            or not isinstance(mb[0].body[0], ast.Return):
        raise ShapeChanged("%s: mince is not `if <cond>: return <minced>; return v`" % REL)
    t = mb[0].test
    if not (isinstance(t, ast.BoolOp) and isinstance(t.op, ast.And) and len(t.values) == 2 and
            _u(t.values[0]) == "keyword.iskeyword(v)" and isinstance(t.values[1], ast.Compare) and
            isinstance(t.values[1].ops[0], ast.NotIn) and _u(t.values[1].left) == "v" and
            isinstance(t.values[1].comparators[0], ast.Tuple)):
        raise ShapeChanged("%s: mincing condition changed: %s" % (REL, _u(t)))
    excl = [const_str(e, "mincing exclusion") for e in t.values[1].comparators[0].elts]
    e = mb[0].body[0].value
    ok = (isinstance(e, ast.BinOp) and isinstance(e.op, ast.Add) and _u(e.right) == "v[1:]" and
          isinstance(e.left, ast.Call) and _u(e.left.func) == "chr" and len(e.left.args) == 1)
    if ok:
        inner_e = e.left.args[0]
        ok = (isinstance(inner_e, ast.BinOp) and isinstance(inner_e.op, ast.Add) and isinstance(inner_e.left, ast.BinOp) and
              isinstance(inner_e.left.op, ast.Sub) and _u(inner_e.left.left) == "ord(v[0])" and
              isinstance(inner_e.left.right, ast.Call) and _u(inner_e.left.right.func) == "ord" and
              isinstance(inner_e.right, ast.Call) and _u(inner_e.right.func) == "ord")
    if not ok:
        raise ShapeChanged("%s: mincing expression is `%s`" % (REL, _u(e)))
    c1 = const_str(inner_e.left.right.args[0], "mince base")
    c2 = const_str(inner_e.right.args[0], "mince target")
    if len(c1) != 1 or len(c2) != 1:
        raise ShapeChanged("%s: mince bases are not single characters" % REL)
    # ---- NegativeConstants.visit_Constant
    cls = classes["NegativeConstants"]
    if [_u(b) for b in cls.bases] != ["ast.NodeTransformer"]:
        raise ShapeChanged("%s: NegativeConstants is not an ast.NodeTransformer" % REL)
    meths = [n for n in cls.body if isinstance(n, ast.FunctionDef)]
    if [m.name for m in meths] != ["visit_Constant"]:
        raise ShapeChanged("%s: NegativeConstants has other methods than visit_Constant" % REL)
    vb = body_without_docstring(meths[0])
    want_ret = "return ast.copy_location(ast.UnaryOp(ast.USub(), ast.copy_location(ast.Constant(-v), node)), node)"
    if not (len(vb) == 3 and _u(vb[0]) == "v = node.value" and isinstance(vb[1], ast.If) and not vb[1].orelse and
            [_u(x) for x in vb[1].body] == [want_ret] and _u(vb[2]) == "return node"):
        raise ShapeChanged("%s: NegativeConstants.visit_Constant changed" % REL)
    ct = vb[1].test
    if not (isinstance(ct, ast.BoolOp) and isinstance(ct.op, ast.And) and len(ct.values) == 2 and
            isinstance(ct.values[0], ast.Compare) and _u(ct.values[0].left) == "type(v)" and isinstance(ct.values[0].ops[0], ast.In) and
            isinstance(ct.values[0].comparators[0], ast.Tuple) and _u(ct.values[1]) == "math.copysign(1, v) < 0"):
        raise ShapeChanged("%s: the test of NegativeConstants.visit_Constant changed: %s" % (REL, _u(ct)))
    types_ = [_u(x) for x in ct.values[0].comparators[0].elts]
    for ty in types_:
        if ty not in ("int", "float", "complex"):
            raise ShapeChanged("%s: unexpected constant type %s in NegativeConstants" % (REL, ty))
    return {"exclusions": excl, "from": ord(c1), "to": ord(c2), "lists": lists, "neg_types": types_}


def translate(repo):
    x = extract(repo)
    out = HEADER % ("translator/valid_keywords.py", REL + " and keyword.kwlist of the running interpreter")
    out += "Definition kwlist : list (list N) := [%s].\n" % "; ".join(coq_text(k) for k in keyword.kwlist)
    out += "Definition softkwlist : list (list N) := [%s].\n" % "; ".join(coq_text(k) for k in keyword.softkwlist)
    out += "Definition mince_exclusions : list (list N) := [%s].\n" % "; ".join(coq_text(k) for k in x["exclusions"])
    out += "Definition mince_from : N := %d%%N.\nDefinition mince_to : N := %d%%N.\n" % (x["from"], x["to"])
    out += "(* rewriting_unparse also rewrites fields that hold a list of strings *)\n"
    out += "Definition list_fields_minced : bool := %s.\n" % ("true" if x["lists"] else "false")
    out += "(* NegativeConstants: numeric kinds whose negative constants are re-expressed as -(constant) *)\n"
    out += "Definition neg_int : bool := %s.\nDefinition neg_float : bool := %s.\nDefinition neg_complex : bool := %s.\n" % tuple(
        "true" if t in x["neg_types"] else "false" for t in ("int", "float", "complex"))
    return {"Gen/Keywords.v": out}
