"""T1: constants of the statement-lifting compiler -> coq/Gen/CompilerTables.v"""
import ast

from translator.common import *  # noqa


def cstr(s):
    return '"' + s.replace('"', '""') + '"'


def translate(repo):
    rel = "hy/core/result_macros.py"
    tree, _ = parse_py(repo, rel)
    fn = top_func(tree, "compile_logical_or_and_and_operator", rel)
    table = None
    for st in fn.body:
        if isinstance(st, ast.Assign) and len(st.targets) == 1 and getattr(st.targets[0], "id", None) == "ops":
            d = st.value
            if not isinstance(d, ast.Dict):
                raise ShapeChanged("%s: ops is not a dict display" % rel)
            table = []
            for k, v in zip(d.keys, d.values):
                if not (isinstance(v, ast.Tuple) and len(v.elts) == 2 and isinstance(v.elts[0], ast.Attribute)
                        and isinstance(v.elts[0].value, ast.Name) and v.elts[0].value.id == "ast"
                        and isinstance(v.elts[1], ast.Constant)):
                    raise ShapeChanged("%s: ops entry is not (ast.<Op>, <constant>)" % rel)
                table.append((const_str(k, "ops key"), v.elts[0].attr, repr(v.elts[1].value)))
    if table is None:
        raise ShapeChanged("%s: no `ops = {...}` in compile_logical_or_and_and_operator" % rel)
    rel2 = "hy/compiler.py"
    tree2, _ = parse_py(repo, rel2)
    gav = top_func(tree2, "get_anon_var", rel2, cls="HyASTCompiler")
    args = gav.args
    if [a.arg for a in args.args] != ["self", "base", "name"] or len(args.defaults) != 2:
        raise ShapeChanged("%s: get_anon_var signature" % rel2)
    base_default = const_str(args.defaults[0], "get_anon_var base default")
    body = body_without_docstring(gav)
    ret = body[-1]
    if not (isinstance(ret, ast.Return) and isinstance(ret.value, ast.JoinedStr)):
        raise ShapeChanged("%s: get_anon_var does not return an f-string" % rel2)
    pieces = []
    for v in ret.value.values:
        if isinstance(v, ast.Constant):
            pieces.append(v.value)
        elif isinstance(v, ast.FormattedValue) and v.conversion == -1 and v.format_spec is None:
            pieces.append("{" + ast.unparse(v.value) + "}")
        else:
            raise ShapeChanged("%s: get_anon_var f-string piece" % rel2)
    first = body[0]
    inc_first = (isinstance(first, ast.AugAssign) and isinstance(first.op, ast.Add)
                 and ast.unparse(first.target) == "self.anon_var_count"
                 and isinstance(first.value, ast.Constant) and first.value.value == 1)
    out = HEADER % ("translator/compiler_tables.py", rel + ", " + rel2)
    out += "From Coq Require Import String.\nOpen Scope string_scope.\n"
    out += "Definition boolop_table : list (string * (string * string)) := [%s].\n" % "; ".join(
        "(%s, (%s, %s))" % (cstr(a), cstr(b), cstr(c)) for a, b, c in table)
    out += "Definition anon_var_format : list string := [%s].\n" % "; ".join(cstr(p) for p in pieces)
    out += "Definition anon_var_default_base : string := %s.\n" % cstr(base_default)
    out += "Definition anon_var_increments_first : bool := %s.\n" % ("true" if inc_first else "false")
    return {"Gen/CompilerTables.v": out}
