"""T1 (C22 C23 C26): the literal tables of the reader -> coq/Gen/LitTables.v

From hy/reader/hy_reader.py: HyReader.NON_IDENT; the prefix alphabet and the
raw-prefix set of prefixed_string; the escape whitelist of quote_closing (common
part and the part allowed only outside bytes literals) with the two characters
quote_closing compares against; the CR/CRLF replacement chain of
read_chars_until; the f-string delimiter test, the two peeked newline characters
and the two bracket characters of bracketed_string; the ("j", "J") tuple and the
":#" string of as_identifier.
From hy/models.py: the separator replacement chain of strip_digit_separators;
the three probe strings of check_inf_nan_cap.
From hy/reader/reader.py: the character class of _whitespace.

Fail-closed: every table is located by the exact expression shape that holds it
(found exactly once in the named function); anything else raises ShapeChanged.
The rest of each function is not constrained here -- its behaviour is tied by the
model-vs-implementation correspondence runs.
"""
import ast
import re

from lib.vlib import ShapeChanged
from translator.common import HEADER, body_without_docstring, coq_text, parse_py, top_assign, top_func

HR = "hy/reader/hy_reader.py"
MO = "hy/models.py"
RD = "hy/reader/reader.py"


def _cstr(n):
    return isinstance(n, ast.Constant) and isinstance(n.value, str)


def _one(found, what):
    if len(found) != 1:
        raise ShapeChanged("%s: expected exactly one match, found %d" % (what, len(found)))
    return found[0]


def _walk(node):
    return list(ast.walk(node))


def _set_of_const(n):
    """set("...") -> the string"""
    if isinstance(n, ast.Call) and isinstance(n.func, ast.Name) and n.func.id == "set" and len(n.args) == 1 \
            and not n.keywords and _cstr(n.args[0]):
        return n.args[0].value
    return None


def _replace_chain(n):
    """X.replace(a, b).replace(c, d)... -> (X, [(a, b), (c, d), ...]) or None"""
    pairs = []
    while isinstance(n, ast.Call) and isinstance(n.func, ast.Attribute) and n.func.attr == "replace" \
            and len(n.args) == 2 and not n.keywords and _cstr(n.args[0]) and _cstr(n.args[1]):
        pairs.append((n.args[0].value, n.args[1].value))
        n = n.func.value
    if not pairs:
        return None
    return n, list(reversed(pairs))


def _nested_func(fn, name, what):
    return _one([x for x in _walk(fn) if isinstance(x, ast.FunctionDef) and x.name == name], what + ": def " + name)


def non_ident(tree):
    for node in tree.body:
        if isinstance(node, ast.ClassDef) and node.name == "HyReader":
            for st in node.body:
                if isinstance(st, ast.Assign) and len(st.targets) == 1 and isinstance(st.targets[0], ast.Name) \
                        and st.targets[0].id == "NON_IDENT":
                    s = _set_of_const(st.value)
                    if s is None:
                        raise ShapeChanged("%s:%d NON_IDENT is not set(<string literal>)" % (HR, st.lineno))
                    return s
    raise ShapeChanged(HR + ": HyReader.NON_IDENT not found")


def prefixed_string_tables(tree):
    fn = top_func(tree, "prefixed_string", HR, cls="HyReader")
    what = HR + ":prefixed_string"
    # prefix_chars < set("bfrt")
    alpha = _one([_set_of_const(x.comparators[0]) for x in _walk(fn)
                  if isinstance(x, ast.Compare) and len(x.ops) == 1 and isinstance(x.ops[0], ast.Lt)
                  and _set_of_const(x.comparators[0]) is not None], what + ": <name> < set(<literal>)")
    # len(prefix_chars - set("r")) > 1
    rawsets = []
    for x in _walk(fn):
        if isinstance(x, ast.Compare) and len(x.ops) == 1 and isinstance(x.ops[0], ast.Gt) \
                and isinstance(x.comparators[0], ast.Constant) and x.comparators[0].value == 1 \
                and isinstance(x.left, ast.Call) and isinstance(x.left.func, ast.Name) and x.left.func.id == "len" \
                and len(x.left.args) == 1 and isinstance(x.left.args[0], ast.BinOp) \
                and isinstance(x.left.args[0].op, ast.Sub) and _set_of_const(x.left.args[0].right) is not None:
            rawsets.append(_set_of_const(x.left.args[0].right))
    raw = _one(rawsets, what + ": len(<name> - set(<literal>)) > 1")
    # the closure is looked up by name: inside prefixed_string, or (if it was moved into a helper) anywhere in HyReader
    try:
        qc = _nested_func(fn, "quote_closing", what)
    except ShapeChanged:
        cls = _one([n for n in tree.body if isinstance(n, ast.ClassDef) and n.name == "HyReader"], HR + ": class HyReader")
        qc = _nested_func(cls, "quote_closing", HR + ":HyReader")
    # c not in (COMMON + ("" if "b" in prefix else NONBYTES))
    wl = []
    for x in _walk(qc):
        if isinstance(x, ast.Compare) and len(x.ops) == 1 and isinstance(x.ops[0], ast.NotIn) \
                and isinstance(x.comparators[0], ast.BinOp) and isinstance(x.comparators[0].op, ast.Add):
            b = x.comparators[0]
            if _cstr(b.left) and isinstance(b.right, ast.IfExp) and _cstr(b.right.body) and _cstr(b.right.orelse) \
                    and isinstance(b.right.test, ast.Compare) and len(b.right.test.ops) == 1 \
                    and isinstance(b.right.test.ops[0], ast.In) and _cstr(b.right.test.left) \
                    and isinstance(b.right.test.comparators[0], ast.Name):
                wl.append((b.left.value, b.right.test.left.value, b.right.body.value, b.right.orelse.value))
    common, bflag, ifb, ifnotb = _one(wl, what + ": c not in (<lit> + (<lit> if <lit> in prefix else <lit>))")
    if bflag != "b":
        raise ShapeChanged(what + ": the whitelist switches on %r in prefix, expected 'b'" % bflag)
    # the raw test:  "r" not in prefix
    rflag = [x.left.value for x in _walk(qc)
             if isinstance(x, ast.Compare) and len(x.ops) == 1 and isinstance(x.ops[0], ast.NotIn)
             and _cstr(x.left) and isinstance(x.comparators[0], ast.Name)]
    if rflag != ["r"]:
        raise ShapeChanged(what + ": expected exactly one `\"r\" not in prefix` in quote_closing, got %r" % rflag)
    # characters compared with ==, in source order: backslash, then the quote
    eqs = [x.comparators[0].value for x in _walk(qc)
           if isinstance(x, ast.Compare) and len(x.ops) == 1 and isinstance(x.ops[0], ast.Eq)
           and isinstance(x.left, ast.Name) and _cstr(x.comparators[0])]
    eqs.sort()
    if len(eqs) != 2 or any(len(e) != 1 for e in eqs):
        raise ShapeChanged(what + ": quote_closing should compare c with two one-character literals, got %r" % eqs)
    return alpha, raw, common, ifb, ifnotb, eqs


def read_chars_until_tables(tree):
    fn = top_func(tree, "read_chars_until", HR, cls="HyReader")
    chains = [c for c in (_replace_chain(x) for x in _walk(fn)) if c is not None]
    # the outermost chain contains the inner ones as sub-chains: keep the longest
    if not chains:
        raise ShapeChanged(HR + ":read_chars_until: no .replace chain")
    chains.sort(key=lambda c: -len(c[1]))
    base, pairs = chains[0]
    if not (isinstance(base, ast.Call) and isinstance(base.func, ast.Attribute) and base.func.attr == "join"):
        raise ShapeChanged(HR + ":read_chars_until: the replace chain is not applied to ''.join(s)")
    for other in chains[1:]:
        if other[1] != pairs[:len(other[1])]:
            raise ShapeChanged(HR + ":read_chars_until: more than one replace chain")
    return pairs


def bracketed_string_tables(tree):
    fn = top_func(tree, "bracketed_string", HR, cls="HyReader")
    what = HR + ":bracketed_string"
    # delim == "f" or delim.startswith("f-")
    ftests = []
    for x in _walk(fn):
        if isinstance(x, ast.BoolOp) and isinstance(x.op, ast.Or) and len(x.values) == 2:
            a, b = x.values
            if isinstance(a, ast.Compare) and len(a.ops) == 1 and isinstance(a.ops[0], ast.Eq) \
                    and isinstance(a.left, ast.Name) and a.left.id == "delim" and _cstr(a.comparators[0]) \
                    and isinstance(b, ast.Call) and isinstance(b.func, ast.Attribute) and b.func.attr == "startswith" \
                    and isinstance(b.func.value, ast.Name) and b.func.value.id == "delim" and len(b.args) == 1 \
                    and _cstr(b.args[0]):
                ftests.append((a.comparators[0].value, b.args[0].value))
    ftests = [t for t in ftests if t[0] != "t"]     # the t-string test is guarded by bracketed_templates (off by default)
    fexact, fprefix = _one(ftests, what + ": delim == <lit> or delim.startswith(<lit>)")
    # self.peek_and_getc(<lit>) calls at statement level of the function body, in order
    peeks = []
    for st in body_without_docstring(fn):
        if isinstance(st, ast.Expr) and isinstance(st.value, ast.Call) and isinstance(st.value.func, ast.Attribute) \
                and st.value.func.attr == "peek_and_getc" and len(st.value.args) == 1 and _cstr(st.value.args[0]):
            peeks.append(st.value.args[0].value)
    if len(peeks) != 2 or any(len(p) != 1 for p in peeks):
        raise ShapeChanged(what + ": expected two statement-level peek_and_getc(<char>) calls, got %r" % peeks)
    # the delimiter loop: c == "[" -> break ; c == "]" -> raise
    loop = _one([st for st in body_without_docstring(fn) if isinstance(st, ast.For)], what + ": one for loop")
    eqs = [x.comparators[0].value for x in _walk(loop)
           if isinstance(x, ast.Compare) and len(x.ops) == 1 and isinstance(x.ops[0], ast.Eq) and _cstr(x.comparators[0])]
    if len(eqs) != 2 or any(len(e) != 1 for e in eqs):
        raise ShapeChanged(what + ": delimiter loop should compare c with two characters, got %r" % eqs)
    dc = _nested_func(fn, "delim_closing", what)
    closer = [x.comparators[0].value for x in _walk(dc)
              if isinstance(x, ast.Compare) and len(x.ops) == 1 and isinstance(x.ops[0], ast.Eq)
              and isinstance(x.left, ast.Name) and x.left.id == "c" and _cstr(x.comparators[0])]
    closer = _one(closer, what + ": delim_closing compares c with one literal")
    # the value returned on closing: len(delim) + K
    rets = [x.value for x in _walk(dc) if isinstance(x, ast.Return) and isinstance(x.value, ast.BinOp)]
    r = _one(rets, what + ": delim_closing has one `return len(delim) + <int>`")
    if not (isinstance(r.op, ast.Add) and isinstance(r.right, ast.Constant) and isinstance(r.right.value, int)
            and isinstance(r.left, ast.Call) and isinstance(r.left.func, ast.Name) and r.left.func.id == "len"):
        raise ShapeChanged(what + ": delim_closing return shape")
    # read_string_until(delim_closing, <prefix literal>, ...)
    calls = [x for x in _walk(fn) if isinstance(x, ast.Call) and isinstance(x.func, ast.Attribute)
             and x.func.attr == "read_string_until"]
    c = _one(calls, what + ": one read_string_until call")
    if len(c.args) < 2 or not _cstr(c.args[1]):
        raise ShapeChanged(what + ": read_string_until prefix argument is not a literal")
    return fexact, fprefix, peeks, eqs, closer, r.right.value, c.args[1].value


def as_identifier_tables(tree):
    fn = top_func(tree, "as_identifier", HR)
    what = HR + ":as_identifier"
    tups = []
    for x in _walk(fn):
        if isinstance(x, ast.Compare) and len(x.ops) == 1 and isinstance(x.ops[0], ast.NotIn) \
                and isinstance(x.left, ast.Name) and x.left.id == "ident" and isinstance(x.comparators[0], ast.Tuple) \
                and all(_cstr(e) for e in x.comparators[0].elts):
            tups.append([e.value for e in x.comparators[0].elts])
    bare = _one(tups, what + ": ident not in (<literals>)")
    heads = []
    for x in _walk(fn):
        if isinstance(x, ast.Compare) and len(x.ops) == 1 and isinstance(x.ops[0], ast.In) \
                and isinstance(x.left, ast.Subscript) and isinstance(x.left.value, ast.Name) and x.left.value.id == "ident" \
                and isinstance(x.left.slice, ast.Constant) and x.left.slice.value == 0 and _cstr(x.comparators[0]):
            heads.append(x.comparators[0].value)
    head = _one(heads, what + ": ident[0] in <literal>")
    # the cascade order: the first three Try statements call Integer, Float, Complex
    order = []
    for st in _walk(fn):
        if isinstance(st, ast.Try) and len(st.body) == 1 and isinstance(st.body[0], ast.Return) \
                and isinstance(st.body[0].value, ast.Call) and isinstance(st.body[0].value.func, ast.Name):
            order.append((st.lineno, st.body[0].value.func.id))
    order = [n for _, n in sorted(order)]
    if order != ["Integer", "Float", "Complex"]:
        raise ShapeChanged(what + ": numeric cascade is %r, expected Integer, Float, Complex" % order)
    return bare, head


def models_tables(tree):
    fn = top_func(tree, "strip_digit_separators", MO)
    chains = [c for c in (_replace_chain(x) for x in _walk(fn)) if c is not None]
    if not chains:
        raise ShapeChanged(MO + ":strip_digit_separators: no .replace chain")
    chains.sort(key=lambda c: -len(c[1]))
    base, pairs = chains[0]
    if not (isinstance(base, ast.Subscript) and isinstance(base.slice, ast.Slice) and base.slice.upper is None
            and isinstance(base.slice.lower, ast.Constant) and base.slice.lower.value == 1):
        raise ShapeChanged(MO + ":strip_digit_separators: the chain is not applied to number[1:]")
    if any(b != "" or len(a) != 1 for a, b in pairs):
        raise ShapeChanged(MO + ":strip_digit_separators: a replacement is not <char> -> ''")
    seps = "".join(a for a, _ in pairs)
    fn = top_func(tree, "check_inf_nan_cap", MO)
    ins = []
    for x in _walk(fn):
        if isinstance(x, ast.Compare) and len(x.ops) == 1 and isinstance(x.ops[0], (ast.In, ast.NotIn)) and _cstr(x.left):
            ins.append((type(x.ops[0]).__name__, x.left.value))
    if [k for k, _ in ins] != ["In", "NotIn", "NotIn"]:
        raise ShapeChanged(MO + ":check_inf_nan_cap: expected `<lit> in`, `<lit> not in`, `<lit> not in`, got %r" % ins)
    return seps, [v for _, v in ins]


def whitespace_class(tree):
    v = top_assign(tree, "_whitespace", RD)
    if not (isinstance(v, ast.Call) and isinstance(v.func, ast.Attribute) and v.func.attr == "compile"
            and len(v.args) == 1 and _cstr(v.args[0]) and not v.keywords):
        raise ShapeChanged(RD + ": _whitespace is not re.compile(<literal>)")
    pat = v.args[0].value
    m = re.fullmatch(r"\[((?:[^\\\]\[^-]|\\[tnrfv])+)\]\+", pat)
    if not m:
        raise ShapeChanged(RD + ": _whitespace pattern %r is not a plain character class followed by +" % pat)
    esc = {"t": "\t", "n": "\n", "r": "\r", "f": "\f", "v": "\v"}
    out, body, i = [], m.group(1), 0
    while i < len(body):
        if body[i] == "\\":
            out.append(esc[body[i + 1]])
            i += 2
        else:
            out.append(body[i])
            i += 1
    return "".join(out)


def translate(repo):
    hr, _ = parse_py(repo, HR)
    mo, _ = parse_py(repo, MO)
    rd, _ = parse_py(repo, RD)
    ni = non_ident(hr)
    alpha, raw, common, ifb, ifnotb, qeqs = prefixed_string_tables(hr)
    nlpairs = read_chars_until_tables(hr)
    fexact, fprefix, peeks, deqs, closer, closing_extra, bprefix = bracketed_string_tables(hr)
    bare, head = as_identifier_tables(hr)
    seps, caps = models_tables(mo)
    ws = whitespace_class(rd)

    def lst(xs):
        return "[" + "; ".join(coq_text(x) for x in xs) + "]"
    out = HEADER % ("translator/lit_tables.py", "%s, %s, %s" % (HR, MO, RD))
    out += "(* HyReader.NON_IDENT (sorted) *)\n"
    out += "Definition non_ident : list N := %s.\n" % coq_text("".join(sorted(set(ni))))
    out += "(* prefixed_string: prefix_chars < set(ALPHA); len(prefix_chars - set(RAW)) > 1 *)\n"
    out += "Definition str_prefix_alphabet : list N := %s.\n" % coq_text(alpha)
    out += "Definition str_prefix_rawset : list N := %s.\n" % coq_text(raw)
    out += "(* quote_closing: c not in (COMMON + (IFB if \"b\" in prefix else IFNOTB)); characters compared with == (sorted) *)\n"
    out += "Definition str_escape_common : list N := %s.\n" % coq_text(common)
    out += "Definition str_escape_ifbytes : list N := %s.\n" % coq_text(ifb)
    out += "Definition str_escape_nonbytes : list N := %s.\n" % coq_text(ifnotb)
    out += "Definition str_quote_closing_chars : list N := %s.\n" % coq_text("".join(qeqs))
    out += "(* read_chars_until: \"\".join(s).replace(a, b)... in application order *)\n"
    out += "Definition nl_replacements : list (list N * list N) := [%s].\n" % "; ".join(
        "(%s, %s)" % (coq_text(a), coq_text(b)) for a, b in nlpairs)
    out += "(* bracketed_string *)\n"
    out += "Definition bracket_f_exact : list N := %s.\n" % coq_text(fexact)
    out += "Definition bracket_f_prefix : list N := %s.\n" % coq_text(fprefix)
    out += "Definition bracket_peeked_newlines : list N := %s.\n" % coq_text("".join(peeks))
    out += "Definition bracket_delim_loop_chars : list N := %s.\n" % coq_text("".join(deqs))
    out += "Definition bracket_closer_char : list N := %s.\n" % coq_text(closer)
    out += "Definition bracket_closing_extra : nat := %d.\n" % closing_extra
    out += "Definition bracket_read_prefix : list N := %s.\n" % coq_text(bprefix)
    out += "(* as_identifier *)\n"
    out += "Definition complex_bare_excluded : list (list N) := %s.\n" % lst(bare)
    out += "Definition illegal_symbol_heads : list N := %s.\n" % coq_text(head)
    out += "(* models.py: strip_digit_separators, check_inf_nan_cap *)\n"
    out += "Definition digit_separators : list N := %s.\n" % coq_text(seps)
    out += "Definition cap_probes : list (list N) := %s.\n" % lst(caps)
    out += "(* reader.py: _whitespace character class *)\n"
    out += "Definition ws_chars : list N := %s.\n" % coq_text(ws)
    return {"Gen/LitTables.v": out}
