"""T1/T2: hy/models.py (as_model, recwrap, _dict_wrapper, the _wrappers registry) ->
coq/Gen/AsModelShape.v (definitions) + coq/Gen/AsModelObl.v (obligations).

Fail-closed: as_model's statements, the two bracketing wrappers and every
registration `_wrappers[T] = W` are recognised structurally (Python `ast`); anything
else raises ShapeChanged.  The registry is emitted in source order as
(type, wrapper) pairs; the brackets as `bracket` terms; the checks of as_model as
a list of `as_model_step`.  Theorems are proved over Quote/AsModel.v's
model_wrappers / model_*_bracket / model_as_model_steps; the obligations say the
regenerated terms are those."""
import ast
import sys

from translator.common import parse_py, top_func, body_without_docstring
from lib.vlib import ShapeChanged

REL = "hy/models.py"

TYPES = {"str": "TStr", "bytes": "TBytes", "bool": "TBool", "int": "TInt", "float": "TFloat", "complex": "TComplex",
         "list": "TList", "dict": "TDict", "set": "TSet", "tuple": "TTuple"}
CLASSES = {"String": "CStr", "Bytes": "CBytes", "Integer": "CInt", "Float": "CFloat", "Complex": "CCpx", "Symbol": "CSym",
           "Keyword": "CKw", "Expression": "CExpr", "List": "CList", "Tuple": "CTuple", "Set": "CSet", "Dict": "CDict",
           "FString": "CFString", "FComponent": "CFComp"}
GUARDED_314 = {"Interpolation", "Template"}


def norm(src):
    """dump of the statement(s) written in src"""
    return [ast.dump(s) for s in ast.parse(src).body]


BOOL_LAMBDA = ast.dump(ast.parse('lambda x: Symbol("True") if x else Symbol("False")', mode="eval").body)
NONE_LAMBDA = ast.dump(ast.parse('lambda _: Symbol("None")', mode="eval").body)
FSTRING_LAMBDA = ast.dump(ast.parse(
    "lambda fstr: FString((as_model(x) for x in fstr), brackets=fstr.brackets, is_tstring=fstr.is_tstring)",
    mode="eval").body)

AS_MODEL_STEPS = [
    ("StRaiseIfSeen", 'if id(x) in _seen:\n    raise HyWrapperError("Self-referential structure detected in {!r}".format(x))'),
    ("StDispatchExactType", "new = _wrappers.get(type(x), lambda y: y)(x)"),
    ("StRaiseIfNotObject", 'if not isinstance(new, Object):\n    raise HyWrapperError("Don\'t know how to wrap {!r}: {!r}".format(type(x), x))'),
    ("StReplaceIfObject", "if isinstance(x, Object):\n    new = new.replace(x, recursive=False)"),
    ("StReturn", "return new"),
]


def bracket_of(stmts, arg, call_dump, where):
    """[_seen.add(id(arg)); try: return <call> finally: _seen.remove(id(arg))] -> BAddTryFinallyRemove"""
    want_add = norm("_seen.add(id(%s))" % arg)[0]
    want_rem = norm("_seen.remove(id(%s))" % arg)[0]
    if len(stmts) != 2 or ast.dump(stmts[0]) != want_add:
        raise ShapeChanged("%s: does not start with _seen.add(id(%s))" % (where, arg))
    t = stmts[1]
    if not isinstance(t, ast.Try) or t.handlers or t.orelse or len(t.finalbody) != 1 or ast.dump(t.finalbody[0]) != want_rem:
        raise ShapeChanged("%s: the promotion is not bracketed by try/finally: _seen.remove(id(%s))" % (where, arg))
    if len(t.body) != 1 or not isinstance(t.body[0], ast.Return) or ast.dump(t.body[0].value) != call_dump:
        raise ShapeChanged("%s: unexpected body of the try" % where)
    return "BAddTryFinallyRemove"


def translate(repo):
    tree, _ = parse_py(repo, REL)
    # --- module-level state
    inits = {}
    for node in tree.body:
        if isinstance(node, ast.Assign) and len(node.targets) == 1 and isinstance(node.targets[0], ast.Name) \
                and node.targets[0].id in ("_wrappers", "_seen"):
            if node.targets[0].id in inits:
                raise ShapeChanged("%s:%d: %s assigned twice" % (REL, node.lineno, node.targets[0].id))
            inits[node.targets[0].id] = ast.dump(node.value)
    if inits.get("_wrappers") != ast.dump(ast.parse("{}", mode="eval").body):
        raise ShapeChanged("%s: expected _wrappers = {}" % REL)
    if inits.get("_seen") != ast.dump(ast.parse("set()", mode="eval").body):
        raise ShapeChanged("%s: expected _seen = set()" % REL)
    # --- as_model
    fn = top_func(tree, "as_model", REL)
    if [a.arg for a in fn.args.args] != ["x"] or fn.args.vararg or fn.args.kwarg or fn.args.kwonlyargs or fn.decorator_list:
        raise ShapeChanged("%s:%d: as_model signature changed" % (REL, fn.lineno))
    body = body_without_docstring(fn)
    if len(body) != len(AS_MODEL_STEPS):
        raise ShapeChanged("%s:%d: as_model has %d statements, expected %d" % (REL, fn.lineno, len(body), len(AS_MODEL_STEPS)))
    steps = []
    for st, (name, src) in zip(body, AS_MODEL_STEPS):
        if ast.dump(st) != norm(src)[0]:
            raise ShapeChanged("%s:%d: as_model statement is not `%s`" % (REL, st.lineno, src.splitlines()[0]))
        steps.append(name)
    # --- recwrap
    rw = top_func(tree, "recwrap", REL)
    if [a.arg for a in rw.args.args] != ["f"] or len(rw.body) != 2 or not isinstance(rw.body[0], ast.FunctionDef) \
            or ast.dump(rw.body[1]) != norm("return lambda_to_return")[0] or rw.body[0].name != "lambda_to_return" \
            or [a.arg for a in rw.body[0].args.args] != ["l"]:
        raise ShapeChanged("%s:%d: recwrap shape changed" % (REL, rw.lineno))
    rec_br = bracket_of(rw.body[0].body, "l", ast.dump(ast.parse("f(as_model(x) for x in l)", mode="eval").body),
                        "%s:%d recwrap" % (REL, rw.lineno))
    # --- _dict_wrapper
    dw = top_func(tree, "_dict_wrapper", REL)
    if [a.arg for a in dw.args.args] != ["d"]:
        raise ShapeChanged("%s:%d: _dict_wrapper signature changed" % (REL, dw.lineno))
    dict_br = bracket_of(dw.body, "d", ast.dump(ast.parse("Dict(as_model(x) for x in sum(d.items(), ()))", mode="eval").body),
                         "%s:%d _dict_wrapper" % (REL, dw.lineno))
    # --- the registry, in source order
    entries = []
    fstring_seen = False

    def registration(node):
        return (isinstance(node, ast.Assign) and len(node.targets) == 1 and isinstance(node.targets[0], ast.Subscript)
                and isinstance(node.targets[0].value, ast.Name) and node.targets[0].value.id == "_wrappers")

    def wrapper_of(v, line):
        nonlocal fstring_seen
        if isinstance(v, ast.Name) and v.id in ("String", "Bytes", "Integer", "Float", "Complex"):
            return "WClass %s" % CLASSES[v.id]
        if isinstance(v, ast.Name) and v.id == "_dict_wrapper":
            return "WDict"
        if isinstance(v, ast.Call) and isinstance(v.func, ast.Name) and v.func.id == "recwrap" and len(v.args) == 1 \
                and not v.keywords and isinstance(v.args[0], ast.Name) and v.args[0].id in CLASSES:
            return "WRecwrap %s" % CLASSES[v.args[0].id]
        d = ast.dump(v)
        if d == BOOL_LAMBDA:
            return "WBool"
        if d == NONE_LAMBDA:
            return "WNone"
        if d == FSTRING_LAMBDA:
            fstring_seen = True
            return "WFString"
        raise ShapeChanged("%s:%d: unrecognised wrapper registered in _wrappers" % (REL, line))

    def key_of(k, line):
        if isinstance(k, ast.Name) and k.id in TYPES:
            return TYPES[k.id]
        if isinstance(k, ast.Name) and k.id in CLASSES:
            return "TModel %s" % CLASSES[k.id]
        if ast.dump(k) == ast.dump(ast.parse("type(None)", mode="eval").body):
            return "TNoneType"
        raise ShapeChanged("%s:%d: unrecognised type registered in _wrappers" % (REL, line))

    for node in tree.body:
        if registration(node):
            entries.append("(%s, %s)" % (key_of(node.targets[0].slice, node.lineno), wrapper_of(node.value, node.lineno)))
        elif isinstance(node, ast.If) and isinstance(node.test, ast.Name) and node.test.id == "PY3_14":
            for sub in node.body:
                if registration(sub):
                    k = sub.targets[0].slice
                    if not (isinstance(k, ast.Name) and k.id in GUARDED_314):
                        raise ShapeChanged("%s:%d: unexpected registration under PY3_14" % (REL, sub.lineno))
                elif not isinstance(sub, ast.ImportFrom):
                    raise ShapeChanged("%s:%d: unexpected statement under PY3_14" % (REL, sub.lineno))
            if node.orelse:
                raise ShapeChanged("%s:%d: else branch under PY3_14" % (REL, node.lineno))
        else:
            # any other statement touching the registry or the guard is unknown territory
            for sub in ast.walk(node):
                if isinstance(sub, ast.Name) and sub.id in ("_wrappers", "_seen") and isinstance(sub.ctx, (ast.Store, ast.Del)) \
                        and not (isinstance(node, ast.Assign) and node.targets[0] is sub):
                    raise ShapeChanged("%s:%d: %s rebound" % (REL, node.lineno, sub.id))
            if isinstance(node, (ast.FunctionDef, ast.ClassDef)) and node.name not in ("as_model", "recwrap", "_dict_wrapper"):
                for sub in ast.walk(node):
                    if isinstance(sub, ast.Name) and sub.id == "_seen":
                        raise ShapeChanged("%s:%d: _seen used in %s" % (REL, sub.lineno, node.name))
    if sys.version_info >= (3, 14):
        raise ShapeChanged("the running interpreter is >= 3.14: the Interpolation / Template wrappers are not modelled")
    if not fstring_seen:
        raise ShapeChanged("%s: no FString wrapper registered" % REL)
    hdr = "(* GENERATED by translator/asmodel_shape.py from %s -- do not edit; regenerated on every check run *)\n" % REL
    shape = hdr + "From HyV Require Import Base.Text Quote.Model Quote.AsModel.\n"
    shape += "Definition gen_wrappers : list (pytype * wrapper) :=\n  [" + ";\n   ".join(entries) + "].\n"
    shape += "Definition gen_as_model_steps : list as_model_step := [%s].\n" % "; ".join(steps)
    shape += "Definition gen_recwrap_bracket : bracket := %s.\n" % rec_br
    shape += "Definition gen_dict_bracket : bracket := %s.\n" % dict_br
    shape += "Definition gen_fstring_bracket : bracket := BNoGuard.\n"
    obl = hdr + "From HyV Require Import Base.Text Quote.Model Quote.AsModel Gen.AsModelShape.\n"
    obl += "Example gen_wrappers_ok : gen_wrappers = model_wrappers.\nProof. vm_compute. reflexivity. Qed.\n"
    obl += "Example gen_as_model_steps_ok : gen_as_model_steps = model_as_model_steps.\nProof. reflexivity. Qed.\n"
    obl += ("Example gen_brackets_ok : (gen_recwrap_bracket, gen_dict_bracket, gen_fstring_bracket)\n"
            "  = (model_recwrap_bracket, model_dict_bracket, model_fstring_bracket).\nProof. reflexivity. Qed.\n")
    return {"Gen/AsModelShape.v": shape, "Gen/AsModelObl.v": obl}
