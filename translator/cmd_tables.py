"""T1: the option table `defs` of hy/cmdline.py:cmdline_handler, the error
formats of its option loop and the option keys the handler consults
-> coq/Gen/CmdTables.v"""
import ast

from translator.common import *  # noqa

REL = "hy/cmdline.py"

ALLOWED_KEYS = {"name", "action", "dest", "terminate", "help"}
KNOWN_ACTIONS = {"store_true", "help", "version"}


def _opt(s):
    return "None" if s is None else "(Some %s)" % coq_text(s)


def read_defs(fn):
    """the `defs = [dict(...), ...]` statement -> list of (names, dest, terminate, action)"""
    cands = [n for n in fn.body if isinstance(n, ast.Assign) and len(n.targets) == 1
             and isinstance(n.targets[0], ast.Name) and n.targets[0].id == "defs"]
    if len(cands) != 1:
        raise ShapeChanged("%s: cmdline_handler: expected exactly one `defs = [...]`" % REL)
    val = cands[0].value
    if not isinstance(val, ast.List) or not val.elts:
        raise ShapeChanged("%s:%d: defs is not a non-empty list display" % (REL, val.lineno))
    out = []
    for e in val.elts:
        if not (isinstance(e, ast.Call) and isinstance(e.func, ast.Name) and e.func.id == "dict" and not e.args):
            raise ShapeChanged("%s:%d: defs entry is not dict(k=v, ...)" % (REL, e.lineno))
        kw = {}
        for k in e.keywords:
            if k.arg is None or k.arg not in ALLOWED_KEYS or k.arg in kw:
                raise ShapeChanged("%s:%d: unexpected key %r in a defs entry" % (REL, e.lineno, k.arg))
            kw[k.arg] = k.value
        if "name" not in kw or not isinstance(kw["name"], ast.List) or not kw["name"].elts:
            raise ShapeChanged("%s:%d: defs entry without a name list" % (REL, e.lineno))
        names = [const_str(x, "option name") for x in kw["name"].elts]
        for nm in names:
            if not nm.startswith("-") or nm in ("-", "--") or "=" in nm or (not nm.startswith("--") and len(nm) != 2):
                raise ShapeChanged("%s:%d: option name %r is neither -x nor --long" % (REL, e.lineno, nm))
        dest = const_str(kw["dest"], "dest") if "dest" in kw else None
        action = const_str(kw["action"], "action") if "action" in kw else None
        if action is not None and action not in KNOWN_ACTIONS:
            raise ShapeChanged("%s:%d: unknown action %r" % (REL, e.lineno, action))
        if (dest is None) == (action is None):
            raise ShapeChanged("%s:%d: an option must have exactly one of dest/action" % (REL, e.lineno))
        term = False
        if "terminate" in kw:
            # the loop tests `"terminate" in match`, i.e. presence of the key
            if not (isinstance(kw["terminate"], ast.Constant) and kw["terminate"].value is True):
                raise ShapeChanged("%s:%d: terminate= must be the literal True" % (REL, e.lineno))
            term = True
        out.append((names, dest, term, action))
    return out


def read_err_formats(fn):
    """`err` and the two messages raised by proc_opt"""
    err = [n for n in fn.body if isinstance(n, ast.FunctionDef) and n.name == "err"]
    proc = [n for n in fn.body if isinstance(n, ast.FunctionDef) and n.name == "proc_opt"]
    if len(err) != 1 or len(proc) != 1:
        raise ShapeChanged("%s: cmdline_handler: expected inner functions err and proc_opt" % REL)
    body = err[0].body
    ok = (len(body) == 1 and isinstance(body[0], ast.Raise) and isinstance(body[0].exc, ast.Call)
          and isinstance(body[0].exc.func, ast.Name) and body[0].exc.func.id == "HyArgError"
          and len(body[0].exc.args) == 1 and isinstance(body[0].exc.args[0], ast.BinOp)
          and isinstance(body[0].exc.args[0].op, ast.Add)
          and isinstance(body[0].exc.args[0].left, ast.Constant)
          and isinstance(body[0].exc.args[0].left.value, str)
          and ast.unparse(body[0].exc.args[0].right) == "fmt.format(*args)")
    if not ok:
        raise ShapeChanged("%s:%d: err() is not `raise HyArgError(<str> + fmt.format(*args))`" % (REL, err[0].lineno))
    prefix = body[0].exc.args[0].left.value
    calls = [c for c in ast.walk(proc[0]) if isinstance(c, ast.Call) and isinstance(c.func, ast.Name)
             and c.func.id == "err"]
    calls.sort(key=lambda c: (c.lineno, c.col_offset))
    if len(calls) != 2:
        raise ShapeChanged("%s: proc_opt: expected exactly two err(...) calls" % REL)
    fmts = []
    for c in calls:
        if not (len(c.args) == 2 and not c.keywords and isinstance(c.args[1], ast.Name) and c.args[1].id == "opt"):
            raise ShapeChanged("%s:%d: err call is not err(<format>, opt)" % (REL, c.lineno))
        f = const_str(c.args[0], "err format")
        if f.count("{}") != 1 or "{" in f.replace("{}", "") or "}" in f.replace("{}", ""):
            raise ShapeChanged("%s:%d: err format %r does not have exactly one {}" % (REL, c.lineno, f))
        fmts.append(f.split("{}"))
    # the first call must be the one guarded by `if not matches`
    first_guard = [n for n in proc[0].body if isinstance(n, ast.If) and ast.unparse(n.test) == "not matches"]
    if len(first_guard) != 1 or calls[0] not in list(ast.walk(first_guard[0])):
        raise ShapeChanged("%s: proc_opt: the first err call is not under `if not matches`" % REL)
    return prefix, fmts[0], fmts[1]


def read_keys_used(fn):
    """every literal key with which the handler (outside proc_opt) consults `options`"""
    keys = []
    for stmt in fn.body:
        if isinstance(stmt, ast.FunctionDef):
            continue
        for n in ast.walk(stmt):
            if isinstance(n, ast.Compare) and len(n.ops) == 1 and isinstance(n.ops[0], (ast.In, ast.NotIn)) \
                    and isinstance(n.comparators[0], ast.Name) and n.comparators[0].id == "options":
                keys.append(const_str(n.left, "key tested in options"))
            elif isinstance(n, ast.Subscript) and isinstance(n.value, ast.Name) and n.value.id == "options":
                keys.append(const_str(n.slice, "options[...] key"))
            elif isinstance(n, ast.Call) and isinstance(n.func, ast.Attribute) and isinstance(n.func.value, ast.Name) \
                    and n.func.value.id == "options":
                if n.func.attr != "get" or not n.args:
                    raise ShapeChanged("%s:%d: options.%s(...) is not a lookup I know" % (REL, n.lineno, n.func.attr))
                keys.append(const_str(n.args[0], "options.get key"))
    seen = []
    for k in keys:
        if k not in seen:
            seen.append(k)
    if not seen:
        raise ShapeChanged("%s: cmdline_handler consults no option key" % REL)
    return seen


def translate(repo):
    tree, _ = parse_py(repo, REL)
    fn = top_func(tree, "cmdline_handler", REL)
    if [a.arg for a in fn.args.args] != ["argv"]:
        raise ShapeChanged("%s: cmdline_handler signature changed" % REL)
    defs = read_defs(fn)
    prefix, f_unrec, f_exp = read_err_formats(fn)
    keys = read_keys_used(fn)
    out = HEADER % ("translator/cmd_tables.py", REL)
    out += "(* one entry per dict(...) of `defs`: (names, dest, terminate-key-present, action) *)\n"
    out += "Definition cmd_defs : list (list (list N) * option (list N) * bool * option (list N)) :=\n  [ "
    out += "\n  ; ".join("([%s], %s, %s, %s)" % ("; ".join(coq_text(n) for n in names), _opt(dest),
                                                 "true" if term else "false", _opt(action))
                         for names, dest, term, action in defs)
    out += " ].\n"
    out += "Definition cmd_err_prefix : list N := %s.\n" % coq_text(prefix)
    out += "Definition cmd_err_unrecognized : list N * list N := (%s, %s).\n" % tuple(coq_text(x) for x in f_unrec)
    out += "Definition cmd_err_expected_arg : list N * list N := (%s, %s).\n" % tuple(coq_text(x) for x in f_exp)
    out += "(* literal keys with which cmdline_handler consults `options`, in source order *)\n"
    out += "Definition cmd_keys_used : list (list N) := [%s].\n" % "; ".join(coq_text(k) for k in keys)
    return {"Gen/CmdTables.v": out}
