"""T1 for C08: the _pattern grammar, compile_pattern and compile_match_expression of
hy/core/result_macros.py matched against templates (fail-closed); the constants in
their holes -> coq/Gen/MatchTables.v."""
import ast

from lib.vlib import ShapeChanged
from translator.common import parse_py, top_func
from translator.ops_tables import match_template, match_function, cstr, q, clist
from translator.ops_lambda import strip_doc

RM = "hy/core/result_macros.py"

T_GRAMMAR = '''
_pattern = forward_decl()
_pattern.define(
    (
        SYM
        | KEYWORD
        | LITERAL
        | brackets(many(_pattern | unpack("iterable")))
        | in_tuple(many(_pattern | unpack("iterable")))
        | pexpr(keepsym(__DOT__), many(SYM))
        | pexpr(keepsym(__OR__), many(_pattern))
        | braces(many(LITERAL + _pattern), maybe(pvalue("unpack-mapping", SYM)))
        | pexpr(
            pexpr(keepsym(__DOT2__), oneplus(SYM))
            | notsym(__NS1__, __NS2__, __NS3__, __NS4__),
            many(parse_if(lambda x: not isinstance(x, Keyword), _pattern)),
            many(KEYWORD + _pattern),
        )
    )
    + maybe(sym(__AS__) + SYM)
)
match_clause = _pattern + maybe(sym(__IF__) + FORM)
'''

T_NOTSYM = '''
notsym = lambda *dissallowed: some(
    lambda x: isinstance(x, Symbol) and str(x) not in dissallowed
)
'''

T_MATCH = '''
def compile_match_expression(compiler, expr, root, subject, clauses):
    subject = compiler.compile(subject)
    return_var = asty.Name(expr, id=mangle(compiler.get_anon_var()), ctx=ast.Store())

    lifted_if_defs = []
    match_cases = []
    for *pattern, guard, body in clauses:
        if guard and body == Keyword("as"):
            compiler._syntax_error(body, ":as clause cannot come after :if guard")

        body = compiler._compile_branch([body])
        body += asty.Assign(pattern[0], targets=[return_var], value=body.force_expr)
        body += body.expr_as_stmt()
        body = body.stmts

        pattern = compile_pattern(compiler, pattern)

        if __GUARD_TEST__:
            guard = compiler.compile(guard)
            if guard.stmts:
                fname = compiler.get_anon_var()
                guardret = Result() + asty.FunctionDef(
                    guard,
                    name=fname,
                    args=ast.arguments(
                        args=[],
                        kwarg=None,
                        posonlyargs=[],
                        kwonlyargs=[],
                        kw_defaults=[],
                        defaults=[],
                    ),
                    body=guard.stmts + [asty.Return(guard, value=guard.force_expr)],
                    decorator_list=[],
                    **({"type_params": []} if PY3_12 else {}),
                )
                lifted_if_defs.append(guardret)
                guard = Result(expr=asty.parse(guard, f"{fname}()").body[0].value)

        match_cases.append(
            ast.match_case(
                pattern=pattern,
                guard=guard.force_expr if guard else None,
                body=body,
            )
        )

    expr_name = asty.Name(expr, id=return_var.id, ctx=ast.Load())
    returnable = __RETURNABLE__
    ret = Result() + subject
    ret += asty.Assign(
        expr, targets=[return_var], value=asty.Constant(expr, value=None)
    )
    if not match_cases:
        return ret + returnable

    for lifted_if in lifted_if_defs:
        ret += lifted_if
    ret += asty.Match(expr, subject=subject.force_expr, cases=match_cases)
    return ret + returnable
'''

T_PATTERN = '''
def compile_pattern(compiler, pattern):
    value, assignment = pattern
    if assignment is not None:
        if mangle(assignment) == __AS_WILD__:
            raise compiler._syntax_error(assignment, __MSG_AS__)
        return compiler.scope.assign(
            asty.MatchAs(
                value,
                pattern=compile_pattern(compiler, (value, None)),
                name=mangle(compiler._nonconst(assignment)),
            )
        )

    if isinstance(value, Symbol) and str(value) in __SINGLETONS__:
        return asty.MatchSingleton(
            value,
            value=compiler.compile(value).force_expr.value,
        )
    elif isinstance(value, (String, Integer, Float, Complex, Bytes)):
        return asty.MatchValue(
            value,
            value=compiler.compile(value).expr,
        )
    elif value == Symbol(__WILD__):
        return asty.MatchAs(value)
    elif isinstance(value, Symbol):
        return compiler.scope.assign(asty.MatchAs(value, name=mangle(value)))
    elif isinstance(value, Expression) and value[0] == Symbol(__OR__):
        if len(value[1]) < __OR_MIN__:
            raise compiler._syntax_error(value, __MSG_OR__)
        return asty.MatchOr(
            value,
            patterns=[compile_pattern(compiler, v) for v in value[1]],
        )
    elif isinstance(value, Expression) and value[0] == Symbol(__DOT__):
        root, syms = value
        if len(syms) < __DOT_MIN__:
            raise compiler._syntax_error(value, __MSG_DOT__)
        dotform = mkexpr(root, *syms).replace(value)
        return asty.MatchValue(
            value,
            value=compiler.compile(dotform).expr,
        )
    elif isinstance(value, (Tuple, List)):
        patterns = value[0]
        patterns = [
            compile_pattern(compiler, (v, None) if is_unpack("iterable", v) else v)
            for v in patterns
        ]
        return asty.MatchSequence(value, patterns=patterns)
    elif is_unpack("iterable", value):
        return compiler.scope.assign(asty.MatchStar(
            value,
            name=None if value[1] == Symbol(__STAR_WILD__) else mangle(value[1])))

    elif isinstance(value, Dict):
        kvs, rest = value
        keys, values = zip(*kvs) if kvs else ([], [])
        return compiler.scope.assign(
            asty.MatchMapping(
                value,
                keys=[compiler.compile(key).expr for key in keys],
                patterns=[compile_pattern(compiler, v) for v in values],
                rest=mangle(rest) if rest else None,
            )
        )
    elif isinstance(value, Expression):
        head, args, kwargs = value
        keywords, values = zip(*kwargs) if kwargs else ([], [])
        return asty.MatchClass(
            value,
            cls=compiler.compile(
                (head[:1] + head[1]).replace(head)
                if type(head) is Expression
                else head).expr,
            patterns=[compile_pattern(compiler, v) for v in args],
            kwd_attrs=[__KWD_ATTR__ for kwd in keywords],
            kwd_patterns=[compile_pattern(compiler, value) for value in values],
        )
    elif isinstance(value, Keyword):
        return asty.MatchClass(
            value,
            cls=compiler.compile(dotted(__KEYWORD_CLASS__).replace(value)).expr,
            patterns=[
                asty.MatchValue(value, value=asty.Constant(value, value=value.name))
            ],
            kwd_attrs=[],
            kwd_patterns=[],
        )
    else:
        compiler._syntax_error(value, "unsupported")
'''

D_MATCH = 'pattern_macro(((3, 10), "match"), [FORM, many(match_clause + FORM)])'


def translate(repo):
    tree, _ = parse_py(repo, RM)
    # grammar: _pattern = forward_decl(); _pattern.define(...); match_clause = ...
    tmpl = ast.parse(T_GRAMMAR).body
    idx = None
    for i, node in enumerate(tree.body):
        if isinstance(node, ast.Assign) and getattr(node.targets[0], "id", None) == "_pattern":
            idx = i
            break
    if idx is None:
        raise ShapeChanged(RM + ": _pattern not found")
    holes = {}
    for t, a in zip(tmpl, tree.body[idx:idx + 3]):
        match_template(t, a, holes, RM + ":_pattern grammar")
    g = {k: cstr(v, k) for k, v in holes.items()}
    ns = tree.body
    notsym = [n for n in ns if isinstance(n, ast.Assign) and getattr(n.targets[0], "id", None) == "notsym"]
    if len(notsym) != 1:
        raise ShapeChanged(RM + ": notsym")
    match_template(ast.parse(T_NOTSYM).body[0], notsym[0], {}, RM + ":notsym")
    fm = strip_doc(top_func(tree, "compile_match_expression", RM))
    hm = match_function(fm, T_MATCH, RM + ":compile_match_expression")
    # which guards are compiled: every one the clause has (`guard is not None`), or only those whose model is
    # truthy (`guard`: a falsy literal such as 0, "", [] was dropped and the case matched unconditionally)
    # is the result variable handed to Result.rename?  If it is, (setv x (match x ...)) presets x = None before the
    # subject is read (7b4f7e5 stopped that: the form's value is then always copied out of its own variable)
    rb = ast.unparse(hm["__RETURNABLE__"])
    if rb == "Result(expr=expr_name)":
        renamable = False
    elif rb == "Result(expr=expr_name, temp_variables=[expr_name, return_var])":
        renamable = True
    else:
        raise ShapeChanged(RM + ": compile_match_expression: returnable = %s" % rb)
    gt = ast.unparse(hm["__GUARD_TEST__"])
    if gt == "guard is not None":
        guard_kept = True
    elif gt == "guard":
        guard_kept = False
    else:
        raise ShapeChanged(RM + ": compile_match_expression: the guard test is `%s`" % gt)
    if len(fm.decorator_list) != 1 or ast.dump(fm.decorator_list[0]) != ast.dump(ast.parse(D_MATCH, mode="eval").body):
        raise ShapeChanged(RM + ": decorator of compile_match_expression changed")
    fp = strip_doc(top_func(tree, "compile_pattern", RM))
    h = match_function(fp, T_PATTERN, RM + ":compile_pattern")
    sing = h["__SINGLETONS__"]
    if not isinstance(sing, ast.Tuple):
        raise ShapeChanged(RM + ": compile_pattern singleton names")
    singletons = [cstr(e, "singleton") for e in sing.elts]
    if sorted(singletons) != ["False", "None", "True"]:
        raise ShapeChanged(RM + ": compile_pattern singleton names are not None/True/False")
    wild = cstr(h["__WILD__"], "wildcard")
    star_wild = cstr(h["__STAR_WILD__"], "star wildcard")
    if cstr(h["__OR__"], "or") != g["__OR__"] or cstr(h["__DOT__"], "dot") != g["__DOT__"] or g["__DOT__"] != g["__DOT2__"]:
        raise ShapeChanged(RM + ": compile_pattern dispatches on other heads than the grammar")
    # how a class pattern's keyword becomes an attribute name: kwd.name (raw) or mangle(kwd.name)
    ka = ast.dump(h["__KWD_ATTR__"])
    if ka == ast.dump(ast.parse("kwd.name", mode="eval").body):
        kw_mangled = False
    elif ka == ast.dump(ast.parse("mangle(kwd.name)", mode="eval").body):
        kw_mangled = True
    else:
        raise ShapeChanged(RM + ": compile_pattern kwd_attrs expression changed")
    kwclass = cstr(h["__KEYWORD_CLASS__"], "keyword class")
    as_wild = cstr(h["__AS_WILD__"], "forbidden :as target")
    for k in ("__MSG_AS__", "__MSG_OR__", "__MSG_DOT__"):
        cstr(h[k], "syntax error message")
    mins = {}
    for k in ("__OR_MIN__", "__DOT_MIN__"):
        if not (isinstance(h[k], ast.Constant) and type(h[k].value) is int and h[k].value >= 0):
            raise ShapeChanged(RM + ": compile_pattern: %s is not a small integer literal" % k)
        mins[k] = h[k].value
    o = ["(* GENERATED by translator/ops_match.py from %s -- do not edit; regenerated on every check run *)" % RM,
         "From Coq Require Import List String.", "Import ListNotations.", "Open Scope string_scope.", ""]
    o.append("Definition singleton_names : list string := %s." % clist(q(x) for x in singletons))
    o.append("Definition wildcard_name : string := %s." % q(wild))
    o.append("Definition star_wildcard_name : string := %s." % q(star_wild))
    o.append("Definition or_head : string := %s." % q(g["__OR__"]))
    o.append("Definition dot_head : string := %s." % q(g["__DOT__"]))
    o.append("Definition as_keyword : string := %s." % q(g["__AS__"]))
    o.append("Definition if_keyword : string := %s." % q(g["__IF__"]))
    o.append("Definition class_head_excluded : list string := %s." % clist(q(g[k]) for k in ("__NS1__", "__NS2__", "__NS3__", "__NS4__")))
    o.append("Definition keyword_class_path : list string := %s." % clist(q(x) for x in kwclass.split(".")))
    o.append("(* user errors raised by compile_pattern: `p :as n` with mangle(n) = this; (| ...) with fewer alternatives; (. ...) with fewer symbols *)")
    o.append("Definition as_forbidden_mangled : string := %s." % q(as_wild))
    o.append("Definition or_min_alternatives : nat := %d." % mins["__OR_MIN__"])
    o.append("Definition value_min_symbols : nat := %d." % mins["__DOT_MIN__"])
    o.append("(* whether the result variable of a match form may be renamed to an assignment target by Result.rename *)")
    o.append("Definition result_var_renamable : bool := %s." % ("true" if renamable else "false"))
    o.append("(* whether compile_match_expression compiles a guard whose model is falsy (0, \"\", [], {}) *)")
    o.append("Definition guard_kept_when_falsy : bool := %s." % ("true" if guard_kept else "false"))
    o.append("(* whether compile_pattern mangles the keyword of a class pattern into the attribute name *)")
    o.append("Definition kwd_attrs_mangled : bool := %s." % ("true" if kw_mangled else "false"))
    return {"Gen/MatchTables.v": "\n".join(o) + "\n"}
