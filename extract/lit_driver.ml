(* Line protocol driver for the extracted literal models (coq/Lit).
   input line:  <cmd> TAB <arg> TAB <arg> ...   every arg is a list of numbers separated by ','
                (possibly empty), except name tables:  name:cp;name:cp  with name a ','-list.
   output line: the numbers of the model's result separated by ',' *)
open Lit_model

let rec pos_of_int n = if n = 1 then XH else if n land 1 = 0 then XO (pos_of_int (n lsr 1)) else XI (pos_of_int (n lsr 1))
let n_of_int n = if n = 0 then N0 else Npos (pos_of_int n)
let rec int_of_pos = function XH -> 1 | XO p -> 2 * int_of_pos p | XI p -> 2 * int_of_pos p + 1
let int_of_n = function N0 -> 0 | Npos p -> int_of_pos p

let cps s = if s = "" then [] else List.map (fun x -> n_of_int (int_of_string x)) (String.split_on_char ',' s)
let show l = String.concat "," (List.map (fun n -> string_of_int (int_of_n n)) l)
let table s =
  if s = "" then [] else
  List.map (fun e -> match String.split_on_char ':' e with
                     | [nm; cp] -> (cps nm, n_of_int (int_of_string cp))
                     | _ -> failwith "bad table entry") (String.split_on_char ';' s)
let flag s = (s = "1")
(* unicode table: cp:flags:dec;...  flags bit0 = isspace, bit1 = isdigit; dec = -1 or the decimal value *)
let utable s =
  if s = "" then [] else
  List.map (fun e -> match String.split_on_char ':' e with
                     | [cp; fl; dec] ->
                       let f = int_of_string fl and d = int_of_string dec in
                       (n_of_int (int_of_string cp), ((f land 1 <> 0, f land 2 <> 0), (if d < 0 then None else Some (n_of_int d))))
                     | _ -> failwith "bad unicode table entry") (String.split_on_char ';' s)

let () =
  try
    while true do
      let line = input_line stdin in
      let out =
        match String.split_on_char '\t' line with
        | ["string"; tbl; prefix; s] -> m_string (table tbl) (cps prefix) (cps s)
        | ["bracket"; s] -> m_bracket (cps s)
        | ["uedec"; tbl; s] -> m_uedec (table tbl) (cps s)
        | ["escdec"; s] -> m_escdec (cps s)
        | ["bsr"; s] -> m_bsr (cps s)
        | ["pyval"; tbl; raw; isb; s] -> m_pyval (table tbl) (flag raw) (flag isb) (cps s)
        | ["ident"; tbl; rd; s] -> m_ident (utable tbl) (flag rd) (cps s)
        | ["pyint"; tbl; b0; s] -> m_pyint (utable tbl) (flag b0) (cps s)
        | ["pyfloat"; tbl; s] -> m_pyfloat (utable tbl) (cps s)
        | ["pycomplex"; tbl; s] -> m_pycomplex (utable tbl) (cps s)
        | ["isdigit"; tbl; s] -> m_isdigit (utable tbl) (cps s)
        | ["read"; ut; lt; s] -> m_read (utable ut) (table lt) (cps s)
        | ["sym_ok"; ut; s] -> m_sym_ok (utable ut) (cps s)
        | ["kw_ok"; s] -> m_kw_ok (cps s)
        | ["str_ok"; d; s] -> m_str_ok (cps d) (cps s)
        | ["render_bracket"; d; s] -> m_render_bracket (cps d) (cps s)
        | _ -> failwith ("bad line: " ^ line)
      in
      print_string (show out); print_char '\n'
    done
  with End_of_file -> ()
