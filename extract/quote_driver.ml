(* Line protocol driver for the extracted quote / quasiquote model (Quote/Model.v).
   One case per input line, space-separated tokens in prefix notation:
     line   := cmd normtbl gtbl model
     cmd    := "quote" | "qq"
     normtbl:= count (text text)*          head-symbol normaliser, identity elsewhere
     gtbl   := count (zbin ("R" nbin | "V" value))*    user code (g i): raise EUser n / return value
     text   := len cp*                     code points in decimal
     opt    := "-" | "+" text
     kind   := "E" | "L" | "U" | "X" | "D" | "FS" opt bool | "FC" opt opt bool
     model  := "S" text | "K" text | "I" zbin | "F" nbin | "C" nbin nbin | "T" text opt | "B" text | "Q" kind count model*
     value  := the same with value children | "pi" zbin | "pf" nbin | "pc" nbin nbin | "ps" text | "pb" text
             | "pB" bool | "pN" | "pl" count value* | "pt" count value* | "pS" count value* (set, iteration order)
             | "pD" count value* (dict, flattened key value ...) | "po" nbin
     zbin / nbin := binary digits, optional leading "-"
   Output: one line per case, the results in the same notation (see [out_*]). *)
open Quote_model

let pos_of_bin s start =
  let p = ref XH in
  for i = start + 1 to String.length s - 1 do
    p := if s.[i] = '1' then XI !p else XO !p
  done; !p
let n_of_bin s = if s = "0" then N0 else Npos (pos_of_bin s 0)
let z_of_bin s = if s = "0" then Z0 else if s.[0] = '-' then Zneg (pos_of_bin s 1) else Zpos (pos_of_bin s 0)
let bin_of_pos p =
  let rec go p acc = match p with XH -> '1' :: acc | XO q -> go q ('0' :: acc) | XI q -> go q ('1' :: acc) in
  let l = go p [] in
  let b = Buffer.create 64 in List.iter (Buffer.add_char b) l; Buffer.contents b
let bin_of_n = function N0 -> "0" | Npos p -> bin_of_pos p
let bin_of_z = function Z0 -> "0" | Zpos p -> bin_of_pos p | Zneg p -> "-" ^ bin_of_pos p
let rec pos_of_int n = if n = 1 then XH else if n land 1 = 0 then XO (pos_of_int (n lsr 1)) else XI (pos_of_int (n lsr 1))
let n_of_int n = if n = 0 then N0 else Npos (pos_of_int n)
let rec int_of_pos = function XH -> 1 | XO p -> 2 * int_of_pos p | XI p -> 2 * int_of_pos p + 1
let int_of_n = function N0 -> 0 | Npos p -> int_of_pos p

(* ---------------------------------------------------------------- input *)
let toks : string list ref = ref []
let next () = match !toks with t :: r -> toks := r; t | [] -> failwith "unexpected end of line"
let many n f = let rec go i acc = if i = n then List.rev acc else let x = f () in go (i + 1) (x :: acc) in go 0 []
let p_int () = int_of_string (next ())
let p_text () = let n = p_int () in many n (fun () -> n_of_int (p_int ()))
let p_opt () = match next () with "-" -> None | "+" -> Some (p_text ()) | t -> failwith ("bad opt " ^ t)
let p_bool () = match next () with "0" -> false | "1" -> true | t -> failwith ("bad bool " ^ t)
let p_kind () = match next () with
  | "E" -> KExpr | "L" -> KList | "U" -> KTuple | "X" -> KSet | "D" -> KDict
  | "FS" -> let b = p_opt () in let t = p_bool () in KFString (b, t)
  | "FC" -> let c = p_opt () in let e = p_opt () in let t = p_bool () in KFComp (c, e, t)
  | t -> failwith ("bad kind " ^ t)
let rec p_model () = match next () with
  | "S" -> MSym (p_text ()) | "K" -> MKw (p_text ())
  | "I" -> MInt (z_of_bin (next ())) | "F" -> MFloat (n_of_bin (next ()))
  | "C" -> let re = n_of_bin (next ()) in let im = n_of_bin (next ()) in MCpx (re, im)
  | "T" -> let s = p_text () in let b = p_opt () in MStr (s, b)
  | "B" -> MBytes (p_text ())
  | "Q" -> let k = p_kind () in let n = p_int () in MSeq (k, many n p_model)
  | t -> failwith ("bad model tag " ^ t)
let rec p_value () = match next () with
  | "S" -> VSym (p_text ()) | "K" -> VKw (p_text ())
  | "I" -> VInt (z_of_bin (next ())) | "F" -> VFloat (n_of_bin (next ()))
  | "C" -> let re = n_of_bin (next ()) in let im = n_of_bin (next ()) in VCpx (re, im)
  | "T" -> let s = p_text () in let b = p_opt () in VStr (s, b)
  | "B" -> VBytes (p_text ())
  | "Q" -> let k = p_kind () in let n = p_int () in VSeq (k, many n p_value)
  | "pi" -> PInt (z_of_bin (next ())) | "pf" -> PFloat (n_of_bin (next ()))
  | "pc" -> let re = n_of_bin (next ()) in let im = n_of_bin (next ()) in PCpx (re, im)
  | "ps" -> PStr (p_text ()) | "pb" -> PBytes (p_text ())
  | "pB" -> PBool (p_bool ()) | "pN" -> PNone
  | "pl" -> let n = p_int () in PList (many n p_value)
  | "pt" -> let n = p_int () in PTuple (many n p_value)
  | "pS" -> let n = p_int () in PSet (many n p_value)
  | "pD" -> let n = p_int () in PDict (many n p_value)
  | "po" -> POpaque (n_of_bin (next ()))
  | t -> failwith ("bad value tag " ^ t)

(* ---------------------------------------------------------------- output *)
let b = Buffer.create 65536
let tok s = Buffer.add_string b s; Buffer.add_char b ' '
let o_int n = tok (string_of_int n)
let o_text t = o_int (List.length t); List.iter (fun c -> o_int (int_of_n c)) t
let o_opt = function None -> tok "-" | Some t -> tok "+"; o_text t
let o_bool x = tok (if x then "1" else "0")
let o_kind = function
  | KExpr -> tok "E" | KList -> tok "L" | KTuple -> tok "U" | KSet -> tok "X" | KDict -> tok "D"
  | KFString (br, t) -> tok "FS"; o_opt br; o_bool t
  | KFComp (c, e, t) -> tok "FC"; o_opt c; o_opt e; o_bool t
let rec o_model = function
  | MSym s -> tok "S"; o_text s | MKw s -> tok "K"; o_text s
  | MInt z -> tok "I"; tok (bin_of_z z) | MFloat f -> tok "F"; tok (bin_of_n f)
  | MCpx (re, im) -> tok "C"; tok (bin_of_n re); tok (bin_of_n im)
  | MStr (s, br) -> tok "T"; o_text s; o_opt br
  | MBytes s -> tok "B"; o_text s
  | MSeq (k, items) -> tok "Q"; o_kind k; o_int (List.length items); List.iter o_model items
let rec o_value = function
  | VSym s -> tok "S"; o_text s | VKw s -> tok "K"; o_text s
  | VInt z -> tok "I"; tok (bin_of_z z) | VFloat f -> tok "F"; tok (bin_of_n f)
  | VCpx (re, im) -> tok "C"; tok (bin_of_n re); tok (bin_of_n im)
  | VStr (s, br) -> tok "T"; o_text s; o_opt br
  | VBytes s -> tok "B"; o_text s
  | VSeq (k, items) -> tok "Q"; o_kind k; o_int (List.length items); List.iter o_value items
  | PInt z -> tok "pi"; tok (bin_of_z z) | PFloat f -> tok "pf"; tok (bin_of_n f)
  | PCpx (re, im) -> tok "pc"; tok (bin_of_n re); tok (bin_of_n im)
  | PStr s -> tok "ps"; o_text s | PBytes s -> tok "pb"; o_text s
  | PBool x -> tok "pB"; o_bool x | PNone -> tok "pN"
  | PList items -> tok "pl"; o_int (List.length items); List.iter o_value items
  | PTuple items -> tok "pt"; o_int (List.length items); List.iter o_value items
  | PSet items -> tok "pS"; o_int (List.length items); List.iter o_value items
  | PDict items -> tok "pD"; o_int (List.length items); List.iter o_value items
  | POpaque n -> tok "po"; tok (bin_of_n n)
let o_err = function
  | EUser n -> tok "EUser"; tok (bin_of_n n)
  | EArity -> tok "EArity" | ESyntaxUnpack -> tok "ESyntaxUnpack" | ESyntax -> tok "ESyntax"
  | ENotIterable -> tok "ENotIterable" | EValueBrackets -> tok "EValueBrackets"
  | EWrapper -> tok "EWrapper" | ECycle -> tok "ECycle" | EUnmodelled -> tok "EUnmodelled"
let o_res f = function Ok x -> tok "ok"; f x | Err e -> tok "err"; o_err e
let o_run (r, st) = o_res o_value r; o_int (List.length st); List.iter (fun z -> tok (bin_of_z z)) st
let o_render r = o_res (fun (m, sp) -> o_model m; o_bool sp) r

let () =
  try
    while true do
      let line = input_line stdin in
      toks := List.filter (fun s -> s <> "") (String.split_on_char ' ' line);
      let cmd = next () in
      if cmd = "am" then begin
        (* am value : plain, as_model, eval of the promoted tree, cnorm, as_model of the result *)
        let v = p_value () in
        if !toks <> [] then failwith "trailing tokens";
        Buffer.clear b;
        let pl = plain v in
        o_bool pl;
        let r = as_model v in
        o_res o_value r;
        (match r with Ok w -> tok "some"; o_res o_value (as_model w) | Err _ -> tok "none");
        if pl then begin
          tok "some";
          o_run (eval (fun _ st -> (Err EUnmodelled, st)) (model_of v) []);
          o_value (cnorm v)
        end else tok "none";
        print_string (Buffer.contents b); print_char '\n'
      end else if cmd = "heap" then begin
        (* heap fuel n node* k root* ; node := "A" value | "C" ckind count idx* ; ckind := l t s d | m kind *)
        let rec nat_of_int n = if n = 0 then O else S (nat_of_int (n - 1)) in
        let rec int_of_nat = function O -> 0 | S n -> 1 + int_of_nat n in
        let fuel = nat_of_int (p_int ()) in
        let n = p_int () in
        let h = many n (fun () -> match next () with
          | "A" -> HAtom (p_value ())
          | "C" ->
              let c = (match next () with
                | "l" -> CPyList | "t" -> CPyTuple | "s" -> CPySet | "d" -> CPyDict
                | "m" -> CModelSeq (p_kind ()) | t -> failwith ("bad ckind " ^ t)) in
              let k = p_int () in HCont (c, many k (fun () -> nat_of_int (p_int ())))
          | t -> failwith ("bad node " ^ t)) in
        let k = p_int () in
        let roots = many k (fun () -> nat_of_int (p_int ())) in
        if !toks <> [] then failwith "trailing tokens";
        Buffer.clear b;
        let (outs, seen) = run_history fuel (List.map (fun a -> (h, a)) roots) [] in
        List.iter (fun o -> match o with
          | HOk w -> tok "ok"; o_value w
          | HErr e -> tok "err"; o_err e
          | HFuel -> tok "fuel") outs;
        o_int (List.length (List.map int_of_nat seen));
        print_string (Buffer.contents b); print_char '\n'
      end else begin
      let nn = p_int () in
      let ntbl = many nn (fun () -> let k = p_text () in let v = p_text () in (k, v)) in
      let norm s = match List.assoc_opt s ntbl with Some v -> v | None -> s in
      let ng = p_int () in
      let gtbl = many ng (fun () ->
        let i = z_of_bin (next ()) in
        match next () with
        | "R" -> (i, Err (EUser (n_of_bin (next ()))))
        | "V" -> (i, Ok (p_value ()))
        | t -> failwith ("bad g entry " ^ t)) in
      let user m st = match m with
        | MSeq (KExpr, [MSym [c]; MInt i]) when int_of_n c = 103 ->
            ((match List.assoc_opt i gtbl with Some r -> r | None -> Err EUnmodelled), st @ [i])
        | _ -> (Err EUnmodelled, st) in
      let m = p_model () in
      if !toks <> [] then failwith "trailing tokens";
      Buffer.clear b;
      (match cmd with
       | "quote" ->
           o_bool (wf_ctor m); o_bool (wf m);
           o_render (render norm LInf m);
           o_run (run_quote user norm true m [])
       | "qq" ->
           o_bool (wf_ctor m); o_bool (wf m); o_bool (qq_valid norm O m); o_bool (qq_rejected norm O m);
           o_bool (is_top_splice norm O m);
           o_render (render norm (LNat O) m);
           let run = run_quote user norm false m [] in
           o_run run;
           o_run (qq_ref user norm O m []);
           o_run (qq_ref_p user norm O m []);
           (match fst run with
            | Ok v -> tok "some"; o_res o_value (as_model v)
            | Err _ -> tok "none")
       | _ -> failwith ("bad cmd " ^ cmd));
      print_string (Buffer.contents b); print_char '\n'
      end
    done
  with End_of_file -> ()
