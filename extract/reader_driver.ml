(* Line protocol driver for the extracted reader model (coq/Reader/Model.v).

   harness -> driver
     P <cps>            set the pyspace oracle: the code points c with c.strip() == ""
     R <cps>            read_many with fill_pos = At     (cps: code points separated by ',', may be empty)
     B <cps>            read_many_file: the same with skip_shebang=True
     F <fuel> <cps>     rd with that fuel in mode (MSeq None []) (for fuel-bound experiments)
   driver -> harness, while working on an R line, whenever an oracle value is not cached:
     Q N <cps>          is this identifier text a number for as_identifier?    answer: 0 | 1
     Q D <0|1> <cps>    escape-decode this body (1 = bytes literal)            answer: - | +<cps>
   driver -> harness, result:
     = <json>           ["Ok",[tree...]] | ["Lex"] | ["Premature"] | ["PyErr","SyntaxError"|"ValueError"] | ["OutOfFuel"]
   tree json: ["Sym",[cps]] ["Kw",[cps]] ["Num",[cps]] ["Str",[cps],null|[cps]] ["Byt",[cps]]
              ["Seq","Expr"|"List"|"Dict"|"Set"|"Tuple",[trees]] ["FStr",bool,null|[cps],[trees]]
              ["FComp",bool,null|cp,[cps],[trees]] ["At",a,b,tree] *)
open Reader_model

let rec pos_of_int n = if n = 1 then XH else if n land 1 = 0 then XO (pos_of_int (n lsr 1)) else XI (pos_of_int (n lsr 1))
let n_of_int n = if n = 0 then N0 else Npos (pos_of_int n)
let rec int_of_pos = function XH -> 1 | XO p -> 2 * int_of_pos p | XI p -> 2 * int_of_pos p + 1
let int_of_n = function N0 -> 0 | Npos p -> int_of_pos p
let rec int_of_nat = function O -> 0 | S k -> 1 + int_of_nat k
let int_of_nat n = let rec go acc = function O -> acc | S k -> go (acc + 1) k in go 0 n
let nat_of_int n = let rec go acc k = if k = 0 then acc else go (S acc) (k - 1) in go O n

let cps s = if s = "" then [] else List.map (fun x -> n_of_int (int_of_string x)) (String.split_on_char ',' s)
let show l = String.concat "," (List.map (fun n -> string_of_int (int_of_n n)) l)

let buf = Buffer.create 65536
let add = Buffer.add_string buf
let jtext l = add "["; add (show l); add "]"
let jopt = function None -> add "null" | Some l -> jtext l
let jbool b = add (if b then "true" else "false")
let kind = function KExpr -> "Expr" | KList -> "List" | KDict -> "Dict" | KSet -> "Set" | KTuple -> "Tuple"
let rec jtree t =
  match t with
  | Sym s -> add "[\"Sym\","; jtext s; add "]"
  | Kw s -> add "[\"Kw\","; jtext s; add "]"
  | Num s -> add "[\"Num\","; jtext s; add "]"
  | Str (v, b) -> add "[\"Str\","; jtext v; add ","; jopt b; add "]"
  | Byt v -> add "[\"Byt\","; jtext v; add "]"
  | Seq (k, ts) -> add "[\"Seq\",\""; add (kind k); add "\","; jlist ts; add "]"
  | FStr (t, b, ts) -> add "[\"FStr\","; jbool t; add ","; jopt b; add ","; jlist ts; add "]"
  | FComp (t, c, e, ts) ->
    add "[\"FComp\","; jbool t; add ",";
    (match c with None -> add "null" | Some c -> add (string_of_int (int_of_n c)));
    add ","; jtext e; add ","; jlist ts; add "]"
  | At (a, b, t) -> add "[\"At\","; add (string_of_int (int_of_nat a)); add ","; add (string_of_int (int_of_nat b)); add ",";
    jtree t; add "]"
and jlist ts =
  add "[";
  List.iteri (fun i t -> if i > 0 then add ","; jtree t) ts;
  add "]"

let pyspace_tab : (int, unit) Hashtbl.t = Hashtbl.create 64
let num_cache : (string, bool) Hashtbl.t = Hashtbl.create 4096
let dec_cache : (string, n list option) Hashtbl.t = Hashtbl.create 4096

let ask q =
  print_string q; print_char '\n'; flush stdout;
  input_line stdin

let numeric t =
  let k = show t in
  match Hashtbl.find_opt num_cache k with
  | Some b -> b
  | None ->
    let a = ask ("Q N " ^ k) in
    let b = (a = "1") in
    Hashtbl.replace num_cache k b; b

let decode bytes t =
  let k = (if bytes then "1 " else "0 ") ^ show t in
  match Hashtbl.find_opt dec_cache k with
  | Some r -> r
  | None ->
    let a = ask ("Q D " ^ k) in
    let r = if a = "-" then None else Some (cps (String.sub a 1 (String.length a - 1))) in
    Hashtbl.replace dec_cache k r; r

let pyspace c = Hashtbl.mem pyspace_tab (int_of_n c)
let orc = { numeric = numeric; decode = decode; pyspace = pyspace; mk = (fun a b t -> At (a, b, t)) }

let outcome o =
  Buffer.clear buf;
  (match o with
   | Ok ts -> add "[\"Ok\","; jlist ts; add "]"
   | Lex -> add "[\"Lex\"]"
   | Premature -> add "[\"Premature\"]"
   | PyErr ESyntaxError -> add "[\"PyErr\",\"SyntaxError\"]"
   | PyErr EValueError -> add "[\"PyErr\",\"ValueError\"]"
   | OutOfFuel -> add "[\"OutOfFuel\"]");
  print_string "= "; print_string (Buffer.contents buf); print_char '\n'; flush stdout

let outcome_of_res = function
  | RSeq (ms, _) -> Ok ms
  | RPrem -> Premature
  | RLex -> Lex
  | RPy e -> PyErr e
  | _ -> OutOfFuel

let () =
  try
    while true do
      let line = input_line stdin in
      let n = String.length line in
      if n >= 1 then begin
        let arg = if n > 2 then String.sub line 2 (n - 2) else "" in
        match line.[0] with
        | 'P' -> Hashtbl.reset pyspace_tab; List.iter (fun c -> Hashtbl.replace pyspace_tab (int_of_n c) ()) (cps arg)
        | 'R' -> outcome (read_many orc (cps arg))
        | 'B' -> outcome (read_many_file orc (cps arg))
        | 'F' ->
          (match String.index_opt arg ' ' with
           | Some i ->
             let fuel = int_of_string (String.sub arg 0 i) in
             let s = cps (String.sub arg (i + 1) (String.length arg - i - 1)) in
             outcome (outcome_of_res (rd orc (nat_of_int fuel) (MSeq (None, [])) s))
           | None -> failwith "bad F line")
        | _ -> failwith ("bad line: " ^ line)
      end
    done
  with End_of_file -> ()
