(* Line protocol driver for the extracted mangle model.
   input line:  <cmd> <TAB> <name: code points separated by ','> <TAB> <table>
   table: entries separated by ';' of  cp:flags:name  (name = code points sep by ',', may be empty)
          flags bit0 = xid_start, bit1 = xid_continue.  Characters absent from the table have flags 0, no name.
   lookup table (for unmangle): name -> cp for every entry with a name.
   nfkc is the tagging function  t -> 1114112 :: t ++ [1114113]  (the harness normalises tagged regions).
   output: "OK <code points>" or "ERR <class>" *)
open Mangle_model

let rec pos_of_int n = if n = 1 then XH else if n land 1 = 0 then XO (pos_of_int (n lsr 1)) else XI (pos_of_int (n lsr 1))
let n_of_int n = if n = 0 then N0 else Npos (pos_of_int n)
let rec int_of_pos = function XH -> 1 | XO p -> 2 * int_of_pos p | XI p -> 2 * int_of_pos p + 1
let int_of_n = function N0 -> 0 | Npos p -> int_of_pos p

let cps s = if s = "" then [] else List.map (fun x -> n_of_int (int_of_string x)) (String.split_on_char ',' s)
let show l = String.concat "," (List.map (fun n -> string_of_int (int_of_n n)) l)

let () =
  try
    while true do
      let line = input_line stdin in
      match String.split_on_char '\t' line with
      | [cmd; name; table] ->
        let entries = if table = "" then [] else String.split_on_char ';' table in
        let tab = Hashtbl.create 16 in
        let names = Hashtbl.create 16 in
        List.iter (fun e ->
          match String.split_on_char ':' e with
          | [cp; fl; nm] ->
            let c = int_of_string cp in
            let nm' = cps nm in
            (* flags -1: an alias entry -- unicodedata.lookup also accepts name aliases such as FF or LF;
               it only extends the lookup table *)
            if int_of_string fl >= 0 then Hashtbl.replace tab c (int_of_string fl, nm');
            if nm' <> [] && (int_of_string fl >= 0 || not (Hashtbl.mem names (show nm')))
            then Hashtbl.replace names (show nm') (n_of_int c)
          | _ -> failwith "bad table entry") entries;
        let flags c = match Hashtbl.find_opt tab (int_of_n c) with Some (f, _) -> f | None -> 0 in
        let u = { xid_start = (fun c -> flags c land 1 <> 0);
                  xid_continue = (fun c -> flags c land 2 <> 0);
                  uname = (fun c -> match Hashtbl.find_opt tab (int_of_n c) with Some (_, n) -> n | None -> []);
                  ulookup = (fun n -> Hashtbl.find_opt names (show n));
                  nfkc = (fun t -> n_of_int 1114112 :: t @ [n_of_int 1114113]) } in
        let s = cps name in
        (match cmd with
         | "mangle" -> print_string ("OK " ^ show (mangle u s) ^ "\n")
         | "unmangle" ->
           (match unmangle u s with
            | Ok t -> print_string ("OK " ^ show t ^ "\n")
            | PyErr e -> print_string ("ERR " ^ (if e = O then "0" else if e = S O then "KeyError" else "ValueError") ^ "\n"))
         | _ -> failwith "bad cmd")
      | _ -> failwith ("bad line: " ^ line)
    done
  with End_of_file -> ()
