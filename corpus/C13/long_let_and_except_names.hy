(let [a-rather-long-descriptive-variable-name 1
      another-quite-long-name-for-a-binding? 2]
  (print a-rather-long-descriptive-variable-name another-quite-long-name-for-a-binding?))
(try (/ 1 0)
  (except [yet-one-more-long-identifier-used-here ZeroDivisionError]
    (print yet-one-more-long-identifier-used-here)))
