(setv g1 0)
(defn f []
  (setv alpha 1 beta 2 gamma 3 delta 4)
  (defn g []
    (nonlocal alpha beta gamma delta g1)
    (setv alpha 5))
  (g) alpha)
