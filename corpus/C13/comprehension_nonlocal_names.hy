(defn make-stats []
  (setv seen 0 total 0 biggest 0 smallest 0 evens 0 odds 0)
  (defn feed [xs]
    (setv squares
      (lfor x xs
        :do (nonlocal seen total biggest smallest evens odds)
        (do
          (setv seen (+ seen 1) total (+ total x) biggest (max biggest x) smallest (min smallest x))
          (if (% x 2) (setv odds (+ odds 1)) (setv evens (+ evens 1)))
          (setv last x)
          (* x x))))
    [squares last])
  (defn report [] [seen total biggest smallest evens odds])
  [feed report])
