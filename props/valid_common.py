"""Shared by C10/C14/C17: a reader for Coq's printed normal forms, conversion of
Hy model trees into the token / tree terms of coq/Valid, and access to the
live parser object of a @pattern_macro decorator."""
import re

from lib import vlib

_TOK = re.compile(r"\s*(\(|\)|\[|\]|;|,|-?\d+(?:%\w+)?|[A-Za-z_][\w.']*|\"(?:[^\"]|\"\")*\")")


def parse_coq(s):
    """'Parsed (RTup [RTok 1; RNone])' -> ('Parsed', ('RTup', [('RTok', 1), 'RNone']))"""
    toks = _TOK.findall(s)
    if "".join(toks) != re.sub(r"\s+", "", s):
        raise ValueError("cannot tokenise coq output: " + s[:200])
    pos = [0]

    def peek():
        return toks[pos[0]] if pos[0] < len(toks) else None

    def item():
        t = peek()
        pos[0] += 1
        if t == "(":
            parts = [app()]
            while peek() == ",":
                pos[0] += 1
                parts.append(app())
            if peek() != ")":
                raise ValueError("expected ) in " + s[:200])
            pos[0] += 1
            if peek() and peek().startswith("%"):
                pos[0] += 1
            return parts[0] if len(parts) == 1 else tuple(["__pair__"] + parts)
        if t == "[":
            out = []
            if peek() == "]":
                pos[0] += 1
            else:
                while True:
                    out.append(app())
                    if peek() == ";":
                        pos[0] += 1
                        continue
                    if peek() == "]":
                        pos[0] += 1
                        break
                    raise ValueError("expected ; or ] in " + s[:200])
            if peek() and re.fullmatch(r"%\w+", peek() or ""):
                pos[0] += 1
            return out
        if re.fullmatch(r"-?\d+(%\w+)?", t):
            return int(t.split("%")[0])
        if t.startswith('"'):
            return t[1:-1].replace('""', '"')
        return t

    def app():
        items = []
        while peek() is not None and peek() not in (")", "]", ";", ","):
            items.append(item())
        if len(items) == 1:
            return items[0]
        return tuple(items)

    # a trailing "%N" after a list is tokenised as part of a number only; strip scope annotations first
    r = app()
    return r


def strip_scopes(s):
    return re.sub(r"%(N|nat|Z|positive|string|list)\b", "", s)


def coq_term(s):
    return parse_coq(strip_scopes(s))


# ---------------------------------------------------------------- Hy models -> Valid.Comb.tok

class Tokens:
    """assigns an identity to every model object of an argument list"""

    def __init__(self, hy):
        self.hy = hy
        self.ids = {}

    def tok(self, x):
        m = self.hy.models
        i = self.ids.setdefault(id(x), len(self.ids) + 1)
        if isinstance(x, m.Symbol):
            return "(TSym %d %s)" % (i, vlib.coq_text(str(x)))
        if isinstance(x, m.Keyword):
            return "(TKw %d %s)" % (i, vlib.coq_text(x.name))
        if isinstance(x, m.String):
            return "(TStr %d)" % i
        if isinstance(x, (m.Integer, m.Float, m.Complex, m.Bytes)):
            return "(TLit %d)" % i
        for cls, k in ((m.Expression, "GExpr"), (m.List, "GList"), (m.Tuple, "GTuple"), (m.Dict, "GDict")):
            if type(x) is cls:
                return "(TGroup %s %d [%s])" % (k, i, "; ".join(self.tok(c) for c in x))
        return "(TOther %d)" % i

    def canon(self, v):
        """canonical form of a value returned by the real parser, in the vocabulary of Valid.Comb.pres"""
        m = self.hy.models
        if v is None:
            return "RNone"
        if id(v) in self.ids and isinstance(v, m.Object):
            return ("RTok", self.ids[id(v)])
        if isinstance(v, list):
            return ("RList", [self.canon(x) for x in v])
        if isinstance(v, tuple) and not isinstance(v, m.Object):
            return ("RTup", [self.canon(x) for x in v])
        for cls, k in ((m.Expression, "GExpr"), (m.List, "GList"), (m.Tuple, "GTuple"), (m.Dict, "GDict")):
            if type(v) is cls:
                return ("RGroup", k, [self.canon(x) for x in v])
        return ("unknown", repr(v)[:60])


def live_pattern(macro_fn):
    """the funcparserlib parser captured by pattern_macro's wrapper"""
    from funcparserlib.parser import Parser
    for cell in macro_fn.__closure__ or ():
        try:
            v = cell.cell_contents
        except ValueError:
            continue
        if isinstance(v, Parser):
            return v
    return None


def live_patterns(hy):
    """head (unmangled) -> list of parser objects, one per decorator stacked on the handler for that head.
    install_macro keeps only the last installed wrapper per name; heads are unique per decorator in result_macros."""
    import builtins
    out = {}
    for k, fn in builtins._hy_macros.items():
        p = live_pattern(fn)
        if p is not None:
            out[hy.unmangle(k)] = p
    return out
