"""Shared by the compiler-core properties (C01 C02 C09 C12): program generator over the
modelled Hy fragment, renderers (Hy source / Gallina term), canonical dump of the real
compiler's AST in the format of coq/Compiler/Show.v, and execution of the real compiled
code under CPython with an effect log and a fault table."""
import ast
import signal
import threading

from lib import vlib

NVARS = 4            # user variables u0..u3
LETBASE = 40         # model variables standing for let-bound names
FUEL = 24            # loop re-entries + exits along one nesting chain; generated loops run at most twice (3 units per level)
ARGBASE = 100        # model variables standing for the evaluated arguments of a binary call (log2 k a b)
CLASSES = 5          # exception classes 0 (TypeError), E1..E4
SUBPAIRS = [(2, 1), (3, 1)]   # E2 <: E1, E3 <: E1  (reflexivity is built in)


def cls_name(c):
    return "TypeError" if c == 0 else "E%d" % c


# ------------------------------------------------------------------ generator

class Gen:
    """Grammar-directed generator.  `stmty` forms (need statements when compiled)
    are placed in expression slots on purpose."""

    def __init__(self, rng, forms, max_depth=4):
        self.rng, self.forms, self.max_depth = rng, set(forms), max_depth
        self.k = 0
        self.loopvar = 0
        self.letvars = []
        self.letcount = 0
        self.focus_p = 0.25

    def fresh_k(self):
        self.k += 1
        return self.k

    def const(self):
        r = self.rng.random()
        if r < 0.3:
            return ("const", ("int", self.rng.choice([0, 1, 2, 7, -3])))
        if r < 0.55:
            return ("const", ("bool", self.rng.random() < 0.5))
        if r < 0.7:
            return ("const", ("none",))
        if r < 0.8 and "exn" in self.forms:
            return ("const", ("exn", self.rng.randrange(CLASSES)))
        if self.letvars and self.rng.random() < 0.5:
            return ("var", self.rng.choice(self.letvars))
        return ("var", self.rng.randrange(NVARS))

    def target(self):
        if self.letvars and self.rng.random() < 0.5:
            return self.rng.choice(self.letvars)
        return self.rng.randrange(NVARS)

    def body(self, d, loop, lo=0, hi=3):
        return [self.expr(d, loop) for _ in range(self.rng.randrange(lo, hi + 1))]

    # ---- opt-in focused productions (forms "focus" / "log2"); nothing below draws from the rng unless asked for,
    # so the stream of a generator created without these forms is unchanged
    def lit(self, truthy=None):
        """a constant of the wanted truthiness (any if None)"""
        if truthy is None:
            truthy = self.rng.random() < 0.5
        return ("const", self.rng.choice([("int", 1), ("int", 2), ("int", 7), ("int", -3), ("bool", True)] if truthy
                                         else [("int", 0), ("bool", False), ("none",)]))

    def plain(self, truthy=None):
        """an operand that needs no statements, of the wanted truthiness"""
        c = self.lit(truthy)
        r = self.rng.random()
        if r < 0.45:
            return ("log", self.fresh_k(), c)
        if r < 0.55:
            return ("not", ("log", self.fresh_k(), self.lit(not (c[1][0] != "none" and bool(c[1][1])))))
        return c

    def small_stmt(self):
        """a form that compiles to statements"""
        r = self.rng.random()
        if r < 0.5:
            return ("log", self.fresh_k(), self.const())
        if r < 0.8:
            return ("setv", self.rng.randrange(NVARS), self.const())
        return ("setv", self.rng.randrange(NVARS), ("log", self.fresh_k(), self.const()))

    def valueless(self, d, loop):
        """a form that is reached, falls through, and whose Result has statements but no expression: its value is None"""
        rng = self.rng
        r = rng.random()
        if r < 0.4:
            return ("setv", rng.randrange(NVARS), ("log", self.fresh_k(), self.const()) if rng.random() < 0.5 else self.const())
        if r < 0.6 and "while" in self.forms:
            a, b = NVARS + 2 * self.loopvar, NVARS + 2 * self.loopvar + 1
            self.loopvar += 1
            step = ("if", ("var", b), ("setv", b, ("const", ("bool", False))), ("setv", a, ("const", ("bool", False))))
            w = ("while", ("var", a), [step, ("log", self.fresh_k(), self.const())], None if rng.random() < 0.6 else [self.plain()])
            return ("do", [("setv", a, ("const", ("bool", True))), ("setv", b, ("const", ("bool", rng.random() < 0.5))), w])
        if r < 0.8:
            return ("do", [("log", self.fresh_k(), self.const()), ("setv", rng.randrange(NVARS), self.const())])
        return ("setv", rng.randrange(NVARS), self.lit())

    def lifted_if(self, val=None):
        """an `if` that needs statements (a branch holds a do with a statement) and has a value in both branches"""
        rng = self.rng
        ints = [("int", n) for n in (0, 1, 2, 7, -3, 30, 40)] + [("bool", True), ("bool", False), ("none",)]
        v1 = ("const", val if val is not None else rng.choice(ints))
        v2 = ("const", rng.choice(ints))
        cond = self.plain() if rng.random() < 0.7 else ("var", rng.randrange(NVARS))
        then = ("do", [self.small_stmt(), v1])
        other = v2 if rng.random() < 0.6 else ("do", [self.small_stmt(), v2])
        if rng.random() < 0.25:
            then, other = other, then
        return ("if", cond, then, other)

    def two_live(self, d, loop):
        """a binary call whose two arguments are statement-lifted ifs: both values are live when the call is made"""
        a, b = self.lifted_if(), self.lifted_if()
        r = self.rng.random()
        if r < 0.15:
            b = ("log", self.fresh_k(), b)
        elif r < 0.25 and "try" in self.forms:
            b = ("try", [b], [(("all",), [self.plain()])], None, None)
        elif r < 0.35:
            a = ("do", [self.small_stmt(), a])
        if self.k % 2 == 1 and self.rng.random() < 0.6:
            self.k += 1                                # mostly an odd effect point: the call returns its FIRST argument
        return self.mk_log2(a, b)

    def mk_log2(self, a, b):
        """docs/semantics.rst leaves the order of sibling arguments unspecified when a later one needs statements
        (its statements run before the earlier argument's expression).  The reference evaluates left to right, so
        the generated calls are those for which both orders coincide: either b needs no statements, or what is
        left of a after its statements is a constant or a compiler temporary."""
        if may_need_stmts(b) and not pure_residue(a):
            if self.rng.random() < 0.5:
                a = ("if", self.plain(), ("do", [self.small_stmt(), a]), self.lit())
            else:
                b = self.plain()
        return ("log2", self.fresh_k(), a, b)

    def ladder(self, d, loop):
        """an else-if ladder (what cond expands to) with two statement-lifted ifs, both live, in a clause other
        than the first -- in the clause's value or in its test"""
        rng = self.rng
        n = rng.choice([2, 2, 3, 4])                # clauses
        hot = rng.randrange(1, n)                   # the clause that holds the binary call
        clauses = []
        for i in range(n):
            if i < hot:
                test = self.plain(False) if rng.random() < 0.85 else self.plain()
                val = self.plain() if rng.random() < 0.7 else self.expr(min(d - 1, 1), loop)
            elif i == hot:
                tl = self.two_live(d, loop)
                if rng.random() < 0.3:
                    test, val = tl, self.plain()        # in the test of the later clause
                else:
                    test = self.plain(True) if rng.random() < 0.85 else self.plain()
                    r = rng.random()
                    val = tl if r < 0.6 else ("log", self.fresh_k(), tl) if r < 0.7 else ("do", [self.small_stmt(), tl]) if r < 0.8 \
                        else ("not", tl) if r < 0.9 else ("bool", rng.random() < 0.5, [self.plain(), tl])
            else:
                test, val = self.plain(), self.plain()
            clauses.append((test, val))
        e = self.plain() if rng.random() < 0.7 else ("const", ("none",))
        for test, val in reversed(clauses):
            e = ("if", test, val, e)
        return e

    def try_valueless_handler(self, d, loop):
        """a try whose body raises, whose selected handler ends in a value-less statement, and whose value is used"""
        rng = self.rng
        c = rng.randrange(CLASSES)
        r = rng.random()
        if r < 0.6:
            boom = ("raise", ("const", ("exn", c)))
        elif r < 0.8:
            boom = ("raise", ("log", self.fresh_k(), ("const", ("exn", c))))
        else:
            boom = ("if", self.plain(True), ("raise", ("const", ("exn", c))), self.plain())
        body = [self.small_stmt() for _ in range(rng.randrange(0, 2))] + [boom]
        if rng.random() < 0.2:
            body.append(self.plain())                  # never reached
        sup = dict(SUBPAIRS).get(c)
        r = rng.random()
        if r < 0.5:
            ty = ("one", c)
        elif r < 0.65 and sup is not None:
            ty = ("one", sup)
        elif r < 0.8:
            ty = ("many", rng.choice([[c, rng.randrange(CLASSES)], [rng.randrange(CLASSES), c]]))
        else:
            ty = ("all",)
        hbody = [self.small_stmt() for _ in range(rng.randrange(0, 2))] + [self.valueless(d, loop)]
        hs = [(ty, hbody)]
        if rng.random() < 0.3:
            others = [x for x in range(CLASSES) if x != c and (c, x) not in SUBPAIRS]
            hs.insert(0, (("one", rng.choice(others)), [self.plain()]))      # does not match: skipped
        final = [self.small_stmt()] if rng.random() < 0.3 else None
        return ("try", body, hs, None, final)

    def use_value(self, e, loop):
        """a context in which the value of e is observed"""
        rng = self.rng
        r = rng.random()
        if r < 0.3:
            return e
        if r < 0.5:
            return ("log", self.fresh_k(), e)
        if r < 0.65:
            return ("setv", rng.randrange(NVARS), e)
        if r < 0.75 and "setx" in self.forms:
            return ("setx", rng.randrange(NVARS), e)
        if r < 0.85:
            return ("bool", rng.random() < 0.5, [e, self.plain()])
        if r < 0.95 or "log2" not in self.forms:
            return ("if", self.plain(), e, self.plain())
        return ("log2", self.fresh_k(), e, self.plain())

    def bool_valueless(self, d, loop):
        """and/or with a value-less statement operand that is reached, in a position other than the first"""
        rng = self.rng
        isand = rng.random() < 0.5
        n = rng.randrange(2, 6)
        pos = rng.randrange(1, n)
        ops = []
        for i in range(n):
            if i == pos:
                ops.append(self.valueless(d, loop))
            elif i < pos:
                ops.append(self.plain(isand) if rng.random() < 0.8 else self.lifted_if(self.lit(isand)[1]))
            else:
                ops.append(self.plain() if rng.random() < 0.8 else self.valueless(d, loop))
        return ("bool", isand, ops)

    def focus(self, d, loop):
        rng = self.rng
        picks = ["boolvl"]
        if "log2" in self.forms:
            picks += ["ladder", "ladder", "twolive"]
        if "try" in self.forms:
            picks += ["tryvl", "tryvl"]
        f = rng.choice(picks)
        if f == "boolvl":
            return self.use_value(self.bool_valueless(d, loop), loop)
        if f == "ladder":
            return self.use_value(self.ladder(d, loop), loop)
        if f == "twolive":
            return self.use_value(self.two_live(d, loop), loop)
        return self.use_value(self.try_valueless_handler(d, loop), loop)

    def expr(self, d, loop=0):
        rng = self.rng
        if "focus" in self.forms and d >= 2 and rng.random() < self.focus_p:
            return self.focus(d, loop)
        if d <= 0 or rng.random() < 0.18:
            if rng.random() < 0.5:
                return ("log", self.fresh_k(), self.const())
            return self.const()
        if self.letvars and rng.random() < 0.3:
            # assign a statement-lifted value to a let-bound name (the Result.rename path through ScopeLet)
            k = rng.choice(self.letvars)
            stm = ("do", [("setv", rng.randrange(NVARS), self.const()), ("log", self.fresh_k(), self.const())])
            val = rng.choice([("bool", rng.random() < 0.5, [("log", self.fresh_k(), self.const()), stm, self.const()]),
                              ("if", ("log", self.fresh_k(), self.const()), stm, self.const())])
            return (rng.choice(["setv", "setx"]) if "setx" in self.forms else "setv", k, val)
        choices = ["log", "do", "setv", "bool", "bool", "not", "if"]
        for f in ("setx", "while", "raise", "try", "let"):
            if f in self.forms:
                choices.append(f)
        if loop > 0 and "while" in self.forms:
            choices += ["break", "continue"]
        if "log2" in self.forms:
            choices.append("log2")
        f = rng.choice(choices)
        if f == "log":
            return ("log", self.fresh_k(), self.expr(d - 1, loop))
        if f == "log2":
            a = self.expr(d - 1, loop)
            return self.mk_log2(a, self.expr(d - 1, loop))
        if f == "do":
            return ("do", self.body(d - 1, loop, 0, 3))
        if f == "setv":
            return ("setv", self.target(), self.expr(d - 1, loop))
        if f == "setx":
            return ("setx", self.target(), self.expr(d - 1, loop))
        if f == "let":
            # a let-bound variable is a fresh model variable (index >= LETBASE) that the Hy text spells with a
            # user name not otherwise mentioned in the body, so it may shadow an outer variable
            k = LETBASE + self.letcount
            self.letcount += 1
            init = self.expr(d - 1, loop)
            self.letvars.append(k)
            body = self.body(d - 1, loop, 1, 3)
            self.letvars.pop()
            return ("let", k, init, body)
        if f == "bool":
            return ("bool", rng.random() < 0.5, self.body(d - 1, loop, 0, 4))
        if f == "not":
            return ("not", self.expr(d - 1, loop))
        if f == "if":
            return ("if", self.expr(d - 1, loop), self.expr(d - 1, loop), self.expr(d - 1, loop))
        if f == "break":
            return ("break",)
        if f == "continue":
            return ("continue",)
        if f == "raise":
            if rng.random() < 0.7:
                return ("raise", ("const", ("exn", rng.randrange(CLASSES))))
            return ("raise", self.expr(d - 1, loop))
        if f == "while":
            # two control variables give at most two iterations whatever the body does
            a, b = NVARS + 2 * self.loopvar, NVARS + 2 * self.loopvar + 1
            self.loopvar += 1
            step = ("if", ("var", b), ("setv", b, ("const", ("bool", False))), ("setv", a, ("const", ("bool", False))))
            cond = ("var", a)
            r = rng.random()
            if r < 0.35:
                cond = ("bool", True, [("var", a), ("log", self.fresh_k(), ("const", ("bool", True)))])
            elif r < 0.6:
                cond = ("do", [("setv", rng.randrange(NVARS), self.const()), ("var", a)])
            elif r < 0.7:
                cond = ("log", self.fresh_k(), ("var", a))
            orelse = None if rng.random() < 0.5 else self.body(d - 1, loop, 0, 2)
            w = ("while", cond, [step] + self.body(d - 1, loop + 1, 0, 3), orelse)
            return ("do", [("setv", a, ("const", ("bool", True))), ("setv", b, ("const", ("bool", True))), w])
        if f == "try":
            nh = rng.choice([0, 1, 1, 2])
            hs = []
            for _ in range(nh):
                r = rng.random()
                if r < 0.2:
                    ty = ("all",)
                elif r < 0.7:
                    ty = ("one", rng.randrange(CLASSES))
                else:
                    ty = ("many", [rng.randrange(CLASSES) for _ in range(rng.randrange(1, 3))])
                hs.append((ty, self.body(d - 1, loop, 0, 2)))
            # Python requires a bare `except:` to come last
            hs = [h for h in hs if h[0][0] != "all"] + [h for h in hs if h[0][0] == "all"][:1]
            orelse = self.body(d - 1, loop, 0, 2) if rng.random() < 0.4 else None
            final = self.body(d - 1, loop, 0, 2) if (rng.random() < 0.5 or (not hs and rng.random() < 0.8)) else None
            return ("try", self.body(d - 1, loop, 0, 3), hs, orelse, final)
        raise AssertionError(f)


def has_expr(e):
    """the compiled Result surely has an expression (under-approximation)"""
    f = e[0]
    if f in ("const", "var", "log", "log2", "not", "setx", "bool", "if"):
        return True
    if f in ("do", "let"):
        b = e[1] if f == "do" else e[3]
        return bool(b) and has_expr(b[-1])
    return False


def surely_needs_stmts(e):
    """the compiled Result surely has statements (under-approximation)"""
    f = e[0]
    if f in ("setv", "while", "raise", "break", "continue", "let"):
        return True
    if f == "not":
        return surely_needs_stmts(e[1])
    if f in ("setx", "log"):
        return surely_needs_stmts(e[2])
    if f == "log2":
        return surely_needs_stmts(e[2]) or surely_needs_stmts(e[3])
    if f == "do":
        return any(surely_needs_stmts(x) for x in e[1]) or any(has_expr(x) for x in e[1][:-1])
    if f == "bool":
        return any(surely_needs_stmts(x) for x in e[2])
    if f == "if":
        return any(surely_needs_stmts(x) for x in e[1:])
    if f == "try":
        return bool(e[2]) or bool(e[4]) or any(surely_needs_stmts(x) for x in e[1])
    return False


def may_need_stmts(e):
    """the compiled Result may have statements (over-approximation)"""
    f = e[0]
    if f in ("const", "var"):
        return False
    if f == "not":
        return may_need_stmts(e[1])
    if f in ("setx", "log"):
        return may_need_stmts(e[2])
    if f == "log2":
        return may_need_stmts(e[2]) or may_need_stmts(e[3])
    if f == "do":
        return len(e[1]) >= 2 or any(may_need_stmts(x) for x in e[1])
    if f == "bool":
        return any(may_need_stmts(x) for x in e[2])
    if f == "if":
        return any(may_need_stmts(x) for x in e[1:])
    return True


def pure_residue(e):
    """what is left of e after its statements is surely a constant or a temporary the compiler issued for e"""
    f = e[0]
    if f == "const":
        return True
    if f == "if":
        return surely_needs_stmts(e[2]) or surely_needs_stmts(e[3])
    if f == "bool":
        return any(surely_needs_stmts(x) for x in e[2][1:])
    if f == "try":
        return bool(e[2]) or bool(e[4])
    if f == "do":
        return bool(e[1]) and pure_residue(e[1][-1])
    return False


def nvars_of(e):
    """number of user variables (incl. loop control variables) the program mentions"""
    m = NVARS
    stack = [e]
    while stack:
        x = stack.pop()
        if isinstance(x, tuple):
            if x and x[0] in ("var",) and x[1] < LETBASE:
                m = max(m, x[1] + 1)
            elif x and x[0] in ("setv", "setx") and x[1] < LETBASE:
                m = max(m, x[1] + 1)
            stack.extend(x[1:])
        elif isinstance(x, list):
            stack.extend(x)
    return m


def size(e):
    n = 0
    stack = [e]
    while stack:
        x = stack.pop()
        if isinstance(x, tuple) and x and isinstance(x[0], str):
            n += 1
            stack.extend(x[1:])
        elif isinstance(x, (list, tuple)):
            stack.extend(x)
    return n


def kinds(e, acc=None):
    acc = {} if acc is None else acc
    stack = [e]
    while stack:
        x = stack.pop()
        if isinstance(x, tuple) and x and isinstance(x[0], str):
            if x[0] not in ("int", "bool", "none", "exn", "all", "one", "many") and isinstance(x[0], str):
                acc[x[0]] = acc.get(x[0], 0) + 1
            stack.extend(x[1:])
        elif isinstance(x, (list, tuple)):
            stack.extend(x)
    return acc


def log_points(e):
    out = []
    stack = [e]
    while stack:
        x = stack.pop()
        if isinstance(x, tuple) and x and x[0] in ("log", "log2"):
            out.append(x[1])
            stack.extend(x[2:])
        elif isinstance(x, tuple) and x and isinstance(x[0], str):
            stack.extend(x[1:])
        elif isinstance(x, (list, tuple)):
            stack.extend(x)
    return sorted(out)


# ------------------------------------------------------------------ renderers

def hy_val(v):
    if v[0] == "int":
        return str(v[1])
    if v[0] == "bool":
        return "True" if v[1] else "False"
    if v[0] == "none":
        return "None"
    return cls_name(v[1])


def mentioned(e):
    out = set()
    stack = [e]
    while stack:
        x = stack.pop()
        if isinstance(x, tuple) and x and x[0] in ("var", "setv", "setx") and isinstance(x[1], int):
            out.add(x[1])
        if isinstance(x, tuple) and x and isinstance(x[0], str):
            stack.extend(x[1:])
        elif isinstance(x, (list, tuple)):
            stack.extend(x)
    return out


_ENV = {}


def vname(n):
    return _ENV.get(n, "u%d" % n)


def to_hy(e):
    f = e[0]
    if f == "const":
        return hy_val(e[1])
    if f == "var":
        return vname(e[1])
    if f == "let":
        k, init, body = e[1], e[2], e[3]
        init_s = to_hy(init)
        used = mentioned(body)
        free = [n for n in range(NVARS) if n not in used and ("u%d" % n) not in _ENV.values()]
        name = ("u%d" % free[k % len(free)]) if free else "w%d" % k
        _ENV[k] = name
        try:
            return "(let [%s %s]%s)" % (name, init_s, "".join(" " + to_hy(x) for x in body))
        finally:
            del _ENV[k]
    if f == "log":
        return "(log %d %s)" % (e[1], to_hy(e[2]))
    if f == "log2":
        return "(log2 %d %s %s)" % (e[1], to_hy(e[2]), to_hy(e[3]))
    if f == "do":
        return "(do %s)" % " ".join(map(to_hy, e[1])) if e[1] else "(do)"
    if f in ("setv", "setx"):
        return "(%s %s %s)" % (f, vname(e[1]), to_hy(e[2]))
    if f == "bool":
        return "(%s%s)" % ("and" if e[1] else "or", "".join(" " + to_hy(x) for x in e[2]))
    if f == "not":
        return "(not %s)" % to_hy(e[1])
    if f == "if":
        return "(if %s %s %s)" % tuple(map(to_hy, e[1:]))
    if f == "while":
        s = "(while %s%s" % (to_hy(e[1]), "".join(" " + to_hy(x) for x in e[2]))
        if e[3] is not None:
            s += " (else%s)" % "".join(" " + to_hy(x) for x in e[3])
        return s + ")"
    if f in ("break", "continue"):
        return "(%s)" % f
    if f == "raise":
        return "(raise %s)" % to_hy(e[1])
    if f == "try":
        s = "(try" + "".join(" " + to_hy(x) for x in e[1])
        for ty, b in e[2]:
            if ty[0] == "all":
                t = "[]"
            elif ty[0] == "one":
                t = "[%s]" % cls_name(ty[1])
            else:
                t = "[[%s]]" % " ".join(cls_name(c) for c in ty[1])
            s += " (except %s%s)" % (t, "".join(" " + to_hy(x) for x in b))
        if e[3] is not None:
            s += " (else%s)" % "".join(" " + to_hy(x) for x in e[3])
        if e[4] is not None:
            s += " (finally%s)" % "".join(" " + to_hy(x) for x in e[4])
        return s + ")"
    raise AssertionError(f)


def coq_val(v):
    if v[0] == "int":
        return "(VInt (%d)%%Z)" % v[1]
    if v[0] == "bool":
        return "(VBool %s)" % ("true" if v[1] else "false")
    if v[0] == "none":
        return "VNone"
    return "(VExn %d)" % v[1]


def coq_list(xs):
    return "[" + "; ".join(xs) + "]"


def coq_opt_list(x):
    return "None" if x is None else "(Some %s)" % coq_list([to_coq(y) for y in x])


_COQ_MODE = ["run"]


def to_coq(e):
    f = e[0]
    if f == "log2":
        # (log2 k a b): a call with two arguments -- a, then b are evaluated, then the effect point k; the call returns
        # its first argument if k is odd, else its second.  The model has no such form; for the REFERENCE run it is
        # spelled with two fresh variables that hold the evaluated arguments (never shown, never read elsewhere);
        # for the question "does Result.rename fire" the arguments are compiled as they stand.
        k, a, b = e[1], to_coq(e[2]), to_coq(e[3])
        if _COQ_MODE[0] == "renames":
            return "(HDo [%s; %s; (HLog %d (HConst VNone))])" % (a, b, k)
        w1, w2 = ARGBASE + 2 * k, ARGBASE + 2 * k + 1
        return "(HDo [(HSetv %d %s); (HSetv %d %s); (HLog %d (HVar %d))])" % (w1, a, w2, b, k, w1 if k % 2 else w2)
    if f == "let":
        return "(HDo %s)" % coq_list(["(HSetv %d %s)" % (e[1], to_coq(e[2]))] + [to_coq(x) for x in e[3]])
    if f == "const":
        return "(HConst %s)" % coq_val(e[1])
    if f == "var":
        return "(HVar %d)" % e[1]
    if f == "log":
        return "(HLog %d %s)" % (e[1], to_coq(e[2]))
    if f == "do":
        return "(HDo %s)" % coq_list([to_coq(x) for x in e[1]])
    if f == "setv":
        return "(HSetv %d %s)" % (e[1], to_coq(e[2]))
    if f == "setx":
        return "(HSetx %d %s)" % (e[1], to_coq(e[2]))
    if f == "bool":
        return "(HBool %s %s)" % ("true" if e[1] else "false", coq_list([to_coq(x) for x in e[2]]))
    if f == "not":
        return "(HNot %s)" % to_coq(e[1])
    if f == "if":
        return "(HIf %s %s %s)" % tuple(map(to_coq, e[1:]))
    if f == "while":
        return "(HWhile %s %s %s)" % (to_coq(e[1]), coq_list([to_coq(x) for x in e[2]]), coq_opt_list(e[3]))
    if f == "break":
        return "HBreak"
    if f == "continue":
        return "HContinue"
    if f == "raise":
        return "(HRaise %s)" % to_coq(e[1])
    if f == "try":
        hs = []
        for ty, b in e[2]:
            t = "HAll" if ty[0] == "all" else ("(HOne %d)" % ty[1] if ty[0] == "one" else "(HMany %s)" % coq_list([str(c) for c in ty[1]]))
            hs.append("(%s, %s)" % (t, coq_list([to_coq(x) for x in b])))
        return "(HTry %s %s %s %s)" % (coq_list([to_coq(x) for x in e[1]]), coq_list(hs), coq_opt_list(e[3]), coq_opt_list(e[4]))
    raise AssertionError(f)


# ------------------------------------------------------------------ real AST -> canonical text

class Unmodelled(Exception):
    pass


def _id(name):
    if name.startswith("_hy_anon_") and name[len("_hy_anon_"):].isdigit():
        return "t" + name[len("_hy_anon_"):]
    if name.startswith("u") and name[1:].isdigit():
        return "u" + name[1:]
    raise Unmodelled("name " + name)


def _cls(name):
    if name == "TypeError":
        return 0
    if name.startswith("E") and name[1:].isdigit():
        return int(name[1:])
    raise Unmodelled("class " + name)


def dump_e(n):
    if isinstance(n, ast.Constant):
        v = n.value
        if v is None:
            return "N"
        if v is True:
            return "B1"
        if v is False:
            return "B0"
        if isinstance(v, int):
            return "I%d" % v
        raise Unmodelled("constant %r" % (v,))
    if isinstance(n, ast.Name):
        if n.id == "TypeError" or (n.id.startswith("E") and n.id[1:].isdigit()):
            return "X%d" % _cls(n.id)
        return _id(n.id)
    if isinstance(n, ast.BoolOp):
        return "(%s %s)" % ("and" if isinstance(n.op, ast.And) else "or", " ".join(map(dump_e, n.values)))
    if isinstance(n, ast.UnaryOp) and isinstance(n.op, ast.Not):
        return "(not %s)" % dump_e(n.operand)
    if isinstance(n, ast.Call) and isinstance(n.func, ast.Name) and n.func.id == "log" and len(n.args) == 2 \
            and not n.keywords and isinstance(n.args[0], ast.Constant):
        return "(log %d %s)" % (n.args[0].value, dump_e(n.args[1]))
    if isinstance(n, ast.IfExp):
        return "(ifx %s %s %s)" % (dump_e(n.test), dump_e(n.body), dump_e(n.orelse))
    if isinstance(n, ast.NamedExpr):
        return "(:= %s %s)" % (_id(n.target.id), dump_e(n.value))
    raise Unmodelled(ast.dump(n)[:80])


def dump_ty(t):
    if t is None:
        return "all"
    if isinstance(t, ast.Name):
        return "(one %d)" % _cls(t.id)
    if isinstance(t, ast.Tuple):
        return "(many %s)" % " ".join(str(_cls(x.id)) for x in t.elts)
    raise Unmodelled("handler type")


def dump_block(l):
    return "[" + " ".join(map(dump_s, l)) + "]"


def dump_s(n):
    if isinstance(n, ast.Assign) and len(n.targets) == 1 and isinstance(n.targets[0], ast.Name):
        return "(= %s %s)" % (_id(n.targets[0].id), dump_e(n.value))
    if isinstance(n, ast.Expr):
        return "(expr %s)" % dump_e(n.value)
    if isinstance(n, ast.If):
        return "(if %s %s %s)" % (dump_e(n.test), dump_block(n.body), dump_block(n.orelse))
    if isinstance(n, ast.While):
        return "(while %s %s %s)" % (dump_e(n.test), dump_block(n.body), dump_block(n.orelse))
    if isinstance(n, ast.Break):
        return "break"
    if isinstance(n, ast.Continue):
        return "continue"
    if isinstance(n, ast.Pass):
        return "pass"
    if isinstance(n, ast.Raise) and n.cause is None and n.exc is not None:
        return "(raise %s)" % dump_e(n.exc)
    if isinstance(n, ast.Try):
        hs = []
        for h in n.handlers:
            if h.name is not None:
                raise Unmodelled("handler name")
            hs.append("(h %s %s)" % (dump_ty(h.type), dump_block(h.body)))
        return "(try %s [%s] %s %s)" % (dump_block(n.body), " ".join(hs), dump_block(n.orelse), dump_block(n.finalbody))
    raise Unmodelled(ast.dump(n)[:80])


# ------------------------------------------------------------------ the real compiler and CPython

_state = {}


def _hy():
    if "hy" not in _state:
        hy = vlib.use_repo_in_process()
        import types
        from hy.compiler import hy_compile
        from hy.reader import read_many
        _state.update(hy=hy, hy_compile=hy_compile, read_many=read_many, types=types)
    return _state


def impl_compile(src):
    """returns ('OK', module_ast, expr_ast) or ('ERR', class name)"""
    st = _hy()
    mod = st["types"].ModuleType("hyverif_prog")
    try:
        tree = st["read_many"](src)
        m, e = st["hy_compile"](tree, mod, get_expr=True, import_stdlib=False)
        return ("OK", m, e)
    except Exception as ex:
        return ("ERR", type(ex).__name__ + ": " + str(ex)[:200])


def impl_dump(m, e):
    return dump_block(m.body) + " ; " + dump_e(e.body)


class _Timeout(BaseException):
    pass


def show_pyval(v, classes):
    if v is None:
        return "N"
    if v is True:
        return "B1"
    if v is False:
        return "B0"
    if isinstance(v, int):
        return "I%d" % v
    for c, k in classes.items():
        if v is k:
            return "X%d" % c
    return "?" + repr(v)[:40]


def impl_run(m, e, fault, vals, nvars, budget=2000):
    """exec the real compiled module + eval the expression under CPython.
    Returns the canonical 'outcome | trace | store' string (same format as Compiler/Run.v)."""
    classes = {0: TypeError}
    classes[1] = type("E1", (Exception,), {})
    classes[2] = type("E2", (classes[1],), {})
    classes[3] = type("E3", (classes[1],), {})
    classes[4] = type("E4", (BaseException,), {})   # not an Exception: only a bare handler or E4 itself catches it
    trace = []
    steps = [0]

    def log(k, v):
        steps[0] += 1
        if steps[0] > budget:
            raise _Timeout()
        trace.append(k)
        if k in fault:
            raise classes[fault[k]]()
        return v
    def log2(k, a, b):
        return log(k, a if k % 2 else b)
    env = {"log": log, "log2": log2, "TypeError": TypeError}
    for c in range(1, CLASSES):
        env["E%d" % c] = classes[c]
    pyvals = []
    for v in vals:
        pyvals.append(None if v[0] == "none" else v[1] if v[0] in ("int", "bool") else classes[v[1]])
    for i in range(nvars):
        env["u%d" % i] = pyvals[i] if i < len(pyvals) else None

    def on_alarm(*a):
        raise _Timeout()
    old = signal.signal(signal.SIGALRM, on_alarm)
    signal.setitimer(signal.ITIMER_REAL, 2.0)
    try:
        try:
            exec(compile(m, "<hyverif>", "exec"), env)
            val = eval(compile(e, "<hyverif>", "eval"), env)
            out = "V " + show_pyval(val, classes)
        except _Timeout:
            out = "TIMEOUT"
        except SyntaxError as ex:
            out = "PYSYNTAX " + str(ex)[:60]
        except NameError as ex:
            out = "NAMEERROR " + str(ex)[:60]
        except BaseException as ex:
            cid = None
            for c, k in classes.items():
                if type(ex) is k:
                    cid = c
            out = ("X %d" % cid) if cid is not None else "OTHER " + type(ex).__name__
    finally:
        signal.setitimer(signal.ITIMER_REAL, 0)
        signal.signal(signal.SIGALRM, old)
    store = " ".join(show_pyval(env.get("u%d" % i), classes) for i in range(nvars))
    return " ".join((out + " | " + " ".join(map(str, trace)) + " | " + store).split())


def coq_fault(fault):
    return coq_list(["(%d, %d)" % (k, c) for k, c in sorted(fault.items())])


COQ_SUB = coq_list(["(%d, %d)" % p for p in SUBPAIRS])
IMPORTS = ["HyV.Compiler.Syntax", "HyV.Compiler.Run"]


def _model_exprs(progs, what):
    exprs = []
    _COQ_MODE[0] = "renames" if what == "renames" else "run"
    try:
        for p in progs:
            t = to_coq(p["e"])
            if what == "compile":
                exprs.append("model_compile %s" % t)
            elif what == "renames":
                exprs.append("model_renames %s" % t)
            else:
                fn = "model_run" if what == "run" else "ref_run"
                exprs.append("%s %s %s %d %s %s" % (fn, coq_fault(p["fault"]), COQ_SUB, p.get("fuel", FUEL),
                                                    coq_list([coq_val(v) for v in p["vals"]]), t))
    finally:
        _COQ_MODE[0] = "run"
    return exprs


def model_eval_many(progs, whats):
    """one sharded coq_eval for several questions about the same programs; returns one list per question"""
    exprs = []
    for w in whats:
        exprs += _model_exprs(progs, w)
    # starting coqc and loading the libraries costs a few seconds, but coqc slows down more than linearly with the
    # number of Evals in one file: chunks of about 600, each one coq_eval call of its own (one coqc whose output is
    # read while it runs), a bounded number of them at a time.
    k = max(1, -(-len(exprs) // 600))
    size_ = -(-len(exprs) // k)
    chunks = [exprs[i:i + size_] for i in range(0, len(exprs), size_)] or [[]]
    outs = [None] * len(chunks)
    todo = list(range(len(chunks)))
    lock = threading.Lock()

    def work():
        while True:
            with lock:
                if not todo:
                    return
                i = todo.pop(0)
            try:
                outs[i] = vlib.coq_eval(IMPORTS, "Open Scope string_scope.", chunks[i], tag="cmp%d" % i, timeout=900,
                                        shard=max(1, len(chunks[i])))
            except BaseException as ex:      # re-raised in the caller's thread
                outs[i] = ex
    threads = [threading.Thread(target=work) for _ in range(min(len(chunks), max(2, min(8, vlib.NPROC // 2))))]
    for t in threads:
        t.start()
    for t in threads:
        t.join()
    res = []
    for o in outs:
        if isinstance(o, BaseException):
            raise o
        res += o
    res = [r.strip().strip('"') for r in res]
    n = len(progs)
    return [res[i * n:(i + 1) * n] for i in range(len(whats))]


def model_eval(progs, what):
    """what in {'compile', 'run', 'ref', 'renames'}; progs: list of dict(e, fault, vals).  Returns strings."""
    return model_eval_many(progs, [what])[0]


# ------------------------------------------------------------------ the differential run shared by C01/C02/C09/C12

TRUSTED_COMPILER = [
    "Coq 8.16.1 kernel (coqc, full .vo); vm_compute only in Examples/refutation witnesses and Gen obligations",
    "axioms: none (Print Assumptions: Closed under the global context)",
    "the Python-fragment semantics coq/Compiler/PySem.v (hand-written from the language reference: evaluation order, "
    "short-circuit BoolOp, try/except/else/finally with the finally outcome overriding, while/else/break/continue) is "
    "modelled, not verified; it is compared with CPython 3.12 on the real compiled code of every generated program of every run",
    "the reference semantics coq/Compiler/HySem.v is written from docs/api.rst and docs/semantics.rst, not from the compiler",
    "the compiler model coq/Compiler/Compile.v is hand-written; it is compared with hy_compile at AST level "
    "(canonical dump, temporaries by exact name) on every generated program of every run",
    "translator/compiler_tables.py (and/or defaults, get_anon_var format) regenerated on every run",
    "programs with the two-argument call (log2 k a b) are outside the Coq model (behaviour only, no AST comparison): the "
    "reference evaluates a, then b into fresh model variables, then the effect point k, and the call returns a if k is odd "
    "else b (props/compiler_common.py to_coq); they are generated so that the sibling order docs/semantics.rst leaves "
    "unspecified cannot show (b needs no statements, or a's remainder is a constant or a compiler temporary)",
    "runs in which the model exhausts its fuel (%d loop re-entries/exits along one chain) are skipped, as in the theorem" % FUEL,
    "exception classes are referred to by name and handler types are class names (no statements in handler types); "
    "user variables hold None/bool/int/exception classes; unbound-name errors are not modelled (stores are total)",
]


def make_progs(rng, n, forms, depth_lo=1, depth_hi=4, gen=None):
    g = gen or Gen(rng, forms)
    progs = []
    for _ in range(n):
        g.k = 0
        g.loopvar = 0
        e = g.expr(rng.randrange(depth_lo, depth_hi + 1))
        progs.append(dress(rng, e))
    return progs


def focused_progs(rng, n, forms, which, fault_p=0.2):
    """n programs, each one focused production of Gen (`which`: names of Gen methods) in a value-observing context,
    half of them below one more random form"""
    g = Gen(rng, forms)
    progs = []
    for i in range(n):
        g.k = 0
        g.loopvar = 0
        e = g.use_value(getattr(g, which[i % len(which)])(3, 0), 0)
        r = rng.random()
        if r < 0.2:
            e = ("do", [g.small_stmt(), e])
        elif r < 0.35:
            e = ("if", g.plain(), e, g.plain())
        elif r < 0.5 and "while" in g.forms:
            # a second evaluation of the same form: a temporary may still hold the value of the first
            a, b = NVARS + 2 * g.loopvar, NVARS + 2 * g.loopvar + 1
            g.loopvar += 1
            step = ("if", ("var", b), ("setv", b, ("const", ("bool", False))), ("setv", a, ("const", ("bool", False))))
            e = ("do", [("setv", a, ("const", ("bool", True))), ("setv", b, ("const", ("bool", True))),
                        ("while", ("var", a), [step, ("log", g.fresh_k(), e)], None)])
        progs.append(dress(rng, e, fault_p=fault_p))
    return progs


def dress(rng, e, fault_p=0.5):
    pts = log_points(e)
    fault = {}
    if pts and rng.random() < fault_p:
        for k in rng.sample(pts, min(len(pts), rng.choice([1, 1, 2]))):
            fault[k] = rng.randrange(CLASSES)
    nv = nvars_of(e)
    vals = [rng.choice([("int", 0), ("int", 5), ("bool", True), ("bool", False), ("none",)]) for _ in range(nv)]
    return {"e": e, "fault": fault, "vals": vals, "nv": nv}


def differential(chk, progs, judge=None):
    """Runs every program through: the model compiler (Coq), the real compiler; PySem (Coq) and CPython on
    the compiled code; the reference semantics (Coq).  Records correspondence disagreements and oracle
    failures (reference vs real behaviour).  `judge(p, src, impl, ref)` may veto/rename a failure key."""
    mods, runs, refs = model_eval_many(progs, ["compile", "run", "ref"])
    pending = []            # behavioural failures, reported smallest program first
    for p, m, r, f in zip(progs, mods, runs, refs):
        src = to_hy(p["e"])
        p["src"] = src
        for k, n in kinds(p["e"]).items():
            chk.count("form:" + k, n)
        chk.count("size:%d" % min(40, (size(p["e"]) // 5) * 5))
        chk.count("faults:%d" % len(p["fault"]))
        c = impl_compile(src)
        how = ("PYTHONPATH=%s python: hy.eval(hy.read_many(%r)) with log(k,v) appending k and raising per fault table %r, "
               "u0.. = %r" % (vlib.REPO, src, p["fault"], [hy_val(v) for v in p["vals"]]))
        inp = {"program": src, "fault": {str(k): cls_name(c_) for k, c_ in p["fault"].items()},
               "initial": [hy_val(v) for v in p["vals"]]}
        inp.update(p.get("extra", {}))
        if c[0] != "OK":
            chk.case(src, nontrivial=False)
            chk.fail("compile-error", inp, c[1], "compiles", how)
            continue
        if kinds(p["e"]).get("log2"):
            chk.count("programs with a binary call (behaviour only: the model has no call with two arguments; the reference "
                      "evaluates the arguments left to right into fresh variables)")
        elif kinds(p["e"]).get("let"):
            chk.count("let-programs (behaviour only: the model spells let-bound names as fresh variables)")
        else:
            try:
                d = impl_dump(c[1], c[2])
            except Unmodelled as ex:
                # the behaviour of the compiled code is still judged below: a failing input beats a bare disagreement
                d = m
                chk.disagree("compiled AST outside the modelled target fragment", src, m, str(ex))
            if d != m:
                chk.disagree("Compiler.Compile.compile vs hy_compile (AST)", src, m, d)
        ir = impl_run(c[1], c[2], p["fault"], p["vals"], p["nv"])
        out = ir.split(" ")[0]
        chk.count("outcome:" + out)
        nontrivial = size(p["e"]) >= 4
        chk.case(src, nontrivial=nontrivial,
                 sample={"program": src, "fault": inp["fault"], "result": ir} if chk.evaluations % 97 == 5 else None)
        if out in ("TIMEOUT", "PYSYNTAX", "OTHER"):
            chk.count("skipped:" + out)
            if out != "TIMEOUT":
                chk.fail("compiled-code-" + out.lower(), inp, ir, f, how)
            continue
        if r.startswith("TIMEOUT") or f.startswith("TIMEOUT"):
            # the theorem reads "unless the reference run exhausts its fuel": nothing is claimed about such a run
            chk.count("skipped:model fuel exhausted")
            continue
        if ir != r and out != "NAMEERROR":
            chk.disagree("Compiler.PySem vs CPython on the compiled code", src, r, ir)
        if ir != f:
            key = "behaviour-differs"
            inp["model_agrees"] = (ir == r)
            p["impl"], p["ref"] = ir, f
            if judge is not None:
                key = judge(p, src, ir, f)
            if key is not None:
                pending.append((len(src), len(pending), (key, dict(inp, expr=p["e"]), ir, f, how)))
    for _n, _i, args in sorted(pending, key=lambda t: t[:2]):
        chk.fail(*args)


def has_empty_else_try(e):
    """a try with handlers and an empty (else) clause somewhere in the program"""
    stack = [e]
    while stack:
        x = stack.pop()
        if isinstance(x, tuple) and x and x[0] == "try" and x[2] and x[3] is not None and len(x[3]) == 0:
            return True
        if isinstance(x, tuple) and x and isinstance(x[0], str):
            stack.extend(x[1:])
        elif isinstance(x, (list, tuple)):
            stack.extend(x)
    return False


def register_matchers(chk):
    # the known defect: Result.rename fired AND the real code behaves exactly as the faithful model of the
    # (unsound) rename predicts; a different misbehaviour of such a program is still a violation
    chk.matchers["result-rename-fired"] = lambda rec, params: rec["input"].get("renames") is True and \
        rec["input"].get("model_agrees") is True
    chk.matchers["try-empty-else-with-handlers"] = lambda rec, params: rec["input"].get("empty_else") is True


def annotate(progs):
    rn = model_eval(progs, "renames")
    for p, r in zip(progs, rn):
        p["extra"] = {"renames": r == "true", "empty_else": has_empty_else_try(p["e"])}
