"""C04: generated comprehension / for programs, their rendering as Hy, and the reference
nested-loop interpreter (documented semantics of lfor/sfor/dfor/gfor/for, docs/api.rst).

Expressions (tuples):
  ("n", k) | ("v", key, x)  logged reference (lg key x) | ("+", a, b) | ("<", a, b)
  ("setx", x, e) | ("lgv", key, e)  (lg key e) | ("stm", key, e)  (do (lg key 0) e): leaves a statement
  ("list", [e ...]) | ("range", k) | ("ncomp", x, k, e)  a nested form (lfor x (range k) e)
Targets: a name x | ("tup", kind, [x | ("star", x) ...])   kind "#(" or "[": #(a #* b) / [a #* b]
Clauses: ("for", target, iterable) | ("if", e) | ("setv", x, e) | ("do", e) | ("dobrk", e)  :do (when e (break))
         | ("docnt", e)  :do (when e (continue)) | ("dosetv", x, e)  :do (setv x e), x a variable of the form
Forms:
  ("comp", kind, clauses, final)   kind in lfor sfor gfor dfor;
      final = ("val", e) | ("star", e_list) | ("kv", ek, ev) | ("dstar", ek, ev)   #** {ek ev}
  ("for", clauses, body, else_or_None)   body = [stmt]; stmt = ("expr", e) | ("brk", e) | ("cnt", e)
Program = (scope, outer_init [(x, k)], form, lazy_probe)
"""
import itertools

OWN = ("x", "y", "z")      # names used for iteration / :setv variables (and sometimes as outer variables)
OUT = ("a", "b")           # outer variables only
SETX = ("p", "q", "x")     # setx targets


# ------------------------------------------------------------------ rendering

def rx(e):
    k = e[0]
    if k == "n":
        return str(e[1])
    if k == "v":
        return '(lg "%s" %s)' % (e[1], e[2])
    if k in ("+", "<"):
        return "(%s %s %s)" % (k, rx(e[1]), rx(e[2]))
    if k == "setx":
        return "(setx %s %s)" % (e[1], rx(e[2]))
    if k == "lgv":
        return '(lg "%s" %s)' % (e[1], rx(e[2]))
    if k == "stm":
        return '(do (lg "%s" 0) %s)' % (e[1], rx(e[2]))
    if k == "list":
        return "[%s]" % " ".join(rx(a) for a in e[1])
    if k == "range":
        return "(range %d)" % e[1]
    if k == "ncomp":
        return "(lfor %s (range %d) %s)" % (e[1], e[2], rx(e[3]))
    raise ValueError(e)


def rtarget(t):
    if isinstance(t, str):
        return t
    items = " ".join(i if isinstance(i, str) else "#* " + i[1] for i in t[2])
    return ("#(%s)" if t[1] == "#(" else "[%s]") % items


def target_names(t):
    if isinstance(t, str):
        return [t]
    return [i if isinstance(i, str) else i[1] for i in t[2]]


def bind_target(t, v, assign):
    """Python's unpacking of v into the target; TypeError/ValueError propagate"""
    if isinstance(t, str):
        assign(t, v)
        return
    items = t[2]
    v = list(v)
    star = [k for k, i in enumerate(items) if not isinstance(i, str)]
    if not star:
        if len(v) != len(items):
            raise ValueError("unpack")
        for i, x in zip(items, v):
            assign(i, x)
        return
    k = star[0]
    after = len(items) - k - 1
    if len(v) < len(items) - 1:
        raise ValueError("unpack")
    for i, x in zip(items[:k], v[:k]):
        assign(i, x)
    assign(items[k][1], v[k:len(v) - after])
    for i, x in zip(items[k + 1:], v[len(v) - after:]):
        assign(i, x)


def rclause(c):
    k = c[0]
    if k == "for":
        return "%s %s" % (rtarget(c[1]), rx(c[2]))
    if k == "if":
        return ":if %s" % rx(c[1])
    if k == "setv":
        return ":setv %s %s" % (rtarget(c[1]), rx(c[2]))
    if k == "do":
        return ":do %s" % rx(c[1])
    if k == "dobrk":
        return ":do (when %s (break))" % rx(c[1])
    if k == "docnt":
        return ":do (when %s (continue))" % rx(c[1])
    if k == "dosetv":
        return ":do (setv %s %s)" % (c[1], rx(c[2]))
    raise ValueError(c)


def rform(f):
    if f[0] == "comp":
        _, kind, clauses, final = f
        cl = " ".join(rclause(c) for c in clauses)
        if final[0] == "val":
            fin = rx(final[1])
        elif final[0] == "star":
            fin = "#* %s" % rx(final[1])
        elif final[0] == "kv":
            fin = "%s %s" % (rx(final[1]), rx(final[2]))
        else:
            fin = "#** {%s %s}" % (rx(final[1]), rx(final[2]))
        return "(%s %s %s)" % (kind, cl, fin)
    _, clauses, body, orelse = f
    bs = []
    for s in body:
        if s[0] == "expr":
            bs.append(rx(s[1]))
        elif s[0] == "brk":
            bs.append("(when %s (break))" % rx(s[1]))
        else:
            bs.append("(when %s (continue))" % rx(s[1]))
    els = ' (else (lg "else" 0))' if orelse else ""
    return "(for [%s] %s%s)" % (" ".join(rclause(c) for c in clauses), " ".join(bs), els)


WATCH = tuple(sorted(set(OWN + OUT + SETX)))


def render_program(prog):
    scope, init, form, lazy = prog
    inits = " ".join("(setv %s %d)" % (x, k) for x, k in init)
    if form[0] == "comp" and form[1] == "gfor" and lazy:
        use = ('(setv res (%s)) (lg "created" 0) (setv out []) '
               '(for [el res] (.append out el) (lg "got" el) (lg "step" (dict (%s)))) (lg "res" out)'
               % (rform(form)[1:-1], "globals" if scope == "module" else "locals"))
    elif form[0] == "comp":
        conv = {"lfor": "res", "gfor": "(list res)", "sfor": "(sorted res)", "dfor": "(sorted (.items res))"}[form[1]]
        use = '(setv res %s) (lg "res" %s)' % (rform(form), conv)
    else:
        use = "%s" % rform(form)
    # the worker's lg shows a dict restricted to the watched names
    if scope == "module":
        return "%s\n%s\n(lg \"names\" (dict (globals)))" % (inits, use)
    if scope == "function":
        return "(setv a 7 b 8)\n(defn main []\n  %s\n  %s\n  (lg \"names\" (dict (locals))))\n(main)" % (inits, use)
    return "(setv a 7 b 8)\n(defclass K []\n  %s\n  %s\n  (lg \"names\" (dict (locals))))" % (inits, use)


# ------------------------------------------------------------------ reference interpreter

class NoClaim(Exception):
    pass


class Unbound(Exception):
    pass


class Brk(Exception):
    pass


class Cnt(Exception):
    pass


class Ref:
    def __init__(self, prog, first_eager=False):
        self.scope, init, self.form, self.lazy = prog
        self.first_eager = first_eager
        self.log = []
        self.globals = {}
        if self.scope != "module":
            self.globals = {"a": 7, "b": 8}
        self.outer = self.globals if self.scope == "module" else {}
        for x, k in init:
            self.outer[x] = k

    def read(self, own, x):
        o = own
        while o is not None:
            if x in o["names"]:
                if x not in o["vars"]:
                    raise Unbound(x)
                return o["vars"][x]
            o = o.get("parent")
        if x in self.outer:
            if self.scope == "class" and own is not None:
                # a comprehension in a class body is a function scope: class-level names are not
                # visible in it (only the module's); CPython behaves the same for real comprehensions
                if x in self.globals:
                    return self.globals[x]
                raise Unbound(x)
            return self.outer[x]
        if x in self.globals:
            return self.globals[x]
        raise Unbound(x)

    def ev(self, e, own):
        k = e[0]
        if k == "n":
            return e[1]
        if k == "v":
            v = self.read(own, e[2])
            self.log.append([e[1], v])
            return v
        if k == "+":
            return self.ev(e[1], own) + self.ev(e[2], own)
        if k == "<":
            return self.ev(e[1], own) < self.ev(e[2], own)
        if k == "setx":
            v = self.ev(e[2], own)
            o = own
            while o is not None:
                if e[1] in o["names"]:
                    raise NoClaim("setx to an iteration or :setv variable of the form")
                o = o.get("parent")
            if own is not None and self.scope == "class":
                raise NoClaim("setx inside a comprehension in a class body (CPython forbids it)")
            self.outer[e[1]] = v
            return v
        if k == "lgv":
            v = self.ev(e[2], own)
            self.log.append([e[1], v])
            return v
        if k == "stm":
            self.log.append([e[1], 0])
            return self.ev(e[2], own)
        if k == "list":
            return [self.ev(a, own) for a in e[1]]
        if k == "range":
            return range(e[1])
        if k == "ncomp":
            # a nested form: its variable is its own; setx inside it assigns in the enclosing scope
            inner = {"names": {e[1]}, "vars": {}, "parent": own}
            out = []
            for i in range(e[2]):
                inner["vars"][e[1]] = i
                out.append(self.ev(e[3], inner))
            return out
        raise ValueError(e)

    # the documented nested loop, as a generator of elements (lazy)
    def loop(self, clauses, own, final, first=None):
        if not clauses:
            yield from final(own)
            return
        c, rest = clauses[0], clauses[1:]
        k = c[0]
        if k == "for":
            # the first iterable belongs to the enclosing scope (as in a Python comprehension)
            it = first[0] if first is not None and first[0] is not None else \
                self.ev(c[2], None if first is not None else own)
            for v in it:
                bind_target(c[1], v, own["vars"].__setitem__)
                try:
                    yield from self.loop(rest, own, final)
                except Cnt:
                    continue
                except Brk:
                    break
        elif k == "if":
            if self.ev(c[1], own):
                yield from self.loop(rest, own, final)
        elif k == "setv":
            if first is not None and first[0] is not None:
                bind_target(c[1], first[0][0], own["vars"].__setitem__)
            else:
                bind_target(c[1], self.ev(c[2], own), own["vars"].__setitem__)
            yield from self.loop(rest, own, final)
        elif k == "do":
            self.ev(c[1], own)
            yield from self.loop(rest, own, final)
        elif k == "dosetv":
            own["vars"][c[1]] = self.ev(c[2], own)
            yield from self.loop(rest, own, final)
        elif k == "dobrk":
            if self.ev(c[1], own):
                raise Brk()
            yield from self.loop(rest, own, final)
        elif k == "docnt":
            if self.ev(c[1], own):
                raise Cnt()
            yield from self.loop(rest, own, final)

    def run_comp(self):
        _, kind, clauses, final = self.form
        own = {"names": {n for c in clauses if c[0] in ("for", "setv") for n in target_names(c[1])}, "vars": {}}
        if not clauses:
            els = iter(())      # tests/native_tests/comprehensions.hy::test-fors-no-loopers: no clauses, no elements
        else:
            def fin(o):
                if final[0] == "val":
                    yield self.ev(final[1], o)
                elif final[0] == "star":
                    yield from self.ev(final[1], o)
                elif final[0] == "kv":
                    kk = self.ev(final[1], o)
                    yield (kk, self.ev(final[2], o))
                else:
                    kk = self.ev(final[1], o)
                    yield (kk, self.ev(final[2], o))
            first = [None]
            if clauses[0][0] != "for" and any(reads(x, own["names"]) for x in exprs_of_clause(clauses[0])):
                raise NoClaim("the first clause is not an iteration clause and reads a name that is also a variable "
                              "of the form (own scope or enclosing scope?)")
            if self.first_eager and clauses[0][0] in ("for", "setv"):
                # a generator expression evaluates its first iterable on creation; a leading
                # `:setv x E` is the first iterable `(E,)` of the native rendering
                first = [self.ev(clauses[0][2], None if clauses[0][0] == "for" else own)]
                if clauses[0][0] == "setv":
                    first = [[first[0]]]
            els = self.loop(clauses, own, fin, first)
        if kind == "gfor" and self.lazy:
            self.log.append(["created", 0])
            out = []
            for el in els:
                out.append(el)
                self.log.append(["got", el])
                self.log.append(["step", dict(sorted((k, v) for k, v in self.outer.items() if k in WATCH))])
            self.log.append(["res", out])
            return
        out = list(els)
        if kind == "sfor":
            out = sorted(set(out))
        elif kind == "dfor":
            d = {}
            for kk, vv in out:
                d[kk] = vv
            out = sorted([k2, v2] for k2, v2 in d.items())
            out = [list(p) for p in out]
        self.log.append(["res", out])

    def run_for(self):
        _, clauses, body, orelse = self.form
        if not clauses:
            return                      # (for [] ...) does nothing (same test)
        # `for` shares the caller's scope: its variables are the enclosing scope's
        own = None

        def assign(x, v):
            self.outer[x] = v
        first_for = next((i for i, c in enumerate(clauses) if c[0] == "for"), None)

        def go(i):
            """returns 'brk' if a break escaped the clause at index i"""
            if i == len(clauses):
                for s in body:
                    if s[0] == "expr":
                        self.ev(s[1], None)
                    elif self.ev(s[1], None):
                        raise (Brk if s[0] == "brk" else Cnt)()
                return
            c = clauses[i]
            k = c[0]
            if k == "for":
                broke = False
                for v in self.ev(c[2], None):
                    bind_target(c[1], v, assign)
                    try:
                        go(i + 1)
                    except Cnt:
                        continue
                    except Brk:
                        broke = True
                        break
                if i == first_for and orelse and not broke:
                    self.log.append(["else", 0])
            elif k == "if":
                if self.ev(c[1], None):
                    go(i + 1)
            elif k == "setv":
                bind_target(c[1], self.ev(c[2], None), assign)
                go(i + 1)
            elif k == "do":
                self.ev(c[1], None)
                go(i + 1)
            elif k == "dosetv":
                assign(c[1], self.ev(c[2], None))
                go(i + 1)
            elif k in ("dobrk", "docnt"):
                if self.ev(c[1], None):
                    raise (Brk if k == "dobrk" else Cnt)()
                go(i + 1)
        # the else belongs to the outermost iteration clause, wherever it stands in the clause list
        # (docs/api.rst, for); with no iteration clause, or an :if in front of it that may keep the loop
        # from starting at all, the text makes no claim
        if first_for is None:
            raise NoClaim("for without an iteration clause")
        if orelse and any(c[0] == "if" for c in clauses[:first_for]):
            raise NoClaim("for/else with an :if before the outermost iteration clause")
        go(0)

    def run(self):
        exc = None
        try:
            if self.form[0] == "comp":
                self.run_comp()
            else:
                self.run_for()
            names = {k: v for k, v in self.outer.items() if k in WATCH}
            self.log.append(["names", dict(sorted(names.items()))])
        except Unbound:
            exc = "unbound"
        return {"log": self.log, "exc": exc}


def static_no_claim(prog):
    scope, init, form, lazy = prog
    clauses = form[2] if form[0] == "comp" else form[1]
    if form[0] != "comp":
        return None
    final = form[3]
    subs = [x for c in clauses for x in exprs_of_clause(c)] + list(final[1:])
    own = {n for c in clauses if c[0] in ("for", "setv") for n in target_names(c[1])}
    if scope == "class" and any(has(x, "setx") for x in subs):
        return "setx inside a comprehension form in a class body (CPython forbids the walrus there)"
    if any(has(c[2], "setx") for c in clauses if c[0] == "for"):
        return "setx inside an iterable of the form (CPython forbids the walrus in comprehension iterables)"
    inner_own = {n[1] for x in subs for n in nested_forms(x)}
    if any(setx_targets(x) & (own | inner_own) for x in subs):
        return "setx to an iteration or :setv variable of the form"
    return None


def setx_targets(e):
    out = set()
    if isinstance(e, tuple):
        if e and e[0] == "setx":
            out.add(e[1])
        for a in e[1:]:
            out |= setx_targets(a)
    elif isinstance(e, list):
        for a in e:
            out |= setx_targets(a)
    return out


def reference(prog, first_eager=False):
    why = static_no_claim(prog)
    if why:
        return ("no-claim", why)
    try:
        return ("ok", Ref(prog, first_eager).run())
    except NoClaim as e:
        return ("no-claim", str(e))
    except (Brk, Cnt):
        return ("no-claim", "break/continue outside an iteration clause")
    except TypeError as e:
        return ("no-claim", "type error in the generated expressions: %s" % e)


# ------------------------------------------------------------------ static features

def exprs_of_clause(c):
    return [c[2]] if c[0] in ("for", "setv", "dosetv") else [c[1]]


def reads(e, names):
    if isinstance(e, tuple):
        if e and e[0] == "v":
            return e[2] in names
        return any(reads(a, names) for a in e[1:])
    if isinstance(e, list):
        return any(reads(a, names) for a in e)
    return False


def nested_forms(e):
    out = []
    if isinstance(e, tuple):
        if e and e[0] == "ncomp":
            out.append(e)
        for a in e[1:]:
            out += nested_forms(a)
    elif isinstance(e, list):
        for a in e:
            out += nested_forms(a)
    return out


def has(e, tag):
    if isinstance(e, tuple):
        return (e and e[0] == tag) or any(has(a, tag) for a in e[1:])
    if isinstance(e, list):
        return any(has(a, tag) for a in e)
    return False


def features(prog):
    """what decides the compilation strategy, and what the findings are about"""
    scope, init, form, lazy = prog
    f = {"scope": scope, "kind": form[1] if form[0] == "comp" else "for"}
    clauses = form[2] if form[0] == "comp" else form[1]
    f["nclauses"] = len(clauses)
    f["clause_kinds"] = [c[0] for c in clauses]
    if form[0] == "comp":
        final = form[3]
        subs = [x for c in clauses for x in exprs_of_clause(c)] + list(final[1:])
        f["has_do"] = any(c[0] in ("do", "dobrk", "docnt", "dosetv") for c in clauses)
        f["do_setv_own"] = any(c[0] == "dosetv" for c in clauses)
        f["do_setv_targets"] = sorted({c[1] for c in clauses if c[0] == "dosetv"})
        f["nested_setx"] = any(has(n[3], "setx") for x in subs for n in nested_forms(x))
        f["nested_setx_targets"] = sorted({t for x in subs for n in nested_forms(x) for t in setx_targets(n[3])})
        f["has_stmt_subform"] = any(has(x, "stm") for x in subs)
        f["unpack_final"] = final[0] in ("star", "dstar")
        f["genfn"] = bool(clauses) and (f["has_do"] or f["has_stmt_subform"] or f["unpack_final"])
        f["leading_if"] = bool(clauses) and clauses[0][0] == "if"
        f["if_before_any_generator"] = bool(clauses) and clauses[0][0] == "if"
        f["setx_in_setv_or_iterable"] = any(has(exprs_of_clause(c)[0], "setx") for c in clauses if c[0] == "setv") or \
            any(has(c[2], "setx") for c in clauses[1:] if c[0] == "for")
        f["setx_in_first_iterable"] = bool(clauses) and clauses[0][0] == "for" and has(clauses[0][2], "setx")
        f["has_setx"] = any(has(x, "setx") for x in subs)
    return f


# ------------------------------------------------------------------ generator

class Gen:
    def __init__(self, rng):
        self.rng = rng
        self.k = itertools.count(1)

    def key(self):
        return "k%d" % next(self.k)

    def skey(self):
        return "s%d" % next(self.k)      # marks the statement a ("stm", ..) subform leaves behind

    def expr(self, vis, depth=0, allow_setx=True, stm_p=0.0):
        r = self.rng
        c = r.random()
        if stm_p and r.random() < stm_p and depth == 0:
            return ("stm", self.skey(), self.expr(vis, 1, allow_setx, 0))
        if depth >= 2 or c < 0.3:
            return ("n", r.randint(0, 4))
        if c < 0.6 and vis:
            return ("v", self.key(), r.choice(vis))
        if c < 0.75:
            return ("+", self.expr(vis, depth + 1, allow_setx), self.expr(vis, depth + 1, allow_setx))
        if c < 0.85 and allow_setx:
            return ("setx", r.choice(SETX), self.expr(vis, depth + 1, False))
        if c < 0.95:
            return ("lgv", self.key(), self.expr(vis, depth + 1, allow_setx))
        return ("n", r.randint(0, 4))

    def iterable(self, vis, stm_p, allow_setx):
        r = self.rng
        if r.random() < 0.55:
            it = ("range", r.randint(0, 3))
        else:
            it = ("list", [self.expr(vis, 1, allow_setx and r.random() < 0.05) for _ in range(r.randint(0, 3))])
        if stm_p and r.random() < stm_p:
            it = ("stm", self.skey(), it)
        return it

    def cond(self, vis, stm_p, allow_setx):
        r = self.rng
        c = ("<", self.expr(vis, 1, allow_setx), ("n", r.randint(1, 4)))
        if stm_p and r.random() < stm_p:
            c = ("stm", self.skey(), c)
        return c

    def clauses(self, n, vis, stm_p, is_for, kinds=None):
        r = self.rng
        out = []
        vis = list(vis)
        for i in range(n):
            if kinds is not None:
                k = kinds[i]
            else:
                k = r.choices(["for", "if", "setv", "do"], [0.45, 0.2, 0.2, 0.15])[0]
                if i == 0 and r.random() < 0.85:
                    k = "for"
            setx_ok = r.random() < 0.5
            if k in ("for", "setv") and r.random() < 0.22:
                # a destructuring target, usually with a starred name: #(a #* b) / [a #* b]
                names = r.sample(OWN + ("p", "q"), r.randint(2, 3))
                star = r.randrange(len(names)) if r.random() < 0.8 else None
                t = ("tup", r.choice(["#(", "["]), [n if j != star else ("star", n) for j, n in enumerate(names)])
                need = len(names) - (1 if star is not None else 0)

                def row():
                    n = need + (r.randint(0, 2) if star is not None else 0)
                    return ("list", [("n", r.randint(0, 4)) for _ in range(n)])
                if k == "for":
                    it = ("list", [row() for _ in range(r.randint(0, 2))])
                    if stm_p and r.random() < stm_p:
                        it = ("stm", self.skey(), it)
                    out.append(("for", t, it))
                else:
                    v = row()
                    if stm_p and r.random() < stm_p:
                        v = ("stm", self.skey(), v)
                    out.append(("setv", t, v))
                vis += [n for j, n in enumerate(names) if j != star]
                continue
            if k == "for":
                x = r.choice(OWN)
                out.append(("for", x, self.iterable(vis, stm_p, setx_ok)))
                vis.append(x)
            elif k == "if":
                out.append(("if", self.cond(vis, stm_p, setx_ok)))
            elif k == "setv":
                x = r.choice(OWN)
                out.append(("setv", x, self.expr(vis, 0, setx_ok, stm_p)))
                vis.append(x)
            else:
                bound = [n for c in out if c[0] in ("for", "setv") for n in target_names(c[1])]
                if bound and r.random() < 0.2:
                    # a variable of the form reassigned in a :do body
                    out.append(("dosetv", r.choice(bound), ("n", r.randint(5, 9))))
                    continue
                if is_for and r.random() < 0.3 and any(c[0] == "for" for c in out):
                    out.append((r.choice(["dobrk", "docnt"]), self.cond(vis, 0, False)))
                else:
                    out.append(("do", self.expr(vis, 0, setx_ok)))
        return out, vis

    def program(self, kinds=None, scope=None, kind=None, stm=None):
        r = self.rng
        self.k = itertools.count(1)
        scope = scope or r.choice(["module", "function", "class"])
        init = [(x, 100 + i) for i, x in enumerate(OWN + ("p",)) if r.random() < 0.4]
        if scope == "module":
            init = [("a", 7), ("b", 8)] + init
        outer_vis = list(OUT) + ([x for x, _ in init if x not in OUT] if scope != "class" else [])
        stm_p = (0.35 if r.random() < 0.45 else 0.0) if stm is None else (0.5 if stm else 0.0)
        kind = kind or r.choice(["lfor", "lfor", "sfor", "gfor", "dfor", "for"])
        n = len(kinds) if kinds is not None else r.choice([0, 1, 1, 2, 2, 3, 3, 4, 5])
        cl, vis = self.clauses(n, outer_vis, stm_p, kind == "for", kinds)
        setx_ok = r.random() < 0.6
        if kind == "for":
            body = []
            for _ in range(r.randint(1, 2)):
                c = r.random()
                if c < 0.7:
                    body.append(("expr", self.expr(vis, 0, setx_ok)))
                elif c < 0.9:
                    body.append(("brk", self.cond(vis, 0, False)))
                else:
                    body.append(("cnt", self.cond(vis, 0, False)))
            form = ("for", cl, body, r.random() < 0.7)
            return (scope, init, form, False)
        if kind == "dfor":
            if r.random() < 0.25:
                ek = self.expr(vis, 1, False)
                if stm_p and r.random() < 0.6:
                    ek = ("stm", self.skey(), ek)      # the unpacked mapping leaves statements behind
                final = ("dstar", ek, self.expr(vis, 1, setx_ok))
            else:
                # the key may leave statements behind (depth 0 allows a ("stm", ..) wrapper)
                # (a value that leaves statements would run them before the key's expression -- the compiler's general
                # statement hoisting, not this property's subject -- so only the key gets one)
                final = ("kv", self.expr(vis, 0 if r.random() < 0.6 else 1, False, stm_p),
                         self.expr(vis, 1, setx_ok, stm_p))
        elif r.random() < 0.2:
            it = ("list", [self.expr(vis, 1, setx_ok) for _ in range(r.randint(0, 2))])
            if stm_p and r.random() < 0.6:
                it = ("stm", self.skey(), it)          # the unpacked iterable leaves statements behind
            final = ("star", it)
        elif kind in ("lfor", "gfor") and r.random() < 0.15:
            # a nested form as the value, with a setx that has to reach the enclosing scope
            ix = r.choice([n for n in OWN if n not in vis] or list(OWN))
            body = ("setx", r.choice(SETX), ("v", self.key(), ix)) if r.random() < 0.7 else ("v", self.key(), ix)
            final = ("val", ("ncomp", ix, r.randint(1, 2), body))
            if body[0] == "setx" and r.random() < 0.5:
                # the nested form itself needs statements (generator-function strategy), and the rest of the
                # enclosing form reads what its setx assigned
                inner = ("ncomp", ix, r.randint(1, 2), ("stm", self.skey(), body))
                final = ("val", ("list", [inner, ("v", self.key(), body[1])]))
        else:
            final = ("val", self.expr(vis, 0, setx_ok, stm_p))
        return (scope, init, ("comp", kind, cl, final), kind == "gfor" and r.random() < 0.7)
